------------------------------- MODULE Bencode -------------------------------
(***************************************************************************)
(* redun/bcoding.py transcribed over tagged structures and byte sequences   *)
(* (C14).  redun/hashing.py:hash_struct is sha512(Enc(x))[:40]; sha512 is   *)
(* not modelled (the driver computes it from the bytes this module gives).  *)
(*                                                                         *)
(* A structure is a record [k, v]:                                          *)
(*   "int"    v = integer, |v| < 10^9 (TLC integers are 32 bit)             *)
(*   "big"    v = <<sign, d1, ..., dn>> sign 0/1, decimal digits, n >= 10   *)
(*   "str"    v = sequence of unicode code points                           *)
(*   "bytes"  v = sequence of 0..255                                        *)
(*   "list" / "tuple"   v = sequence of structures                          *)
(*   "dict"   v = sequence of <<key, value>> in insertion order             *)
(*   "bool" / "none" / "float"   not encodable                              *)
(* Byte strings are sequences of integers; Err == <<-1>> stands for "the    *)
(* call raised" (same shape as a byte string, so equality is always legal). *)
(*                                                                         *)
(* Enc is _bencode_to_file; Dec is bdecode as a position based recursive    *)
(* descent parser written from the decoder, not derived from Enc, including *)
(* the two oddities of the as-built decoder (named below).  UTF-8 is        *)
(* modelled exactly (encoder and strict decoder), so "str versus its utf-8  *)
(* bytes" is a statement about bytes, not an axiom.                         *)
(***************************************************************************)
EXTENDS Naturals, Integers, Sequences, FiniteSets, TLC

CONSTANT Deviation   \* {} for the real code, or a set of seeded model-level defects (negative controls):
                     \*   "bool_as_int" (upstream bcoding: True -> i1e), "no_sort" (keys unsorted),
                     \*   "charlen" (length prefix counts characters, not bytes)

Bi == 105   Bl == 108   Bd == 100   Be == 101   Bcolon == 58   Bminus == 45   B0 == 48
Err == <<-1>>

V(k, v) == [k |-> k, v |-> v]

---------------------------------------------------------------------------
(* UTF-8 *)
IsSurrogate(cp) == cp >= 55296 /\ cp <= 57343
Utf8(cp) ==
  IF cp < 128 THEN <<cp>>
  ELSE IF cp < 2048 THEN <<192 + (cp \div 64), 128 + (cp % 64)>>
  ELSE IF cp < 65536 THEN <<224 + (cp \div 4096), 128 + ((cp \div 64) % 64), 128 + (cp % 64)>>
  ELSE <<240 + (cp \div 262144), 128 + ((cp \div 4096) % 64), 128 + ((cp \div 64) % 64), 128 + (cp % 64)>>

RECURSIVE FlatMapUtf8(_, _)
FlatMapUtf8(s, i) == IF i > Len(s) THEN <<>> ELSE Utf8(s[i]) \o FlatMapUtf8(s, i + 1)
\* str.encode(): lone surrogates raise UnicodeEncodeError
StrBytes(s) == IF \E i \in 1..Len(s) : IsSurrogate(s[i]) \/ s[i] > 1114111 THEN Err ELSE FlatMapUtf8(s, 1)

Cont(b) == b >= 128 /\ b <= 191
\* strict decoder (bytes.decode()): <<-1>> when the bytes are not well-formed UTF-8
RECURSIVE Utf8Dec(_, _, _)
Utf8Dec(bs, p, acc) ==
  IF p > Len(bs) THEN acc
  ELSE LET b0 == bs[p]
           n == Len(bs)
           b1 == IF p + 1 <= n THEN bs[p + 1] ELSE -1
           b2 == IF p + 2 <= n THEN bs[p + 2] ELSE -1
           b3 == IF p + 3 <= n THEN bs[p + 3] ELSE -1
       IN CASE b0 < 128 -> Utf8Dec(bs, p + 1, Append(acc, b0))
            [] b0 >= 194 /\ b0 <= 223 ->
                 IF Cont(b1) THEN Utf8Dec(bs, p + 2, Append(acc, (b0 - 192) * 64 + (b1 - 128))) ELSE Err
            [] b0 >= 224 /\ b0 <= 239 ->
                 IF /\ Cont(b1) /\ Cont(b2)
                    /\ (b0 = 224 => b1 >= 160)          \* no overlong
                    /\ (b0 = 237 => b1 <= 159)          \* no surrogates
                 THEN Utf8Dec(bs, p + 3, Append(acc, (b0 - 224) * 4096 + (b1 - 128) * 64 + (b2 - 128)))
                 ELSE Err
            [] b0 >= 240 /\ b0 <= 244 ->
                 IF /\ Cont(b1) /\ Cont(b2) /\ Cont(b3)
                    /\ (b0 = 240 => b1 >= 144)
                    /\ (b0 = 244 => b1 <= 143)
                 THEN Utf8Dec(bs, p + 4, Append(acc, (b0 - 240) * 262144 + (b1 - 128) * 4096
                                                     + (b2 - 128) * 64 + (b3 - 128)))
                 ELSE Err
            [] OTHER -> Err
\* _decode_buffer "guesses": str when the bytes decode, else bytes
BufVal(bs) == LET d == Utf8Dec(bs, 1, <<>>) IN IF d = Err THEN V("bytes", bs) ELSE V("str", d)

---------------------------------------------------------------------------
(* Encoding *)
RECURSIVE NatDigits(_)
NatDigits(n) == IF n < 10 THEN <<B0 + n>> ELSE Append(NatDigits(n \div 10), B0 + (n % 10))
ItoA(n) == IF n < 0 THEN <<Bminus>> \o NatDigits(-n) ELSE NatDigits(n)
BigDigits(v) == (IF v[1] = 1 THEN <<Bminus>> ELSE <<>>) \o [j \in 1..(Len(v) - 1) |-> B0 + v[j + 1]]

EncBuf(bs) == NatDigits(Len(bs)) \o <<Bcolon>> \o bs
EncStr(s) == LET b == StrBytes(s) IN
             IF b = Err THEN Err
             ELSE IF "charlen" \in Deviation THEN NatDigits(Len(s)) \o <<Bcolon>> \o b
             ELSE EncBuf(b)

RECURSIVE LexLess(_, _)
LexLess(a, b) == IF a = <<>> THEN b # <<>>
                 ELSE IF b = <<>> THEN FALSE
                 ELSE IF Head(a) # Head(b) THEN Head(a) < Head(b)
                 ELSE LexLess(Tail(a), Tail(b))

\* insertion sort of <<key, value>> pairs by key payload (code points for str keys, bytes for bytes
\* keys: Python compares exactly these; UTF-8 preserves code point order, see KeyOrderIsByteOrder)
RECURSIVE InsertPair(_, _), SortPairs(_)
InsertPair(sorted, pr) ==
  IF sorted = <<>> THEN <<pr>>
  ELSE IF LexLess(pr[1].v, Head(sorted)[1].v) THEN <<pr>> \o sorted
  ELSE <<Head(sorted)>> \o InsertPair(Tail(sorted), pr)
SortPairs(ps) == IF ps = <<>> THEN <<>> ELSE InsertPair(SortPairs(SubSeq(ps, 1, Len(ps) - 1)), ps[Len(ps)])

KeyKinds(ps) == {ps[i][1].k : i \in 1..Len(ps)}
\* sorted(mapping.items()) raises TypeError when str and bytes keys are mixed (two or more items);
\* _encode_buffer raises on a key that is neither
KeysOK(ps) == KeyKinds(ps) \subseteq {"str", "bytes"} /\ Cardinality(KeyKinds(ps)) <= 1

RECURSIVE Enc(_), EncSeq(_, _), EncPairs(_, _)
Enc(x) ==
  CASE x.k = "int"   -> <<Bi>> \o ItoA(x.v) \o <<Be>>
    [] x.k = "big"   -> <<Bi>> \o BigDigits(x.v) \o <<Be>>
    [] x.k = "str"   -> EncStr(x.v)
    [] x.k = "bytes" -> EncBuf(x.v)
    [] x.k \in {"list", "tuple"} ->
         LET body == EncSeq(x.v, 1) IN IF body = Err THEN Err ELSE <<Bl>> \o body \o <<Be>>
    [] x.k = "dict"  ->
         IF ~KeysOK(x.v) THEN Err
         ELSE LET body == EncPairs(IF "no_sort" \in Deviation THEN x.v ELSE SortPairs(x.v), 1)
              IN IF body = Err THEN Err ELSE <<Bd>> \o body \o <<Be>>
    [] x.k = "bool" /\ "bool_as_int" \in Deviation -> <<Bi>> \o ItoA(x.v) \o <<Be>>
    [] OTHER -> Err                     \* bool, None, float, ...: TypeError
EncSeq(s, i) ==
  IF i > Len(s) THEN <<>>
  ELSE LET h == Enc(s[i])
           t == EncSeq(s, i + 1)
       IN IF h = Err \/ t = Err THEN Err ELSE h \o t
EncPairs(ps, i) ==
  IF i > Len(ps) THEN <<>>
  ELSE LET kk == Enc(ps[i][1])
           vv == Enc(ps[i][2])
           t == EncPairs(ps, i + 1)
       IN IF kk = Err \/ vv = Err \/ t = Err THEN Err ELSE kk \o vv \o t

---------------------------------------------------------------------------
(* Decoding: result [ok, val, p] with p the next read position (1 based) *)
Ok(val, p) == [ok |-> TRUE, val |-> val, p |-> p]
Fail == [ok |-> FALSE, val |-> V("err", 0), p |-> 0]
EndV == V("end", 0)           \* bdecode returns None for the end marker
At(bs, p) == IF p >= 1 /\ p <= Len(bs) THEN bs[p] ELSE -1

RECURSIVE FindByte(_, _, _)
FindByte(bs, p, b) == IF p > Len(bs) THEN 0 ELSE IF bs[p] = b THEN p ELSE FindByte(bs, p + 1, b)

IsDigit(b) == b >= 48 /\ b <= 57
RECURSIVE DropZeros(_)
DropZeros(ds) == IF Len(ds) > 1 /\ Head(ds) = B0 THEN DropZeros(Tail(ds)) ELSE ds
RECURSIVE DigitsVal(_, _)
DigitsVal(ds, acc) == IF ds = <<>> THEN acc ELSE DigitsVal(Tail(ds), acc * 10 + (Head(ds) - B0))
\* int(b"...") restricted to the text -?[0-9]+ (Python also accepts surrounding blanks, '+', '_':
\* outside the alphabet explored); BadInt otherwise
BadInt == V("err", 1)
ParseInt(bs) ==
  LET neg == bs # <<>> /\ bs[1] = Bminus
      ds0 == IF neg THEN Tail(bs) ELSE bs
  IN IF ds0 = <<>> \/ \E i \in 1..Len(ds0) : ~IsDigit(ds0[i]) THEN BadInt
     ELSE LET ds == DropZeros(ds0) IN
          IF Len(ds) <= 9
          THEN LET n == DigitsVal(ds, 0) IN V("int", IF neg THEN -n ELSE n)
          ELSE V("big", <<IF neg THEN 1 ELSE 0>> \o [j \in 1..Len(ds) |-> ds[j] - B0])

RECURSIVE IndexOfKey(_, _, _)
IndexOfKey(ps, key, i) == IF i > Len(ps) THEN 0 ELSE IF ps[i][1] = key THEN i ELSE IndexOfKey(ps, key, i + 1)

RECURSIVE Dec(_, _), DecList(_, _, _), DecDict(_, _, _)
Dec(bs, p) ==
  LET c == At(bs, p) IN
  CASE c = Bi ->
         LET q == FindByte(bs, p + 1, Be) IN
         IF q = 0 THEN Fail
         ELSE LET n == ParseInt(SubSeq(bs, p + 1, q - 1)) IN IF n = BadInt THEN Fail ELSE Ok(n, q + 1)
    [] IsDigit(c) ->
         LET q == FindByte(bs, p, Bcolon) IN
         IF q = 0 THEN Fail
         ELSE LET n == ParseInt(SubSeq(bs, p, q - 1)) IN
              IF n = BadInt \/ n.k # "int" THEN Fail
              ELSE IF q + n.v > Len(bs) THEN Fail
              ELSE Ok(BufVal(SubSeq(bs, q + 1, q + n.v)), q + n.v + 1)
    [] c = Bl -> DecList(bs, p + 1, <<>>)
    [] c = Bd -> DecDict(bs, p + 1, <<>>)
    [] c = Be -> Ok(EndV, p + 1)
    \* As-built oddity EofRereadsLastByte: at end of input bdecode seeks back one byte and reads the
    \* previous byte again, so a trailing 'e' also closes every still open list / dict
    \* (b"li1e" decodes to [1]).  Irrelevant for Dec(Enc(x)) (encodings are self delimiting).
    [] c = -1 /\ p = Len(bs) + 1 /\ Len(bs) >= 1 /\ bs[Len(bs)] = Be -> Ok(EndV, p)
    [] OTHER -> Fail
DecList(bs, p, acc) ==
  LET r == Dec(bs, p) IN
  IF ~r.ok THEN Fail
  ELSE IF r.val = EndV THEN Ok(V("list", acc), r.p)
  ELSE DecList(bs, r.p, Append(acc, r.val))
DecDict(bs, p, acc) ==
  LET r == Dec(bs, p) IN
  IF ~r.ok THEN Fail
  ELSE IF r.val = EndV THEN Ok(V("dict", acc), r.p)
  ELSE IF r.val.k \notin {"str", "bytes"} THEN Fail          \* assert isinstance(key, (str, bytes))
  ELSE LET r2 == Dec(bs, r.p) IN
       IF ~r2.ok THEN Fail
       ELSE LET \* As-built oddity NoneValueInDict: an end marker in value position is stored as None
                val == IF r2.val = EndV THEN V("none", 0) ELSE r2.val
                j == IndexOfKey(acc, r.val, 1)
            IN DecDict(bs, r2.p, IF j = 0 THEN Append(acc, <<r.val, val>>)
                                  ELSE [acc EXCEPT ![j] = <<r.val, val>>])

\* bdecode(bytes) as the caller sees it (trailing bytes are ignored by the code)
Decode(bs) == LET r == Dec(bs, 1) IN IF r.ok THEN r.val ELSE V("err", 0)

---------------------------------------------------------------------------
(* The law (C14) *)
\* structural statement of "encodable": what the property says must be accepted / rejected
RECURSIVE Encodable(_)
Encodable(x) ==
  CASE x.k \in {"int", "big", "bytes"} -> TRUE
    [] x.k = "str" -> \A i \in 1..Len(x.v) : ~IsSurrogate(x.v[i]) /\ x.v[i] <= 1114111
    [] x.k \in {"list", "tuple"} -> \A i \in 1..Len(x.v) : Encodable(x.v[i])
    [] x.k = "dict" -> /\ KeysOK(x.v)
                       /\ \A i \in 1..Len(x.v) : Encodable(x.v[i][1]) /\ Encodable(x.v[i][2])
    [] OTHER -> FALSE

\* identity of a structure up to the two identifications the property allows (str = its UTF-8
\* bytes, list = tuple) and mapping order: independent of Enc and of the UTF-8 decoder
RECURSIVE Canon(_)
Canon(x) ==
  CASE x.k = "str" -> V("buf", StrBytes(x.v))
    [] x.k = "bytes" -> V("buf", x.v)
    [] x.k \in {"list", "tuple"} -> V("seq", [i \in 1..Len(x.v) |-> Canon(x.v[i])])
    [] x.k = "dict" -> V("map", {<<Canon(x.v[i][1]), Canon(x.v[i][2])>> : i \in 1..Len(x.v)})
    [] OTHER -> x
Equiv(x, y) == Canon(x) = Canon(y)

\* what bdecode must return for Enc(x): tuples come back as lists, byte strings that happen to be
\* UTF-8 as str, mappings in sorted key order
RECURSIVE PyCanon(_)
PyCanon(x) ==
  CASE x.k = "bytes" -> BufVal(x.v)
    [] x.k \in {"list", "tuple"} -> V("list", [i \in 1..Len(x.v) |-> PyCanon(x.v[i])])
    [] x.k = "dict" -> LET s == SortPairs(x.v) IN
                       V("dict", [i \in 1..Len(s) |-> <<PyCanon(s[i][1]), PyCanon(s[i][2])>>])
    [] OTHER -> x

\* swap every str with its bytes and every list with a tuple (and back)
RECURSIVE Flip(_)
Flip(x) ==
  CASE x.k = "str" -> V("bytes", StrBytes(x.v))
    [] x.k = "bytes" -> BufVal(x.v)
    [] x.k = "list" -> V("tuple", [i \in 1..Len(x.v) |-> Flip(x.v[i])])
    [] x.k = "tuple" -> V("list", [i \in 1..Len(x.v) |-> Flip(x.v[i])])
    [] x.k = "dict" -> V("dict", [i \in 1..Len(x.v) |-> <<Flip(x.v[i][1]), Flip(x.v[i][2])>>])
    [] OTHER -> x
\* reverse the insertion order of every mapping
RECURSIVE RevDicts(_)
RevDicts(x) ==
  CASE x.k \in {"list", "tuple"} -> V(x.k, [i \in 1..Len(x.v) |-> RevDicts(x.v[i])])
    [] x.k = "dict" -> LET n == Len(x.v) IN
                       V("dict", [i \in 1..n |-> <<x.v[n + 1 - i][1], RevDicts(x.v[n + 1 - i][2])>>])
    [] OTHER -> x
Perms(n) == {f \in [1..n -> 1..n] : \A i, j \in 1..n : f[i] = f[j] => i = j}

RejectOK(x) == Encodable(x) <=> Enc(x) # Err
RoundTripOK(x) == LET e == Enc(x) IN e # Err => Dec(e, 1) = Ok(PyCanon(x), Len(e) + 1)
\* (a mapping whose byte keys are not all UTF-8 has no all-str twin: Flip would mix key kinds)
ClassOK(x) == Encodable(x) => LET e == Enc(x) IN
                              /\ (Encodable(Flip(x)) => Enc(Flip(x)) = e)
                              /\ Enc(RevDicts(x)) = e
KeyOrderOK(x) == (x.k = "dict" /\ Encodable(x)) =>
                   \A f \in Perms(Len(x.v)) : Enc(V("dict", [i \in 1..Len(x.v) |-> x.v[f[i]]])) = Enc(x)
\* Python sorts str keys by code point, the encoding writes UTF-8: the orders agree
KeyOrderIsByteOrder(x) ==
  (x.k = "dict" /\ Encodable(x)) =>
     \A i, j \in 1..Len(x.v) : LexLess(x.v[i][1].v, x.v[j][1].v)
                               <=> LexLess(Canon(x.v[i][1]).v, Canon(x.v[j][1]).v)

IsPrefixOf(a, b) == Len(a) <= Len(b) /\ SubSeq(b, 1, Len(a)) = a
\* pairwise form: equal encodings only for equivalent structures; no encoding is a proper prefix
\* of another (self-delimiting, which is what makes concatenation inside lists injective)
PairOK(x, y) == LET ex == Enc(x)
                    ey == Enc(y)
                    eq == Equiv(x, y)
                IN (ex # Err /\ ey # Err) =>
                   /\ (ex = ey => eq)
                   /\ (eq => ex = ey)
                   /\ (IsPrefixOf(ex, ey) => ex = ey)
\* counting form over a whole universe: as many encodings as equivalence classes
InjectiveOn(U) == LET E == {x \in U : Enc(x) # Err} IN
                  Cardinality({Enc(x) : x \in E}) = Cardinality({Canon(x) : x \in E})
=============================================================================
