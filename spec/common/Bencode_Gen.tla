----------------------------- MODULE Bencode_Gen -----------------------------
(* Bounded universe of structures for C14: every element is one TLC state; the laws of
   Bencode.tla are invariants; every element is emitted with the expected encoding and the
   expected decoding ("CASE <json>") for the spec -> code replay.
   Mode "pairs": second component y ranges over the reduced universe (pairwise injectivity and
   prefix-freeness).  Mode "bytes": every byte string over ByteAlpha up to MaxRaw is decoded
   ("RAW <json>"): conformance of Dec with bdecode on arbitrary input, including malformed. *)
EXTENDS Bencode, Json

CONSTANTS Mode,        \* "laws" | "pairs" | "bytes" | "all" | "ctl"
          IntMags,     \* magnitudes of the integer atoms (both signs are used)
          CPs,         \* code points for str atoms
          BAlpha,      \* bytes for bytes atoms
          MaxAtom,     \* max length of str / bytes atoms
          MaxElems,    \* max number of elements of the depth-1 lists / tuples
          ByteAlpha,   \* alphabet of the raw decoder run
          MaxRaw       \* max length of raw byte strings

SeqsUpTo(S, n) == UNION {[1..m -> S] : m \in 0..n}

IntAtoms == {V("int", n) : n \in IntMags} \cup {V("int", -n) : n \in IntMags} \cup {V("big", <<0, 1, 2, 3, 4, 5, 6, 7, 8, 9, 0>>),
                                              V("big", <<1, 9, 0, 0, 0, 0, 0, 0, 0, 0, 1>>)}
StrAtoms == {V("str", s) : s \in SeqsUpTo(CPs, MaxAtom)}
BytesAtoms == {V("bytes", s) : s \in SeqsUpTo(BAlpha, MaxAtom)}
Bad == {V("bool", 0), V("bool", 1), V("none", 0), V("float", 0)}
Atoms == IntAtoms \cup StrAtoms \cup BytesAtoms \cup Bad \cup {V("str", <<55296>>)}  \* lone surrogate

\* reduced atom sets inside containers: the confusable ones (digits, ':', 'e', 'i', one non-ASCII
\* character with its UTF-8 bytes, one byte string that is not UTF-8)
SmallAtoms == {V("int", 0), V("int", 1), V("int", -1), V("int", 10),
               V("str", <<>>), V("bytes", <<>>), V("str", <<101>>), V("bytes", <<101>>),
               V("str", <<49, 58>>), V("str", <<105, 49, 101>>), V("str", <<233>>),
               V("bytes", <<195, 169>>), V("bytes", <<195>>), V("bool", 1), V("none", 0)}
Keys == {V("str", <<>>), V("str", <<101>>), V("str", <<101, 101>>), V("str", <<233>>),
         V("str", <<122>>), V("bytes", <<101>>), V("bytes", <<195, 169>>), V("bytes", <<255>>), V("int", 1)}
TinyAtoms == {V("int", 1), V("str", <<101>>), V("bytes", <<101>>), V("str", <<>>), V("bool", 0)}
TinyKeys == {V("str", <<101>>), V("str", <<233>>), V("bytes", <<101>>)}

Seqs1 == {V(k, s) : k \in {"list", "tuple"}, s \in SeqsUpTo(SmallAtoms, MaxElems)}
PairSeqs(KS, VS, n) == {ps \in SeqsUpTo(KS \X VS, n) : \A i, j \in 1..Len(ps) : ps[i][1] = ps[j][1] => i = j}
Dicts1 == {V("dict", ps) : ps \in PairSeqs(Keys, TinyAtoms, 2)}
           \cup {V("dict", ps) : ps \in PairSeqs({V("str", <<101>>), V("str", <<100>>), V("str", <<233>>)}, {V("int", 1)}, 3)}
\* depth 2
Tiny1 == {V("list", <<>>), V("tuple", <<V("int", 1)>>), V("list", <<V("int", 1)>>), V("dict", <<>>),
          V("dict", <<<<V("str", <<101>>), V("int", 1)>>>>), V("dict", <<<<V("bytes", <<101>>), V("int", 1)>>>>),
          V("list", <<V("str", <<101>>), V("int", 1)>>), V("list", <<V("none", 0)>>)}
Seqs2 == {V(k, s) : k \in {"list", "tuple"}, s \in SeqsUpTo(TinyAtoms \cup Tiny1, 2)} \ Seqs1
Dicts2 == {V("dict", ps) : ps \in PairSeqs(TinyKeys, Tiny1 \cup {V("int", 1)}, 2)} \ Dicts1
\* depth 3 (a few): a list in a dict in a list, ...
Deep == {V("list", <<d>>) : d \in Dicts2} \cup {V("dict", <<<<V("str", <<101>>), s>>>>) : s \in Seqs2}

U == Atoms \cup Seqs1 \cup Dicts1 \cup Seqs2 \cup Dicts2 \cup Deep
\* reduced universe for the pairwise check
USmall == IntAtoms \cup {a \in StrAtoms \cup BytesAtoms : Len(a.v) <= 1} \cup SmallAtoms
          \cup {V(k, s) : k \in {"list", "tuple"}, s \in SeqsUpTo(TinyAtoms, 2)}
          \cup {V("dict", ps) : ps \in PairSeqs(TinyKeys, TinyAtoms, 2)} \cup Tiny1
          \cup {V("list", <<t>>) : t \in Tiny1}

RawStrings == SeqsUpTo(ByteAlpha, MaxRaw)

VARIABLES x, y
vars == <<x, y>>
None == V("none", 0)
Has(m) == Mode = m \/ Mode = "all"

\* witnesses for the seeded-defect control run (Mode = "ctl")
CtlSet == {V("list", <<V("bool", 1)>>), V("str", <<233>>),
           V("dict", <<<<V("str", <<101>>), V("int", 1)>>, <<V("str", <<100>>), V("int", 1)>>>>)}
Init == /\ y = None
        /\ x \in (IF Mode = "ctl" THEN CtlSet ELSE {}) \cup (IF Has("laws") THEN U ELSE {}) \cup (IF Has("pairs") THEN USmall ELSE {})
                 \cup (IF Has("bytes") THEN {V("raw", b) : b \in RawStrings} ELSE {})
Next == /\ Has("pairs") /\ y = None /\ x \in USmall
        /\ x' = x /\ y' \in USmall
Spec == Init /\ [][Next]_vars

InLaws == (Has("laws") /\ y = None /\ x \in U) \/ Mode = "ctl"
\* split so that TLC names the broken law
LawReject == InLaws => RejectOK(x)
LawRoundTrip == InLaws => RoundTripOK(x)
LawClass == InLaws => ClassOK(x)
LawKeyOrder == InLaws => KeyOrderOK(x) /\ KeyOrderIsByteOrder(x)
LawPair == (Has("pairs") /\ y # None) => PairOK(x, y)
\* counting form over the whole universe; evaluated once per run (at one designated state)
LawInjective == (Has("laws") /\ x = None /\ y = None) => InjectiveOn(U)

Emit == IF InLaws
        THEN PrintT("CASE " \o ToJson([x |-> x, enc |-> Enc(x),
                                       dec |-> IF Enc(x) = Err THEN V("err", 0) ELSE Decode(Enc(x))]))
        ELSE IF x.k = "raw" THEN PrintT("RAW " \o ToJson([b |-> x.v, dec |-> Decode(x.v)]))
        ELSE TRUE
=============================================================================
