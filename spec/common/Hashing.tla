------------------------------- MODULE Hashing -------------------------------
(***************************************************************************)
(* Pre-images of redun's record hashes (C15, C17, C18).                    *)
(*                                                                         *)
(* `hash_struct(x)` = sha512(bencode(x))[:40] is modelled as an INJECTIVE   *)
(* CONSTRUCTOR: the hash of a structure is the structure itself (C14 is    *)
(* the property that bencode is injective; collisions of sha512 are out of *)
(* scope).  Two real hashes are therefore predicted equal iff the two      *)
(* pre-image structures built here are equal.  Pre-images may have         *)
(* different shapes, so they are always compared through `Same`.           *)
(*                                                                         *)
(* Every operator that transcribes redun code takes a set `D` of NAMED     *)
(* DEVIATIONS.  With D = {} the operator is the behaviour the property     *)
(* demands; each name in D switches on one as-built departure of the code: *)
(*                                                                         *)
(*   C15  "ZipPastVarargs"   hash_args_eval zips positional values against *)
(*                           ALL parameter names (also *args, keyword-only *)
(*                           and **kwargs names) instead of the positional *)
(*                           ones                                          *)
(*        "DefaultsByIndex"  get_arg_defaults decides "supplied            *)
(*                           positionally" by parameter index for every    *)
(*                           parameter kind, also keyword-only ones        *)
(*        "VarKwConfig"      a config_args entry naming the **kwargs       *)
(*                           parameter filters nothing                     *)
(*   C17  "AsyncNoTrim"      get_func_source looks for `^ *def `: for      *)
(*                           `async def` the decorator lines stay in the   *)
(*                           hashed source, and a nested `def` inside the  *)
(*                           body becomes the start of the hashed source   *)
(*        "OptionsDropIncludes"  Task.options()/export_options() do not    *)
(*                           pass hash_includes to the derived task        *)
(*        "FlatConcat"       hash_includes hashes and the options hash are *)
(*                           concatenated into one flat list               *)
(*   C18  "SchedNoOptions"   SchedulerExpression._calc_hash hashes neither *)
(*                           call-time options nor exported options        *)
(***************************************************************************)
EXTENDS Naturals, Sequences, FiniteSets, TLC, Json

Same(a, b) == ToJson(a) = ToJson(b)

SeqSet(s) == {s[i] : i \in 1..Len(s)}
\* canonical multiset of a sequence of arbitrary structures (sorted(...) of hex digests: only the
\* multiset is observable through an injective hash)
BagOf(s) == LET key == [i \in 1..Len(s) |-> ToJson(s[i])] IN
            {<<key[i], Cardinality({j \in 1..Len(s) : key[j] = key[i]})>> : i \in 1..Len(s)}
\* subsequence of s at the indices satisfying P, in order
PickIdx(s, P(_)) ==
  LET I == {i \in 1..Len(s) : P(i)}
  IN [k \in 1..Cardinality(I) |-> s[CHOOSE i \in I : Cardinality({j \in I : j < i}) = k - 1]]

(***************************************************************************)
(* Signatures.  Everything TLC has to say about one item (a call, a task   *)
(* definition, an expression) is condensed into a record of canonical      *)
(* strings, computed once per item:                                        *)
(*   pre[m+1]  the pre-image under the deviation subset with bitmask m     *)
(*             over the sequence `devs` (pre[1]: no deviation, the last    *)
(*             element: as built)                                          *)
(*   den       what the property says the hash must depend on              *)
(*   ord       den plus the part of the construction the property allows   *)
(*             the hash to depend on in addition                           *)
(* The law for two items: "d" (hashes must differ) if den differs, "s"     *)
(* (must be equal) if ord is equal, "u" (the property does not say)        *)
(* otherwise.  The model's verdict under subset m: "s" iff pre[m+1] equal. *)
(***************************************************************************)
Pow2(n) == IF n = 0 THEN 1 ELSE IF n = 1 THEN 2 ELSE IF n = 2 THEN 4 ELSE 8
MaskSet(devs, m) == {devs[i] : i \in {j \in 1..Len(devs) : (m \div Pow2(j - 1)) % 2 = 1}}
MkSig(Pre(_), den, ord, devs) ==
  [pre |-> [k \in 1..Pow2(Len(devs)) |-> ToJson(Pre(MaskSet(devs, k - 1)))],
   den |-> ToJson(den), ord |-> ToJson(ord)]
\* den / ord only (enough for the law; the pre-images are needed for violating pairs only)
LightSig(den, ord) == [den |-> ToJson(den), ord |-> ToJson(ord)]
SigLaw(s1, s2) == IF s1.den # s2.den THEN "d" ELSE IF s1.ord = s2.ord THEN "s" ELSE "u"
SigVs(s1, s2) == [k \in 1..Len(s1.pre) |-> IF s1.pre[k] = s2.pre[k] THEN "s" ELSE "d"]

(***************************************************************************)
(* Leading type tags of every record kind that is hashed with hash_struct  *)
(* (C15, last sentence).                                                   *)
(***************************************************************************)
Kinds == <<"task", "partial_task", "arguments", "eval", "call_node", "tag", "task_expr",
           "scheduler_expr", "simple_expr", "value_expr">>
KindTag(k) == CASE k = "task" -> "Task"
                [] k = "partial_task" -> "PartialTask"
                [] k = "arguments" -> "TaskArguments"
                [] k = "eval" -> "Eval"
                [] k = "call_node" -> "CallNode"
                [] k = "tag" -> "Tag"
                [] k = "task_expr" -> "TaskExpression"
                [] k = "scheduler_expr" -> "SchedulerExpression"
                [] k = "simple_expr" -> "SimpleExpression"
                [] k = "value_expr" -> "ValueExpression"
TagsDistinct == \A i, j \in 1..Len(Kinds) : i # j => KindTag(Kinds[i]) # KindTag(Kinds[j])

(***************************************************************************)
(* Values and arguments.  A plain value is an atom (string); its hash is   *)
(* <<"val", atom>>.  hash_arguments: positional list + dict (bencode sorts *)
(* dict keys, hence a SET of <<name, hash>> pairs).                        *)
(***************************************************************************)
ValHash(a) == <<"val", a>>
ArgsPre(posHashes, kwPairs) == <<KindTag("arguments"), posHashes, kwPairs>>

(***************************************************************************)
(* C15: evaluation keys.                                                   *)
(*                                                                         *)
(* sig  = [pos: Seq([n, d]), va: 0/1, ko: Seq([n, d]), vk: 0/1,            *)
(*         cfg: Seq(name), jp: name or "-"]                                *)
(*        n = parameter name, d = 1 iff it has a default; "va"/"vk" are    *)
(*        the names of *args / **kwargs; jp is the JobInfo parameter (its  *)
(*        default is the placeholder "J1"); every other default is "0".    *)
(* call = [pos: Seq(value), kw: Seq(<<name, value>>)]  (kw in call order)  *)
(***************************************************************************)
JVals == {"J1", "J2"}
NPos(sig) == Len(sig.pos)
PosNames(sig) == [i \in 1..Len(sig.pos) |-> sig.pos[i].n]
KoNames(sig) == [i \in 1..Len(sig.ko) |-> sig.ko[i].n]
\* inspect.signature(...).parameters order: positional, *args, keyword-only, **kwargs
AllNames(sig) == PosNames(sig) \o (IF sig.va = 1 THEN <<"va">> ELSE <<>>) \o KoNames(sig)
                 \o (IF sig.vk = 1 THEN <<"vk">> ELSE <<>>)
NamedParams(sig) == SeqSet(PosNames(sig)) \cup SeqSet(KoNames(sig))
Cfg(sig) == SeqSet(sig.cfg)
HasDefault(sig, n) == (\E i \in 1..Len(sig.pos) : sig.pos[i].n = n /\ sig.pos[i].d = 1)
                      \/ (\E i \in 1..Len(sig.ko) : sig.ko[i].n = n /\ sig.ko[i].d = 1)
DefaultVal(sig, n) == IF n = sig.jp THEN "J1" ELSE "0"
KwNames(call) == {call.kw[i][1] : i \in 1..Len(call.kw)}
KwPairs(call) == {<<call.kw[i][1], call.kw[i][2]>> : i \in 1..Len(call.kw)}

\* the call binds under Python's rules (the driver only materialises valid calls)
ValidCall(sig, call) ==
  /\ (Len(call.pos) <= NPos(sig) \/ sig.va = 1)
  /\ Cardinality(KwNames(call)) = Len(call.kw)
  /\ \A n \in KwNames(call) :
        \/ \E i \in 1..NPos(sig) : i > Len(call.pos) /\ sig.pos[i].n = n
        \/ n \in SeqSet(KoNames(sig))
        \/ (sig.vk = 1 /\ n \notin NamedParams(sig) /\ n \notin {"va", "vk"})
  /\ \A i \in 1..NPos(sig) : (i > Len(call.pos) /\ sig.pos[i].d = 0) => sig.pos[i].n \in KwNames(call)
  /\ \A i \in 1..Len(sig.ko) : sig.ko[i].d = 0 => sig.ko[i].n \in KwNames(call)
  \* JobInfo values only ever go to the JobInfo parameter (assumption, see driver)
  /\ \A i \in 1..Len(call.pos) : call.pos[i] \in JVals <=> (i <= NPos(sig) /\ sig.pos[i].n = sig.jp)
  /\ \A i \in 1..Len(call.kw) : call.kw[i][2] \in JVals <=> call.kw[i][1] = sig.jp

\* redun/scheduler.py get_arg_defaults
ArgDefaults(sig, call, D) ==
  LET names == AllNames(sig)
      byPosition(i) == IF "DefaultsByIndex" \in D THEN i <= Len(call.pos)
                       ELSE i <= NPos(sig) /\ i <= Len(call.pos)
  IN {<<names[i], DefaultVal(sig, names[i])>> :
        i \in {j \in 1..Len(names) : /\ ~byPosition(j)
                                     /\ names[j] \notin KwNames(call)
                                     /\ HasDefault(sig, names[j])}}

\* redun/task.py hash_args_eval on (args, {**defaults, **kwargs}), then hashing.hash_eval
EvalPre(taskHash, sig, call, D) ==
  LET names == AllNames(sig)
      keep(n, v) == n \notin Cfg(sig) /\ v \notin JVals
      pname(i) == IF "ZipPastVarargs" \in D
                  THEN (IF i <= Len(names) THEN names[i] ELSE "va")
                  ELSE (IF i <= NPos(sig) THEN sig.pos[i].n ELSE "va")
      \* positions beyond the zip are filtered by the *args name only (no JobInfo test there)
      keepPos(i) == IF "ZipPastVarargs" \in D /\ i > Len(names) THEN "va" \notin Cfg(sig)
                    ELSE keep(pname(i), call.pos[i])
      args2 == PickIdx(call.pos, keepPos)
      kwname(n) == IF "VarKwConfig" \in D \/ n \in NamedParams(sig) THEN n ELSE "vk"
      kwall == KwPairs(call) \cup ArgDefaults(sig, call, D)
      kwargs2 == {p \in kwall : keep(kwname(p[1]), p[2])}
  IN <<KindTag("eval"), taskHash,
       ArgsPre([i \in 1..Len(args2) |-> ValHash(args2[i])], {<<p[1], ValHash(p[2])>> : p \in kwargs2})>>

\* Python's binding of the call, minus config parameters and the JobInfo parameter: what the key
\* is required to depend on.  <<named pairs, *args tuple, **kwargs pairs>>
Norm(sig, call) ==
  LET npos == IF Len(call.pos) < NPos(sig) THEN Len(call.pos) ELSE NPos(sig)
      byPos == {<<sig.pos[i].n, call.pos[i]>> : i \in 1..npos}
      byKw == {p \in KwPairs(call) : p[1] \in NamedParams(sig)}
      supplied == {p[1] : p \in byPos \cup byKw}
      dflt == {<<n, DefaultVal(sig, n)>> : n \in {m \in NamedParams(sig) \ supplied : HasDefault(sig, m)}}
      named == {p \in byPos \cup byKw \cup dflt : p[1] \notin Cfg(sig) /\ p[1] # sig.jp}
      extraPos == IF "va" \in Cfg(sig) \/ Len(call.pos) <= NPos(sig) THEN <<>>
                  ELSE SubSeq(call.pos, NPos(sig) + 1, Len(call.pos))
      extraKw == IF "vk" \in Cfg(sig) THEN {} ELSE {p \in KwPairs(call) : p[1] \notin NamedParams(sig)}
  IN <<named, extraPos, extraKw>>
\* how the call was written: number of positional values, keyword names once defaults are merged.
\* The property claims equal keys only between calls written the same way (it is silent about
\* passing a parameter positionally versus by keyword).
Canon(sig, call) ==
  <<Len(call.pos), KwNames(call) \cup {p[1] : p \in ArgDefaults(sig, call, {})}>>

\* law of C15 for two calls of one task: "d" the keys must differ (Norm differs), "s" they must be
\* equal (same Norm, written the same way), "u" the property does not say
EvalSig(sig, call, devs) ==
  MkSig(LAMBDA D : EvalPre("T", sig, call, D), Norm(sig, call), <<Norm(sig, call), Canon(sig, call)>>, devs)
EvalLight(sig, call) == LightSig(Norm(sig, call), <<Norm(sig, call), Canon(sig, call)>>)
EvalLaw(sig, c1, c2) == SigLaw(EvalSig(sig, c1, <<>>), EvalSig(sig, c2, <<>>))

(***************************************************************************)
(* C17: task hashes.                                                       *)
(*                                                                         *)
(* t = [ns, name, kind ("def"/"async"), nested (0/1: a nested `def` in the *)
(*      body), body, ver (0 = unversioned), defopt (definition-time        *)
(*      option value in the decorator), deco (0/1: an extra pass-through   *)
(*      decorator line), inc (Seq of include atoms, in source order),      *)
(*      ovr (0 = none, else option-dict atom: .options(...)),              *)
(*      wrap (0/1: wrapped by a wraps_task decorator), winc, wbody         *)
(*      (wrapper_hash_includes value, wrapper body), part (Seq of          *)
(*      <<name or "", value>>: .partial(...) arguments, <<>> = no partial)]*)
(* Include atom "dA" is the dict {"tag": "A"}, whose value hash is also    *)
(* the hash of the option dict of ovr = 1 (both are registry.get_hash of   *)
(* the same dict); likewise "dB" / ovr = 2, "dC" / ovr = 3.                *)
(* Under "FlatConcat" the tail sorted(includes) + [options] is modelled as *)
(* the bag of all its elements: equal tails have equal bags; the converse  *)
(* can fail (the option hash need not sort last), so the model may predict *)
(* a collision the code does not show -- never the other way round.        *)
(***************************************************************************)
DictAtoms == <<"dA", "dB", "dC">>      \* include atom DictAtoms[k] is the option dict of ovr = k
IncHash(a) == IF \E k \in 1..Len(DictAtoms) : DictAtoms[k] = a
              THEN ValHash("dict:" \o ToString(CHOOSE k \in 1..Len(DictAtoms) : DictAtoms[k] = a))
              ELSE ValHash(a)
OvrHash(o) == ValHash("dict:" \o ToString(o))

\* text of the decorator lines above the def line (what inspect.getsource returns before it)
DecoLines(t) == <<IF t.wrap = 1 THEN <<"wrapper", t.winc, t.wbody>> ELSE <<>>,
                  <<"@task", t.ns, t.ver, t.defopt, t.inc>>, t.deco>>
\* redun/utils.py get_func_source
FuncSource(t, D) ==
  IF t.kind = "async" /\ "AsyncNoTrim" \in D
  THEN (IF t.nested = 1 THEN <<"from-nested-def">>      \* everything before the nested def is cut
        ELSE <<DecoLines(t), t.kind, t.name, t.body, t.nested>>)
  ELSE <<t.kind, t.name, t.body, t.nested>>

\* redun/task.py Task._calc_hash
CalcTaskHash(fullname, code, incHashes, ovr, D) ==
  LET opts == IF ovr = 0 THEN <<>> ELSE <<OvrHash(ovr)>> IN
  IF "FlatConcat" \in D
  THEN <<KindTag("task"), fullname, code[1], code[2], BagOf(incHashes \o opts)>>
  ELSE <<KindTag("task"), fullname, code[1], code[2], BagOf(incHashes), opts>>

TaskCode(t, D) == IF t.ver = 0 THEN <<"source", FuncSource(t, D)>> ELSE <<"version", t.ver>>
\* the decorated function itself (for wrap = 1: the hidden inner task, hashed under its visible name
\* because TaskRegistry.rename does not recompute the hash)
InnerHash(t, D) ==
  CalcTaskHash(<<t.ns, t.name>>, TaskCode(t, D), [i \in 1..Len(t.inc) |-> IncHash(t.inc[i])], 0, D)
\* the task object the user holds: module.f [.options(...)]
VisibleHash(t, D) ==
  LET incs == IF t.wrap = 1 THEN <<ValHash(t.winc), InnerHash(t, D)>>
              ELSE [i \in 1..Len(t.inc) |-> IncHash(t.inc[i])]
      code == IF t.wrap = 1 THEN <<"source", <<"wrapper-body", t.wbody>>>> ELSE TaskCode(t, D)
      incs2 == IF t.ovr # 0 /\ "OptionsDropIncludes" \in D THEN <<>> ELSE incs
  IN CalcTaskHash(<<t.ns, t.name>>, code, incs2, t.ovr, D)
PartPos(t) == PickIdx(t.part, LAMBDA i : t.part[i][1] = "")
PartKw(t) == {<<t.part[i][1], ValHash(t.part[i][2])>> : i \in {j \in 1..Len(t.part) : t.part[j][1] # ""}}
\* PartialTask._calc_hash
TaskPre(t, D) ==
  IF t.part = <<>> THEN VisibleHash(t, D)
  ELSE <<KindTag("partial_task"), VisibleHash(t, D),
         ArgsPre([i \in 1..Len(PartPos(t)) |-> ValHash(PartPos(t)[i][2])], PartKw(t))>>

\* what C17 says the hash depends on, and on nothing else
TaskIdentity(t) ==
  <<<<t.ns, t.name>>,
    IF t.ver = 0 THEN <<"source", t.kind, t.name, t.body, t.nested>> ELSE <<"version", t.ver>>,
    BagOf([i \in 1..Len(t.inc) |-> IncHash(t.inc[i])]),
    t.ovr,
    IF t.wrap = 1 THEN <<1, t.winc, t.wbody>> ELSE <<0>>,
    <<PartPos(t), PartKw(t)>>>>
TaskSig(t, devs) == MkSig(LAMBDA D : TaskPre(t, D), TaskIdentity(t), TaskIdentity(t), devs)
TaskLight(t) == LightSig(TaskIdentity(t), TaskIdentity(t))
TaskLaw(t1, t2) == SigLaw(TaskSig(t1, <<>>), TaskSig(t2, <<>>))

(***************************************************************************)
(* C18: expression hashes.                                                 *)
(*                                                                         *)
(* e = [kind ("task"/"sched"/"simple"/"value"), name, pos: Seq(arg),       *)
(*      kw: Seq(<<name, arg>>), opts: Seq(<<key, atom>>) (.options(...)),  *)
(*      expo: Seq(<<key, atom>>) (.export_options(...)), via ("api": built *)
(*      by calling the task object; "ctor": the expression class is        *)
(*      instantiated directly)]                                            *)
(* arg = [k |-> "atom", v |-> atom] or [k |-> "expr", e |-> expression]    *)
(* A value expression keeps its value in pos[1].                           *)
(***************************************************************************)
\* {**override, **update}: an existing key keeps its position and takes the new value
RECURSIVE DictUpdate(_, _)
DictUpdate(d, u) ==
  IF u = <<>> THEN d
  ELSE LET k == u[1][1]
           hit == {i \in 1..Len(d) : d[i][1] = k}
           d2 == IF hit = {} THEN Append(d, u[1])
                 ELSE [i \in 1..Len(d) |-> IF i \in hit THEN u[1] ELSE d[i]]
       IN DictUpdate(d2, Tail(u))
EffOpts(e) == DictUpdate(DictUpdate(<<>>, e.opts), e.expo)
\* SchedulerTask.__call__ does not pass export_options on
EffExports(e) == IF e.kind = "sched" /\ e.via = "api" THEN {} ELSE {e.expo[i][1] : i \in 1..Len(e.expo)}

RECURSIVE ExprPre(_, _), ArgHashOf(_, _)
ArgHashOf(a, D) == IF a.k = "atom" THEN ValHash(a.v) ELSE ExprPre(a.e, D)
ExprPre(e, D) ==
  LET args == ArgsPre([i \in 1..Len(e.pos) |-> ArgHashOf(e.pos[i], D)],
                      {<<e.kw[i][1], ArgHashOf(e.kw[i][2], D)>> : i \in 1..Len(e.kw)})
      optsH == <<"pickle", EffOpts(e)>>          \* hash_bytes(pickle_dumps(dict)): insertion order counts
      expH == <<"exports", EffExports(e)>>       \* hash_struct(sorted(set))
  IN CASE e.kind = "task" ->
            IF EffExports(e) = {} THEN <<KindTag("task_expr"), e.name, args, optsH>>
            ELSE <<KindTag("task_expr"), e.name, args, optsH, expH>>
       [] e.kind = "sched" ->
            IF "SchedNoOptions" \in D \/ (EffOpts(e) = <<>> /\ EffExports(e) = {})
            THEN <<KindTag("scheduler_expr"), e.name, args>>
            ELSE IF EffExports(e) = {} THEN <<KindTag("scheduler_expr"), e.name, args, optsH>>
            ELSE <<KindTag("scheduler_expr"), e.name, args, optsH, expH>>
       [] e.kind = "simple" -> <<KindTag("simple_expr"), e.name, args>>
       [] e.kind = "value" -> <<KindTag("value_expr"), ArgHashOf(e.pos[1], D)>>

\* the call an expression denotes (option order is not part of it).  EffOpts holds <<name, value>>
\* pairs, also of the exported options: the VALUE of an exported option is part of the denoted call,
\* EffExports only adds which names are inherited by child jobs.
RECURSIVE Denote(_), ArgDenote(_)
ArgDenote(a) == IF a.k = "atom" THEN <<"atom", a.v>> ELSE <<"expr", Denote(a.e)>>
Denote(e) ==
  IF e.kind = "value" THEN <<"value", ArgDenote(e.pos[1])>>
  ELSE <<e.kind, e.name, [i \in 1..Len(e.pos) |-> ArgDenote(e.pos[i])],
         {<<e.kw[i][1], ArgDenote(e.kw[i][2])>> : i \in 1..Len(e.kw)},
         IF e.kind = "simple" THEN {} ELSE SeqSet(EffOpts(e)),
         IF e.kind = "simple" THEN {} ELSE EffExports(e)>>
\* ... and with option order (what the as-built hash of a task expression is injective on)
RECURSIVE DenoteOrd(_), ArgDenoteOrd(_)
ArgDenoteOrd(a) == IF a.k = "atom" THEN <<"atom", a.v>> ELSE <<"expr", DenoteOrd(a.e)>>
DenoteOrd(e) ==
  IF e.kind = "value" THEN <<"value", ArgDenoteOrd(e.pos[1])>>
  ELSE <<e.kind, e.name, [i \in 1..Len(e.pos) |-> ArgDenoteOrd(e.pos[i])],
         {<<e.kw[i][1], ArgDenoteOrd(e.kw[i][2])>> : i \in 1..Len(e.kw)},
         IF e.kind = "simple" THEN <<>> ELSE EffOpts(e),
         IF e.kind = "simple" THEN {} ELSE EffExports(e)>>

\* law of C18: "d" hashes must differ (different calls); "s" they must be equal (the very same
\* construction); "u" same call written with another option order: the property does not say
ExprSig(e, devs) == MkSig(LAMBDA D : ExprPre(e, D), Denote(e), DenoteOrd(e), devs)
ExprLight(e) == LightSig(Denote(e), DenoteOrd(e))
ExprLaw(e1, e2) == SigLaw(ExprSig(e1, <<>>), ExprSig(e2, <<>>))
=============================================================================
