------------------------------- MODULE Values -------------------------------
(***************************************************************************)
(* Tagged value trees: the universe of nested Python values redun walks    *)
(* (redun/utils.py: iter_nested_value, map_nested_value) and hashes         *)
(* (redun/value.py, see ValueHash.tla).                                     *)
(*                                                                         *)
(* A node is a record [k, t, x, y] (always these four fields; `k` sorts     *)
(* first, so TLC decides equality of two nodes of different kind on `k`     *)
(* before it looks at fields whose TLA+ type depends on the kind):          *)
(*                                                                         *)
(*   k = "leaf"   t = leaf id                      a scalar (int, str, None, ...) *)
(*   k = "oleaf"  t = payload id, y = <<class>>    an instance of a SUBCLASS of a *)
(*                builtin container (list/dict/set/tuple subclass without         *)
(*                _fields, OrderedDict, defaultdict, deque): the code tests       *)
(*                `type(value) is list` etc., so these are LEAVES                 *)
(*   k = "fset"   x = SET of nodes                 frozenset: a leaf for the      *)
(*                traversal (never entered), a container for hashing              *)
(*   k = "list" | "tuple"       x = sequence of children                          *)
(*   k = "nt"     t = arity, x = children          namedtuple                     *)
(*   k = "set"    x = SET of children              builtins.set                   *)
(*   k = "dict"   x = keys, y = values             same length, insertion order   *)
(*   k = "dc"     t = dataclass flavour, x = init fields, y = non-init fields     *)
(*                t: 1 plain, 2 frozen=True, 3 slots=True                         *)
(*   k = "error"                                   the call raised                *)
(*                                                                         *)
(* The leaf function `f` of a mapping is a TLA+ function on leaf ids; on a  *)
(* leaf-like node it acts by relabelling (Relabel), which is also what the  *)
(* harness's Python leaf function does.                                     *)
(***************************************************************************)
EXTENDS Naturals, Integers, Sequences, FiniteSets, TLC, SequencesExt, FiniteSetsExt, Bags

N(k, t, x, y) == [k |-> k, t |-> t, x |-> x, y |-> y]
Leaf(i) == N("leaf", i, <<>>, <<>>)
OLeaf(i, cls) == N("oleaf", i, <<>>, <<cls>>)
FSetV(S) == N("fset", 0, S, <<>>)
ListV(c) == N("list", 0, c, <<>>)
TupleV(c) == N("tuple", 0, c, <<>>)
NTV(c) == N("nt", Len(c), c, <<>>)
SetV(S) == N("set", 0, S, <<>>)
DictV(ks, vs) == N("dict", 0, ks, vs)
DCV(t, init, noninit) == N("dc", t, init, noninit)
ErrV == N("error", 0, <<>>, <<>>)

DCPlain == 1
DCFrozen == 2
DCSlots == 3

\* classes of opaque leaves; only a tuple subclass is hashable
OClsSubList == 1
OClsSubDict == 2
OClsSubSet == 3
OClsSubTuple == 4
OClsDefaultDict == 5
OClsDeque == 6

IsLeafLike(v) == v.k \in {"leaf", "oleaf", "fset"}
SeqKinds == {"list", "tuple", "nt"}

(***************************************************************************)
(* Python hashability (what may be a set element or a dict key).           *)
(***************************************************************************)
RECURSIVE Hashable(_)
Hashable(v) ==
  CASE v.k = "leaf" -> TRUE
    [] v.k = "oleaf" -> v.y[1] = OClsSubTuple
    [] v.k = "fset" -> TRUE
    [] v.k \in {"tuple", "nt"} -> \A i \in 1..Len(v.x) : Hashable(v.x[i])
    [] v.k = "dc" -> /\ v.t = DCFrozen
                     /\ \A i \in 1..Len(v.x) : Hashable(v.x[i])
                     /\ \A i \in 1..Len(v.y) : Hashable(v.y[i])
    [] OTHER -> FALSE

Injective(s) == \A i, j \in 1..Len(s) : i # j => s[i] # s[j]

(***************************************************************************)
(* Python equality between hashable values is coarser than tree identity:  *)
(* a namedtuple equals the plain tuple of its items (and hashes alike), and *)
(* so does a tuple subclass; this carries through tuples, frozen dataclass  *)
(* fields and frozensets.  KeyNorm(v) is the canonical representative; two  *)
(* set elements / dict keys are one iff their KeyNorm is equal.             *)
(***************************************************************************)
RECURSIVE KeyNorm(_)
KeyNorm(v) ==
  CASE v.k = "leaf" -> v
    [] v.k = "oleaf" -> IF v.y[1] = OClsSubTuple THEN N("tuple", 0, <<N("leaf", v.t, <<>>, <<>>)>>, <<>>) ELSE v
    [] v.k \in {"set", "fset"} -> [v EXCEPT !.x = {KeyNorm(c) : c \in v.x}]
    [] v.k \in {"tuple", "nt"} -> N("tuple", 0, [i \in 1..Len(v.x) |-> KeyNorm(v.x[i])], <<>>)
    [] v.k = "error" -> v
    [] OTHER -> [v EXCEPT !.x = [i \in 1..Len(v.x) |-> KeyNorm(v.x[i])],
                          !.y = [i \in 1..Len(v.y) |-> KeyNorm(v.y[i])]]
PyEq(a, b) == KeyNorm(a) = KeyNorm(b)
PyDistinct(S) == Cardinality({KeyNorm(c) : c \in S}) = Cardinality(S)
\* a Python set built from the elements S: equal elements merge (which one survives is not fixed)
PySet(S) == IF Cardinality(S) <= 1 \/ PyDistinct(S) THEN S
            ELSE {CHOOSE c \in S : KeyNorm(c) = n : n \in {KeyNorm(c) : c \in S}}

RECURSIVE WellFormed(_)
WellFormed(v) ==
  CASE v.k \in {"leaf", "oleaf", "error"} -> TRUE
    [] v.k \in {"set", "fset"} -> PyDistinct(v.x) /\ \A c \in v.x : Hashable(c) /\ WellFormed(c)
    [] v.k = "dict" -> /\ Len(v.x) = Len(v.y) /\ Injective([i \in 1..Len(v.x) |-> KeyNorm(v.x[i])])
                       /\ \A i \in 1..Len(v.x) : Hashable(v.x[i]) /\ WellFormed(v.x[i]) /\ WellFormed(v.y[i])
    [] v.k = "nt" -> v.t = Len(v.x) /\ \A i \in 1..Len(v.x) : WellFormed(v.x[i])
    [] OTHER -> /\ \A i \in 1..Len(v.x) : WellFormed(v.x[i])
                /\ \A i \in 1..Len(v.y) : WellFormed(v.y[i])

(***************************************************************************)
(* Relabel: apply f to every leaf id of a tree, inside opaque leaves and   *)
(* frozensets too.  This is the leaf function itself on leaf-like nodes.   *)
(***************************************************************************)
RECURSIVE Relabel(_, _)
Relabel(f, v) ==
  CASE v.k \in {"leaf", "oleaf"} -> [v EXCEPT !.t = f[v.t]]
    [] v.k \in {"set", "fset"} -> [v EXCEPT !.x = PySet({Relabel(f, c) : c \in v.x})]
    [] v.k = "error" -> v
    [] OTHER -> [v EXCEPT !.x = [i \in 1..Len(v.x) |-> Relabel(f, v.x[i])],
                          !.y = [i \in 1..Len(v.y) |-> Relabel(f, v.y[i])]]

(***************************************************************************)
(* Python dict construction from a sequence of (key, value) insertions:    *)
(* a repeated key keeps its first position and takes the last value.       *)
(***************************************************************************)
RECURSIVE DictFold(_, _, _, _, _)
DictFold(ks, vs, i, ak, av) ==
  IF i > Len(ks) THEN DictV(ak, av)
  ELSE IF \E j \in 1..Len(ak) : PyEq(ak[j], ks[i])
       THEN LET j == CHOOSE j \in 1..Len(ak) : PyEq(ak[j], ks[i])
            IN DictFold(ks, vs, i + 1, ak, [av EXCEPT ![j] = vs[i]])
       ELSE DictFold(ks, vs, i + 1, Append(ak, ks[i]), Append(av, vs[i]))
DictBuild(ks, vs) == DictFold(ks, vs, 1, <<>>, <<>>)

(***************************************************************************)
(* MapNested: the contract of map_nested_value -- same container at every  *)
(* level, leaf function applied at the leaf-like nodes.  For non-injective *)
(* f sets and dict keys collapse exactly as Python's do.                   *)
(***************************************************************************)
RECURSIVE MapNested(_, _)
MapNested(f, v) ==
  CASE IsLeafLike(v) -> Relabel(f, v)
    [] v.k \in SeqKinds -> [v EXCEPT !.x = [i \in 1..Len(v.x) |-> MapNested(f, v.x[i])]]
    [] v.k = "set" -> [v EXCEPT !.x = PySet({MapNested(f, c) : c \in v.x})]
    [] v.k = "dict" -> DictBuild([i \in 1..Len(v.x) |-> MapNested(f, v.x[i])],
                                 [i \in 1..Len(v.y) |-> MapNested(f, v.y[i])])
    [] v.k = "dc" -> [v EXCEPT !.x = [i \in 1..Len(v.x) |-> MapNested(f, v.x[i])],
                               !.y = [i \in 1..Len(v.y) |-> MapNested(f, v.y[i])]]
    [] v.k = "error" -> v

(***************************************************************************)
(* Named deviations of the as-built map_nested_value (redun/utils.py):     *)
(*   DevFrozenNonInit  non-init fields are written with setattr(), which a *)
(*                     frozen dataclass refuses (FrozenInstanceError)      *)
(*   DevSlots          value.__dict__ is read unconditionally, which a     *)
(*                     slots=True dataclass does not have (AttributeError) *)
(* A deviating node anywhere on the traversal (not inside an opaque leaf / *)
(* frozenset, those are never entered) makes the whole call raise.         *)
(***************************************************************************)
DevFrozenNonInit == "dataclass-frozen-noninit-field"
DevSlots == "dataclass-slots"

ChildSeq(v) ==
  CASE IsLeafLike(v) -> <<>>
    [] v.k = "set" -> SetToSeq(v.x)
    [] v.k = "error" -> <<>>
    [] OTHER -> v.x \o v.y            \* dict: keys then values; dc: fields in declaration order

RECURSIVE Devs(_)
Devs(v) ==
  (IF v.k = "dc" /\ v.t = DCFrozen /\ Len(v.y) > 0 THEN {DevFrozenNonInit} ELSE {})
  \cup (IF v.k = "dc" /\ v.t = DCSlots THEN {DevSlots} ELSE {})
  \cup (LET cs == ChildSeq(v) IN UNION {Devs(cs[i]) : i \in 1..Len(cs)})

MapNestedAsBuilt(f, v) == IF Devs(v) # {} THEN ErrV ELSE MapNested(f, v)

(***************************************************************************)
(* The leaf iterator (iter_nested_value: explicit stack, children pushed   *)
(* in order, popped from the end) and the order in which the mapper calls  *)
(* the leaf function, both as sequences of leaf-like nodes.                *)
(***************************************************************************)
RECURSIVE IterRun(_, _)
IterRun(stack, out) ==
  IF stack = <<>> THEN out
  ELSE LET top == stack[Len(stack)]
           rest == SubSeq(stack, 1, Len(stack) - 1)
       IN IF IsLeafLike(top) THEN IterRun(rest, Append(out, top))
          ELSE IterRun(rest \o ChildSeq(top), out)
IterLeaves(v) == IterRun(<<v>>, <<>>)

RECURSIVE MapVisits(_)
MapVisits(v) ==
  CASE IsLeafLike(v) -> <<v>>
    [] v.k = "dict" -> FlattenSeq([i \in 1..Len(v.x) |-> MapVisits(v.x[i]) \o MapVisits(v.y[i])])
    [] v.k = "error" -> <<>>
    [] OTHER -> LET cs == ChildSeq(v) IN FlattenSeq([i \in 1..Len(cs) |-> MapVisits(cs[i])])

(***************************************************************************)
(* Leaves(v): the bag of leaf-like nodes, defined on the structure.        *)
(***************************************************************************)
RECURSIVE Leaves(_), LeavesOfSeq(_, _)
Leaves(v) == IF IsLeafLike(v) THEN SetToBag({v}) ELSE LeavesOfSeq(ChildSeq(v), 1)
LeavesOfSeq(s, i) == IF i > Len(s) THEN EmptyBag ELSE Leaves(s[i]) (+) LeavesOfSeq(s, i + 1)

\* image of a bag of leaf-like nodes under the leaf function (counts add up when f merges)
BagMap(f, b) ==
  LET D == BagToSet(b)
      img == {Relabel(f, n) : n \in D}
  IN [m \in img |-> MapThenSumSet(LAMBDA n : b[n], {n \in D : Relabel(f, n) = m})]

(***************************************************************************)
(* Shape(v): the tree with leaf-like nodes erased; a set keeps the bag of  *)
(* its children's shapes (so a collapsing set changes shape).              *)
(***************************************************************************)
RECURSIVE Shape(_)
Shape(v) ==
  CASE IsLeafLike(v) -> N("leaf", 0, <<>>, <<>>)
    [] v.k = "set" -> LET sh == [c \in v.x |-> Shape(c)]
                          shapes == {sh[c] : c \in v.x}
                      IN N("set", 0, [s \in shapes |-> Cardinality({c \in v.x : sh[c] = s})], <<>>)
    [] v.k = "error" -> v
    [] OTHER -> N(v.k, v.t, [i \in 1..Len(v.x) |-> Shape(v.x[i])], [i \in 1..Len(v.y) |-> Shape(v.y[i])])

\* dict order forgotten (Python dict equality) and set elements / dict keys taken up to Python
\* equality: used when comparing with the implementation, which is free to rebuild a dict in
\* another insertion order and to keep either of two equal keys
RECURSIVE Unord(_)
Unord(v) ==
  CASE v.k \in {"leaf", "oleaf", "error"} -> v
    [] v.k \in {"set", "fset"} -> [v EXCEPT !.x = {KeyNorm(Unord(c)) : c \in v.x}]
    [] v.k = "dict" -> N("dict", 0, {<<KeyNorm(Unord(v.x[i])), Unord(v.y[i])>> : i \in 1..Len(v.x)}, <<>>)
    [] OTHER -> [v EXCEPT !.x = [i \in 1..Len(v.x) |-> Unord(v.x[i])],
                          !.y = [i \in 1..Len(v.y) |-> Unord(v.y[i])]]

\* nesting level in the universes below: a scalar / opaque leaf is 1, a container (even an empty
\* one, and a frozenset too) is one more than its deepest child
RECURSIVE Level(_)
Level(v) ==
  CASE v.k \in {"leaf", "oleaf", "error"} -> 1
    [] v.k \in {"set", "fset"} -> 1 + Max({1} \cup {Level(c) : c \in v.x})
    [] OTHER -> 1 + Max({1} \cup {Level(v.x[i]) : i \in 1..Len(v.x)} \cup {Level(v.y[i]) : i \in 1..Len(v.y)})

(***************************************************************************)
(* JSON <-> trees.  ToJson writes sets as arrays; FromJ turns the arrays   *)
(* of set / fset nodes back into sets.                                     *)
(***************************************************************************)
RECURSIVE FromJ(_)
FromJ(j) ==
  CASE j.k \in {"leaf", "oleaf", "error"} -> N(j.k, j.t, <<>>, j.y)
    [] j.k \in {"set", "fset"} -> N(j.k, j.t, {FromJ(j.x[i]) : i \in 1..Len(j.x)}, <<>>)
    [] OTHER -> N(j.k, j.t, [i \in 1..Len(j.x) |-> FromJ(j.x[i])], [i \in 1..Len(j.y) |-> FromJ(j.y[i])])

(***************************************************************************)
(* Bounded universes: all trees of a given depth and width.                *)
(*   SeqsUpTo(P, w)   sequences over P of length 0..w  (w <= 3)            *)
(*   Grow(P, L, ...)  P plus every container whose children are in P;      *)
(*                    width = number of child slots (a dict entry has two: *)
(*                    key and value); kind "dict2" adds dicts with two     *)
(*                    entries over the leaf level L only (|U| ~ 10^4..10^5)*)
(***************************************************************************)
SeqsOfLen(P, n) ==
  CASE n = 0 -> {<<>>}
    [] n = 1 -> {<<a>> : a \in P}
    [] n = 2 -> {<<a, b>> : a, b \in P}
    [] n = 3 -> {<<a, b, c>> : a, b, c \in P}
SeqsUpTo(P, w) == UNION {SeqsOfLen(P, n) : n \in 0..w}
SeqsFromTo(P, lo, hi) == UNION {SeqsOfLen(P, n) : n \in lo..hi}
SubsetsUpTo(P, w) == UNION {kSubset(n, P) : n \in 0..w}

Grow(P, L, W, kinds, dcs) ==
  LET H == {v \in P : Hashable(v)}
      HL == {v \in L : Hashable(v)}
  IN P
     \cup (IF "list" \in kinds THEN {ListV(c) : c \in SeqsUpTo(P, W)} ELSE {})
     \cup (IF "tuple" \in kinds THEN {TupleV(c) : c \in SeqsUpTo(P, W)} ELSE {})
     \cup (IF "nt" \in kinds THEN {NTV(c) : c \in SeqsFromTo(P, 1, W)} ELSE {})
     \cup (IF "set" \in kinds THEN {SetV(S) : S \in {T \in SubsetsUpTo(H, W) : PyDistinct(T)}} ELSE {})
     \cup (IF "fset" \in kinds THEN {FSetV(S) : S \in {T \in SubsetsUpTo(H, W) : PyDistinct(T)}} ELSE {})
     \cup (IF "dict" \in kinds
           THEN {DictV(<<>>, <<>>)} \cup {DictV(<<a>>, <<b>>) : a \in H, b \in P}
           ELSE {})
     \cup (IF "dict2" \in kinds
           THEN {DictV(<<p[1], p[2]>>, <<c, d>>) : p \in {q \in HL \X HL : ~PyEq(q[1], q[2])}, c \in L, d \in L}
           ELSE {})
     \cup (IF "dc" \in kinds
           THEN UNION {{DCV(t, c, <<>>) : c \in SeqsFromTo(P, 1, W)} : t \in dcs \ {DCSlots}}
                \cup UNION {{DCV(t, <<a>>, <<b>>) : a \in P, b \in P} : t \in dcs \ {DCSlots}}
                \cup (IF DCSlots \in dcs THEN {DCV(DCSlots, <<a>>, <<>>) : a \in P} ELSE {})
           ELSE {})
\* the containers of Grow(L) that have no first child (childless ones) or are not produced by
\* Expand (two-entry leaf dicts): initial states of a depth-2 enumeration
Rootless(L, kinds) ==
  LET HL == {v \in L : Hashable(v)}
  IN (IF "list" \in kinds THEN {ListV(<<>>)} ELSE {})
     \cup (IF "tuple" \in kinds THEN {TupleV(<<>>)} ELSE {})
     \cup (IF "set" \in kinds THEN {SetV({})} ELSE {})
     \cup (IF "fset" \in kinds THEN {FSetV({})} ELSE {})
     \cup (IF "dict" \in kinds THEN {DictV(<<>>, <<>>)} ELSE {})
     \cup (IF "dict2" \in kinds
           THEN {DictV(<<p[1], p[2]>>, <<c, d>>) : p \in {q \in HL \X HL : ~PyEq(q[1], q[2])}, c \in L, d \in L}
           ELSE {})

(***************************************************************************)
(* Expand(v, P, ...): the containers over P whose FIRST child (for a set:  *)
(* one element) is v.  Grow(P) \ P = UNION {Expand(v, P) : v \in P} up to  *)
(* the childless containers and the two-entry leaf dicts, which are in P   *)
(* from depth 2 on.  Used as a next-state relation so that TLC's workers   *)
(* share the enumeration (initial states are generated by one thread).     *)
(* SW < W narrows the root's child LISTS only: two slots are kept where    *)
(* they play different roles (set elements, dict key / value, dataclass    *)
(* init / non-init field).                                                 *)
(***************************************************************************)
Expand(v, P, W, SW, kinds, dcs) ==
  LET H == {u \in P : Hashable(u)}
      tails == SeqsUpTo(P, SW - 1)   \* SW: width of list / tuple / namedtuple / init-field lists
      hv == Hashable(v)
  IN (IF "list" \in kinds THEN {ListV(<<v>> \o tl) : tl \in tails} ELSE {})
     \cup (IF "tuple" \in kinds THEN {TupleV(<<v>> \o tl) : tl \in tails} ELSE {})
     \cup (IF "nt" \in kinds THEN {NTV(<<v>> \o tl) : tl \in tails} ELSE {})
     \cup (IF "set" \in kinds /\ hv
           THEN {SetV({v} \cup S) : S \in {T \in SubsetsUpTo(H, W - 1) : PyDistinct({v} \cup T)}} ELSE {})
     \cup (IF "fset" \in kinds /\ hv
           THEN {FSetV({v} \cup S) : S \in {T \in SubsetsUpTo(H, W - 1) : PyDistinct({v} \cup T)}} ELSE {})
     \cup (IF "dict" \in kinds /\ hv /\ W >= 2 THEN {DictV(<<v>>, <<b>>) : b \in P} ELSE {})
     \cup (IF "dc" \in kinds
           THEN UNION {{DCV(t, <<v>> \o tl, <<>>) : tl \in tails} : t \in dcs \ {DCSlots}}
                \cup (IF W >= 2 THEN UNION {{DCV(t, <<v>>, <<b>>) : b \in P} : t \in dcs \ {DCSlots}} ELSE {})
                \cup (IF DCSlots \in dcs THEN {DCV(DCSlots, <<v>>, <<>>)} ELSE {})
           ELSE {})
=============================================================================
