------------------------------ MODULE ValueHash ------------------------------
(***************************************************************************)
(* C16: what redun hashes when it hashes a value (redun/value.py).         *)
(*                                                                         *)
(* TypeRegistry.get_hash(v) is sha(tag + pickle(v)).  pickle writes a set  *)
(* or frozenset in ITERATION order, and the iteration order of a hash      *)
(* table is a function of the interpreter's hash seed (str / bytes keys)   *)
(* and of the insertion history (colliding keys).  That is exactly the     *)
(* nondeterminism modelled here: an ORDERING of a value tree fixes, for    *)
(* every set / frozenset node, the sequence in which its elements are      *)
(* written.  Ser(o, top) is the serialisation of an ordered tree; the law  *)
(* is                                                                      *)
(*        Ser is the same for all orderings of the same value.             *)
(*                                                                         *)
(* As built (value.py, class Set): only a `set` that IS the hashed value   *)
(* (top = TRUE) is sorted before pickling; frozensets and sets below the   *)
(* top level are pickled as they iterate.  Named deviations = position     *)
(* classes of the unstable nodes:                                          *)
(*     "frozenset-toplevel"       the value itself is a frozenset          *)
(*     "frozenset-nested"         a frozenset inside any container         *)
(*     "set-nested-in-container"  a set inside any container               *)
(*                                                                         *)
(* Two seams hash a value: TypeRegistry.get_hash(v) (argument hashing,     *)
(* cache keys) and RedunBackendDb.record_value(v) (the hash a result or an  *)
(* argument is STORED under: Value row, CallNode.value_hash,                *)
(* Argument.value_hash, hence call hashes).  The contract makes them one    *)
(* function of the value: the recorded hash IS the value hash, and the law  *)
(* above holds for both.  ValueHash_Trace.tla judges both observations.     *)
(*                                                                         *)
(* Leaf sorts by id: 0..99 small non-negative ints (hash(i) = i, seed      *)
(* independent), 100..199 str, 200.. other scalars.  A table of ints whose *)
(* slots (i mod table size) are pairwise distinct iterates in slot order   *)
(* whatever the seed and the insertion order: such a node is STABLE and is *)
(* no deviation.  (CPython: 8 slots up to 4 elements, 32 up to 18.)        *)
(***************************************************************************)
EXTENDS Values

StrBase == 100
OtherBase == 200
IsIntLeaf(n) == n.k = "leaf" /\ n.t < StrBase
IsStrLeaf(n) == n.k = "leaf" /\ n.t >= StrBase /\ n.t < OtherBase

TableSize(n) == IF n <= 4 THEN 8 ELSE IF n <= 18 THEN 32 ELSE 0
IntStable(X) ==
  /\ \A e \in X : IsIntLeaf(e)
  /\ TableSize(Cardinality(X)) > 0
  /\ \A a, b \in X : a # b => a.t % TableSize(Cardinality(X)) # b.t % TableSize(Cardinality(X))
Unstable(X) == Cardinality(X) >= 2 /\ ~IntStable(X)

(***************************************************************************)
(* sorted(): a total order exists among leaves of one sort and among       *)
(* tuples of such leaves (lexicographic).  Frozensets are only partially   *)
(* ordered (subset), so sorted() of frozensets depends on the input order. *)
(***************************************************************************)
SortKey(e) == IF e.k = "leaf" THEN <<e.t>> ELSE [i \in 1..Len(e.x) |-> e.x[i].t]
FlatSort(e, P(_)) == (e.k = "leaf" /\ P(e)) \/ (e.k = "tuple" /\ \A i \in 1..Len(e.x) : P(e.x[i]))
TotallyOrdered(X) ==
  /\ (\A e \in X : e.k = "leaf") \/ (\A e \in X : e.k = "tuple")
  /\ (\A e \in X : FlatSort(e, IsIntLeaf)) \/ (\A e \in X : FlatSort(e, IsStrLeaf))
AllFrozensets(X) == \A e \in X : e.k = "fset"

RECURSIVE LexLess(_, _)
LexLess(a, b) ==
  IF a = <<>> THEN b # <<>>
  ELSE IF b = <<>> THEN FALSE
  ELSE IF Head(a) # Head(b) THEN Head(a) < Head(b)
  ELSE LexLess(Tail(a), Tail(b))

\* a set hashed at top level must be sortable at all (else get_hash raises TypeError)
RECURSIVE HashWF(_, _)
HashWF(v, top) ==
  /\ (v.k = "set" /\ top /\ Cardinality(v.x) >= 2) => (TotallyOrdered(v.x) \/ AllFrozensets(v.x))
  /\ LET cs == ChildSeq(v) IN \A i \in 1..Len(cs) : HashWF(cs[i], FALSE)
  /\ v.k = "fset" => \A c \in v.x : HashWF(c, FALSE)

(***************************************************************************)
(* Orderings(v): all ordered trees of v (set / fset children as sequences).*)
(***************************************************************************)
RECURSIVE SeqProd(_)
SeqProd(ss) == IF ss = <<>> THEN {<<>>}
               ELSE {<<h>> \o t : h \in Head(ss), t \in SeqProd(Tail(ss))}

SlotOrder(X) == LET m == TableSize(Cardinality(X))
                IN SetToSortSeq(X, LAMBDA a, b : a.t % m < b.t % m)

RECURSIVE Orderings(_)
Orderings(v) ==
  CASE v.k \in {"leaf", "oleaf", "error"} -> {v}
    [] v.k \in {"set", "fset"} ->
         LET orders == IF Cardinality(v.x) <= 1 THEN {SetToSeq(v.x)}
                       ELSE IF IntStable(v.x) THEN {SlotOrder(v.x)}
                       ELSE SetToSeqs(v.x)
         IN UNION {{[v EXCEPT !.x = cs] : cs \in SeqProd([i \in 1..Len(s) |-> Orderings(s[i])])} : s \in orders}
    [] OTHER -> {[v EXCEPT !.x = a, !.y = b] :
                   a \in SeqProd([i \in 1..Len(v.x) |-> Orderings(v.x[i])]),
                   b \in SeqProd([i \in 1..Len(v.y) |-> Orderings(v.y[i])])}

\* the value an ordered tree is an ordering of
RECURSIVE Forget(_)
Forget(o) ==
  CASE o.k \in {"leaf", "oleaf", "error"} -> o
    [] o.k \in {"set", "fset"} -> [o EXCEPT !.x = {Forget(o.x[i]) : i \in 1..Len(o.x)}]
    [] OTHER -> [o EXCEPT !.x = [i \in 1..Len(o.x) |-> Forget(o.x[i])],
                          !.y = [i \in 1..Len(o.y) |-> Forget(o.y[i])]]

(***************************************************************************)
(* Ser(o, top): token sequence of an ordered tree, as built.               *)
(***************************************************************************)
SortedSeq(s) == \* sorted(set) of Set.get_hash, when a total order exists; else the input order
  IF TotallyOrdered({Forget(s[i]) : i \in 1..Len(s)})
  THEN SortSeq(s, LAMBDA a, b : LexLess(SortKey(a), SortKey(b)))
  ELSE s

RECURSIVE Ser(_, _)
SerSeq(s) == FlattenSeq([i \in 1..Len(s) |-> Ser(s[i], FALSE)])
Ser(o, top) ==
  CASE o.k = "leaf" -> <<o.t>>
    [] o.k = "oleaf" -> <<-30, o.y[1], o.t>>
    [] o.k = "list" -> <<-1>> \o SerSeq(o.x) \o <<-2>>
    [] o.k = "tuple" -> <<-3>> \o SerSeq(o.x) \o <<-4>>
    [] o.k = "nt" -> <<-13, o.t>> \o SerSeq(o.x) \o <<-14>>
    [] o.k = "set" -> IF top THEN <<-20>> \o SerSeq(SortedSeq(o.x)) \o <<-21>>     \* Set.get_hash
                      ELSE <<-5>> \o SerSeq(o.x) \o <<-6>>
    [] o.k = "fset" -> <<-7>> \o SerSeq(o.x) \o <<-8>>
    [] o.k = "dict" -> <<-9>> \o FlattenSeq([i \in 1..Len(o.x) |-> Ser(o.x[i], FALSE) \o Ser(o.y[i], FALSE)]) \o <<-10>>
    [] o.k = "dc" -> <<-11, o.t>> \o SerSeq(o.x) \o <<-15>> \o SerSeq(o.y) \o <<-12>>
    [] o.k = "error" -> <<-99>>

\* all serialisations of a value, over every ordering; the law (C16): there is exactly one
Sers(v) == {Ser(o, TRUE) : o \in Orderings(v)}
SerIndependent(v) == Cardinality(Sers(v)) = 1

(***************************************************************************)
(* Deviation classes of a value: position classes of its unstable nodes.   *)
(***************************************************************************)
DevFsetTop == "frozenset-toplevel"
DevFsetNested == "frozenset-nested"
DevSetNested == "set-nested-in-container"

RECURSIVE DevClasses(_, _)
DevClasses(v, top) ==
  (IF v.k = "fset" /\ Unstable(v.x) THEN {IF top THEN DevFsetTop ELSE DevFsetNested} ELSE {})
  \cup (IF v.k = "set" /\ ~top /\ Unstable(v.x) THEN {DevSetNested} ELSE {})
  \cup (IF v.k = "set" /\ top /\ Cardinality(v.x) >= 2 /\ ~TotallyOrdered(v.x) THEN {DevFsetNested} ELSE {})
  \cup (IF v.k \in {"set", "fset"} THEN UNION {DevClasses(c, FALSE) : c \in v.x}
        ELSE LET cs == ChildSeq(v) IN UNION {DevClasses(cs[i], FALSE) : i \in 1..Len(cs)})

\* the equivalence "same serialisation <=> same hash" is exact unless sorted() ran on a partial order
ExactSer(v) == ~(v.k = "set" /\ Cardinality(v.x) >= 2 /\ ~TotallyOrdered(v.x))
=============================================================================
