----------------------------- MODULE Values_Gen -----------------------------
(***************************************************************************)
(* C19: the laws of nested-value traversal checked on EVERY tree of the    *)
(* bounded universe, and the generator for the spec -> code replay: one    *)
(* state per tree; with EmitOn every tree is printed once together with    *)
(* what the specification expects from the implementation:                 *)
(*   v  the tree            l  the leaves in iterator order                *)
(*   m  MapNested(EmitF, v) (EmitF = rotation of the leaf ids, injective)  *)
(*   c  MapNested(ConstF, v) (everything to leaf 1: sets / dict keys merge)*)
(*   d  deviation classes of the as-built mapper on the traversal of v     *)
(***************************************************************************)
EXTENDS Values, Json

CONSTANTS NLeaf,      \* leaf ids 1..NLeaf
          MaxDepth,   \* a leaf has depth 1
          Width,      \* child slots per container
          Kinds,      \* container kinds enumerated
          DCs,        \* dataclass flavours enumerated
          TopKinds,   \* kinds / flavours of the ROOT of the deepest trees (= Kinds / DCs for the whole
          TopDCs,     \* universe; a subset to split a large universe over several TLC runs)
          RootSeqWidth, \* width of the child lists of those roots (= Width for the whole universe)
          OClasses,   \* opaque-leaf classes enumerated at the leaf level
          AllFns,     \* quantify the laws over all functions on the leaf ids (else representatives)
          EmitOn

LeafIds == 1..NLeaf
L0 == {Leaf(i) : i \in LeafIds} \cup {OLeaf(1, c) : c \in OClasses}

RECURSIVE U(_)
U(d) == IF d <= 1 THEN L0 ELSE Grow(U(d - 1), L0, Width, Kinds, DCs)
\* the universe is U(MaxDepth): its part of depth < MaxDepth are the initial states, every tree of
\* depth MaxDepth is reached in one step from its first child (Expand)
Inner == U(MaxDepth - 1)

VARIABLE v
Init == v \in Inner \cup (IF MaxDepth = 2 THEN Rootless(L0, TopKinds) ELSE {})
Next == Level(v) < MaxDepth /\ v' \in Expand(v, Inner, Width, RootSeqWidth, TopKinds, TopDCs)
Spec == Init /\ [][Next]_v

Perms == {f \in [LeafIds -> LeafIds] : \A a, b \in LeafIds : a # b => f[a] # f[b]}
Shift == [i \in LeafIds |-> i + NLeaf]
EmitF == [i \in LeafIds |-> (i % NLeaf) + 1]
Swap12 == [i \in LeafIds |-> IF i = 1 THEN 2 ELSE IF i = 2 THEN 1 ELSE i]
ConstF == [i \in LeafIds |-> 1]
Merge12 == [i \in LeafIds |-> IF i = 2 THEN 1 ELSE i]
\* AllFns = TRUE: every injective / every function on the leaf ids; FALSE: representatives
InjFns == IF AllFns THEN Perms \cup {Shift} ELSE {EmitF, Swap12, Shift}
AnyFns == IF AllFns THEN [LeafIds -> LeafIds] ELSE {ConstF, Merge12, EmitF}

(***************************************************************************)
(* The laws (C19).                                                         *)
(***************************************************************************)
\* same types, same shape
ShapeLawF(m) == Shape(m) = Shape(v)
ShapeLaw == \A f \in InjFns : ShapeLawF(MapNested(f, v))
\* the mapper calls the leaf function on exactly the leaves the iterator yields
VisitLaw == /\ ToBag(MapVisits(v)) = Leaves(v)
            /\ ToBag(IterLeaves(v)) = Leaves(v)
\* every leaf is replaced by its image
LeafLawF(f, m) == Leaves(m) = BagMap(f, Leaves(v))
LeafLaw == \A f \in InjFns : LeafLawF(f, MapNested(f, v))
\* for injective f the mapping is nothing but a relabelling of the tree
RelabelLawF(f, m) == m = Relabel(f, v)
RelabelLaw == \A f \in InjFns : RelabelLawF(f, MapNested(f, v))
\* well-formedness (hashable set elements / dict keys, distinct keys) is preserved by ANY f,
\* and a non-injective f can only lose leaves, never invent them
WFLawF(m) == WellFormed(m) /\ BagCardinality(Leaves(m)) <= BagCardinality(Leaves(v))
WFLaw == /\ WellFormed(v) /\ Level(v) <= MaxDepth
         /\ \A f \in AnyFns : WFLawF(MapNested(f, v))
\* the as-built mapper keeps the shape law except through its named deviations
AsBuiltShapeUnlessDev == \A f \in InjFns : Devs(v) # {} \/ Shape(MapNestedAsBuilt(f, v)) = Shape(v)
AsBuiltDevRaises == \A f \in InjFns : Devs(v) # {} => MapNestedAsBuilt(f, v) = ErrV

\* all of the above in one pass (MapNested evaluated once per f): what the large runs check
AllLaws ==
  LET sv == Shape(v)
      lv == Leaves(v)
      nl == BagCardinality(lv)
  IN /\ ToBag(MapVisits(v)) = lv /\ ToBag(IterLeaves(v)) = lv
     /\ WellFormed(v) /\ Level(v) <= MaxDepth
     /\ \A f \in InjFns : LET m == MapNested(f, v)
                          IN /\ Shape(m) = sv
                             /\ Leaves(m) = BagMap(f, lv)
                             /\ m = Relabel(f, v)
                             /\ WellFormed(m)
     /\ \A f \in AnyFns \ InjFns : LET m == MapNested(f, v)
                                    IN WellFormed(m) /\ BagCardinality(Leaves(m)) <= nl
     /\ LET devs == Devs(v)
            ab == MapNestedAsBuilt(EmitF, v)
        IN (devs # {} => ab = ErrV) /\ (devs = {} => Shape(ab) = sv)

\* model-level controls (each MUST be violated)
AsBuiltShapeStrict == \A f \in InjFns : Shape(MapNestedAsBuilt(f, v)) = Shape(v)
ShapeLawAnyF == \A f \in AnyFns : Shape(MapNested(f, v)) = Shape(v)

Emit == EmitOn =>
  PrintT("TREE " \o ToJson([v |-> v, l |-> IterLeaves(v), m |-> MapNested(EmitF, v),
                            c |-> MapNested(ConstF, v), d |-> SetToSeq(Devs(v))]))
=============================================================================
