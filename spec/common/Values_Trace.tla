---------------------------- MODULE Values_Trace ----------------------------
(***************************************************************************)
(* C19, code -> spec.  Recorded applications of the REAL map_nested_value  *)
(* / iter_nested_value (and of Scheduler.run, kind "sched") are judged by  *)
(* TLC evaluating the operators of Values.tla.  A case is                  *)
(*   [v  |-> input tree,   f |-> leaf function as the sequence f[1..n],    *)
(*    it |-> leaf-like nodes yielded by the real iterator,                 *)
(*    vis|-> leaf-like nodes the real mapper passed to the leaf function,  *)
(*    r  |-> tree of the real result, or the error node]                   *)
(* One state per case, one VERDICT line per case:                          *)
(*   <<i, iterOK, visitOK, resultOK (dict order forgotten), resultOrdered, *)
(*     shapeOK, asBuiltOK, deviation classes on the traversal of v>>       *)
(***************************************************************************)
EXTENDS Values, Json, IOUtils

Cases == JsonDeserialize(IOEnv.TRACE_FILE)

\* Chains: the cases are walked in `Chains` independent strides so that TLC's workers share them
CONSTANT Chains
VARIABLE i
Init == i \in 1..Chains /\ i <= Len(Cases)
Next == i + Chains <= Len(Cases) /\ i' = i + Chains
Spec == Init /\ [][Next]_i

B(b) == IF b THEN 1 ELSE 0

Verdict(c) ==
  LET V == FromJ(c.v)
      f == c.f
      R == FromJ(c.r)
      want == MapNested(f, V)
      raised == R.k = "error"
      it == [j \in 1..Len(c.it) |-> FromJ(c.it[j])]
      vis == [j \in 1..Len(c.vis) |-> FromJ(c.vis[j])]
      devs == Devs(V)
      L == Leaves(V)
  IN <<B(ToBag(it) = L),
       B(raised \/ ToBag(vis) = L),
       B(Unord(R) = Unord(want)),
       B(R = want),
       B(raised \/ ~Injective(f) \/ Shape(R) = Shape(V)),
       B(raised <=> devs # {}),
       SetToSeq(devs)>>

Emit == PrintT("VERDICT " \o ToJson(<<i>> \o Verdict(Cases[i])))
WellFormedInputs == WellFormed(FromJ(Cases[i].v))
=============================================================================
