-------------------------- MODULE ValueHash_Trace --------------------------
(***************************************************************************)
(* C16, code -> spec.  A record per value:                                  *)
(*   [id, obs |-> sequence of [seed, ord, h, r, g, c, o]]                   *)
(* one observation per (child interpreter hash seed, insertion order):      *)
(*   h  the hash string returned by the REAL TypeRegistry.get_hash          *)
(*   r  the hash the REAL backend RECORDED the same object under            *)
(*      (RedunBackendDb.record_value; for ord >= 100: CallNode.value_hash / *)
(*      Argument.value_hash read back after a real Scheduler run in which   *)
(*      the value was a task result / a task argument)                      *)
(*   g  1 iff backend.get_value(r) returned an equal value                  *)
(*   c  call hash of the job that produced the value ("" if none)           *)
(*   o  the ordered tree of the object as it iterated in that interpreter   *)
(* The law "depends only on the value" is judged for h and, as a second      *)
(* observation of the same law, for r; the recorded hash must BE the value   *)
(* hash (agree), since records are looked up by it.  TLC decides            *)
(*   nh / nr  number of distinct value / recorded hashes  (contract: 1)      *)
(*   same     all observations are orderings of one abstract value          *)
(*   fwd(R)   equal serialisation (Ser of ValueHash.tla) => equal h (r)     *)
(*   bwd      equal hash => equal serialisation (where Ser is exact)        *)
(*   stable   int tables iterate in slot order (the IntStable assumption)   *)
(*   agree    r = h in every observation                                    *)
(*   back     g = 1 in every observation                                    *)
(*   nc       number of distinct call hashes                (contract: <= 1) *)
(*   classes  deviation classes of the value: the only licence for nh > 1   *)
(* VERDICT <<index, id, nh, same, fwd, bwd, stable, wf, classes,            *)
(*           nr, fwdR, agree, back, nc>>                                    *)
(***************************************************************************)
EXTENDS ValueHash, Json, IOUtils

Vals == JsonDeserialize(IOEnv.TRACE_FILE)
CONSTANT Chains
VARIABLE i
Init == i \in 1..Chains /\ i <= Len(Vals)
Next == i + Chains <= Len(Vals) /\ i' = i + Chains
Spec == Init /\ [][Next]_i

B(b) == IF b THEN 1 ELSE 0

\* JSON -> ordered tree (set / fset children stay sequences, in iteration order)
RECURSIVE FromJOrd(_)
FromJOrd(j) ==
  IF j.k \in {"leaf", "oleaf", "error"} THEN N(j.k, j.t, <<>>, j.y)
  ELSE N(j.k, j.t, [n \in 1..Len(j.x) |-> FromJOrd(j.x[n])], [n \in 1..Len(j.y) |-> FromJOrd(j.y[n])])

RECURSIVE StableOrders(_)
StableOrders(o) ==
  /\ (o.k \in {"set", "fset"} /\ Len(o.x) >= 2 /\ IntStable({o.x[n] : n \in 1..Len(o.x)}))
        => o.x = SlotOrder({o.x[n] : n \in 1..Len(o.x)})
  /\ \A n \in 1..Len(o.x) : StableOrders(o.x[n])
  /\ (o.k \notin {"leaf", "oleaf"}) => \A n \in 1..Len(o.y) : StableOrders(o.y[n])

Verdict(r) ==
  LET n == Len(r.obs)
      os == [j \in 1..n |-> FromJOrd(r.obs[j].o)]
      V == Forget(os[1])
      sers == [j \in 1..n |-> Ser(os[j], TRUE)]
      hs == [j \in 1..n |-> r.obs[j].h]
      rs == [j \in 1..n |-> r.obs[j].r]
  IN <<r.id,
       Cardinality({hs[j] : j \in 1..n}),
       B(\A j \in 1..n : Forget(os[j]) = V),
       B(\A j, k \in 1..n : sers[j] = sers[k] => hs[j] = hs[k]),
       B(ExactSer(V) => \A j, k \in 1..n : hs[j] = hs[k] => sers[j] = sers[k]),
       B(\A j \in 1..n : StableOrders(os[j])),
       B(WellFormed(V) /\ HashWF(V, TRUE)),
       SetToSeq(DevClasses(V, TRUE)),
       Cardinality({rs[j] : j \in 1..n}),
       B(\A j, k \in 1..n : sers[j] = sers[k] => rs[j] = rs[k]),
       B(\A j \in 1..n : rs[j] = hs[j]),
       B(\A j \in 1..n : r.obs[j].g = 1),
       Cardinality({r.obs[j].c : j \in 1..n} \ {""})>>

Emit == PrintT("VERDICT " \o ToJson(<<i>> \o Verdict(Vals[i])))
=============================================================================
