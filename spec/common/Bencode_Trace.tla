---------------------------- MODULE Bencode_Trace ----------------------------
(* Code -> spec for C14: (input, output) pairs recorded from redun.bcoding are validated by TLC
   evaluating the operators of Bencode.tla.  A case is [x, enc, dec, y, ency]: the structure (tagged
   JSON), the bytes bencode returned (<<-1>> if it raised), what bdecode returned for those bytes
   (tagged; k = "err" if it raised or there was nothing to decode), a twin structure (x with one
   place changed) and its recorded encoding.  Thousands of cases per run; one state per case (two
   levels, blocks of 64, so that the cases are spread over the workers); one line
   "VERDICT [i, encOK, decOK, lawsOK, pairOK, encyOK]" per case. *)
EXTENDS Bencode, Json, IOUtils
Cases == JsonDeserialize(IOEnv.TRACE_FILE)
N == Len(Cases)
BlockSize == 64
VARIABLES blk, i
vars == <<blk, i>>
Init == blk = 0 /\ i = 0
Next == \/ blk = 0 /\ blk' \in 1..((N + BlockSize - 1) \div BlockSize) /\ i' = 0
        \/ blk > 0 /\ i = 0 /\ blk' = blk
           /\ i' \in {j \in ((blk - 1) * BlockSize + 1)..(blk * BlockSize) : j <= N}
Spec == Init /\ [][Next]_vars
B(b) == IF b THEN 1 ELSE 0
Verdict ==
  i > 0 =>
    LET c == Cases[i]
        ex == Enc(c.x)
        encOK == ex = c.enc
        decOK == IF c.enc = Err THEN TRUE
                 ELSE /\ ToJson(Decode(c.enc)) = ToJson(c.dec)
                      /\ ToJson(c.dec) = ToJson(PyCanon(c.x))
        lawsOK == RejectOK(c.x) /\ RoundTripOK(c.x) /\ ClassOK(c.x)
    IN PrintT("VERDICT " \o ToJson(<<i, B(encOK), B(decOK), B(lawsOK), B(PairOK(c.x, c.y)),
                                     B(Enc(c.y) = c.ency)>>))
=============================================================================
