--------------------------- MODULE ValueHash_Gen ---------------------------
(***************************************************************************)
(* C16 on a bounded universe of value trees (ValueHash.tla): one state per *)
(* tree; the law "the serialisation does not depend on the ordering" holds  *)
(* exactly outside the named deviation classes.  With EmitOn every tree is  *)
(* printed with its deviation classes and the number of distinct            *)
(* serialisations, for the spec -> code direction (the driver hashes the    *)
(* real object under several hash seeds and insertion orders).              *)
(***************************************************************************)
EXTENDS ValueHash, Json

CONSTANTS IntIds, StrIds,  \* leaf ids: small ints / strings
          MaxDepth, Width, Kinds, DCs, TopKinds, TopDCs, RootSeqWidth, EmitOn

L0 == {Leaf(i) : i \in IntIds \cup StrIds}
RECURSIVE U(_)
U(d) == IF d <= 1 THEN L0 ELSE Grow(U(d - 1), L0, Width, Kinds, DCs)
Inner == U(MaxDepth - 1)

VARIABLE v
Init == v \in Inner \cup (IF MaxDepth = 2 THEN Rootless(L0, TopKinds) ELSE {})
Next == Level(v) < MaxDepth /\ v' \in Expand(v, Inner, Width, RootSeqWidth, TopKinds, TopDCs)
Spec == Init /\ [][Next]_v

\* values redun can hash at all (a top-level set must be sortable); the others are only stepping
\* stones of the enumeration (nested, they are legal)
OK == HashWF(v, TRUE)
Devs16 == DevClasses(v, TRUE)

(***************************************************************************)
(* Laws.                                                                   *)
(***************************************************************************)
\* C16 as built: independent of the ordering, except through the named deviations ...
IndependentUnlessDev == OK => (Devs16 # {} \/ SerIndependent(v))
\* ... and every value in a deviation class really has two serialisations (the classes are exact)
DevExact == OK => (Devs16 # {} => ~SerIndependent(v))
\* every ordering is an ordering of v
OrderingsSound == \A o \in Orderings(v) : Forget(o) = v
\* a set hashed at top level is stable whatever its (sortable, set-free) elements are
RECURSIVE SetFree(_)
SetFree(u) == u.k \notin {"set", "fset"} /\ LET cs == ChildSeq(u) IN \A i \in 1..Len(cs) : SetFree(cs[i])
TopLevelSetStable == (OK /\ v.k = "set" /\ \A c \in v.x : SetFree(c)) => SerIndependent(v)
\* sets / frozensets of small ints (no slot collision) are stable anywhere, whatever surrounds them
RECURSIVE IntSetsOnly(_)
IntSetsOnly(u) == IF u.k \in {"set", "fset"} THEN \A c \in u.x : IsIntLeaf(c)
                  ELSE LET cs == ChildSeq(u) IN \A i \in 1..Len(cs) : IntSetsOnly(cs[i])
IntOnlyStable == (OK /\ IntSetsOnly(v)) => SerIndependent(v)
\* non-set values never vary
SetFreeStable == (OK /\ SetFree(v)) => SerIndependent(v)

\* all of the above with the serialisations computed once per value: what the large runs check
AllLaws16 ==
  /\ OrderingsSound
  /\ OK => LET ind == SerIndependent(v)
               dev == Devs16 # {}
           IN /\ dev \/ ind
              /\ dev => ~ind
              /\ (v.k = "set" /\ \A c \in v.x : SetFree(c)) => ind
              /\ IntSetsOnly(v) => ind
              /\ SetFree(v) => ind

\* model-level controls: the plain law fails, and it fails through each deviation class
SerIndependentAlways == OK => SerIndependent(v)
NoFsetTop == (OK /\ Devs16 = {DevFsetTop}) => SerIndependent(v)
NoFsetNested == (OK /\ Devs16 = {DevFsetNested}) => SerIndependent(v)
NoSetNested == (OK /\ Devs16 = {DevSetNested}) => SerIndependent(v)

Emit == (EmitOn /\ OK) =>
  PrintT("VAL " \o ToJson([v |-> v, d |-> SetToSeq(Devs16), n |-> Cardinality(Sers(v))]))
=============================================================================
