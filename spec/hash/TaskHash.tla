------------------------------ MODULE TaskHash ------------------------------
(***************************************************************************)
(* C17  Task hashes track code identity.                                   *)
(*                                                                         *)
(* A state is a pair (base definition, edited definition): starting from   *)
(* every base, up to MaxMut fields are edited, one per step, each to every *)
(* other value of its domain ("the code is edited and reloaded").          *)
(* For every pair TLC computes the law's verdict (TaskLaw: the hash must   *)
(* change iff an identity field changed) and the verdict of the pre-image  *)
(* scheme under every subset of the named deviations.                      *)
(*   LawIdeal       without deviations the scheme satisfies the law        *)
(*   AsyncConfined / DropConfined / FlatConfined                           *)
(*                  each deviation on its own breaks the law only inside   *)
(*                  its syntactic class of definitions                     *)
(*   LawUnlessDev   as built, the law fails only inside those classes      *)
(*   LawAsBuilt     (control) is violated                                  *)
(*   Emit           prints every pair for the driver                       *)
(***************************************************************************)
EXTENDS Hashing

CONSTANTS BaseLevel,   \* 1: reduced set of bases, 2: all mode combinations
          MaxMut       \* number of fields edited

Devs == <<"AsyncNoTrim", "OptionsDropIncludes", "FlatConcat">>

Fields == <<"ns", "name", "kind", "nested", "body", "ver", "defopt", "deco", "inc", "ovr", "wrap",
            "winc", "wbody", "part">>
P1 == <<<<"", "p1">>>>
FieldVals(f) ==
  CASE f = "ns" -> {"A", "B"}
    [] f = "name" -> {"f", "g"}
    [] f = "kind" -> {"def", "async"}
    [] f = "nested" -> {0, 1}
    [] f = "body" -> {"b1", "b2"}
    [] f = "ver" -> {0, 1, 2}
    [] f = "defopt" -> {1, 2}
    [] f = "deco" -> {0, 1}
    [] f = "inc" -> {<<>>, <<"i1">>, <<"i2">>, <<"i1", "i2">>, <<"i2", "i1">>, <<"i1", "i1">>, <<"dA">>}
    [] f = "ovr" -> {0, 1, 2}
    [] f = "wrap" -> {0, 1}
    [] f = "winc" -> {"w1", "w2"}
    [] f = "wbody" -> {"wb1", "wb2"}
    [] f = "part" -> {<<>>, P1, <<<<"", "p2">>>>, <<<<"y", "p1">>>>, <<<<"y", "p2">>>>}
Get(t, f) ==
  CASE f = "ns" -> t.ns [] f = "name" -> t.name [] f = "kind" -> t.kind [] f = "nested" -> t.nested
    [] f = "body" -> t.body [] f = "ver" -> t.ver [] f = "defopt" -> t.defopt [] f = "deco" -> t.deco
    [] f = "inc" -> t.inc [] f = "ovr" -> t.ovr [] f = "wrap" -> t.wrap [] f = "winc" -> t.winc
    [] f = "wbody" -> t.wbody [] f = "part" -> t.part
Set(t, f, v) ==
  CASE f = "ns" -> [t EXCEPT !.ns = v] [] f = "name" -> [t EXCEPT !.name = v]
    [] f = "kind" -> [t EXCEPT !.kind = v] [] f = "nested" -> [t EXCEPT !.nested = v]
    [] f = "body" -> [t EXCEPT !.body = v] [] f = "ver" -> [t EXCEPT !.ver = v]
    [] f = "defopt" -> [t EXCEPT !.defopt = v] [] f = "deco" -> [t EXCEPT !.deco = v]
    [] f = "inc" -> [t EXCEPT !.inc = v] [] f = "ovr" -> [t EXCEPT !.ovr = v]
    [] f = "wrap" -> [t EXCEPT !.wrap = v] [] f = "winc" -> [t EXCEPT !.winc = v]
    [] f = "wbody" -> [t EXCEPT !.wbody = v] [] f = "part" -> [t EXCEPT !.part = v]

T(kind, nested, ver, inc, ovr, wrap, part) ==
  [ns |-> "A", name |-> "f", kind |-> kind, nested |-> nested, body |-> "b1", ver |-> ver, defopt |-> 1,
   deco |-> 0, inc |-> inc, ovr |-> ovr, wrap |-> wrap, winc |-> "w1", wbody |-> "wb1", part |-> part]
KindNested == {<<"def", 0>>, <<"async", 0>>, <<"async", 1>>}
IncOvr == {<<<<>>, 0>>, <<<<"i1", "i2">>, 0>>, <<<<"i1", "i2">>, 1>>, <<<<"dA">>, 0>>, <<<<>>, 1>>}
Bases ==
  IF BaseLevel = 1
  THEN {T(kn[1], kn[2], 0, io[1], io[2], 0, <<>>) : kn \in KindNested, io \in IncOvr}
       \cup {T(kn[1], kn[2], 1, io[1], io[2], 0, <<>>) : kn \in {<<"def", 0>>, <<"async", 1>>},
                                                        io \in {<<<<>>, 0>>, <<<<"i1", "i2">>, 1>>}}
       \cup {T(kn[1], kn[2], 0, io[1], io[2], 1, <<>>) : kn \in KindNested, io \in {<<<<>>, 0>>, <<<<"i1", "i2">>, 1>>}}
       \cup {T("def", 0, 0, io[1], io[2], 0, P1) : io \in {<<<<>>, 0>>, <<<<"i1", "i2">>, 1>>}}
  ELSE {T(k, n, v, i, o, w, p) : k \in {"def", "async"}, n \in {0, 1}, v \in {0, 1},
                                  i \in {<<>>, <<"i1", "i2">>, <<"dA">>}, o \in {0, 1}, w \in {0, 1},
                                  p \in {<<>>, P1, <<<<"y", "p1">>>>}}

\* syntactic classes of the deviations
AsyncClass(t) == t.kind = "async" /\ t.ver = 0
DropClass(t) == t.ovr # 0 /\ (t.inc # <<>> \/ t.wrap = 1)
FlatClass(t) == "dA" \in SeqSet(t.inc) \/ t.ovr = 1

Vec(t) == [k \in 1..Len(Fields) |-> Get(t, Fields[k])]

VARIABLES base, cur, last, bs, r
vars == <<base, cur, last, bs, r>>
\* bs: signature of the base (computed once per base); last: index of the last edited field (fields
\* are edited in increasing order, so every set of edits is generated once)
Judge(b, sb, c) == LET sc == TaskSig(c, Devs)
                   IN [law |-> SigLaw(sb, sc), vs |-> SigVs(sb, sc),
                       async |-> AsyncClass(b) \/ AsyncClass(c),
                       drop |-> DropClass(b) \/ DropClass(c),
                       flat |-> FlatClass(b) /\ FlatClass(c),
                       n |-> 0]
Init == /\ base \in Bases /\ cur = base /\ last = 0
        /\ bs = TaskSig(base, Devs) /\ r = Judge(base, TaskSig(base, Devs), base)
Next == /\ r.n < MaxMut
        /\ \E k \in (last + 1)..Len(Fields) :
             /\ \E v \in FieldVals(Fields[k]) \ {Get(cur, Fields[k])} :
                  /\ cur' = Set(cur, Fields[k], v)
                  /\ r' = [Judge(base, bs, Set(cur, Fields[k], v)) EXCEPT !.n = r.n + 1]
             /\ last' = k
        /\ UNCHANGED <<base, bs>>
Spec == Init /\ [][Next]_vars

LawIdeal == r.vs[1] = r.law
AsyncConfined == r.vs[2] # r.law => r.async
DropConfined == r.vs[3] # r.law => r.drop
FlatConfined == r.vs[5] # r.law => r.flat
LawUnlessDev == r.vs[8] # r.law => (r.async \/ r.drop \/ r.flat)
LawAsBuilt == r.vs[8] = r.law
Emit == PrintT("CASE " \o ToJson(<<Vec(base), Vec(cur), r.law, r.vs>>))
ASSUME TagsDistinct
=============================================================================
