------------------------------- MODULE EvalKey -------------------------------
(***************************************************************************)
(* C15  Cache keys separate every distinct call and only those.            *)
(*                                                                         *)
(* A state is (signature + config_args, base call, edited call).  Every    *)
(* signature with at most MaxNamed named parameters (positional-or-keyword *)
(* with trailing defaults, keyword-only with or without default), optional *)
(* *args / **kwargs, every config_args subset of size <= MaxCfg and an     *)
(* optional JobInfo parameter is enumerated; for each, every way of        *)
(* writing a call with at most MaxSup supplied arguments (how many         *)
(* positionally, which by keyword); then up to MaxEdits edits: change one  *)
(* supplied value, permute the keywords, pass a defaulted parameter by     *)
(* keyword with its default value.                                         *)
(*   EditEffect    ties the law (Norm / Canon of Hashing.tla) to the words *)
(*                 of the property: a value edit must change the key iff   *)
(*                 the parameter it binds to is neither a config argument  *)
(*                 nor the JobInfo parameter; the other edits must not     *)
(*   LawIdeal      the transcription without deviations satisfies the law  *)
(*   ZipConfined / DefaultsConfined / VarKwConfined, LawUnlessDev          *)
(*                 each named deviation breaks the law only inside its     *)
(*                 class of signatures; as built, the law holds outside    *)
(*   LawAsBuilt    (control) is violated                                   *)
(***************************************************************************)
EXTENDS Hashing, Integers

CONSTANTS MaxNamed, MaxSup, MaxCfg, MaxEdits, JpLevel

Devs == <<"ZipPastVarargs", "DefaultsByIndex", "VarKwConfig">>

PNames == <<"p1", "p2", "p3">>
KNames == <<"k1", "k2">>
PosSeq(npos, ndef) == [i \in 1..npos |-> [n |-> PNames[i], d |-> IF i > npos - ndef THEN 1 ELSE 0]]
Flags(n) == IF n = 0 THEN {<<>>} ELSE IF n = 1 THEN {<<0>>, <<1>>}
            ELSE {<<0, 0>>, <<0, 1>>, <<1, 0>>, <<1, 1>>}
KoSeq(fl) == [i \in 1..Len(fl) |-> [n |-> KNames[i], d |-> fl[i]]]
Shapes == {[pos |-> PosSeq(np, nd), va |-> va, ko |-> KoSeq(fl), vk |-> vk, cfg |-> <<>>, jp |-> "-"] :
             np \in 0..MaxNamed, nd \in 0..MaxNamed, va \in {0, 1}, fl \in UNION {Flags(n) : n \in 0..2},
             vk \in {0, 1}}
OkShape(s) == /\ Len(s.pos) + Len(s.ko) <= MaxNamed
              /\ Cardinality({i \in 1..Len(s.pos) : s.pos[i].d = 1}) <= Len(s.pos)
              /\ \A i \in 1..Len(s.pos) : s.pos[i].n = PNames[i]
\* PosSeq with nd > np yields all-default sequences more than once: sets remove the duplicates
SubSeqOf(names, S) == PickIdx(names, LAMBDA i : names[i] \in S)
\* JpLevel = 1: a JobInfo parameter only in signatures without **kwargs (keeps the quick universe small)
JpChoices(s) ==
  IF JpLevel = 1 /\ s.vk = 1 THEN {"-"}
  ELSE {"-"} \cup (IF Len(s.pos) > 0 /\ s.pos[Len(s.pos)].d = 1 THEN {s.pos[Len(s.pos)].n} ELSE {})
             \cup (IF Len(s.ko) > 0 /\ s.ko[Len(s.ko)].d = 1 THEN {s.ko[Len(s.ko)].n} ELSE {})
SigsOf(s) == UNION {{[s EXCEPT !.cfg = SubSeqOf(AllNames(s), c), !.jp = j] :
                       c \in {x \in SUBSET SeqSet(AllNames(s)) : Cardinality(x) <= MaxCfg /\ j \notin x}} :
                    j \in JpChoices(s)}
Sigs == UNION {SigsOf(s) : s \in {x \in Shapes : OkShape(x)}}

\* base calls: every way of writing a call, all plain values "1", the JobInfo parameter gets "J1"
Val0(s, n) == IF n = s.jp THEN "J1" ELSE "1"
KwOrder(s) == PosNames(s) \o KoNames(s) \o <<"x1">>
BaseCalls(s) ==
  {[pos |-> [i \in 1..k |-> IF i <= NPos(s) THEN Val0(s, s.pos[i].n) ELSE "1"],
    kw |-> LET names == SubSeqOf(KwOrder(s), K) IN [i \in 1..Len(names) |-> <<names[i], Val0(s, names[i])>>]] :
     k \in 0..MaxSup, K \in SUBSET (NamedParams(s) \cup {"x1"})}
OkCall(s, c) == ValidCall(s, c) /\ Len(c.pos) + Len(c.kw) <= MaxSup

Other(v) == IF v = "1" THEN "2" ELSE IF v = "J1" THEN "J2" ELSE IF v = "J2" THEN "J1" ELSE "1"
\* the parameter a supplied value binds to under Python's rules
PosParam(s, i) == IF i <= NPos(s) THEN s.pos[i].n ELSE "va"
KwParam(s, n) == IF n \in NamedParams(s) THEN n ELSE "vk"
Edits(s, c) ==
  {[kind |-> "val", param |-> PosParam(s, i), call |-> [c EXCEPT !.pos[i] = Other(@)]] : i \in 1..Len(c.pos)}
  \cup {[kind |-> "val", param |-> KwParam(s, c.kw[j][1]), call |-> [c EXCEPT !.kw[j] = <<@[1], Other(@[2])>>]] :
          j \in 1..Len(c.kw)}
  \cup (IF Len(c.kw) >= 2
        THEN {[kind |-> "perm", param |-> "-", call |-> [c EXCEPT !.kw = Tail(@) \o <<Head(@)>>]]} ELSE {})
  \cup {[kind |-> "adddef", param |-> n, call |-> [c EXCEPT !.kw = Append(@, <<n, DefaultVal(s, n)>>)]] :
          n \in {m \in NamedParams(s) \ KwNames(c) :
                   /\ HasDefault(s, m)
                   /\ \A i \in 1..NPos(s) : s.pos[i].n = m => i > Len(c.pos)}}

\* syntactic classes of the deviations
ZipClass(s) == s.va = 1 /\ (Len(s.ko) > 0 \/ s.vk = 1)
               /\ Cfg(s) \cap ({"va", "vk"} \cup SeqSet(KoNames(s))) # {}
DefaultsClass(s) == s.va = 1 /\ \E i \in 1..Len(s.ko) : s.ko[i].d = 1
VarKwClass(s) == "vk" \in Cfg(s)

SigVec(s) == <<[i \in 1..Len(s.pos) |-> s.pos[i].d], s.va, [i \in 1..Len(s.ko) |-> s.ko[i].d], s.vk, s.cfg, s.jp>>
CallVec(c) == <<c.pos, c.kw>>

VARIABLES sig, c0, cur, bs, r
vars == <<sig, c0, cur, bs, r>>
Judge(s, sb, c, n, ed) ==
  LET sc == EvalSig(s, c, Devs)
  IN [law |-> SigLaw(sb, sc), vs |-> SigVs(sb, sc), n |-> n, ed |-> ed]
NoEdit == [kind |-> "none", param |-> "-"]
NoCall == [pos |-> <<>>, kw |-> <<>>]
\* one initial state per signature (r.n = -1: no call yet); its successors are the base calls
\* (r.n = 0), theirs the edited calls -- so that TLC's workers share the work
Init == /\ sig \in Sigs /\ c0 = NoCall /\ cur = NoCall /\ bs = <<>>
        /\ r = [law |-> "s", vs |-> [k \in 1..Pow2(Len(Devs)) |-> "s"], n |-> -1, ed |-> NoEdit]
Next == /\ \/ /\ r.n = -1
              /\ \E c \in {x \in BaseCalls(sig) : OkCall(sig, x)} :
                   LET sb == EvalSig(sig, c, Devs)
                   IN c0' = c /\ cur' = c /\ bs' = sb /\ r' = Judge(sig, sb, c, 0, NoEdit)
           \/ /\ r.n >= 0 /\ r.n < MaxEdits
              /\ \E e \in Edits(sig, cur) :
                   /\ Len(e.call.pos) + Len(e.call.kw) <= MaxSup + 1
                   /\ cur' = e.call
                   /\ r' = Judge(sig, bs, e.call, r.n + 1, [kind |-> e.kind, param |-> e.param])
              /\ UNCHANGED <<c0, bs>>
        /\ sig' = sig
Spec == Init /\ [][Next]_vars

Specified == r.law # "u"
EditEffect ==
  r.n = 1 => r.law = (IF r.ed.kind = "val" /\ r.ed.param \notin Cfg(sig) /\ r.ed.param # sig.jp
                      THEN "d" ELSE "s")
LawIdeal == r.vs[1] = r.law
ZipConfined == r.vs[2] # r.law => ZipClass(sig)
DefaultsConfined == r.vs[3] # r.law => DefaultsClass(sig)
VarKwConfined == r.vs[5] # r.law => VarKwClass(sig)
LawUnlessDev == r.vs[8] # r.law => (ZipClass(sig) \/ DefaultsClass(sig) \/ VarKwClass(sig))
LawAsBuilt == r.vs[8] = r.law
\* "the evaluation key changes whenever the task hash changes"
TaskHashSeparates == r.n >= 0 => ~Same(EvalPre("T1", sig, cur, SeqSet(Devs)), EvalPre("T2", sig, cur, SeqSet(Devs)))
Emit == r.n >= 0 => PrintT("CASE " \o ToJson(<<SigVec(sig), CallVec(c0), CallVec(cur), r.law, r.vs>>))
ASSUME TagsDistinct
=============================================================================
