------------------------------ MODULE ExprLife ------------------------------
(* C18 part B: life cycle of one expression (see ExprHash.tla). *)
EXTENDS ExprUniverse

VARIABLES e, st, nops, hist
lvars == <<e, st, nops, hist>>
Fresh(x) == [hash |-> ToJson(ExprPre(x, AllDevs)), den |-> ToJson(DenoteOrd(x)), call |-> "none", ups |-> "initial"]
Ops == {"hash", "eval", "pickle"}
Apply(s, op) ==
  CASE op = "hash" -> s
    [] op = "eval" -> [s EXCEPT !.call = IF e.kind \in {"task", "sched"} THEN "set" ELSE @,
                                !.ups = "derived"]
    \* __getstate__ / __setstate__: only the constructor fields travel; the hash is recomputed
    [] op = "pickle" -> Fresh(e)
Obs(s) == <<s.call, s.ups>>
LInit == e \in {USeq[k] : k \in 1..N} /\ st = Fresh(e) /\ nops = 0 /\ hist = <<>>
LNext == /\ nops < MaxOps
         /\ \E op \in Ops : st' = Apply(st, op) /\ hist' = Append(hist, <<op, Obs(Apply(st, op))>>)
         /\ nops' = nops + 1 /\ e' = e
LSpec == LInit /\ [][LNext]_lvars
HashStable == st.hash = ToJson(ExprPre(e, AllDevs)) /\ st.den = ToJson(DenoteOrd(e))
RoundTripOK == (hist # <<>> /\ hist[Len(hist)][1] = "pickle") => (st.call = "none" /\ st.ups = "initial")
LEmit == (nops = MaxOps) => PrintT("BEH " \o ToJson(<<e, hist>>))
=============================================================================
