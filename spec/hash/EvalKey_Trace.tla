---------------------------- MODULE EvalKey_Trace ----------------------------
(* Code -> spec for C15.  A recording is one generated task (signature, config_args, JobInfo
   parameter; up to 4 named parameters) with a group of calls that were hashed on the real code
   (get_arg_defaults + hash_args_eval) and the observed equality classes of the evaluation keys,
   plus the leading type tags seen in the pre-images of each record kind.  Every pair of calls is
   judged by EvalLaw; one VERDICT line per group:
     <<tid, #pairs, violating pairs, #calls that do not bind (must be 0), wrong tags>>
   a violating pair being <<a, b, observed, law, verdicts over the deviation subsets>>. *)
EXTENDS Hashing, IOUtils
Groups == JsonDeserialize(IOEnv.TRACE_FILE)
Devs == <<"ZipPastVarargs", "DefaultsByIndex", "VarKwConfig">>
VARIABLES tid, ph, grp
Pairs(g) == {p \in (1..Len(g.calls)) \X (1..Len(g.calls)) : p[1] < p[2]}
Report(g) ==
  LET lg == [k \in 1..Len(g.calls) |-> EvalLight(g.sig, g.calls[k])]
      obs(p) == IF g.cls[p[1]] = g.cls[p[2]] THEN "s" ELSE "d"
      law(p) == SigLaw(lg[p[1]], lg[p[2]])
  IN {<<p[1], p[2], obs(p), law(p),
        SigVs(EvalSig(g.sig, g.calls[p[1]], Devs), EvalSig(g.sig, g.calls[p[2]], Devs))>> :
        p \in {q \in Pairs(g) : law(q) # "u" /\ law(q) # obs(q)}}
Invalid(g) == Cardinality({k \in 1..Len(g.calls) : ~ValidCall(g.sig, g.calls[k])})
WrongTags(g) == {g.tags[k] : k \in {i \in 1..Len(g.tags) : KindTag(g.tags[i][1]) # g.tags[i][2]}}
\* see ExprHash_Trace.tla for the shape of the state machine
TInit == tid = 0 /\ ph = 0 /\ grp = <<>>
TNext == \/ /\ tid = 0
            /\ LET all == Groups IN \E t \in 1..Len(all) : tid' = t /\ grp' = all[t]
            /\ ph' = 0
         \/ /\ tid > 0 /\ ph = 0 /\ ph' = 1 /\ tid' = tid /\ grp' = <<>>
            /\ PrintT("VERDICT " \o ToJson(<<tid, Cardinality(Pairs(grp)), Report(grp), Invalid(grp),
                                             WrongTags(grp)>>))
TSpec == TInit /\ [][TNext]_<<tid, ph, grp>>
=============================================================================
