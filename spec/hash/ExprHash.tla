------------------------------ MODULE ExprHash ------------------------------
(***************************************************************************)
(* C18  Expression identity matches the call it denotes.                   *)
(*                                                                         *)
(* Part A (Spec): every pair of expressions of the bounded universe U.     *)
(*   LawIdeal    with no deviation the hash separates exactly the calls    *)
(*               (ExprLaw): proves the law is satisfiable by the pre-image *)
(*               scheme of Hashing.tla.                                    *)
(*   LawAsBuilt  the same with the as-built deviations: violated           *)
(*               (model-level control), but only through scheduler         *)
(*               expressions (LawUnlessSched).                             *)
(*   Emit        prints every item and every pair with the law's verdict   *)
(*               and the verdict string over all deviation subsets; the    *)
(*               driver builds the real expressions and compares.          *)
(* Part B (LSpec): life cycle of one expression: get_hash / evaluate       *)
(*   (the scheduler fills the per-run bookkeeping) / pickle round trip.    *)
(*   RoundTripOK: hash, arguments, options, exports never change; after a  *)
(*   round trip the bookkeeping is back in its initial state.              *)
(***************************************************************************)
EXTENDS ExprUniverse

VARIABLES i, j, r
vars == <<i, j, r>>
\* everything TLC has to say about the pair
Judge(a, b) == [law |-> SigLaw(Sigs[a], Sigs[b]), vs |-> SigVs(Sigs[a], Sigs[b]),
                sched |-> Sched[a] /\ Sched[b]]
\* one initial state per item (the pair <<i, i>>); its successors are the pairs <<i, j>>, j > i, so
\* that the pairs are evaluated by TLC's workers in parallel
Init == i \in 1..N /\ j = i /\ r = Judge(i, i)
Next == j = i /\ j' \in (i + 1)..N /\ i' = i /\ r' = Judge(i, j')
Spec == Init /\ [][Next]_vars

Agrees(v) == r.law = "u" \/ v = r.law
LawIdeal == Agrees(r.vs[1])
LawAsBuilt == Agrees(r.vs[Len(r.vs)])
LawUnlessSched == Agrees(r.vs[Len(r.vs)]) \/ r.sched

Emit == /\ (i = j) => PrintT("ITEM " \o ToJson(<<i, USeq[i]>>))
        /\ PrintT("CASE " \o ToJson(<<i, j, r.law, r.vs>>))
=============================================================================
