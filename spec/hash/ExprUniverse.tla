---------------------------- MODULE ExprUniverse ----------------------------
(* Bounded universe of expressions shared by ExprHash (pairs), ExprLife (life cycle) and
   the C18 driver.  No variables. *)
EXTENDS Hashing, SequencesExt

CONSTANTS NNames,     \* task names n1..      (operator names are fixed: add, getitem)
          NAtoms,     \* argument atoms "1"..
          NOpts,      \* how many of OptChoices are used for .options(...)
          NExpo,      \* how many of ExpoChoices are used for .export_options(...)
          Nest,       \* 0/1: also expressions as arguments
          MaxOps      \* ExprLife: operations per behaviour

NameChoices == <<"n1", "n2", "n3">>
AtomChoices == <<"1", "2", "3">>
\* sequences of <<key, atom>>, in call order; 4 and 5 are one dict written in two orders
OptChoices == <<<<>>, <<<<"tag", "A">>>>, <<<<"tag", "B">>>>,
               <<<<"tag", "A">>, <<"mem", "1">>>>, <<<<"mem", "1">>, <<"tag", "A">>>>>>
\* 2 and 3 export the same option name with different values
ExpoChoices == <<<<>>, <<<<"tag", "B">>>>, <<<<"tag", "A">>>>, <<<<"lim", "1">>>>>>
Names == {NameChoices[k] : k \in 1..NNames}
Atoms == {AtomChoices[k] : k \in 1..NAtoms}
OptSeqs == {OptChoices[k] : k \in 1..NOpts}
ExpoSeqs == {ExpoChoices[k] : k \in 1..NExpo}

Devs == <<"SchedNoOptions">>
AllDevs == SeqSet(Devs)

A(v) == [k |-> "atom", v |-> v]
X(e) == [k |-> "expr", e |-> e]
E(kind, name, pos, kw, opts, expo, via) ==
  [kind |-> kind, name |-> name, pos |-> pos, kw |-> kw, opts |-> opts, expo |-> expo, via |-> via]

\* inner expressions usable as arguments (depth 1)
Inner == IF Nest = 0 THEN {}
         ELSE {E(k, "n1", <<A("1")>>, <<>>, o, <<>>, "api") : k \in {"task", "sched"}, o \in OptSeqs}
              \cup {E("task", "n1", <<A("1")>>, <<>>, <<>>, <<<<"tag", v>>>>, "api") : v \in {"A", "B"}}
AtomArgs == {A(a) : a \in Atoms}
FlatTuples == {<<<<a>>, <<>>>> : a \in AtomArgs} \cup {<<<<A("1")>>, <<<<"k", b>>>>>> : b \in AtomArgs}
              \cup {<<<<>>, <<>>>>}

\* flat part: the full product of kind x arguments x options x exports x construction route for the
\* name n1, and a kind x name x options slice for the other names
UFlat == {E(k, "n1", at[1], at[2], o, x, via) :
            k \in {"task", "sched"}, at \in FlatTuples, o \in OptSeqs, x \in ExpoSeqs, via \in {"api", "ctor"}}
         \cup {E(k, n, <<A("1")>>, <<>>, o, <<>>, "api") : k \in {"task", "sched"}, n \in Names, o \in OptSeqs}
\* exported-value slice (independent of NExpo): equal exported option NAMES with different VALUES,
\* one and two exported options, for task and scheduler expressions, through the api and through the
\* constructor, with and without a plain call-time option next to them.  The value of an exported
\* option is part of the denoted call (Denote: EffOpts holds the <<name, value>> pairs).
ExpoValChoices == {<<<<"tag", "A">>>>, <<<<"tag", "B">>>>,
                   <<<<"lim", "1">>, <<"grp", "g">>>>, <<<<"lim", "2">>, <<"grp", "g">>>>}
UExpoVal == {E(k, "n1", <<A("1")>>, <<>>, o, x, "api") :
               k \in {"task", "sched"}, o \in {OptChoices[1], <<<<"mem", "1">>>>}, x \in ExpoValChoices}
            \cup {E(k, "n1", <<A("1")>>, <<>>, <<>>, x, "ctor") : k \in {"task", "sched"}, x \in ExpoValChoices}
\* nested part: expressions as arguments of task / scheduler / operator expressions
UNest == {E(k, "n1", <<X(e)>>, <<>>, o, <<>>, "api") :
            k \in {"task", "sched"}, e \in Inner, o \in {OptChoices[1], OptChoices[2]}}
U == UFlat \cup UExpoVal \cup UNest
     \cup {E("simple", n, <<a>>, <<>>, <<>>, <<>>, "api") :
             n \in {"add", "getitem"}, a \in AtomArgs \cup {X(e) : e \in Inner}}
     \cup {E("value", "-", <<A(a)>>, <<>>, <<>>, <<>>, "ctor") : a \in Atoms}
\* the api route cannot express everything the constructor can: drop duplicates that would be the
\* same construction (via only matters for scheduler expressions with exports; the exported-value
\* slice keeps both routes for task expressions as well)
Relevant(e) == e.via = "api" \/ (e.kind = "sched" /\ e.expo # <<>>) \/ e.kind = "value" \/ e \in UExpoVal
USeq == SetToSeq({e \in U : Relevant(e)})
N == Len(USeq)
\* a scheduler expression occurs (top level or as an argument)
RECURSIVE HasSched(_)
HasSched(e) == \/ e.kind = "sched"
               \/ (\E k \in 1..Len(e.pos) : (e.pos[k].k = "expr" /\ HasSched(e.pos[k].e)))
               \/ (\E k \in 1..Len(e.kw) : (e.kw[k][2].k = "expr" /\ HasSched(e.kw[k][2].e)))
\* per-item signatures, evaluated once (constant definition)
Sigs == [k \in 1..N |-> ExprSig(USeq[k], Devs)]
Sched == [k \in 1..N |-> HasSched(USeq[k])]

ASSUME TagsDistinct
=============================================================================
