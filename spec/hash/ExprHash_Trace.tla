--------------------------- MODULE ExprHash_Trace ---------------------------
(* Code -> spec for C18.  A recording is a group of expressions that were built on the real code
   (abstract fields, any depth of nesting) together with the observed equality classes of their
   get_hash() values.  For every pair of every group the law (ExprLaw) is evaluated by TLC; one
   VERDICT line per group: <<tid, #pairs, violating pairs>>, a violating pair being
   <<a, b, observed, law, verdicts over the deviation subsets>>.  Thousands of groups are
   batched in one run. *)
EXTENDS Hashing, IOUtils
Groups == JsonDeserialize(IOEnv.TRACE_FILE)
Devs == <<"SchedNoOptions">>
VARIABLES tid, ph, grp
Pairs(g) == {p \in (1..Len(g.items)) \X (1..Len(g.items)) : p[1] < p[2]}
Report(g) ==
  LET lg == [k \in 1..Len(g.items) |-> ExprLight(g.items[k])]
      obs(p) == IF g.cls[p[1]] = g.cls[p[2]] THEN "s" ELSE "d"
      law(p) == SigLaw(lg[p[1]], lg[p[2]])
  IN {<<p[1], p[2], obs(p), law(p), SigVs(ExprSig(g.items[p[1]], Devs), ExprSig(g.items[p[2]], Devs))>> :
        p \in {q \in Pairs(g) : law(q) # "u" /\ law(q) # obs(q)}}
\* (0,0) -> (t,0) for every group t -> (t,1): the second step does the work, so that the groups are
\* judged by TLC's workers in parallel.  The JSON file is parsed once (JsonDeserialize is not cached
\* by TLC: `Groups` must not be referenced per group), each group travels in the state variable grp.
TInit == tid = 0 /\ ph = 0 /\ grp = <<>>
TNext == \/ /\ tid = 0
            /\ LET all == Groups IN \E t \in 1..Len(all) : tid' = t /\ grp' = all[t]
            /\ ph' = 0
         \/ /\ tid > 0 /\ ph = 0 /\ ph' = 1 /\ tid' = tid /\ grp' = <<>>
            /\ PrintT("VERDICT " \o ToJson(<<tid, Cardinality(Pairs(grp)), Report(grp)>>))
TSpec == TInit /\ [][TNext]_<<tid, ph, grp>>
=============================================================================
