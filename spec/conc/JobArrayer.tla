----------------------------- MODULE JobArrayer -----------------------------
(***************************************************************************)
(* redun/job_array.py, class JobArrayer, as built (C11).                   *)
(*                                                                         *)
(* Two threads: the scheduler thread calling add_job (process "adder") and *)
(* the array-monitor thread `_monitor_stale_jobs` (process "mon").  One    *)
(* label per source statement that touches shared state:                   *)
(*                                                                         *)
(*   add_job              a_call .. a_start   (insert, timestamp, counter  *)
(*                                             under the lock; start())    *)
(*   _monitor_stale_jobs  m_idle, m_wait      (timed wait on the exit flag)*)
(*   get_stale_descrs     s_lock, s_start, s_visit, s_fetch, s_done        *)
(*                        iterates `pending` WITHOUT the lock, one step    *)
(*                        per key visited; a concurrent insertion of a new *)
(*                        key makes the dict iterator raise; a key whose   *)
(*                        timestamp has not been written yet raises        *)
(*                        KeyError                                         *)
(*   submit_pending_jobs  p_lock .. p_unlock (pop under lock), submit      *)
(*                        outside the lock, remainder re-inserted under    *)
(*                        the lock (p_relock .. p_reunlock), counter       *)
(*                        decrement d_read / d_write OUTSIDE the lock as   *)
(*                        read-then-write                                  *)
(*                                                                         *)
(* Time: the monitor's timed wait is one tick; `age[d]` is the number of   *)
(* ticks since pending_timestamps[d] was written (saturating), a key is    *)
(* stale iff age > StaleTicks (stale_time in units of the interval).       *)
(*                                                                         *)
(* Named deviations (constants; TRUE = as built, FALSE = repaired):        *)
(*   DevUnlockedScan   get_stale_descrs does not take the lock             *)
(*   DevUnlockedDec    num_pending -= len(jobs) runs outside the lock      *)
(* With both FALSE every property below holds; NoError fails only through  *)
(* DevUnlockedScan, QuiescentCount only through DevUnlockedDec.            *)
(***************************************************************************)
EXTENDS Naturals, Integers, Sequences, FiniteSets, TLC

CONSTANTS N,            \* jobs 1..N are added in this order
          SetB, SetC,   \* jobs with descriptor (task + options) "B" / "C"; all others have "A"
          Script,       \* jobs that bypass the arrayer (script tasks): submitted directly
          Min, Max,     \* min_array_size (0 = arraying disabled), max_array_size
          StaleTicks,   \* stale_time / interval, rounded down
          DevUnlockedScan, DevUnlockedDec

Jobs == 1..N
DescrOf == [j \in Jobs |-> IF j \in SetB THEN "B" ELSE IF j \in SetC THEN "C" ELSE "A"]
Descrs == {DescrOf[j] : j \in Jobs}
SeqRemove(s, x) == SelectSeq(s, LAMBDA y : y # x)
InSeq(s, x) == \E k \in 1..Len(s) : s[k] = x
AgeCap == StaleTicks + 1
BatchOK(b) == /\ Len(b) >= 1
              /\ \A k \in 1..Len(b) : DescrOf[b[k]] = DescrOf[b[1]]
              /\ Len(b) <= Max \/ Min = 0
              /\ Len(b) = 1 \/ Len(b) >= Min

(* --algorithm JobArrayer {
variables
  keys = <<>>,                         \* keys of `pending`, in dict (insertion) order
  pend = [d \in Descrs |-> <<>>],      \* pending[d]
  tsk = {},                            \* keys of `pending_timestamps`
  age = [d \in Descrs |-> 0],          \* ticks since pending_timestamps[d] was written
  lock = "none",
  np = 0,                              \* num_pending
  handed = [j \in Jobs |-> 0],         \* how often job j was passed to the submit callback
  badBatch = FALSE,                    \* a submitted batch broke the batch rule
  err = "none",                        \* exception that reached on_error
  alive = FALSE, exitflag = FALSE,     \* monitor thread liveness, _exit_flag
  added = 0;                           \* add_job calls that have returned

macro Submit(b) {
  handed := [j \in Jobs |-> handed[j] + (IF InSeq(b, j) THEN 1 ELSE 0)];
  badBatch := badBatch \/ ~BatchOK(b);
}

fair+ process (adder = "adder")
  variables i = 1;
{
a_call:
  while (i <= N) {
    if (i \in Script \/ Min = 0) {
      Submit(<<i>>);
    } else {
a_lock:   await lock = "none"; lock := "adder";
a_ins:    if (~InSeq(keys, DescrOf[i])) { keys := Append(keys, DescrOf[i]) };
          pend[DescrOf[i]] := Append(pend[DescrOf[i]], i);
a_ts:     tsk := tsk \cup {DescrOf[i]}; age[DescrOf[i]] := 0;
a_cnt:    np := np + 1;
a_unlock: lock := "none";
a_start:  if (~alive) { alive := TRUE; exitflag := FALSE };
    };
a_ret:
    added := i; i := i + 1;
  };
a_drain:   \* the caller (an executor) stops the arrayer only once nothing is pending
  await (\A j \in Jobs : handed[j] >= 1) \/ err # "none";
a_stop:
  exitflag := TRUE;
a_join:
  await ~alive;
}

fair+ process (mon = "mon")
  variables n0 = 0, idx = 1, stales = <<>>, cur = "", jobs = <<>>, tstamp = 0, rem = <<>>, tmp = 0;
{
m_idle:
  await alive;
m_wait:      \* _exit_flag.wait(timeout=interval): flag set -> leave; else one tick passes
  if (exitflag) { alive := FALSE; goto m_idle; }
  else { age := [d \in Descrs |-> IF age[d] < AgeCap THEN age[d] + 1 ELSE age[d]]; };
s_lock:
  if (~DevUnlockedScan) { await lock = "none"; lock := "mon"; };
s_start:     \* iterator creation (remembers the size of the dict) and the first fetch are one step
             \* (GET_ITER; FOR_ITER): an empty dict is exhausted at once, without a window
  n0 := Len(keys); idx := 1; stales := <<>>;
  if (n0 = 0) { goto s_done };
s_visit:     \* currtime - self.pending_timestamps[descr] > self.stale_time
  if (keys[idx] \notin tsk) {
    err := "keyerror"; alive := FALSE; goto m_idle;    \* KeyError -> on_error, thread ends
  } else {
    if (age[keys[idx]] > StaleTicks) { stales := Append(stales, keys[idx]) };
    idx := idx + 1;
  };
s_fetch:     \* next FOR_ITER: the dict iterator checks the size first, then fetches or stops
  if (Len(keys) # n0) {
    err := "resize"; alive := FALSE; goto m_idle;      \* RuntimeError -> on_error, thread ends
  } else if (idx <= n0) {
    goto s_visit;
  };
s_done:
  if (~DevUnlockedScan) { lock := "none" };
p_loop:
  while (stales # <<>>) {
    cur := Head(stales); stales := Tail(stales);
p_lock:   await lock = "none"; lock := "mon";
p_pop:    jobs := pend[cur]; pend[cur] := <<>>; keys := SeqRemove(keys, cur);
p_pop2:   tstamp := age[cur]; tsk := tsk \ {cur};
p_unlock: lock := "none";
p_branch:
    if (Len(jobs) > Max) {
      rem := SubSeq(jobs, Max + 1, Len(jobs)); jobs := SubSeq(jobs, 1, Max);
p_submax: Submit(jobs);
p_relock: await lock = "none"; lock := "mon";
p_reins:  if (~InSeq(keys, cur)) { keys := Append(keys, cur) };
          pend[cur] := pend[cur] \o rem;
p_rets:   tsk := tsk \cup {cur}; age[cur] := tstamp;
p_reunlock: lock := "none";
    } else if (Len(jobs) < Min) {
      rem := jobs;
p_single: Submit(<<Head(rem)>>); rem := Tail(rem);     \* for job in jobs: submit([job])
          if (rem # <<>>) { goto p_single };
    } else {
p_submit: Submit(jobs);
    };
d_read:   \* self.num_pending -= len(jobs): load ...
    if (~DevUnlockedDec) { await lock = "none"; lock := "mon"; };
    tmp := np;
d_write:  \* ... store
    np := tmp - Len(jobs);
    if (~DevUnlockedDec) { lock := "none" };
  };
m_loop:
  goto m_wait;
}
} *)
\* BEGIN TRANSLATION
VARIABLES pc, keys, pend, tsk, age, lock, np, handed, badBatch, err, alive, 
          exitflag, added, i, n0, idx, stales, cur, jobs, tstamp, rem, tmp

vars == << pc, keys, pend, tsk, age, lock, np, handed, badBatch, err, alive, 
           exitflag, added, i, n0, idx, stales, cur, jobs, tstamp, rem, tmp
        >>

ProcSet == {"adder"} \cup {"mon"}

Init == (* Global variables *)
        /\ keys = <<>>
        /\ pend = [d \in Descrs |-> <<>>]
        /\ tsk = {}
        /\ age = [d \in Descrs |-> 0]
        /\ lock = "none"
        /\ np = 0
        /\ handed = [j \in Jobs |-> 0]
        /\ badBatch = FALSE
        /\ err = "none"
        /\ alive = FALSE
        /\ exitflag = FALSE
        /\ added = 0
        (* Process adder *)
        /\ i = 1
        (* Process mon *)
        /\ n0 = 0
        /\ idx = 1
        /\ stales = <<>>
        /\ cur = ""
        /\ jobs = <<>>
        /\ tstamp = 0
        /\ rem = <<>>
        /\ tmp = 0
        /\ pc = [self \in ProcSet |-> CASE self = "adder" -> "a_call"
                                        [] self = "mon" -> "m_idle"]

a_call == /\ pc["adder"] = "a_call"
          /\ IF i <= N
                THEN /\ IF i \in Script \/ Min = 0
                           THEN /\ handed' = [j \in Jobs |-> handed[j] + (IF InSeq((<<i>>), j) THEN 1 ELSE 0)]
                                /\ badBatch' = (badBatch \/ ~BatchOK((<<i>>)))
                                /\ pc' = [pc EXCEPT !["adder"] = "a_ret"]
                           ELSE /\ pc' = [pc EXCEPT !["adder"] = "a_lock"]
                                /\ UNCHANGED << handed, badBatch >>
                ELSE /\ pc' = [pc EXCEPT !["adder"] = "a_drain"]
                     /\ UNCHANGED << handed, badBatch >>
          /\ UNCHANGED << keys, pend, tsk, age, lock, np, err, alive, exitflag, 
                          added, i, n0, idx, stales, cur, jobs, tstamp, rem, 
                          tmp >>

a_ret == /\ pc["adder"] = "a_ret"
         /\ added' = i
         /\ i' = i + 1
         /\ pc' = [pc EXCEPT !["adder"] = "a_call"]
         /\ UNCHANGED << keys, pend, tsk, age, lock, np, handed, badBatch, err, 
                         alive, exitflag, n0, idx, stales, cur, jobs, tstamp, 
                         rem, tmp >>

a_lock == /\ pc["adder"] = "a_lock"
          /\ lock = "none"
          /\ lock' = "adder"
          /\ pc' = [pc EXCEPT !["adder"] = "a_ins"]
          /\ UNCHANGED << keys, pend, tsk, age, np, handed, badBatch, err, 
                          alive, exitflag, added, i, n0, idx, stales, cur, 
                          jobs, tstamp, rem, tmp >>

a_ins == /\ pc["adder"] = "a_ins"
         /\ IF ~InSeq(keys, DescrOf[i])
               THEN /\ keys' = Append(keys, DescrOf[i])
               ELSE /\ TRUE
                    /\ keys' = keys
         /\ pend' = [pend EXCEPT ![DescrOf[i]] = Append(pend[DescrOf[i]], i)]
         /\ pc' = [pc EXCEPT !["adder"] = "a_ts"]
         /\ UNCHANGED << tsk, age, lock, np, handed, badBatch, err, alive, 
                         exitflag, added, i, n0, idx, stales, cur, jobs, 
                         tstamp, rem, tmp >>

a_ts == /\ pc["adder"] = "a_ts"
        /\ tsk' = (tsk \cup {DescrOf[i]})
        /\ age' = [age EXCEPT ![DescrOf[i]] = 0]
        /\ pc' = [pc EXCEPT !["adder"] = "a_cnt"]
        /\ UNCHANGED << keys, pend, lock, np, handed, badBatch, err, alive, 
                        exitflag, added, i, n0, idx, stales, cur, jobs, tstamp, 
                        rem, tmp >>

a_cnt == /\ pc["adder"] = "a_cnt"
         /\ np' = np + 1
         /\ pc' = [pc EXCEPT !["adder"] = "a_unlock"]
         /\ UNCHANGED << keys, pend, tsk, age, lock, handed, badBatch, err, 
                         alive, exitflag, added, i, n0, idx, stales, cur, jobs, 
                         tstamp, rem, tmp >>

a_unlock == /\ pc["adder"] = "a_unlock"
            /\ lock' = "none"
            /\ pc' = [pc EXCEPT !["adder"] = "a_start"]
            /\ UNCHANGED << keys, pend, tsk, age, np, handed, badBatch, err, 
                            alive, exitflag, added, i, n0, idx, stales, cur, 
                            jobs, tstamp, rem, tmp >>

a_start == /\ pc["adder"] = "a_start"
           /\ IF ~alive
                 THEN /\ alive' = TRUE
                      /\ exitflag' = FALSE
                 ELSE /\ TRUE
                      /\ UNCHANGED << alive, exitflag >>
           /\ pc' = [pc EXCEPT !["adder"] = "a_ret"]
           /\ UNCHANGED << keys, pend, tsk, age, lock, np, handed, badBatch, 
                           err, added, i, n0, idx, stales, cur, jobs, tstamp, 
                           rem, tmp >>

a_drain == /\ pc["adder"] = "a_drain"
           /\ (\A j \in Jobs : handed[j] >= 1) \/ err # "none"
           /\ pc' = [pc EXCEPT !["adder"] = "a_stop"]
           /\ UNCHANGED << keys, pend, tsk, age, lock, np, handed, badBatch, 
                           err, alive, exitflag, added, i, n0, idx, stales, 
                           cur, jobs, tstamp, rem, tmp >>

a_stop == /\ pc["adder"] = "a_stop"
          /\ exitflag' = TRUE
          /\ pc' = [pc EXCEPT !["adder"] = "a_join"]
          /\ UNCHANGED << keys, pend, tsk, age, lock, np, handed, badBatch, 
                          err, alive, added, i, n0, idx, stales, cur, jobs, 
                          tstamp, rem, tmp >>

a_join == /\ pc["adder"] = "a_join"
          /\ ~alive
          /\ pc' = [pc EXCEPT !["adder"] = "Done"]
          /\ UNCHANGED << keys, pend, tsk, age, lock, np, handed, badBatch, 
                          err, alive, exitflag, added, i, n0, idx, stales, cur, 
                          jobs, tstamp, rem, tmp >>

adder == a_call \/ a_ret \/ a_lock \/ a_ins \/ a_ts \/ a_cnt \/ a_unlock
            \/ a_start \/ a_drain \/ a_stop \/ a_join

m_idle == /\ pc["mon"] = "m_idle"
          /\ alive
          /\ pc' = [pc EXCEPT !["mon"] = "m_wait"]
          /\ UNCHANGED << keys, pend, tsk, age, lock, np, handed, badBatch, 
                          err, alive, exitflag, added, i, n0, idx, stales, cur, 
                          jobs, tstamp, rem, tmp >>

m_wait == /\ pc["mon"] = "m_wait"
          /\ IF exitflag
                THEN /\ alive' = FALSE
                     /\ pc' = [pc EXCEPT !["mon"] = "m_idle"]
                     /\ age' = age
                ELSE /\ age' = [d \in Descrs |-> IF age[d] < AgeCap THEN age[d] + 1 ELSE age[d]]
                     /\ pc' = [pc EXCEPT !["mon"] = "s_lock"]
                     /\ alive' = alive
          /\ UNCHANGED << keys, pend, tsk, lock, np, handed, badBatch, err, 
                          exitflag, added, i, n0, idx, stales, cur, jobs, 
                          tstamp, rem, tmp >>

s_lock == /\ pc["mon"] = "s_lock"
          /\ IF ~DevUnlockedScan
                THEN /\ lock = "none"
                     /\ lock' = "mon"
                ELSE /\ TRUE
                     /\ lock' = lock
          /\ pc' = [pc EXCEPT !["mon"] = "s_start"]
          /\ UNCHANGED << keys, pend, tsk, age, np, handed, badBatch, err, 
                          alive, exitflag, added, i, n0, idx, stales, cur, 
                          jobs, tstamp, rem, tmp >>

s_start == /\ pc["mon"] = "s_start"
           /\ n0' = Len(keys)
           /\ idx' = 1
           /\ stales' = <<>>
           /\ IF n0' = 0
                 THEN /\ pc' = [pc EXCEPT !["mon"] = "s_done"]
                 ELSE /\ pc' = [pc EXCEPT !["mon"] = "s_visit"]
           /\ UNCHANGED << keys, pend, tsk, age, lock, np, handed, badBatch, 
                           err, alive, exitflag, added, i, cur, jobs, tstamp, 
                           rem, tmp >>

s_visit == /\ pc["mon"] = "s_visit"
           /\ IF keys[idx] \notin tsk
                 THEN /\ err' = "keyerror"
                      /\ alive' = FALSE
                      /\ pc' = [pc EXCEPT !["mon"] = "m_idle"]
                      /\ UNCHANGED << idx, stales >>
                 ELSE /\ IF age[keys[idx]] > StaleTicks
                            THEN /\ stales' = Append(stales, keys[idx])
                            ELSE /\ TRUE
                                 /\ UNCHANGED stales
                      /\ idx' = idx + 1
                      /\ pc' = [pc EXCEPT !["mon"] = "s_fetch"]
                      /\ UNCHANGED << err, alive >>
           /\ UNCHANGED << keys, pend, tsk, age, lock, np, handed, badBatch, 
                           exitflag, added, i, n0, cur, jobs, tstamp, rem, tmp >>

s_fetch == /\ pc["mon"] = "s_fetch"
           /\ IF Len(keys) # n0
                 THEN /\ err' = "resize"
                      /\ alive' = FALSE
                      /\ pc' = [pc EXCEPT !["mon"] = "m_idle"]
                 ELSE /\ IF idx <= n0
                            THEN /\ pc' = [pc EXCEPT !["mon"] = "s_visit"]
                            ELSE /\ pc' = [pc EXCEPT !["mon"] = "s_done"]
                      /\ UNCHANGED << err, alive >>
           /\ UNCHANGED << keys, pend, tsk, age, lock, np, handed, badBatch, 
                           exitflag, added, i, n0, idx, stales, cur, jobs, 
                           tstamp, rem, tmp >>

s_done == /\ pc["mon"] = "s_done"
          /\ IF ~DevUnlockedScan
                THEN /\ lock' = "none"
                ELSE /\ TRUE
                     /\ lock' = lock
          /\ pc' = [pc EXCEPT !["mon"] = "p_loop"]
          /\ UNCHANGED << keys, pend, tsk, age, np, handed, badBatch, err, 
                          alive, exitflag, added, i, n0, idx, stales, cur, 
                          jobs, tstamp, rem, tmp >>

p_loop == /\ pc["mon"] = "p_loop"
          /\ IF stales # <<>>
                THEN /\ cur' = Head(stales)
                     /\ stales' = Tail(stales)
                     /\ pc' = [pc EXCEPT !["mon"] = "p_lock"]
                ELSE /\ pc' = [pc EXCEPT !["mon"] = "m_loop"]
                     /\ UNCHANGED << stales, cur >>
          /\ UNCHANGED << keys, pend, tsk, age, lock, np, handed, badBatch, 
                          err, alive, exitflag, added, i, n0, idx, jobs, 
                          tstamp, rem, tmp >>

p_lock == /\ pc["mon"] = "p_lock"
          /\ lock = "none"
          /\ lock' = "mon"
          /\ pc' = [pc EXCEPT !["mon"] = "p_pop"]
          /\ UNCHANGED << keys, pend, tsk, age, np, handed, badBatch, err, 
                          alive, exitflag, added, i, n0, idx, stales, cur, 
                          jobs, tstamp, rem, tmp >>

p_pop == /\ pc["mon"] = "p_pop"
         /\ jobs' = pend[cur]
         /\ pend' = [pend EXCEPT ![cur] = <<>>]
         /\ keys' = SeqRemove(keys, cur)
         /\ pc' = [pc EXCEPT !["mon"] = "p_pop2"]
         /\ UNCHANGED << tsk, age, lock, np, handed, badBatch, err, alive, 
                         exitflag, added, i, n0, idx, stales, cur, tstamp, rem, 
                         tmp >>

p_pop2 == /\ pc["mon"] = "p_pop2"
          /\ tstamp' = age[cur]
          /\ tsk' = tsk \ {cur}
          /\ pc' = [pc EXCEPT !["mon"] = "p_unlock"]
          /\ UNCHANGED << keys, pend, age, lock, np, handed, badBatch, err, 
                          alive, exitflag, added, i, n0, idx, stales, cur, 
                          jobs, rem, tmp >>

p_unlock == /\ pc["mon"] = "p_unlock"
            /\ lock' = "none"
            /\ pc' = [pc EXCEPT !["mon"] = "p_branch"]
            /\ UNCHANGED << keys, pend, tsk, age, np, handed, badBatch, err, 
                            alive, exitflag, added, i, n0, idx, stales, cur, 
                            jobs, tstamp, rem, tmp >>

p_branch == /\ pc["mon"] = "p_branch"
            /\ IF Len(jobs) > Max
                  THEN /\ rem' = SubSeq(jobs, Max + 1, Len(jobs))
                       /\ jobs' = SubSeq(jobs, 1, Max)
                       /\ pc' = [pc EXCEPT !["mon"] = "p_submax"]
                  ELSE /\ IF Len(jobs) < Min
                             THEN /\ rem' = jobs
                                  /\ pc' = [pc EXCEPT !["mon"] = "p_single"]
                             ELSE /\ pc' = [pc EXCEPT !["mon"] = "p_submit"]
                                  /\ rem' = rem
                       /\ jobs' = jobs
            /\ UNCHANGED << keys, pend, tsk, age, lock, np, handed, badBatch, 
                            err, alive, exitflag, added, i, n0, idx, stales, 
                            cur, tstamp, tmp >>

p_submax == /\ pc["mon"] = "p_submax"
            /\ handed' = [j \in Jobs |-> handed[j] + (IF InSeq(jobs, j) THEN 1 ELSE 0)]
            /\ badBatch' = (badBatch \/ ~BatchOK(jobs))
            /\ pc' = [pc EXCEPT !["mon"] = "p_relock"]
            /\ UNCHANGED << keys, pend, tsk, age, lock, np, err, alive, 
                            exitflag, added, i, n0, idx, stales, cur, jobs, 
                            tstamp, rem, tmp >>

p_relock == /\ pc["mon"] = "p_relock"
            /\ lock = "none"
            /\ lock' = "mon"
            /\ pc' = [pc EXCEPT !["mon"] = "p_reins"]
            /\ UNCHANGED << keys, pend, tsk, age, np, handed, badBatch, err, 
                            alive, exitflag, added, i, n0, idx, stales, cur, 
                            jobs, tstamp, rem, tmp >>

p_reins == /\ pc["mon"] = "p_reins"
           /\ IF ~InSeq(keys, cur)
                 THEN /\ keys' = Append(keys, cur)
                 ELSE /\ TRUE
                      /\ keys' = keys
           /\ pend' = [pend EXCEPT ![cur] = pend[cur] \o rem]
           /\ pc' = [pc EXCEPT !["mon"] = "p_rets"]
           /\ UNCHANGED << tsk, age, lock, np, handed, badBatch, err, alive, 
                           exitflag, added, i, n0, idx, stales, cur, jobs, 
                           tstamp, rem, tmp >>

p_rets == /\ pc["mon"] = "p_rets"
          /\ tsk' = (tsk \cup {cur})
          /\ age' = [age EXCEPT ![cur] = tstamp]
          /\ pc' = [pc EXCEPT !["mon"] = "p_reunlock"]
          /\ UNCHANGED << keys, pend, lock, np, handed, badBatch, err, alive, 
                          exitflag, added, i, n0, idx, stales, cur, jobs, 
                          tstamp, rem, tmp >>

p_reunlock == /\ pc["mon"] = "p_reunlock"
              /\ lock' = "none"
              /\ pc' = [pc EXCEPT !["mon"] = "d_read"]
              /\ UNCHANGED << keys, pend, tsk, age, np, handed, badBatch, err, 
                              alive, exitflag, added, i, n0, idx, stales, cur, 
                              jobs, tstamp, rem, tmp >>

p_single == /\ pc["mon"] = "p_single"
            /\ handed' = [j \in Jobs |-> handed[j] + (IF InSeq((<<Head(rem)>>), j) THEN 1 ELSE 0)]
            /\ badBatch' = (badBatch \/ ~BatchOK((<<Head(rem)>>)))
            /\ rem' = Tail(rem)
            /\ IF rem' # <<>>
                  THEN /\ pc' = [pc EXCEPT !["mon"] = "p_single"]
                  ELSE /\ pc' = [pc EXCEPT !["mon"] = "d_read"]
            /\ UNCHANGED << keys, pend, tsk, age, lock, np, err, alive, 
                            exitflag, added, i, n0, idx, stales, cur, jobs, 
                            tstamp, tmp >>

p_submit == /\ pc["mon"] = "p_submit"
            /\ handed' = [j \in Jobs |-> handed[j] + (IF InSeq(jobs, j) THEN 1 ELSE 0)]
            /\ badBatch' = (badBatch \/ ~BatchOK(jobs))
            /\ pc' = [pc EXCEPT !["mon"] = "d_read"]
            /\ UNCHANGED << keys, pend, tsk, age, lock, np, err, alive, 
                            exitflag, added, i, n0, idx, stales, cur, jobs, 
                            tstamp, rem, tmp >>

d_read == /\ pc["mon"] = "d_read"
          /\ IF ~DevUnlockedDec
                THEN /\ lock = "none"
                     /\ lock' = "mon"
                ELSE /\ TRUE
                     /\ lock' = lock
          /\ tmp' = np
          /\ pc' = [pc EXCEPT !["mon"] = "d_write"]
          /\ UNCHANGED << keys, pend, tsk, age, np, handed, badBatch, err, 
                          alive, exitflag, added, i, n0, idx, stales, cur, 
                          jobs, tstamp, rem >>

d_write == /\ pc["mon"] = "d_write"
           /\ np' = tmp - Len(jobs)
           /\ IF ~DevUnlockedDec
                 THEN /\ lock' = "none"
                 ELSE /\ TRUE
                      /\ lock' = lock
           /\ pc' = [pc EXCEPT !["mon"] = "p_loop"]
           /\ UNCHANGED << keys, pend, tsk, age, handed, badBatch, err, alive, 
                           exitflag, added, i, n0, idx, stales, cur, jobs, 
                           tstamp, rem, tmp >>

m_loop == /\ pc["mon"] = "m_loop"
          /\ pc' = [pc EXCEPT !["mon"] = "m_wait"]
          /\ UNCHANGED << keys, pend, tsk, age, lock, np, handed, badBatch, 
                          err, alive, exitflag, added, i, n0, idx, stales, cur, 
                          jobs, tstamp, rem, tmp >>

mon == m_idle \/ m_wait \/ s_lock \/ s_start \/ s_visit \/ s_fetch
          \/ s_done \/ p_loop \/ p_lock \/ p_pop \/ p_pop2 \/ p_unlock
          \/ p_branch \/ p_submax \/ p_relock \/ p_reins \/ p_rets
          \/ p_reunlock \/ p_single \/ p_submit \/ d_read \/ d_write
          \/ m_loop

(* Allow infinite stuttering to prevent deadlock on termination. *)
Terminating == /\ \A self \in ProcSet: pc[self] = "Done"
               /\ UNCHANGED vars

Next == adder \/ mon
           \/ Terminating

Spec == /\ Init /\ [][Next]_vars
        /\ SF_vars(adder)
        /\ SF_vars(mon)

Termination == <>(\A self \in ProcSet: pc[self] = "Done")

\* END TRANSLATION

(***************************************************************************)
(* Properties (C11)                                                        *)
(***************************************************************************)
AtMostOnce == \A j \in Jobs : handed[j] <= 1
BatchRule == ~badBatch
NoError == err = "none"
NoResize == err # "resize"        \* RuntimeError: dictionary changed size during iteration
NoKeyError == err # "keyerror"    \* KeyError: pending_timestamps[descr] not written yet
\* quiescence: no add_job call and no monitor iteration in progress
InAdd == pc["adder"] \in {"a_lock", "a_ins", "a_ts", "a_cnt", "a_unlock", "a_start", "a_ret"}
Quiet == ~InAdd /\ pc["mon"] \in {"m_idle", "m_wait"}
NotHandedOff == {j \in 1..added : handed[j] = 0}
QuiescentCount == Quiet => np = Cardinality(NotHandedOff)
\* hand-off is complete: the adder's drain condition is reached, nothing failed, and every job
\* was handed off exactly once
ExactlyOnceAtEnd == (pc["adder"] = "Done") => (\A j \in Jobs : handed[j] = 1) /\ err = "none" /\ np = 0
Live == <>(pc["adder"] = "Done")
TypeOK == /\ lock \in {"none", "adder", "mon"}
          /\ \A j \in Jobs : handed[j] \in 0..2
          /\ \A d \in Descrs : age[d] \in 0..AgeCap
          /\ err \in {"none", "resize", "keyerror"}
\* internal consistency of the two maps whenever the lock is free (what the lock protects)
MapsInSync == (lock = "none") => (\A d \in Descrs : InSeq(keys, d) <=> d \in tsk)
=============================================================================
