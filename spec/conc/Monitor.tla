------------------------------- MODULE Monitor -------------------------------
(***************************************************************************)
(* The monitor-thread protocol of redun's remote executors, as built (C10) *)
(*                                                                         *)
(*   Variant   executor            start test in _start     job's path     *)
(*   docker    DockerExecutor      not _is_running          pending map    *)
(*   batch     AWSBatchExecutor    not is_running           arrayer -> map *)
(*   k8s       K8SExecutor         is_running -> return     arrayer -> map *)
(*   gcp       GCPBatchExecutor    _thread not alive        arrayer -> map *)
(*   glue      AWSGlueExecutor     flag; each thread alive  deque -> submission thread -> map *)
(*                                                                         *)
(* Processes: "sched" (the scheduler thread calling submit for jobs 1..N), *)
(* mon \in Mons (incarnations of the monitor thread `_monitor`), "stage"   *)
(* (the JobArrayer thread, abstracted to take / put / decrement; or Glue's *)
(* `_submission_thread`), "env" (the remote service completing jobs).      *)
(* One label per statement that reads or writes the shared flag, the maps  *)
(* or thread liveness; in particular the monitor's exit path has separate  *)
(* labels for "loop test false" (m_exit) and "flag cleared" (m_clear).     *)
(*                                                                         *)
(* Named deviations (TRUE = as built, FALSE = repaired):                   *)
(*   DevExitWindow  the monitor's decision to exit (loop test false; the    *)
(*                  thread lives on until stop() has returned) is not      *)
(*                  atomic with the state `_start` tests (flag / thread    *)
(*                  liveness): a submission in the window starts nothing   *)
(*                  and is left behind.  Repaired: submission and exit     *)
(*                  decision are serialised by a lock.                     *)
(*   DevPopGap      Glue only: between `popleft()` and the insertion into  *)
(*                  `running_glue_jobs` the job is in neither container,   *)
(*                  the monitor's loop test can see both empty.            *)
(***************************************************************************)
EXTENDS Naturals, Integers, FiniteSets, TLC

CONSTANTS N, Variant, K, Instant, DevExitWindow, DevPopGap

Jobs == 1..N
Mons == 1..K
UsesArrayer == Variant \in {"batch", "k8s", "gcp"}
UsesSubmitThread == Variant = "glue"
StartByAlive == Variant = "gcp"
\* process identifiers (TLC cannot compare strings with numbers, monitors are 1..K)
SCHED == 0
STAGE == K + 1
ENV == K + 2

(* --algorithm Monitor {
variables
  pending = {},                          \* the map the monitor polls (Glue: running_glue_jobs)
  staged = {},                           \* arrayer.pending / Glue pending_glue_jobs
  moving = {},                           \* popped from `staged`, not yet in `pending`
  running = FALSE,                       \* _is_running / is_running
  alive = [m \in Mons |-> FALSE],        \* monitor incarnations
  cur = 0,                               \* self._thread (latest incarnation), 0 = None
  stAlive = FALSE,                       \* arrayer thread / Glue submission thread alive
  exitflag = FALSE,                      \* arrayer._exit_flag
  reported = [j \in Jobs |-> 0],         \* done_job / reject_job calls per job
  completed = IF Instant THEN Jobs ELSE {},
  submitted = {},                        \* submit(j) has returned
  lock = "none";                         \* only taken by the repaired variants

define {
  MonAlive == cur # 0 /\ alive[cur]
  StageVisible == IF UsesArrayer THEN (staged \cup moving) # {}       \* arrayer.num_pending
                  ELSE IF UsesSubmitThread THEN staged # {} ELSE FALSE
  LoopTest == running /\ (pending # {} \/ StageVisible)
  FreeMon == {m \in Mons : ~alive[m] /\ pc[m] = "m_idle"}
  NextMon == CHOOSE m \in FreeMon : \A x \in FreeMon : m <= x
}

macro SpawnMonitor() {
  assert FreeMon # {};
  cur := NextMon || alive[NextMon] := TRUE;
}

fair+ process (sched = SCHED)
  variables i = 1;
{
c_next:
  while (i <= N) {
    if (~DevExitWindow) { await lock = "none"; lock := "sched" };
c_insert:      \* the job enters the executor's first container
    if (UsesArrayer \/ UsesSubmitThread) { staged := staged \cup {i} }
    else { pending := pending \cup {i} };
c_arrstart:    \* arrayer.add_job -> arrayer.start(): (re)start the arrayer thread
    if (UsesArrayer /\ ~stAlive) { stAlive := TRUE; exitflag := FALSE };
c_test:        \* _start(): test
    if (Variant = "glue") {
      if (~running) { running := TRUE };
c_gmon:  if (~MonAlive) { SpawnMonitor() };
c_gsub:  if (~stAlive) { stAlive := TRUE };
    } else if ((StartByAlive /\ ~MonAlive) \/ (~StartByAlive /\ ~running)) {
c_set:   running := TRUE;
c_spawn: SpawnMonitor();
    };
c_ret:
    submitted := submitted \cup {i}; i := i + 1;
    if (~DevExitWindow) { lock := "none" };
  }
}

fair+ process (mon \in Mons)
  variables snap = {};
{
m_idle:
  await alive[self];
m_test:        \* while self.is_running and (<maps non-empty>):
  if (~DevExitWindow) { await lock = "none"; if (~LoopTest) { lock := "mon" } };  \* kept until m_end
  if (LoopTest) {
m_poll:        \* status of a copy of the pending map
    snap := pending \cap completed;
m_proc:        \* per finished job: pop + done_job / reject_job
    if (snap # {}) {
      with (j \in snap) {
        if (j \in pending) { pending := pending \ {j}; reported[j] := reported[j] + 1 };
        snap := snap \ {j};
      };
      if (snap # {}) { goto m_proc };
    };
m_sleep:
    goto m_test;
  };
m_exit:        \* loop test was false
  skip;
m_stop:        \* stop(): gcp clears the flag first, the others last
  if (Variant = "gcp") { running := FALSE };
m_stoparr:     \* arrayer.stop(): set the exit flag ...
  if (UsesArrayer) { exitflag := TRUE };
m_joinarr:     \* ... and join the arrayer thread
  if (UsesArrayer) { await ~stAlive };
m_clear:       \* flag cleared
  running := FALSE;
m_end:         \* thread ends
  alive[self] := FALSE;
  if (~DevExitWindow) { lock := "none" };
  goto m_idle;
}

fair+ process (stage = STAGE)
{
t_idle:
  await stAlive;
t_kind:
  if (UsesArrayer) {
t_wait:        \* _exit_flag.wait(timeout): set -> thread ends, else a tick
    if (exitflag) { stAlive := FALSE; goto t_idle };
t_take:        \* submit_pending_jobs: pop (num_pending still counts the jobs)
    moving := staged; staged := {};
t_put:         \* _submit_jobs -> the executor's pending map
    pending := pending \cup moving;
t_dec:         \* num_pending -= len(jobs)
    moving := {};
    goto t_wait;
  } else {
g_test:        \* while self.is_running and self.pending_glue_jobs: -- when false the function returns in
               \* the same step (no statement follows the loop), so test and thread end are atomic at
               \* statement granularity (CPython itself keeps is_alive() true a little longer: out of reach)
    if (running /\ staged # {}) {
g_pop:         \* popleft(): the job is in neither container ...
      with (j \in staged) {
        staged := staged \ {j};
        if (DevPopGap) { moving := {j} } else { pending := pending \cup {j} };
      };
g_put:         \* ... until running_glue_jobs[job_id] = job
      pending := pending \cup moving; moving := {};
g_more:
      if (staged # {}) { goto g_pop };
g_sleep:
      goto g_test;
    } else {
      stAlive := FALSE;
      goto t_idle;
    }
  }
}

fair process (env = ENV)
{
e_loop:
  while (completed # Jobs) {
    with (j \in Jobs \ completed) { completed := completed \cup {j} };
  }
}
} *)
\* BEGIN TRANSLATION
VARIABLES pc, pending, staged, moving, running, alive, cur, stAlive, exitflag, 
          reported, completed, submitted, lock

(* define statement *)
MonAlive == cur # 0 /\ alive[cur]
StageVisible == IF UsesArrayer THEN (staged \cup moving) # {}
                ELSE IF UsesSubmitThread THEN staged # {} ELSE FALSE
LoopTest == running /\ (pending # {} \/ StageVisible)
FreeMon == {m \in Mons : ~alive[m] /\ pc[m] = "m_idle"}
NextMon == CHOOSE m \in FreeMon : \A x \in FreeMon : m <= x

VARIABLES i, snap

vars == << pc, pending, staged, moving, running, alive, cur, stAlive, 
           exitflag, reported, completed, submitted, lock, i, snap >>

ProcSet == {SCHED} \cup (Mons) \cup {STAGE} \cup {ENV}

Init == (* Global variables *)
        /\ pending = {}
        /\ staged = {}
        /\ moving = {}
        /\ running = FALSE
        /\ alive = [m \in Mons |-> FALSE]
        /\ cur = 0
        /\ stAlive = FALSE
        /\ exitflag = FALSE
        /\ reported = [j \in Jobs |-> 0]
        /\ completed = IF Instant THEN Jobs ELSE {}
        /\ submitted = {}
        /\ lock = "none"
        (* Process sched *)
        /\ i = 1
        (* Process mon *)
        /\ snap = [self \in Mons |-> {}]
        /\ pc = [self \in ProcSet |-> CASE self = SCHED -> "c_next"
                                        [] self \in Mons -> "m_idle"
                                        [] self = STAGE -> "t_idle"
                                        [] self = ENV -> "e_loop"]

c_next == /\ pc[SCHED] = "c_next"
          /\ IF i <= N
                THEN /\ IF ~DevExitWindow
                           THEN /\ lock = "none"
                                /\ lock' = "sched"
                           ELSE /\ TRUE
                                /\ lock' = lock
                     /\ pc' = [pc EXCEPT ![SCHED] = "c_insert"]
                ELSE /\ pc' = [pc EXCEPT ![SCHED] = "Done"]
                     /\ lock' = lock
          /\ UNCHANGED << pending, staged, moving, running, alive, cur, 
                          stAlive, exitflag, reported, completed, submitted, i, 
                          snap >>

c_insert == /\ pc[SCHED] = "c_insert"
            /\ IF UsesArrayer \/ UsesSubmitThread
                  THEN /\ staged' = (staged \cup {i})
                       /\ UNCHANGED pending
                  ELSE /\ pending' = (pending \cup {i})
                       /\ UNCHANGED staged
            /\ pc' = [pc EXCEPT ![SCHED] = "c_arrstart"]
            /\ UNCHANGED << moving, running, alive, cur, stAlive, exitflag, 
                            reported, completed, submitted, lock, i, snap >>

c_arrstart == /\ pc[SCHED] = "c_arrstart"
              /\ IF UsesArrayer /\ ~stAlive
                    THEN /\ stAlive' = TRUE
                         /\ exitflag' = FALSE
                    ELSE /\ TRUE
                         /\ UNCHANGED << stAlive, exitflag >>
              /\ pc' = [pc EXCEPT ![SCHED] = "c_test"]
              /\ UNCHANGED << pending, staged, moving, running, alive, cur, 
                              reported, completed, submitted, lock, i, snap >>

c_test == /\ pc[SCHED] = "c_test"
          /\ IF Variant = "glue"
                THEN /\ IF ~running
                           THEN /\ running' = TRUE
                           ELSE /\ TRUE
                                /\ UNCHANGED running
                     /\ pc' = [pc EXCEPT ![SCHED] = "c_gmon"]
                ELSE /\ IF (StartByAlive /\ ~MonAlive) \/ (~StartByAlive /\ ~running)
                           THEN /\ pc' = [pc EXCEPT ![SCHED] = "c_set"]
                           ELSE /\ pc' = [pc EXCEPT ![SCHED] = "c_ret"]
                     /\ UNCHANGED running
          /\ UNCHANGED << pending, staged, moving, alive, cur, stAlive, 
                          exitflag, reported, completed, submitted, lock, i, 
                          snap >>

c_gmon == /\ pc[SCHED] = "c_gmon"
          /\ IF ~MonAlive
                THEN /\ Assert(FreeMon # {}, 
                               "Failure of assertion at line 70, column 3 of macro called at line 88, column 27.")
                     /\ /\ alive' = [alive EXCEPT ![NextMon] = TRUE]
                        /\ cur' = NextMon
                ELSE /\ TRUE
                     /\ UNCHANGED << alive, cur >>
          /\ pc' = [pc EXCEPT ![SCHED] = "c_gsub"]
          /\ UNCHANGED << pending, staged, moving, running, stAlive, exitflag, 
                          reported, completed, submitted, lock, i, snap >>

c_gsub == /\ pc[SCHED] = "c_gsub"
          /\ IF ~stAlive
                THEN /\ stAlive' = TRUE
                ELSE /\ TRUE
                     /\ UNCHANGED stAlive
          /\ pc' = [pc EXCEPT ![SCHED] = "c_ret"]
          /\ UNCHANGED << pending, staged, moving, running, alive, cur, 
                          exitflag, reported, completed, submitted, lock, i, 
                          snap >>

c_set == /\ pc[SCHED] = "c_set"
         /\ running' = TRUE
         /\ pc' = [pc EXCEPT ![SCHED] = "c_spawn"]
         /\ UNCHANGED << pending, staged, moving, alive, cur, stAlive, 
                         exitflag, reported, completed, submitted, lock, i, 
                         snap >>

c_spawn == /\ pc[SCHED] = "c_spawn"
           /\ Assert(FreeMon # {}, 
                     "Failure of assertion at line 70, column 3 of macro called at line 92, column 10.")
           /\ /\ alive' = [alive EXCEPT ![NextMon] = TRUE]
              /\ cur' = NextMon
           /\ pc' = [pc EXCEPT ![SCHED] = "c_ret"]
           /\ UNCHANGED << pending, staged, moving, running, stAlive, exitflag, 
                           reported, completed, submitted, lock, i, snap >>

c_ret == /\ pc[SCHED] = "c_ret"
         /\ submitted' = (submitted \cup {i})
         /\ i' = i + 1
         /\ IF ~DevExitWindow
               THEN /\ lock' = "none"
               ELSE /\ TRUE
                    /\ lock' = lock
         /\ pc' = [pc EXCEPT ![SCHED] = "c_next"]
         /\ UNCHANGED << pending, staged, moving, running, alive, cur, stAlive, 
                         exitflag, reported, completed, snap >>

sched == c_next \/ c_insert \/ c_arrstart \/ c_test \/ c_gmon \/ c_gsub
            \/ c_set \/ c_spawn \/ c_ret

m_idle(self) == /\ pc[self] = "m_idle"
                /\ alive[self]
                /\ pc' = [pc EXCEPT ![self] = "m_test"]
                /\ UNCHANGED << pending, staged, moving, running, alive, cur, 
                                stAlive, exitflag, reported, completed, 
                                submitted, lock, i, snap >>

m_test(self) == /\ pc[self] = "m_test"
                /\ IF ~DevExitWindow
                      THEN /\ lock = "none"
                           /\ IF ~LoopTest
                                 THEN /\ lock' = "mon"
                                 ELSE /\ TRUE
                                      /\ lock' = lock
                      ELSE /\ TRUE
                           /\ lock' = lock
                /\ IF LoopTest
                      THEN /\ pc' = [pc EXCEPT ![self] = "m_poll"]
                      ELSE /\ pc' = [pc EXCEPT ![self] = "m_exit"]
                /\ UNCHANGED << pending, staged, moving, running, alive, cur, 
                                stAlive, exitflag, reported, completed, 
                                submitted, i, snap >>

m_poll(self) == /\ pc[self] = "m_poll"
                /\ snap' = [snap EXCEPT ![self] = pending \cap completed]
                /\ pc' = [pc EXCEPT ![self] = "m_proc"]
                /\ UNCHANGED << pending, staged, moving, running, alive, cur, 
                                stAlive, exitflag, reported, completed, 
                                submitted, lock, i >>

m_proc(self) == /\ pc[self] = "m_proc"
                /\ IF snap[self] # {}
                      THEN /\ \E j \in snap[self]:
                                /\ IF j \in pending
                                      THEN /\ pending' = pending \ {j}
                                           /\ reported' = [reported EXCEPT ![j] = reported[j] + 1]
                                      ELSE /\ TRUE
                                           /\ UNCHANGED << pending, reported >>
                                /\ snap' = [snap EXCEPT ![self] = snap[self] \ {j}]
                           /\ IF snap'[self] # {}
                                 THEN /\ pc' = [pc EXCEPT ![self] = "m_proc"]
                                 ELSE /\ pc' = [pc EXCEPT ![self] = "m_sleep"]
                      ELSE /\ pc' = [pc EXCEPT ![self] = "m_sleep"]
                           /\ UNCHANGED << pending, reported, snap >>
                /\ UNCHANGED << staged, moving, running, alive, cur, stAlive, 
                                exitflag, completed, submitted, lock, i >>

m_sleep(self) == /\ pc[self] = "m_sleep"
                 /\ pc' = [pc EXCEPT ![self] = "m_test"]
                 /\ UNCHANGED << pending, staged, moving, running, alive, cur, 
                                 stAlive, exitflag, reported, completed, 
                                 submitted, lock, i, snap >>

m_exit(self) == /\ pc[self] = "m_exit"
                /\ TRUE
                /\ pc' = [pc EXCEPT ![self] = "m_stop"]
                /\ UNCHANGED << pending, staged, moving, running, alive, cur, 
                                stAlive, exitflag, reported, completed, 
                                submitted, lock, i, snap >>

m_stop(self) == /\ pc[self] = "m_stop"
                /\ IF Variant = "gcp"
                      THEN /\ running' = FALSE
                      ELSE /\ TRUE
                           /\ UNCHANGED running
                /\ pc' = [pc EXCEPT ![self] = "m_stoparr"]
                /\ UNCHANGED << pending, staged, moving, alive, cur, stAlive, 
                                exitflag, reported, completed, submitted, lock, 
                                i, snap >>

m_stoparr(self) == /\ pc[self] = "m_stoparr"
                   /\ IF UsesArrayer
                         THEN /\ exitflag' = TRUE
                         ELSE /\ TRUE
                              /\ UNCHANGED exitflag
                   /\ pc' = [pc EXCEPT ![self] = "m_joinarr"]
                   /\ UNCHANGED << pending, staged, moving, running, alive, 
                                   cur, stAlive, reported, completed, 
                                   submitted, lock, i, snap >>

m_joinarr(self) == /\ pc[self] = "m_joinarr"
                   /\ IF UsesArrayer
                         THEN /\ ~stAlive
                         ELSE /\ TRUE
                   /\ pc' = [pc EXCEPT ![self] = "m_clear"]
                   /\ UNCHANGED << pending, staged, moving, running, alive, 
                                   cur, stAlive, exitflag, reported, completed, 
                                   submitted, lock, i, snap >>

m_clear(self) == /\ pc[self] = "m_clear"
                 /\ running' = FALSE
                 /\ pc' = [pc EXCEPT ![self] = "m_end"]
                 /\ UNCHANGED << pending, staged, moving, alive, cur, stAlive, 
                                 exitflag, reported, completed, submitted, 
                                 lock, i, snap >>

m_end(self) == /\ pc[self] = "m_end"
               /\ alive' = [alive EXCEPT ![self] = FALSE]
               /\ IF ~DevExitWindow
                     THEN /\ lock' = "none"
                     ELSE /\ TRUE
                          /\ lock' = lock
               /\ pc' = [pc EXCEPT ![self] = "m_idle"]
               /\ UNCHANGED << pending, staged, moving, running, cur, stAlive, 
                               exitflag, reported, completed, submitted, i, 
                               snap >>

mon(self) == m_idle(self) \/ m_test(self) \/ m_poll(self) \/ m_proc(self)
                \/ m_sleep(self) \/ m_exit(self) \/ m_stop(self)
                \/ m_stoparr(self) \/ m_joinarr(self) \/ m_clear(self)
                \/ m_end(self)

t_idle == /\ pc[STAGE] = "t_idle"
          /\ stAlive
          /\ pc' = [pc EXCEPT ![STAGE] = "t_kind"]
          /\ UNCHANGED << pending, staged, moving, running, alive, cur, 
                          stAlive, exitflag, reported, completed, submitted, 
                          lock, i, snap >>

t_kind == /\ pc[STAGE] = "t_kind"
          /\ IF UsesArrayer
                THEN /\ pc' = [pc EXCEPT ![STAGE] = "t_wait"]
                ELSE /\ pc' = [pc EXCEPT ![STAGE] = "g_test"]
          /\ UNCHANGED << pending, staged, moving, running, alive, cur, 
                          stAlive, exitflag, reported, completed, submitted, 
                          lock, i, snap >>

t_wait == /\ pc[STAGE] = "t_wait"
          /\ IF exitflag
                THEN /\ stAlive' = FALSE
                     /\ pc' = [pc EXCEPT ![STAGE] = "t_idle"]
                ELSE /\ pc' = [pc EXCEPT ![STAGE] = "t_take"]
                     /\ UNCHANGED stAlive
          /\ UNCHANGED << pending, staged, moving, running, alive, cur, 
                          exitflag, reported, completed, submitted, lock, i, 
                          snap >>

t_take == /\ pc[STAGE] = "t_take"
          /\ moving' = staged
          /\ staged' = {}
          /\ pc' = [pc EXCEPT ![STAGE] = "t_put"]
          /\ UNCHANGED << pending, running, alive, cur, stAlive, exitflag, 
                          reported, completed, submitted, lock, i, snap >>

t_put == /\ pc[STAGE] = "t_put"
         /\ pending' = (pending \cup moving)
         /\ pc' = [pc EXCEPT ![STAGE] = "t_dec"]
         /\ UNCHANGED << staged, moving, running, alive, cur, stAlive, 
                         exitflag, reported, completed, submitted, lock, i, 
                         snap >>

t_dec == /\ pc[STAGE] = "t_dec"
         /\ moving' = {}
         /\ pc' = [pc EXCEPT ![STAGE] = "t_wait"]
         /\ UNCHANGED << pending, staged, running, alive, cur, stAlive, 
                         exitflag, reported, completed, submitted, lock, i, 
                         snap >>

g_test == /\ pc[STAGE] = "g_test"
          /\ IF running /\ staged # {}
                THEN /\ pc' = [pc EXCEPT ![STAGE] = "g_pop"]
                     /\ UNCHANGED stAlive
                ELSE /\ stAlive' = FALSE
                     /\ pc' = [pc EXCEPT ![STAGE] = "t_idle"]
          /\ UNCHANGED << pending, staged, moving, running, alive, cur, 
                          exitflag, reported, completed, submitted, lock, i, 
                          snap >>

g_pop == /\ pc[STAGE] = "g_pop"
         /\ \E j \in staged:
              /\ staged' = staged \ {j}
              /\ IF DevPopGap
                    THEN /\ moving' = {j}
                         /\ UNCHANGED pending
                    ELSE /\ pending' = (pending \cup {j})
                         /\ UNCHANGED moving
         /\ pc' = [pc EXCEPT ![STAGE] = "g_put"]
         /\ UNCHANGED << running, alive, cur, stAlive, exitflag, reported, 
                         completed, submitted, lock, i, snap >>

g_put == /\ pc[STAGE] = "g_put"
         /\ pending' = (pending \cup moving)
         /\ moving' = {}
         /\ pc' = [pc EXCEPT ![STAGE] = "g_more"]
         /\ UNCHANGED << staged, running, alive, cur, stAlive, exitflag, 
                         reported, completed, submitted, lock, i, snap >>

g_more == /\ pc[STAGE] = "g_more"
          /\ IF staged # {}
                THEN /\ pc' = [pc EXCEPT ![STAGE] = "g_pop"]
                ELSE /\ pc' = [pc EXCEPT ![STAGE] = "g_sleep"]
          /\ UNCHANGED << pending, staged, moving, running, alive, cur, 
                          stAlive, exitflag, reported, completed, submitted, 
                          lock, i, snap >>

g_sleep == /\ pc[STAGE] = "g_sleep"
           /\ pc' = [pc EXCEPT ![STAGE] = "g_test"]
           /\ UNCHANGED << pending, staged, moving, running, alive, cur, 
                           stAlive, exitflag, reported, completed, submitted, 
                           lock, i, snap >>

stage == t_idle \/ t_kind \/ t_wait \/ t_take \/ t_put \/ t_dec \/ g_test
            \/ g_pop \/ g_put \/ g_more \/ g_sleep

e_loop == /\ pc[ENV] = "e_loop"
          /\ IF completed # Jobs
                THEN /\ \E j \in Jobs \ completed:
                          completed' = (completed \cup {j})
                     /\ pc' = [pc EXCEPT ![ENV] = "e_loop"]
                ELSE /\ pc' = [pc EXCEPT ![ENV] = "Done"]
                     /\ UNCHANGED completed
          /\ UNCHANGED << pending, staged, moving, running, alive, cur, 
                          stAlive, exitflag, reported, submitted, lock, i, 
                          snap >>

env == e_loop

(* Allow infinite stuttering to prevent deadlock on termination. *)
Terminating == /\ \A self \in ProcSet: pc[self] = "Done"
               /\ UNCHANGED vars

Next == sched \/ stage \/ env
           \/ (\E self \in Mons: mon(self))
           \/ Terminating

Spec == /\ Init /\ [][Next]_vars
        /\ SF_vars(sched)
        /\ \A self \in Mons : SF_vars(mon(self))
        /\ SF_vars(stage)
        /\ WF_vars(env)

Termination == <>(\A self \in ProcSet: pc[self] = "Done")

\* END TRANSLATION

(***************************************************************************)
(* Properties (C10)                                                        *)
(***************************************************************************)
AllReported == \A j \in Jobs : reported[j] >= 1
AtMostOnce == \A j \in Jobs : reported[j] <= 1
\* no thread can move any more
Quiescent == /\ pc[SCHED] = "Done"
             /\ \A m \in Mons : pc[m] = "m_idle" /\ ~alive[m]
             /\ pc[STAGE] = "t_idle" /\ ~stAlive
             /\ pc[ENV] = "Done"
\* safety form: at quiescence no submitted job is unreported
QuiescentAllReported == Quiescent => AllReported
\* liveness: every submitted job is eventually reported
Live == <>[]AllReported
TypeOK == /\ pending \subseteq Jobs /\ staged \subseteq Jobs /\ moving \subseteq Jobs
          /\ cur \in 0..K /\ lock \in {"none", "sched", "mon", "stage"}
=============================================================================
