-------------------------- MODULE JobArrayer_Trace --------------------------
(***************************************************************************)
(* C11, code -> spec, contract level.  An execution of the real JobArrayer *)
(* under the thread controller is recorded as the sequence of events seen  *)
(* at its stable seams and validated here against the property's own       *)
(* predicates only (nothing about locks, maps or statement order), so a    *)
(* refactoring of the arrayer that keeps the contract is accepted.         *)
(*                                                                         *)
(* A trace: [min, max, descr: <<descriptor of job 1, ..>>, ev: <<event>>], *)
(* an event: [e, j, b, np]                                                 *)
(*   add j      add_job(job j) is called                                   *)
(*   ret j      that call returned                                         *)
(*   submit b   the submit callback is called with batch b                 *)
(*   error      on_error is called              (never acceptable)         *)
(*   quiet np   no add_job call in progress, the monitor thread is parked  *)
(*              in its top-level timed wait (or is not running), and       *)
(*              num_pending = np                                           *)
(*   end        the driver saw the hand-off complete (or gave up after the *)
(*              horizon) and stopped the arrayer                           *)
(*   stuck      the execution deadlocked or hit the step bound             *)
(* Many traces per TLC run (tid walks the list); one VERDICT line per      *)
(* trace: <<tid, accepted, index of the first unacceptable event>>.        *)
(***************************************************************************)
EXTENDS Naturals, Integers, Sequences, FiniteSets, TLC, Json, IOUtils

Traces == JsonDeserialize(IOEnv.TRACE_FILE)

VARIABLES tid, l, added, returned, cnt
tvars == <<tid, l, added, returned, cnt>>

Cur == Traces[tid]
NJ == Len(Cur.descr)
Ev == Cur.ev[l]

\* the batch rule of the property
BatchOK(b) == /\ Len(b) >= 1
              /\ \A k \in 1..Len(b) : b[k] \in added /\ cnt[b[k]] = 0        \* exactly once
              /\ \A k1, k2 \in 1..Len(b) : k1 # k2 => b[k1] # b[k2]
              /\ \A k \in 1..Len(b) : Cur.descr[b[k]] = Cur.descr[b[1]]     \* same task + options
              /\ Len(b) <= Cur.max
              /\ Len(b) = 1 \/ Len(b) >= Cur.min

NotHandedOff == {j \in returned : cnt[j] = 0}

Accept ==
  CASE Ev.e = "add"    -> Ev.j \in 1..NJ /\ Ev.j \notin added
    [] Ev.e = "ret"    -> Ev.j \in added /\ Ev.j \notin returned
    [] Ev.e = "submit" -> BatchOK(Ev.b)
    [] Ev.e = "quiet"  -> Ev.np = Cardinality(NotHandedOff)
    [] Ev.e = "end"    -> \A j \in added : cnt[j] = 1
    [] OTHER           -> FALSE                       \* error, stuck

InBatch(b, j) == \E k \in 1..Len(b) : b[k] = j

TInit == tid = 1 /\ l = 1 /\ added = {} /\ returned = {} /\ cnt = [j \in 1..Len(Traces[1].descr) |-> 0]

StepOK == l <= Len(Cur.ev) /\ Accept

TStep == /\ StepOK
         /\ added' = IF Ev.e = "add" THEN added \cup {Ev.j} ELSE added
         /\ returned' = IF Ev.e = "ret" THEN returned \cup {Ev.j} ELSE returned
         /\ cnt' = IF Ev.e = "submit" THEN [j \in 1..NJ |-> cnt[j] + (IF InBatch(Ev.b, j) THEN 1 ELSE 0)]
                   ELSE cnt
         /\ l' = l + 1 /\ tid' = tid

TNextTrace == /\ ~StepOK
              /\ PrintT("VERDICT " \o ToJson(<<tid, IF l > Len(Cur.ev) THEN 1 ELSE 0, l>>))
              /\ tid < Len(Traces)
              /\ tid' = tid + 1 /\ l' = 1 /\ added' = {} /\ returned' = {}
              /\ cnt' = [j \in 1..Len(Traces[tid + 1].descr) |-> 0]

TNext == TStep \/ TNextTrace
TSpec == TInit /\ [][TNext]_tvars

\* the safety part of the property as invariants of every accepted prefix
AtMostOnce == \A j \in DOMAIN cnt : cnt[j] <= 1
OnlyAdded == \A j \in DOMAIN cnt : cnt[j] > 0 => j \in added
=============================================================================
