---------------------------- MODULE Monitor_Trace ----------------------------
(***************************************************************************)
(* C10, code -> spec, contract level.  An execution of a real executor     *)
(* (DockerExecutor, AWSBatchExecutor, K8SExecutor, GCPBatchExecutor,       *)
(* AWSGlueExecutor with in-process fakes of the remote service) under the  *)
(* thread controller is recorded as the events seen at its stable seams -- *)
(* the public submit() entry point and the scheduler's done_job /          *)
(* reject_job -- and validated against the property's own predicates only. *)
(*                                                                         *)
(* A trace: [n, ev]; an event: [e, j]                                      *)
(*   submit j   executor.submit(job j) is called                           *)
(*   sret j     that call returned                                         *)
(*   done j     scheduler.done_job(job j, ..)                              *)
(*   reject j   scheduler.reject_job(job j, ..)                            *)
(*   error      scheduler.reject_job(None, ..): an executor thread failed  *)
(*              and said so -- the scheduler fails the whole execution, so *)
(*              nothing is lost silently; afterwards the "never lose a     *)
(*              job" obligation is void (a loud failure is not C10's       *)
(*              subject; C11 covers the arrayer's monitor failing)         *)
(*   quiesce    no thread of the executor can move any more (all ended, or *)
(*              the only live thread waits for a report that cannot come)  *)
(*   timeout    some job still unreported after the virtual-time horizon   *)
(*              although the remote side had completed it (threads are     *)
(*              still polling): bounded form of "eventually"               *)
(*   stuck      step bound hit / deadlock inside the executor              *)
(* One VERDICT line per trace: <<tid, accepted, first unacceptable event>> *)
(***************************************************************************)
EXTENDS Naturals, Integers, Sequences, FiniteSets, TLC, Json, IOUtils

Traces == JsonDeserialize(IOEnv.TRACE_FILE)

VARIABLES tid, l, called, returned, rep, failed
tvars == <<tid, l, called, returned, rep, failed>>

Cur == Traces[tid]
Ev == Cur.ev[l]

Accept ==
  CASE Ev.e = "submit"  -> Ev.j \in 1..Cur.n /\ Ev.j \notin called
    [] Ev.e = "sret"    -> Ev.j \in called /\ Ev.j \notin returned
    [] Ev.e \in {"done", "reject"} -> Ev.j \in called /\ rep[Ev.j] = 0    \* reported at most once
    [] Ev.e = "error"   -> TRUE
    [] Ev.e = "quiesce" -> failed \/ \A j \in returned : rep[j] = 1       \* nothing submitted is unreported
    [] Ev.e = "timeout" -> failed                                         \* otherwise: a job is never reported
    [] OTHER            -> FALSE                                          \* stuck

TInit == tid = 1 /\ l = 1 /\ called = {} /\ returned = {} /\ rep = [j \in 1..Traces[1].n |-> 0]
         /\ failed = FALSE

StepOK == l <= Len(Cur.ev) /\ Accept

TStep == /\ StepOK
         /\ called' = IF Ev.e = "submit" THEN called \cup {Ev.j} ELSE called
         /\ returned' = IF Ev.e = "sret" THEN returned \cup {Ev.j} ELSE returned
         /\ rep' = IF Ev.e \in {"done", "reject"} THEN [rep EXCEPT ![Ev.j] = @ + 1] ELSE rep
         /\ failed' = (failed \/ Ev.e = "error")
         /\ l' = l + 1 /\ tid' = tid

TNextTrace == /\ ~StepOK
              /\ PrintT("VERDICT " \o ToJson(<<tid, IF l > Len(Cur.ev) THEN 1 ELSE 0, l>>))
              /\ tid < Len(Traces)
              /\ tid' = tid + 1 /\ l' = 1 /\ called' = {} /\ returned' = {}
              /\ rep' = [j \in 1..Traces[tid + 1].n |-> 0] /\ failed' = FALSE

TNext == TStep \/ TNextTrace
TSpec == TInit /\ [][TNext]_tvars

AtMostOnce == \A j \in DOMAIN rep : rep[j] <= 1
OnlyCalled == \A j \in DOMAIN rep : rep[j] > 0 => j \in called
=============================================================================
