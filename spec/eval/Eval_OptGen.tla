---------------------------- MODULE Eval_OptGen ----------------------------
(* C27, spec -> code: enumerate chains of jobs whose calls carry plain call-time options,
   expression-valued options and exported options, and print the options every job must run with. *)
EXTENDS Eval
CONSTANTS Stride, Offset

S(x) == StrV(x)
D(items) == DictV(items)
OptChoices == << D(<<>>), D(<< <<S("memory"), IntV(2)>> >>), D(<< <<S("vcpus"), IntV(3)>> >>),
                 D(<< <<S("memory"), IntV(2)>>, <<S("vcpus"), IntV(3)>> >>) >>
ExpChoices == << D(<<>>), D(<< <<S("memory"), IntV(7)>> >>), D(<< <<S("zone"), IntV(1)>> >>),
                 D(<< <<S("zone"), IntV(9)>>, <<S("vcpus"), IntV(6)>> >>) >>
LazyChoices == << D(<<>>), D(<< <<S("vcpus"), IntV(4)>> >>) >>
Steps == [k \in 1..(Len(OptChoices) * Len(ExpChoices) * Len(LazyChoices)) |->
            LET a == ((k - 1) % Len(OptChoices)) + 1
                b == (((k - 1) \div Len(OptChoices)) % Len(ExpChoices)) + 1
                c == ((k - 1) \div (Len(OptChoices) * Len(ExpChoices))) + 1
            IN D(<< <<S("opts"), OptChoices[a]>>, <<S("exp"), ExpChoices[b]>>, <<S("lazy"), LazyChoices[c]>> >>)]
NS == Len(Steps)
\* chains of length 1..3
N == NS + NS * NS + NS * NS * NS
PlanAt(n) ==
  IF n <= NS THEN <<Steps[n]>>
  ELSE IF n <= NS + NS * NS
       THEN LET m == n - NS - 1 IN <<Steps[(m \div NS) + 1], Steps[(m % NS) + 1]>>
       ELSE LET m == n - NS - NS * NS - 1 IN
            <<Steps[(m \div (NS * NS)) + 1], Steps[((m \div NS) % NS) + 1], Steps[(m % NS) + 1]>>
CaseAt(n) ==
  LET plan == PlanAt(n)
      e == Call("olvl", <<Val(IntV(Len(plan))), Val(ListV(plan))>>)
  IN [id |-> n, e |-> e, ctx |-> D(<<>>), run |-> D(<<>>), outs |-> SetToSeq(Outs(e, D(<<>>)))]

VARIABLE i
Init == i = Offset
Next == /\ i <= N
        /\ PrintT("CASE " \o ToJson(CaseAt(i)))
        /\ i' = i + Stride
Spec == Init /\ [][Next]_i
=============================================================================
