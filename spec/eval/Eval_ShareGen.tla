---------------------------- MODULE Eval_ShareGen ----------------------------
(* C05, spec -> code: histories of two executions on one backend.  Each execution evaluates two calls
   (sequentially via seq, or in parallel as a list) of context-reading tasks -- the same task with the
   same arguments -- under contexts drawn from {none, C9, C8}.  The semantics (Eval.tla) gives every
   call the value of ITS context: any sharing across different contexts shows up as a wrong value. *)
EXTENDS Eval
CONSTANTS Stride, Offset
S(x) == StrV(x)
Ctx(n) == DictV(<< <<S("a"), DictV(<< <<S("b"), IntV(n)>> >>)>> >>)
CtxChoices == <<NoneV, Ctx(9), Ctx(8)>>
TaskChoices == <<"ctxget", "ctxget_sh", "ctxmid", "ctxmid_sh">>
Items == [k \in 1..(Len(TaskChoices) * Len(CtxChoices)) |->
            [Call(TaskChoices[((k - 1) \div Len(CtxChoices)) + 1], <<>>)
               EXCEPT !.ctx = CtxChoices[((k - 1) % Len(CtxChoices)) + 1]]]
NI == Len(Items)
\* a run: two items of the same task family (so that they are "the same call"), seq or list
SameFamily(a, b) == a.t = b.t
Pairs == SelectSeq([k \in 1..(NI * NI) |-> <<Items[((k - 1) \div NI) + 1], Items[((k - 1) % NI) + 1]>>],
                   LAMBDA p : SameFamily(p[1], p[2]))
Runs == [k \in 1..(2 * Len(Pairs)) |->
           IF k <= Len(Pairs) THEN [k |-> "seq", items |-> Pairs[k]]
           ELSE ListE(Pairs[k - Len(Pairs)])]
NR == Len(Runs)
N == NR * NR
CaseAt(n) ==
  LET r1 == Runs[((n - 1) \div NR) + 1]
      r2 == Runs[((n - 1) % NR) + 1]
  IN [id |-> n, e1 |-> r1, e2 |-> r2,
      outs1 |-> SetToSeq(Outs(r1, EmptyDict)), outs2 |-> SetToSeq(Outs(r2, EmptyDict))]
VARIABLE i
Init == i = Offset
Next == /\ i <= N
        /\ PrintT("CASE " \o ToJson(CaseAt(i)))
        /\ i' = i + Stride
Spec == Init /\ [][Next]_i
\* the law itself, on the model: the value a call returns is determined by its own context
NoSharing == \A k \in 1..NR : \A o \in Outs(Runs[k], EmptyDict) :
   LET its == Runs[k].items
       want(c) == IF c.t = "dict" THEN c.v[1][2].v[1][2] ELSE IntV(0)
       val(x) == IF x.t = "list" THEN x.v[1] ELSE x
   IN o.t = "list" /\ \A m \in 1..2 : VEq(val(o.v[m]), want(its[m].ctx))
=============================================================================
