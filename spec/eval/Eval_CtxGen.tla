---------------------------- MODULE Eval_CtxGen ----------------------------
(* C26, spec -> code: enumerate (configured context, run context, chain of per-level overrides,
   dotted path) and print each case with the contexts every job of the chain must observe. *)
EXTENDS Eval
CONSTANTS Stride, Offset     \* print the cases whose index = Offset (mod Stride)

S(x) == StrV(x)
D(items) == DictV(items)
Ctxs == << D(<<>>),
           D(<< <<S("a"), IntV(1)>> >>),
           D(<< <<S("a"), D(<< <<S("b"), IntV(2)>> >>)>> >>),
           D(<< <<S("a"), D(<< <<S("b"), IntV(3)>>, <<S("c"), IntV(4)>> >>)>>, <<S("b"), IntV(8)>> >>),
           D(<< <<S("b"), D(<< <<S("a"), IntV(5)>> >>)>> >>),
           D(<< <<S("a"), D(<< <<S("b"), D(<< <<S("a"), IntV(6)>> >>)>> >>)>> >>) >>
Ovs == <<NoneV>> \o Ctxs
Paths == << <<"a">>, <<"b">>, <<"c">>, <<"a", "b">>, <<"a", "c">>, <<"b", "a">>, <<"a", "b", "a">>,
            <<"a", "a">>, <<"b", "a", "b">> >>
OvSeqs == << <<>> >> \o [i \in 1..Len(Ovs) |-> <<Ovs[i]>>]
          \o [k \in 1..(Len(Ovs) * Len(Ovs)) |-> <<Ovs[((k - 1) \div Len(Ovs)) + 1], Ovs[((k - 1) % Len(Ovs)) + 1]>>]

N == Len(Ctxs) * Len(Ctxs) * Len(OvSeqs) * Len(Paths)
CaseAt(n) ==
  LET i0 == n - 1
      p == (i0 % Len(Paths)) + 1
      i1 == i0 \div Len(Paths)
      o == (i1 % Len(OvSeqs)) + 1
      i2 == i1 \div Len(OvSeqs)
      r == (i2 % Len(Ctxs)) + 1
      c == (i2 \div Len(Ctxs)) + 1
      ovs == OvSeqs[o]
      e == Call("clvl", <<Val(IntV(Len(ovs))), Val(ListV(ovs)), Val(ListV([q \in 1..Len(Paths[p]) |-> S(Paths[p][q])])), Val(IntV(-5))>>)
  IN [id |-> n, e |-> e, ctx |-> Ctxs[c], run |-> Ctxs[r],
      outs |-> SetToSeq(Outs(e, MergeN(<<Ctxs[c], Ctxs[r]>>)))]

VARIABLE i
Init == i = Offset
Next == /\ i <= N
        /\ PrintT("CASE " \o ToJson(CaseAt(i)))
        /\ i' = i + Stride
Spec == Init /\ [][Next]_i
\* model-level laws of merge_dicts / lookup (checked by TLC on all pairs of the context universe)
MergeLaws ==
  \A x \in 1..Len(Ctxs), y \in 1..Len(Ctxs) :
     LET m == MergeN(<<Ctxs[x], Ctxs[y]>>) IN
       /\ VEq(MergeN(<<Ctxs[x], D(<<>>)>>), Ctxs[x]) /\ VEq(MergeN(<<D(<<>>), Ctxs[y]>>), Ctxs[y])
       /\ VEq(MergeN(<<Ctxs[x], Ctxs[x]>>), Ctxs[x])
       \* every top-level key of the later dict is present; scalars of the later dict win
       /\ \A k \in 1..Len(Ctxs[y].v) : DHas(m, Ctxs[y].v[k][1])
       /\ \A k \in 1..Len(Ctxs[y].v) : Ctxs[y].v[k][2].t # "dict" => VEq(DGet(m, Ctxs[y].v[k][1]), Ctxs[y].v[k][2])
       /\ \A k \in 1..Len(Ctxs[x].v) : DHas(m, Ctxs[x].v[k][1])
=============================================================================
