---------------------------- MODULE Eval_Oracle ----------------------------
(* Code -> spec: outcomes observed on the real scheduler are judged by the semantics.
   Input (IOEnv.CASES_FILE): sequence of [id, e, ctx (configured context), run (context given to run), obs]; obs is a tagged value, or
   [t |-> "raise", v |-> <<class, message>>] when run() raised.  One line per case:
   VERDICT <<id, accepted, number of admissible outcomes>>; EXPECT <<id, outcomes>> for rejected ones. *)
EXTENDS Eval, IOUtils
Cases == JsonDeserialize(IOEnv.CASES_FILE)

\* a raised error matches when the class matches and the message matches unless the model leaves
\* it unspecified ("*": messages produced by the Python runtime)
Matches(o, obs) ==
  IF o.t = "raise" THEN obs.t = "raise" /\ o.v[1] = obs.v[1] /\ (o.v[2] = "*" \/ o.v[2] = obs.v[2])
  ELSE obs.t # "raise" /\ VEq(o, obs)

Judge(c) ==
  LET outs == Outs(c.e, MergeN(<<c.ctx, c.run>>))
      \* optional facts established by the harness on the concrete database rows (C38): all must hold
      fok == IF "flags" \in DOMAIN c THEN \A f \in DOMAIN c.flags : c.flags[f] = 1 ELSE TRUE
      ok == fok /\ \E o \in outs : Matches(o, c.obs)
  IN /\ PrintT("VERDICT " \o ToJson(<<c.id, IF ok THEN 1 ELSE 0, Cardinality(outs)>>))
     /\ IF ok THEN TRUE ELSE PrintT("EXPECT " \o ToJson(<<c.id, SetToSeq(outs)>>))

VARIABLE i
Init == i = 1
Next == i <= Len(Cases) /\ Judge(Cases[i]) /\ i' = i + 1
Spec == Init /\ [][Next]_i
=============================================================================
