------------------------------ MODULE Eval_Gen ------------------------------
(* Spec -> code: enumerate every program of a reduced grammar up to depth 2 and print it with the
   set of outcomes the semantics admits ("PROG <json>"); the driver runs each on the real scheduler. *)
EXTENDS Eval
CONSTANT Deep    \* TRUE: second level over all first-level expressions in one argument position

I1 == Val(IntV(1))
I2 == Val(IntV(2))
Leaves == << I1, I2, Call("boom", <<I1>>), Call("kboom", <<I1>>), Call("inc", <<I2>>),
             Val(ListV(<<IntV(1), IntV(2)>>)) >>

Unary(a) == << Call("inc", <<a>>), Call("twice", <<a>>), Call("ident", <<a>>), Call("safe", <<a>>),
               Call("sumall", <<a>>), Call("withdef", <<a>>), Call("fan", <<a>>), Call("chooser", <<a>>),
               Catch(a, <<"ValueError">>, "recover"),
               [k |-> "catch", body |-> a, handlers |-> << << <<"KeyError">>, "recover2">>, << <<"ValueError", "KeyError">>, "recover">> >>],
               [k |-> "map", t |-> "inc", xs |-> a],
               [k |-> "seq", items |-> <<a, I1>>],
               Call("jointh", <<Call("mkthread", <<a>>)>>),
               [k |-> "callp", p |-> [k |-> "partial", t |-> "add", args |-> <<a>>], args |-> <<I2>>],
               [Call("kw", <<a>>) EXCEPT !.kw = << <<"c", I1>> >>] >>
Binary(a, b) == << Op("add", <<a, b>>), Op("lt", <<a, b>>), Op("getitem", <<a, b>>), ListE(<<a, b>>),
                   [k |-> "tuple", items |-> <<a, b>>], Call("add", <<a, b>>),
                   [k |-> "dict", items |-> << <<I1, a>>, <<I2, b>> >>],
                   Cond(a, b, I1), Cond(Op("lt", <<a, I2>>), I2, b),
                   [k |-> "catch_all", items |-> <<a, b>>, cls |-> <<"ValueError">>, recover |-> ""],
                   [k |-> "catch_all", items |-> <<a, b>>, cls |-> <<"ValueError", "KeyError">>, recover |-> "recover_all"],
                   [k |-> "seq", items |-> <<a, b>>] >>

Flat(ss) == FoldSeq(LAMBDA s, acc : acc \o s, <<>>, ss)
L1 == Leaves \o Flat([i \in 1..Len(Leaves) |-> Unary(Leaves[i])])
        \o Flat([i \in 1..Len(Leaves) |-> Flat([j \in 1..Len(Leaves) |-> Binary(Leaves[i], Leaves[j])])])
L2 == Flat([i \in 1..Len(L1) |-> Unary(L1[i])])
        \o Flat([i \in 1..Len(L1) |-> Flat([j \in 1..Len(Leaves) |-> Binary(L1[i], Leaves[j]) \o Binary(Leaves[j], L1[i])])])
Programs == IF Deep THEN L1 \o L2 ELSE L1

VARIABLE i
Init == i = 1
Next == /\ i <= Len(Programs)
        /\ PrintT("PROG " \o ToJson([id |-> i, e |-> Programs[i], outs |-> SetToSeq(Outs(Programs[i], EmptyDict))]))
        /\ i' = i + 1
Spec == Init /\ [][Next]_i
=============================================================================
