------------------------------ MODULE Eval_Gen ------------------------------
(* Spec -> code: enumerate every program of a reduced grammar up to depth 2 and print it with the
   set of outcomes the semantics admits ("PROG <json>"); the driver runs each on the real scheduler. *)
EXTENDS Eval
CONSTANT Deep    \* TRUE: second level over all first-level expressions in one argument position

I1 == Val(IntV(1))
I2 == Val(IntV(2))
Leaves == << I1, I2, Call("boom", <<I1>>), Call("kboom", <<I1>>), Call("inc", <<I2>>),
             Val(ListV(<<IntV(1), IntV(2)>>)) >>

Unary(a) == << Call("inc", <<a>>), Call("twice", <<a>>), Call("ident", <<a>>), Call("safe", <<a>>),
               Call("sumall", <<a>>), Call("withdef", <<a>>), Call("fan", <<a>>), Call("chooser", <<a>>),
               Catch(a, <<"ValueError">>, "recover"),
               [k |-> "catch", body |-> a, handlers |-> << << <<"KeyError">>, "recover2">>, << <<"ValueError", "KeyError">>, "recover">> >>],
               [k |-> "map", t |-> "inc", xs |-> a],
               [k |-> "seq", items |-> <<a, I1>>],
               Call("jointh", <<Call("mkthread", <<a>>)>>),
               [k |-> "callp", p |-> [k |-> "partial", t |-> "add", args |-> <<a>>], args |-> <<I2>>],
               [Call("kw", <<a>>) EXCEPT !.kw = << <<"c", I1>> >>] >>
Binary(a, b) == << Op("add", <<a, b>>), Op("lt", <<a, b>>), Op("getitem", <<a, b>>), ListE(<<a, b>>),
                   [k |-> "tuple", items |-> <<a, b>>], Call("add", <<a, b>>),
                   [k |-> "dict", items |-> << <<I1, a>>, <<I2, b>> >>],
                   Cond(a, b, I1), Cond(Op("lt", <<a, I2>>), I2, b),
                   [k |-> "catch_all", items |-> <<a, b>>, cls |-> <<"ValueError">>, recover |-> ""],
                   [k |-> "catch_all", items |-> <<a, b>>, cls |-> <<"ValueError", "KeyError">>, recover |-> "recover_all"],
                   [k |-> "seq", items |-> <<a, b>>] >>

\* programs are addressed by index arithmetic (materialising the depth-2 sequence at every step would
\* be quadratic): level 1 = leaves, unary(leaf), binary(leaf, leaf); level 2 = unary(l1),
\* binary(l1, leaf), binary(leaf, l1)
CONSTANTS Stride, Offset     \* depth 2 is sampled: indices Offset, Offset + Stride, ... beyond level 1
NL == Len(Leaves)
NU == Len(Unary(I1))
NB == Len(Binary(I1, I1))
N1 == NL + NL * NU + NL * NL * NB
L1At(n) ==
  IF n <= NL THEN Leaves[n]
  ELSE IF n <= NL + NL * NU
       THEN LET m == n - NL - 1 IN Unary(Leaves[(m \div NU) + 1])[(m % NU) + 1]
       ELSE LET m == n - NL - NL * NU - 1
                i == (m \div (NL * NB)) + 1
                j == ((m \div NB) % NL) + 1
            IN Binary(Leaves[i], Leaves[j])[(m % NB) + 1]
N2 == N1 * NU + 2 * N1 * NL * NB
L2At(n) ==
  IF n <= N1 * NU
  THEN LET m == n - 1 IN Unary(L1At((m \div NU) + 1))[(m % NU) + 1]
  ELSE LET m == n - N1 * NU - 1
           side == m % 2
           q == m \div 2
           a == L1At((q \div (NL * NB)) + 1)
           l == Leaves[((q \div NB) % NL) + 1]
       IN IF side = 0 THEN Binary(a, l)[(q % NB) + 1] ELSE Binary(l, a)[(q % NB) + 1]
Total == IF Deep THEN N1 + N2 ELSE N1
ProgAt(n) == IF n <= N1 THEN L1At(n) ELSE L2At(n - N1)

VARIABLE i
Init == i = 1
Next == /\ i <= Total
        /\ PrintT("PROG " \o ToJson([id |-> i, e |-> ProgAt(i), outs |-> SetToSeq(Outs(ProgAt(i), EmptyDict))]))
        /\ i' = IF i < N1 THEN i + 1 ELSE IF i = N1 THEN N1 + Offset ELSE i + Stride
Spec == Init /\ [][Next]_i
=============================================================================
