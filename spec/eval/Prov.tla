-------------------------------- MODULE Prov --------------------------------
(***************************************************************************)
(* Expected provenance record of an execution (C20, C21), derived from the *)
(* reduction semantics of Eval.tla for programs with a single admissible   *)
(* outcome.                                                                *)
(*                                                                         *)
(* A call node is identified by the structural term                        *)
(*     Term = <<task, <<argument values by parameter>>, result>>            *)
(* (children are a function of it for deterministic tasks).  For a program *)
(* PV(e) returns                                                           *)
(*   r      the result (value, or raise)                                   *)
(*   ups    the call terms whose results flow into the value of e without  *)
(*          crossing another task call: through lazy operators,            *)
(*          containers and scheduler tasks (C21)                           *)
(*   calls  the terms of the calls made directly by the current job        *)
(*   nodes  every call node of the subtree:                                *)
(*          [term, kids (set of terms), args (set of <<key, value, ups>>)] *)
(* Arguments are keyed "0","1",.. when positional and by name when given   *)
(* by keyword or defaulted (defaults are recorded as keyword arguments).   *)
(*                                                                         *)
(* Deviation DevMapUpstream (as built): map_ builds its task expressions   *)
(* inside the scheduler task and does not wire them as upstreams, so an    *)
(* argument produced through map_ is linked to what produced the *list*,   *)
(* not to the mapped calls.                                                *)
(***************************************************************************)
EXTENDS Eval

CONSTANTS DevMapUpstream,      \* as built TRUE
          DevDefaultUpstream   \* as built TRUE: an expression-valued default argument is recorded with its
                               \* value only, without a link to the call that produced it

Term(t, argvals, r) == <<t, argvals, r>>
Empty == [r |-> NoneV, ups |-> {}, calls |-> {}, nodes |-> {}]
Failed(x) == IsErr(x.r)

RECURSIVE PV(_), PVSeq(_, _), PVCall(_), PVCond(_, _), PVSeqTask(_, _, _)

\* evaluate expressions left to right (all of them: parallel parts all run), collecting everything
\* returns [rs (sequence of results), ups, calls, nodes, failed]
PVSeq(es, i) ==
  IF i > Len(es) THEN [rs |-> <<>>, ups |-> {}, calls |-> {}, nodes |-> {}, upsSeq |-> <<>>]
  ELSE LET h == PV(es[i])
           rest == PVSeq(es, i + 1)
       IN [rs |-> <<h.r>> \o rest.rs, ups |-> h.ups \cup rest.ups, calls |-> h.calls \cup rest.calls,
           nodes |-> h.nodes \cup rest.nodes, upsSeq |-> <<h.ups>> \o rest.upsSeq]
FirstErr(rs) == rs[CHOOSE i \in 1..Len(rs) : IsErr(rs[i]) /\ \A j \in 1..(i - 1) : ~IsErr(rs[j])]
AnyErr(rs) == \E i \in 1..Len(rs) : IsErr(rs[i])

PV(e) ==
  CASE e.k = "val" -> [Empty EXCEPT !.r = e.v]
    [] e.k = "raise" -> [Empty EXCEPT !.r = ErrV(e.cls, e.msg)]
    [] e.k \in {"list", "tuple"} ->
         LET s == PVSeq(e.items, 1) IN
         [r |-> IF AnyErr(s.rs) THEN FirstErr(s.rs) ELSE V(e.k, s.rs), ups |-> s.ups, calls |-> s.calls, nodes |-> s.nodes]
    [] e.k = "dict" ->
         LET flat == [i \in 1..(2 * Len(e.items)) |-> e.items[(i + 1) \div 2][IF i % 2 = 1 THEN 1 ELSE 2]]
             s == PVSeq(flat, 1)
         IN [r |-> IF AnyErr(s.rs) THEN FirstErr(s.rs)
                   ELSE DictV([i \in 1..Len(e.items) |-> <<s.rs[2 * i - 1], s.rs[2 * i]>>]),
             ups |-> s.ups, calls |-> s.calls, nodes |-> s.nodes]
    [] e.k = "op" ->
         LET s == PVSeq(e.args, 1) IN
         [r |-> IF AnyErr(s.rs) THEN FirstErr(s.rs) ELSE ApplyOp(e.op, s.rs), ups |-> s.ups, calls |-> s.calls,
          nodes |-> s.nodes]
    [] e.k = "call" -> PVCall(e)
    [] e.k = "cond" -> PVCond(e, 1)
    [] e.k = "seq" -> PVSeqTask(e.items, 1, [rs |-> <<>>, ups |-> {}, calls |-> {}, nodes |-> {}])
    [] e.k = "catch" ->
         LET b == PV(e.body) IN
         IF ~Failed(b) THEN b
         ELSE LET hs == SelectSeq(e.handlers, LAMBDA h : ErrorMatches(b.r, h[1])) IN
              IF hs = <<>> THEN b
              ELSE \* recover(error): the error value's upstream is the guarded expression
                   LET rc == PVCall([argups |-> <<b.ups>>] @@ Call(hs[1][2], <<Val(ExcV(b.r))>>)) IN
                   [rc EXCEPT !.calls = @ \cup b.calls, !.nodes = @ \cup b.nodes]
    [] e.k = "map" ->
         \* a literal list is mapped element expression by element expression (an element that is a
         \* call stays the argument expression of the mapped call); anything else is evaluated first
         IF e.xs.k \in {"list", "tuple"}
         THEN LET s == PVSeq([i \in 1..Len(e.xs.items) |-> Call(e.t, <<e.xs.items[i]>>)], 1)
                  elems == PVSeq(e.xs.items, 1)
              IN [r |-> IF AnyErr(s.rs) THEN FirstErr(s.rs) ELSE ListV(s.rs),
                  ups |-> IF DevMapUpstream THEN elems.ups ELSE s.ups,
                  calls |-> s.calls, nodes |-> s.nodes]
         ELSE
         LET xs == PV(e.xs) IN
         IF Failed(xs) \/ ~(xs.r.t \in {"list", "tuple"}) THEN xs
         ELSE LET s == PVSeq([i \in 1..Len(xs.r.v) |-> Call(e.t, <<Val(xs.r.v[i])>>)], 1) IN
              [r |-> IF AnyErr(s.rs) THEN FirstErr(s.rs) ELSE ListV(s.rs),
               ups |-> IF DevMapUpstream THEN xs.ups ELSE s.ups,
               calls |-> xs.calls \cup s.calls, nodes |-> xs.nodes \cup s.nodes]
    [] e.k = "partial" -> [Empty EXCEPT !.r = V("task", <<e.t, e.args>>)]
    [] e.k = "callp" ->
         LET p == PV(e.p) IN
         IF p.r.t = "task" THEN PV(Call(p.r.v[1], p.r.v[2] \o e.args)) ELSE [Empty EXCEPT !.r = ErrV("TypeError", "*")]

PVCond(e, i) ==
  IF i > Len(e.clauses) THEN PV(e.else)
  ELSE LET c == PV(e.clauses[i][1]) IN
       IF Failed(c) THEN c
       ELSE LET rest == IF Truthy(c.r) THEN PV(e.clauses[i][2]) ELSE PVCond(e, i + 1) IN
            [rest EXCEPT !.ups = @ \cup c.ups, !.calls = @ \cup c.calls, !.nodes = @ \cup c.nodes]

PVSeqTask(items, i, acc) ==
  IF i > Len(items) THEN [r |-> ListV(acc.rs), ups |-> acc.ups, calls |-> acc.calls, nodes |-> acc.nodes]
  ELSE LET h == PV(items[i]) IN
       IF Failed(h) THEN [r |-> h.r, ups |-> acc.ups \cup h.ups, calls |-> acc.calls \cup h.calls,
                          nodes |-> acc.nodes \cup h.nodes]
       ELSE PVSeqTask(items, i + 1, [rs |-> Append(acc.rs, h.r), ups |-> acc.ups \cup h.ups,
                                     calls |-> acc.calls \cup h.calls, nodes |-> acc.nodes \cup h.nodes])

PVCall(e) ==
  LET t == e.t
      ps == Params(t)
      npos == Len(e.args)
      s == PVSeq(e.args \o [i \in 1..Len(e.kw) |-> e.kw[i][2]], 1)
      hasArgUps == "argups" \in DOMAIN e
      bound(i) == IF i <= npos THEN <<TRUE, i>>
                  ELSE IF KwHas(e.kw, ps[i][1])
                       THEN <<TRUE, npos + (CHOOSE m \in 1..Len(e.kw) : e.kw[m][1] = ps[i][1])>>
                       ELSE <<FALSE, 0>>
      missing == SelectSeq([i \in 1..Len(ps) |-> i], LAMBDA i : ~bound(i)[1])
      d == PVSeq([m \in 1..Len(missing) |-> ps[missing[m]][3]], 1)
  IN IF AnyErr(s.rs) THEN [r |-> FirstErr(s.rs), ups |-> s.ups, calls |-> s.calls, nodes |-> s.nodes]
     ELSE IF AnyErr(d.rs) THEN [r |-> FirstErr(d.rs), ups |-> s.ups \cup d.ups, calls |-> s.calls \cup d.calls,
                                nodes |-> s.nodes \cup d.nodes]
     ELSE
     LET full == [i \in 1..Len(ps) |->
                    IF bound(i)[1] THEN s.rs[bound(i)[2]]
                    ELSE d.rs[CHOOSE m \in 1..Len(missing) : missing[m] = i]]
         argKey(i) == IF i <= npos THEN ToString(i - 1) ELSE ps[i][1]
         argUps(i) == IF hasArgUps THEN e.argups[i]
                      ELSE IF bound(i)[1] THEN s.upsSeq[bound(i)[2]]
                      ELSE IF DevDefaultUpstream THEN {}
                      ELSE d.upsSeq[CHOOSE m \in 1..Len(missing) : missing[m] = i]
         args == {<<argKey(i), full[i], argUps(i)>> : i \in 1..Len(ps)}
         b == PV(Body(t, full, EmptyDict))
         term == Term(t, full, b.r)
         node == [term |-> term, kids |-> b.calls, args |-> args]
     IN [r |-> b.r, ups |-> {term}, calls |-> s.calls \cup d.calls \cup {term},
         nodes |-> s.nodes \cup d.nodes \cup b.nodes \cup {node}]
=============================================================================
