-------------------------------- MODULE Eval --------------------------------
(***************************************************************************)
(* Big-step graph-reduction semantics of redun programs                    *)
(* (docs/source/implementation/evaluation.md, Scheduler.evaluate,          *)
(* _evaluate_apply, the scheduler tasks of scheduler.py / functools.py /   *)
(* context.py), used as an *executable oracle*: TLC evaluates Outs(e) for  *)
(* programs given as JSON and compares with what the real scheduler        *)
(* returned (C01), including the context each job sees (C26) and the       *)
(* options each job runs with (C27).                                       *)
(*                                                                         *)
(* Values are tagged records [t, v]:                                       *)
(*   int n | str s | bool 0/1 | none | list <<..>> | tuple <<..>>          *)
(*   | dict << <<key, val>>, .. >> | err <<class, message>> (exception     *)
(*   object as a value) | raise <<class, message>> (result: it was raised) *)
(*   | task <<name, <<bound args>>>>   (a task or partial task as a value) *)
(*   | thread <<expr>>                                                     *)
(* Expressions are records with a kind field k (see harness/evallab.py).   *)
(* Ev(e, ctx, exp) returns the SET of possible results of evaluating e in  *)
(* a job whose context is ctx and whose ancestors export the options exp:  *)
(* a result is a value, or an err value meaning "raised".  The set has     *)
(* more than one element only when several independent sub-evaluations     *)
(* fail (Promise.all reports whichever rejection is processed first).      *)
(***************************************************************************)
EXTENDS Naturals, Integers, Sequences, FiniteSets, TLC, Json, SequencesExt, FiniteSetsExt

V(t, v) == [t |-> t, v |-> v]
IntV(n) == V("int", n)
StrV(s) == V("str", s)
NoneV == V("none", 0)
BoolV(b) == V("bool", IF b THEN 1 ELSE 0)
ListV(s) == V("list", s)
TupleV(s) == V("tuple", s)
DictV(s) == V("dict", s)
ErrV(cls, msg) == V("raise", <<cls, msg>>)     \* a *raised* error (a result, never a value)
ExcV(r) == V("err", r.v)                       \* the exception object as a value (handed to recover)
IsErr(r) == r.t = "raise"
Truthy(v) == CASE v.t = "int" -> v.v # 0 [] v.t = "bool" -> v.v = 1 [] v.t = "none" -> FALSE
               [] v.t = "str" -> v.v # "" [] v.t \in {"list", "tuple", "dict"} -> Len(v.v) > 0
               [] OTHER -> TRUE

\* structural equality that never compares values of different shapes; dicts compare as sets of items
RECURSIVE VEq(_, _)
VEq(a, b) ==
  /\ a.t = b.t
  /\ CASE a.t \in {"list", "tuple"} ->
            Len(a.v) = Len(b.v) /\ \A i \in 1..Len(a.v) : VEq(a.v[i], b.v[i])
       [] a.t = "dict" ->
            /\ Len(a.v) = Len(b.v)
            /\ \A i \in 1..Len(a.v) : \E j \in 1..Len(b.v) : VEq(a.v[i][1], b.v[j][1]) /\ VEq(a.v[i][2], b.v[j][2])
       \* same tag => same shape of v; never compare through ToJson (record field order is not canonical)
       [] OTHER -> a.v = b.v

(***************************************************************************)
(* dict helpers (insertion ordered association lists)                      *)
(***************************************************************************)
DHas(d, k) == \E i \in 1..Len(d.v) : VEq(d.v[i][1], k)
DGet(d, k) == d.v[CHOOSE i \in 1..Len(d.v) : VEq(d.v[i][1], k)][2]
DSet(d, k, x) == IF DHas(d, k)
                 THEN DictV([i \in 1..Len(d.v) |-> IF VEq(d.v[i][1], k) THEN <<k, x>> ELSE d.v[i]])
                 ELSE DictV(Append(d.v, <<k, x>>))
RECURSIVE DUpdate(_, _, _)
DUpdate(a, b, i) == IF i > Len(b.v) THEN a ELSE DUpdate(DSet(a, b.v[i][1], b.v[i][2]), b, i + 1)
ShallowMerge(a, b) == DUpdate(a, b, 1)               \* {**a, **b}
EmptyDict == DictV(<<>>)

\* redun.utils.merge_dicts: n-ary, grouped by key; a non-dict among the values -> the last value wins
RECURSIVE MergeN(_)
Keys(ds) == LET all == FoldSeq(LAMBDA d, acc : acc \o [i \in 1..Len(d.v) |-> d.v[i][1]], <<>>, ds)
            IN SelectSeq([i \in 1..Len(all) |-> <<i, all[i]>>],
                         LAMBDA p : \A j \in 1..(p[1] - 1) : ~VEq(all[j], p[2]))
MergeN(ds) ==
  IF Len(ds) = 1 THEN ds[1]
  ELSE IF \E i \in 1..Len(ds) : ds[i].t # "dict" THEN ds[Len(ds)]
  ELSE LET ks == Keys(ds)
       IN DictV([n \in 1..Len(ks) |->
                   LET k == ks[n][2]
                       vals == SelectSeq(ds, LAMBDA d : DHas(d, k))
                   IN <<k, MergeN([m \in 1..Len(vals) |-> DGet(vals[m], k)])>>])

\* redun.context.get_context_value: dotted path lookup (path given as a sequence of segments)
RECURSIVE CtxLookup(_, _, _, _)
CtxLookup(value, path, i, default) ==
  IF i > Len(path) THEN value
  ELSE IF value.t # "dict" THEN default
  ELSE IF ~DHas(value, StrV(path[i])) THEN default
  ELSE CtxLookup(DGet(value, StrV(path[i])), path, i + 1, default)

(***************************************************************************)
(* lazy operators (redun/expression.py registry), on concrete values       *)
(***************************************************************************)
Num(v) == v.t \in {"int", "bool"}           \* Python: bool is an int
RECURSIVE LexLt(_, _, _)
LexLt(x, y, i) == IF i > Len(y) THEN FALSE ELSE IF i > Len(x) THEN TRUE
                  ELSE IF x[i].v < y[i].v THEN TRUE ELSE IF x[i].v > y[i].v THEN FALSE ELSE LexLt(x, y, i + 1)
IntSeq(v) == v.t \in {"list", "tuple"} /\ \A i \in 1..Len(v.v) : Num(v.v[i])
\* Python's ordering of sequences: the first position where the elements are not equal decides (elements after it
\* are never compared); equal prefixes are ordered by length
PyEq(a, b) == IF Num(a) /\ Num(b) THEN a.v = b.v ELSE VEq(a, b)
RECURSIVE LtV(_, _)
LtV(a, b) ==
  IF Num(a) /\ Num(b) THEN BoolV(a.v < b.v)
  ELSE IF a.t = b.t /\ a.t \in {"list", "tuple"}
       THEN LET n == IF Len(a.v) < Len(b.v) THEN Len(a.v) ELSE Len(b.v)
                diff == {i \in 1..n : ~PyEq(a.v[i], b.v[i])}
            IN IF diff = {} THEN BoolV(Len(a.v) < Len(b.v))
               ELSE LtV(a.v[CHOOSE i \in diff : \A j \in diff : i <= j], b.v[CHOOSE i \in diff : \A j \in diff : i <= j])
       ELSE ErrV("TypeError", "*")
ApplyOp(op, a) ==
  CASE op = "add" -> IF Num(a[1]) /\ Num(a[2]) THEN IntV(a[1].v + a[2].v)
                     ELSE IF a[1].t = a[2].t /\ a[1].t \in {"list", "tuple"} THEN V(a[1].t, a[1].v \o a[2].v)
                     ELSE ErrV("TypeError", "*")
    [] op = "sub" -> IF Num(a[1]) /\ Num(a[2]) THEN IntV(a[1].v - a[2].v) ELSE ErrV("TypeError", "*")
    [] op = "mul" -> IF Num(a[1]) /\ Num(a[2]) THEN IntV(a[1].v * a[2].v) ELSE ErrV("TypeError", "*")
    [] op = "lt"  -> LtV(a[1], a[2])
    [] op = "eq"  -> IF Num(a[1]) /\ Num(a[2]) THEN BoolV(a[1].v = a[2].v) ELSE BoolV(VEq(a[1], a[2]))
    [] op = "getitem" ->
         IF a[1].t \in {"list", "tuple"} /\ Num(a[2])
         THEN IF a[2].v >= 0 /\ a[2].v < Len(a[1].v) THEN a[1].v[a[2].v + 1]
              ELSE IF a[2].v < 0 /\ 0 - a[2].v <= Len(a[1].v) THEN a[1].v[Len(a[1].v) + a[2].v + 1]
              ELSE ErrV("IndexError", "*")
         ELSE IF a[1].t = "dict" THEN IF DHas(a[1], a[2]) THEN DGet(a[1], a[2]) ELSE ErrV("KeyError", "*")
         ELSE ErrV("TypeError", "*")
\* a python-level task body applying an operator: result value or raise
OpBody(op, a) == LET r == ApplyOp(op, a) IN IF IsErr(r) THEN [k |-> "raise", cls |-> r.v[1], msg |-> r.v[2]]
                                          ELSE [k |-> "val", v |-> r]

(***************************************************************************)
(* The task library (harness/evallib.py), transcribed: signature and one   *)
(* reduction step.  Body returns an expression.                            *)
(***************************************************************************)
E(k) == [k |-> k]
Val(v) == [k |-> "val", v |-> v]
\* opts: call-time options as <<key expression, value expression>> pairs; ctx: update_context value
\* or none; exp: names exported by this call (.export_options)
Call(t, args) == [k |-> "call", t |-> t, args |-> args, kw |-> <<>>, opts |-> <<>>,
                  ctx |-> NoneV, exp |-> <<>>]
Op(op, args) == [k |-> "op", op |-> op, args |-> args]
ListE(items) == [k |-> "list", items |-> items]
Cond(c, a, b) == [k |-> "cond", clauses |-> << <<c, a>> >>, else |-> b]
Catch(body, classes, rec) == [k |-> "catch", body |-> body, handlers |-> << <<classes, rec>> >>]
GetCtx(path, default) == [k |-> "getctx", path |-> path, default |-> default]
RaiseE(cls, msg) == [k |-> "raise", cls |-> cls, msg |-> msg]
OptProbe == [k |-> "optprobe"]

\* parameters: <<name, has default, default expression>>; positional-or-keyword unless listed in kwonly
Params(t) ==
  CASE t \in {"inc", "pinc", "ainc", "boom", "kboom", "lboom", "twice", "fan", "sumall", "ident", "safe",
              "chooser", "recover", "recover2", "neg", "mid", "recover_all", "deep", "aslow"} ->
          << <<"x", FALSE, Val(NoneV)>> >>
    [] t \in {"add", "padd"} -> << <<"a", FALSE, Val(NoneV)>>, <<"b", FALSE, Val(NoneV)>> >>
    [] t = "withdef" -> << <<"x", FALSE, Val(NoneV)>>, <<"y", TRUE, Call("inc", <<Val(IntV(10))>>)>> >>
    [] t = "kw" -> << <<"a", FALSE, Val(NoneV)>>, <<"b", TRUE, Val(IntV(2))>>, <<"c", TRUE, Val(IntV(3))>> >>
    [] t = "ctxdef" -> << <<"x", FALSE, Val(NoneV)>>, <<"y", TRUE, GetCtx(<<"a", "b">>, IntV(7))>> >>
    [] t \in {"mkthread", "jointh"} -> << <<"x", FALSE, Val(NoneV)>> >>
    [] t = "clvl" -> << <<"n", FALSE, Val(NoneV)>>, <<"ovs", FALSE, Val(NoneV)>>, <<"path", FALSE, Val(NoneV)>>,
                        <<"default", FALSE, Val(NoneV)>> >>
    [] t = "olvl" -> << <<"n", FALSE, Val(NoneV)>>, <<"plan", FALSE, Val(NoneV)>> >>
    [] t = "cfan" -> << <<"ovs", FALSE, Val(NoneV)>> >>
    [] t \in {"otree", "dtree"} -> << <<"kids", FALSE, Val(NoneV)>>, <<"tag", TRUE, Val(IntV(0))>> >>
    [] t \in {"ctxget", "ctxtree", "probe", "probetree", "ctxget_sh", "ctxmid", "ctxmid_sh"} -> <<>>

\* definition-time options (the @task(...) decorator) that the probes look at
\* option names a task exports in its own definition (@task(export_options={...}))
DefExpNames(t) == IF t = "dtree" THEN {"zone"} ELSE {}
DefOpts(t) ==
  CASE t \in {"probe", "olvl", "otree"} -> DictV(<< <<StrV("memory"), IntV(1)>>, <<StrV("vcpus"), IntV(1)>> >>)
    [] t = "dtree" -> DictV(<< <<StrV("memory"), IntV(1)>>, <<StrV("vcpus"), IntV(1)>>, <<StrV("zone"), IntV(5)>> >>)
    [] t = "probetree" -> DictV(<< <<StrV("memory"), IntV(5)>> >>)
    [] OTHER -> EmptyDict

A(args, n) == args[n]       \* n-th bound argument value
IntOr(v) == IF v.t \in {"int", "bool"} THEN v.v ELSE 0
Body(t, a, jopts) ==
  CASE t \in {"inc", "pinc", "ainc", "aslow"} -> OpBody("add", <<a[1], IntV(1)>>)
    [] t = "neg" -> IF Num(a[1]) THEN Val(IntV(0 - a[1].v)) ELSE RaiseE("TypeError", "*")
    [] t \in {"add", "padd"} -> OpBody("add", <<a[1], a[2]>>)
    [] t = "boom" -> RaiseE("ValueError", "boom")
    [] t = "kboom" -> RaiseE("KeyError", "kboom")
    [] t = "lboom" -> RaiseE("ValueError", "lboom")    \* the exception object holds something pickle refuses (a lock)
    [] t = "recover" -> Val(IntV(-1))
    [] t = "recover2" -> Val(IntV(-2))
    [] t = "recover_all" -> \* counts the errors in the list it is given
          Val(IntV(Cardinality({i \in 1..Len(a[1].v) : a[1].v[i].t = "err"})))
    [] t = "ident" -> Val(a[1])
    [] t = "twice" -> Call("inc", <<Call("inc", <<Val(a[1])>>)>>)
    [] t = "mid" -> ListE(<<Call("inc", <<Val(a[1])>>), Call("twice", <<Val(a[1])>>)>>)
    [] t = "deep" -> IF IntOr(a[1]) <= 0 THEN Val(IntV(0))
                     ELSE Op("add", <<Call("deep", <<Val(IntV(IntOr(a[1]) - 1))>>), Val(IntV(1))>>)
    [] t = "fan" -> IF Num(a[1]) THEN ListE([i \in 1..IntOr(a[1]) |-> Call("inc", <<Val(IntV(i - 1))>>)])
                    ELSE RaiseE("TypeError", "*")
    [] t = "sumall" -> IF a[1].t \in {"list", "tuple"} /\ \A i \in 1..Len(a[1].v) : Num(a[1].v[i])
                       THEN Val(IntV(FoldSeq(LAMBDA x, acc : acc + x.v, 0, a[1].v)))
                       ELSE RaiseE("TypeError", "*")
    [] t = "withdef" -> Op("add", <<Val(a[1]), Val(a[2])>>)
    [] t = "kw" -> IF Num(a[1]) /\ Num(a[2]) /\ Num(a[3])
                   THEN Val(IntV(IntOr(a[1]) * 100 + IntOr(a[2]) * 10 + IntOr(a[3])))
                   ELSE RaiseE("TypeError", "*")
    [] t = "safe" -> Catch(Call("boom", <<Val(a[1])>>), <<"ValueError">>, "recover")
    [] t = "chooser" -> Cond(Op("lt", <<Call("inc", <<Val(a[1])>>), Val(IntV(3))>>),
                             Call("inc", <<Val(a[1])>>), Call("twice", <<Val(a[1])>>))
    [] t \in {"ctxget", "ctxget_sh"} -> GetCtx(<<"a", "b">>, IntV(0))     \* _sh: check_valid="shallow"
    [] t \in {"ctxmid", "ctxmid_sh"} -> ListE(<<Call("ctxget", <<>>)>>)
    [] t = "ctxdef" -> ListE(<<Val(a[1]), Val(a[2])>>)
    [] t = "ctxtree" -> ListE(<<GetCtx(<<"a", "b">>, IntV(0)), Call("ctxget", <<>>),
                                [Call("ctxget", <<>>) EXCEPT !.ctx = DictV(<< <<StrV("a"), DictV(<< <<StrV("b"), IntV(9)>> >>)>> >>)]>>)
    [] t = "mkthread" -> [k |-> "fork", e |-> Call("inc", <<Val(a[1])>>)]
    [] t = "jointh" -> [k |-> "join", e |-> Val(a[1])]
    [] t = "probe" -> OptProbe
    \* a chain of jobs, each observing its context three ways (get_context in the body, through a
    \* child call, through an expression-valued default argument) and overriding it for the next level
    [] t = "clvl" ->
         LET here == GetCtx([i \in 1..Len(a[3].v) |-> a[3].v[i].v], a[4])
             obs == <<here, Call("ctxget", <<>>), Call("ctxdef", <<Val(IntV(0))>>)>>
         IN IF IntOr(a[1]) <= 0 THEN ListE(obs)
            ELSE ListE(Append(obs,
                   [Call("clvl", <<Val(IntV(IntOr(a[1]) - 1)), Val(ListV(Tail(a[2].v))), Val(a[3]), Val(a[4])>>)
                      EXCEPT !.ctx = Head(a[2].v)]))
    \* siblings of one parent with different overrides reading one path through their default argument
    [] t = "cfan" ->
         ListE(<<GetCtx(<<"a", "b">>, IntV(7))>>
               \o [i \in 1..Len(a[1].v) |-> [Call("ctxdef", <<Val(IntV(i - 1))>>) EXCEPT !.ctx = a[1].v[i]]])
    \* a chain of jobs, each probing its options and calling the next level with call-time options
    \* (plain and expression valued) and exported options
    [] t = "olvl" ->
         IF IntOr(a[1]) <= 0 THEN ListE(<<OptProbe>>)
         ELSE LET step == Head(a[2].v)
                  plain == DGet(step, StrV("opts")).v
                  lazy == DGet(step, StrV("lazy")).v
                  expo == DGet(step, StrV("exp")).v
                  items == [i \in 1..Len(plain) |-> <<Val(plain[i][1]), Val(plain[i][2])>>]
                           \o [i \in 1..Len(lazy) |-> <<Val(lazy[i][1]), Call("inc", <<Val(lazy[i][2])>>)>>]
                           \o [i \in 1..Len(expo) |-> <<Val(expo[i][1]), Val(expo[i][2])>>]
              IN ListE(<<OptProbe,
                         [Call("olvl", <<Val(IntV(IntOr(a[1]) - 1)), Val(ListV(Tail(a[2].v)))>>)
                            EXCEPT !.opts = items, !.exp = [i \in 1..Len(expo) |-> expo[i][1].v]]>>)
    \* a tree of jobs: siblings and cousins with private and exported options of the same names
    [] t \in {"otree", "dtree"} ->
         LET kid(step) ==
               LET plain == DGet(step, StrV("opts")).v
                   expo == DGet(step, StrV("exp")).v
                   \* step.d = 1: the child is the task that exports `zone` in its definition
                   ct == IF DGet(step, StrV("d")) = IntV(1) THEN "dtree" ELSE "otree"
               IN [Call(ct, <<Val(DGet(step, StrV("kids"))), Val(DGet(step, StrV("tag")))>>)
                     EXCEPT !.opts = [i \in 1..Len(plain) |-> <<Val(plain[i][1]), Val(plain[i][2])>>]
                                     \o [i \in 1..Len(expo) |-> <<Val(expo[i][1]), Val(expo[i][2])>>],
                            !.exp = [i \in 1..Len(expo) |-> expo[i][1].v]]
         IN ListE(<<OptProbe>> \o [i \in 1..Len(a[1].v) |-> kid(a[1].v[i])])
    [] t = "probetree" -> ListE(<<OptProbe, Call("probe", <<>>),
                                  [Call("probe", <<>>) EXCEPT !.opts = << <<Val(StrV("vcpus")), Val(IntV(8))>> >>]>>)

ErrorMatches(err, classes) ==
  \E i \in 1..Len(classes) : classes[i] = err.v[1] \/ classes[i] = "Exception"

(***************************************************************************)
(* Evaluation.  Results are sets; helper operators lift sequencing.        *)
(***************************************************************************)
RECURSIVE Cap(_, _, _), CapSeq(_, _, _, _)
RECURSIVE Ev(_, _, _), EvSeq(_, _, _, _), EvCall(_, _, _), EvCond(_, _, _, _), EvSeqTask(_, _, _, _, _),
          EvCatchAll(_, _, _), EvMap(_, _, _)

Vals(rs) == {r \in rs : ~IsErr(r)}
Errs(rs) == {r \in rs : IsErr(r)}

\* evaluate a sequence of expressions "in parallel" (Promise.all): [vs |-> all combinations of
\* values (as sequences), es |-> all errors any part can raise]
EvSeq(es, ctx, exp, i) ==
  IF i > Len(es) THEN [vs |-> {<<>>}, es |-> {}]
  ELSE LET here == Ev(es[i], ctx, exp)
           rest == EvSeq(es, ctx, exp, i + 1)
       IN [vs |-> {<<h>> \o r : h \in Vals(here), r \in rest.vs}, es |-> Errs(here) \cup rest.es]
SeqVals(rs) == rs.vs
SeqErrs(rs) == rs.es

Ev(e, ctx, exp) ==
  CASE e.k = "val" -> {e.v}
    [] e.k = "raise" -> {ErrV(e.cls, e.msg)}
    [] e.k = "list" -> LET rs == EvSeq(e.items, ctx, exp, 1) IN {ListV(s) : s \in SeqVals(rs)} \cup SeqErrs(rs)
    [] e.k = "tuple" -> LET rs == EvSeq(e.items, ctx, exp, 1) IN {TupleV(s) : s \in SeqVals(rs)} \cup SeqErrs(rs)
    [] e.k = "dict" ->
         LET flat == [i \in 1..(2 * Len(e.items)) |-> e.items[(i + 1) \div 2][IF i % 2 = 1 THEN 1 ELSE 2]]
             rs == EvSeq(flat, ctx, exp, 1)
         IN {DictV([i \in 1..Len(e.items) |-> <<s[2 * i - 1], s[2 * i]>>]) : s \in SeqVals(rs)} \cup SeqErrs(rs)
    [] e.k = "op" ->
         LET rs == EvSeq(e.args, ctx, exp, 1) IN {ApplyOp(e.op, s) : s \in SeqVals(rs)} \cup SeqErrs(rs)
    [] e.k = "call" -> EvCall(e, ctx, exp)
    [] e.k = "cond" -> EvCond(e, ctx, exp, 1)
    [] e.k = "seq" -> EvSeqTask(e.items, ctx, exp, 1, <<>>)
    [] e.k = "catch" ->
         LET rs == Ev(e.body, ctx, exp) IN
         Vals(rs) \cup UNION {
            LET hs == SelectSeq(e.handlers, LAMBDA h : ErrorMatches(err, h[1])) IN
            IF hs = <<>> THEN {err}
            ELSE Ev(Call(hs[1][2], <<Val(ExcV(err))>>), ctx, exp) : err \in Errs(rs)}
    [] e.k = "catch_all" -> EvCatchAll(e, ctx, exp)
    [] e.k = "map" -> EvMap(e, ctx, exp)
    [] e.k = "getctx" -> {CtxLookup(ctx, e.path, 1, e.default)}
    [] e.k = "optprobe" ->                  \* exp.probe is filled in by EvCall: the calling job's options
         {DictV(SelectSeq(exp.probe.v, LAMBDA kv : kv[1].v \in {"memory", "vcpus", "zone"}))}
    [] e.k = "fork" -> {V("thread", e.e)}   \* the thread value carries the expression
    [] e.k = "join" ->
         LET ts == Ev(e.e, ctx, exp) IN
         Errs(ts) \cup UNION {IF th.t = "thread" THEN Ev(th.v, ctx, exp) ELSE {ErrV("AttributeError", "*")} : th \in Vals(ts)}
    [] e.k = "tags" -> Ev(e.e, ctx, exp)    \* apply_tags returns the value unchanged
    \* subrun(expr, ...): a sub-scheduler evaluates expr with the calling job's context and exported
    \* options; in a new or in the current execution the outcome is that of evaluating expr directly (C38)
    [] e.k = "subrun" -> Ev(e.e, ctx, exp)
    [] e.k = "partial" ->                   \* task.partial(*args): arguments are NOT evaluated now
         {V("task", <<e.t, e.args>>)}
    [] e.k = "callp" ->                     \* call a (partial) task value
         LET ps == Ev(e.p, ctx, exp) IN
         Errs(ps) \cup UNION {IF p.t = "task" THEN Ev(Call(p.v[1], p.v[2] \o e.args), ctx, exp)
                              ELSE {ErrV("TypeError", "*")} : p \in Vals(ps)}

EvCond(e, ctx, exp, i) ==
  IF i > Len(e.clauses) THEN Ev(e.else, ctx, exp)
  ELSE LET cs == Ev(e.clauses[i][1], ctx, exp) IN
       Errs(cs) \cup UNION {IF Truthy(c) THEN Ev(e.clauses[i][2], ctx, exp) ELSE EvCond(e, ctx, exp, i + 1)
                            : c \in Vals(cs)}

\* functools.seq: strictly one after the other; the first failure stops the sequence
EvSeqTask(items, ctx, exp, i, acc) ==
  IF i > Len(items) THEN {ListV(acc)}
  ELSE LET rs == Ev(items[i], ctx, exp) IN
       Errs(rs) \cup UNION {EvSeqTask(items, ctx, exp, i + 1, Append(acc, v)) : v \in Vals(rs)}

\* catch_all over a list of expressions: waits for all; errors are values in the list handed to recover
\* catch_all(exprs, classes, recover): exprs is a NESTED value; every expression leaf in it is evaluated to its
\* end and a failing leaf leaves its exception in place.  Cap returns the possible captures
\* [v: the nested value with exceptions in place, errs: the errors in leaf order].
CapSeq(es, ctx, exp, i) ==
  IF i > Len(es) THEN {[vs |-> <<>>, errs |-> <<>>]}
  ELSE {[vs |-> <<h.v>> \o r.vs, errs |-> h.errs \o r.errs] : h \in Cap(es[i], ctx, exp), r \in CapSeq(es, ctx, exp, i + 1)}
Cap(e, ctx, exp) ==
  CASE e.k = "list" -> {[v |-> ListV(c.vs), errs |-> c.errs] : c \in CapSeq(e.items, ctx, exp, 1)}
    [] e.k = "tuple" -> {[v |-> TupleV(c.vs), errs |-> c.errs] : c \in CapSeq(e.items, ctx, exp, 1)}
    [] e.k = "dict" ->
         \* leaves are visited keys first, then values
         LET n == Len(e.items)
             flat == [i \in 1..(2 * n) |-> IF i <= n THEN e.items[i][1] ELSE e.items[i - n][2]]
         IN {[v |-> DictV([i \in 1..n |-> <<c.vs[i], c.vs[n + i]>>]), errs |-> c.errs] : c \in CapSeq(flat, ctx, exp, 1)}
    [] OTHER -> {IF IsErr(r) THEN [v |-> ExcV(r), errs |-> <<r>>] ELSE [v |-> r, errs |-> <<>>] : r \in Ev(e, ctx, exp)}

EvCatchAll(e, ctx, exp) ==
  UNION {
       IF c.errs = <<>> THEN {ListV(c.vs)}
       ELSE IF e.recover = "" THEN {c.errs[1]}
       ELSE IF \A i \in 1..Len(c.errs) : ErrorMatches(c.errs[i], e.cls)
            THEN Ev(Call(e.recover, <<Val(ListV(c.vs))>>), ctx, exp)
            ELSE {SelectSeq(c.errs, LAMBDA r : ~ErrorMatches(r, e.cls))[1]}
       : c \in CapSeq(e.items, ctx, exp, 1)}

\* map_(task, xs): xs evaluated, then the task applied to every element in parallel
EvMap(e, ctx, exp) ==
  LET xs == Ev(e.xs, ctx, exp) IN
  Errs(xs) \cup UNION {
     IF x.t \in {"list", "tuple"}
     THEN LET rs == EvSeq([i \in 1..Len(x.v) |-> Call(e.t, <<Val(x.v[i])>>)], ctx, exp, 1)
          IN {ListV(s) : s \in SeqVals(rs)} \cup SeqErrs(rs)
     ELSE {ErrV("TypeError", "*")} : x \in Vals(xs)}

(***************************************************************************)
(* A task call = a new job.                                                *)
(*   options   = definition options, overridden by options exported by     *)
(*               ancestors, overridden by call-time options (C27)          *)
(*   context   = parent's context deep-merged with the call's override     *)
(*               (C26); arguments are evaluated in the PARENT's context,   *)
(*               expression defaults in the new job's context              *)
(*   exported  = names exported by ancestors, by the task, by the call     *)
(***************************************************************************)
PosIdx(ps, name) == CHOOSE i \in 1..Len(ps) : ps[i][1] = name
HasParam(ps, name) == \E i \in 1..Len(ps) : ps[i][1] = name
KwHas(kw, name) == \E i \in 1..Len(kw) : kw[i][1] = name
KwGet(kw, name) == kw[CHOOSE i \in 1..Len(kw) : kw[i][1] = name][2]

EvCall(e, ctx, exp) ==
  LET t == e.t
      ps == Params(t)
      \* call-time options may be expressions: evaluated first, in the parent's context
      optRs == Ev([k |-> "dict", items |-> e.opts], ctx, exp)
      argRs == EvSeq(e.args \o [i \in 1..Len(e.kw) |-> e.kw[i][2]], ctx, exp, 1)
  IN Errs(optRs) \cup SeqErrs(argRs) \cup UNION {
       LET callOpts == ov
           jopts == ShallowMerge(ShallowMerge(DefOpts(t), exp.opts), callOpts)
           jctx == IF e.ctx.t = "dict" THEN MergeN(<<ctx, e.ctx>>) ELSE ctx
           names == exp.names \cup DefExpNames(t) \cup {e.exp[i] : i \in 1..Len(e.exp)}
           jexp == [opts |-> DictV(SelectSeq(jopts.v, LAMBDA kv : kv[1].v \in names)), names |-> names,
                    probe |-> jopts]
           npos == Len(e.args)
           bound(i) == \* value or "missing"
              IF i <= npos THEN <<TRUE, av[i]>>
              ELSE IF KwHas(e.kw, ps[i][1])
                   THEN <<TRUE, av[npos + (CHOOSE m \in 1..Len(e.kw) : e.kw[m][1] = ps[i][1])]>>
                   ELSE <<FALSE, NoneV>>
           defaultsNeeded == SelectSeq([i \in 1..Len(ps) |-> i], LAMBDA i : ~bound(i)[1])
           \* defaults are expressions evaluated as children of the parent, in the new job's context
           defRs == EvSeq([m \in 1..Len(defaultsNeeded) |-> ps[defaultsNeeded[m]][3]], jctx, exp, 1)
       IN IF npos > Len(ps) \/ \E i \in 1..Len(e.kw) : ~HasParam(ps, e.kw[i][1])
             \/ \E m \in 1..Len(defaultsNeeded) : ~ps[defaultsNeeded[m]][2]
          THEN {ErrV("TypeError", "*")}
          ELSE SeqErrs(defRs) \cup UNION {
                 LET full == [i \in 1..Len(ps) |->
                                IF bound(i)[1] THEN bound(i)[2]
                                ELSE dv[CHOOSE m \in 1..Len(defaultsNeeded) : defaultsNeeded[m] = i]]
                 IN Ev(Body(t, full, jopts), jctx, jexp)
                 : dv \in SeqVals(defRs)}
       : av \in SeqVals(argRs), ov \in Vals(optRs)}

RootExp == [opts |-> EmptyDict, names |-> {}, probe |-> EmptyDict]
Outs(e, rootctx) == Ev(e, rootctx, RootExp)
=============================================================================
