---------------------------- MODULE Prov_Oracle ----------------------------
(* Code -> spec for C20 / C21: the call graph read back from the database after an execution is
   compared with the record the semantics prescribes (Prov.tla).
   Input (IOEnv.CASES_FILE): sequence of
     [id, e, obs |-> <<node>>, flags |-> [merkle, values, jobs, root, tags]]
   node = [t, argvals, r, kids |-> <<[t, argvals, r]>>, args |-> <<[key, val, ups |-> <<[t, argvals, r]>>]>>]
   flags are 0/1 facts computed by the harness with redun's own hash functions on the concrete rows:
   every call hash recomputes from its parts, every value row deserialises to its key, job rows and
   parent links mirror the job tree, the execution's root job is the root, tags sit on the entity.
   Output: VERDICT <<id, graph ok, args ok, flags ok, #expected nodes>> and, when something differs,
   DIFF <<id, missing (expected, not recorded), extra (recorded, not expected)>> as terms. *)
EXTENDS Prov, IOUtils
Cases == JsonDeserialize(IOEnv.CASES_FILE)

T3(x) == <<x.t, x.argvals, x.r>>
ObsNodes(c) == {[term |-> T3(n), kids |-> {T3(n.kids[i]) : i \in 1..Len(n.kids)},
                 args |-> {<<n.args[i].key, n.args[i].val, {T3(n.args[i].ups[j]) : j \in 1..Len(n.args[i].ups)}>>
                           : i \in 1..Len(n.args)}] : n \in {c.obs[i] : i \in 1..Len(c.obs)}}
Graph(ns) == {[term |-> n.term, kids |-> n.kids] : n \in ns}
ArgsOf(ns) == {[term |-> n.term, args |-> n.args] : n \in ns}

Judge(c) ==
  LET exp == PV(c.e).nodes
      obs == ObsNodes(c)
      gok == Graph(exp) = Graph(obs)
      \* one call node is recorded once (the first recording wins), while the same call may be made
      \* from several places with differently derived arguments: the recorded arguments must be those
      \* of one of its occurrences, and every expected call must have been recorded
      aok == /\ \A o \in obs : \E x \in exp : x.term = o.term /\ x.args = o.args
             /\ \A x \in exp : \E o \in obs : o.term = x.term
      fok == \A f \in DOMAIN c.flags : c.flags[f] = 1
  IN /\ PrintT("VERDICT " \o ToJson(<<c.id, IF gok THEN 1 ELSE 0, IF aok THEN 1 ELSE 0, IF fok THEN 1 ELSE 0,
                                      Cardinality(exp)>>))
     /\ IF gok /\ aok THEN TRUE ELSE PrintT("DIFF " \o ToJson(<<c.id,
             SetToSeq({x.term : x \in {y \in exp : ~\E o \in obs : o.term = y.term}}),
             SetToSeq({o.term : o \in {y \in obs : ~\E x \in exp : x.term = y.term /\ x.args = y.args}})>>))

VARIABLE i
Init == i = 1
Next == i <= Len(Cases) /\ Judge(Cases[i]) /\ i' = i + 1
Spec == Init /\ [][Next]_i
=============================================================================
