----------------------------- MODULE Sched_Trace -----------------------------
(***************************************************************************)
(* Code -> spec: executions of the real Scheduler recorded by the          *)
(* controlled loop (harness/simloop.py) or by the pytest plugin are        *)
(* validated against Sched_Contract.  Input (IOEnv.TRACE_FILE):            *)
(*   [on |-> <<clause groups>>, traces |-> << [hdr |-> ..., evs |-> <<e>>] >>] *)
(* One VERDICT line per trace: <<tid, accepted, position, failed clause>>. *)
(* Traces of one group (same program, versions, run index) must also agree *)
(* on the digest of (outcome, recorded call graph): C07.                   *)
(***************************************************************************)
EXTENDS Sched_Contract, Json, IOUtils

Input == JsonDeserialize(IOEnv.TRACE_FILE)
Traces == Input.traces
On == {Input.on[i] : i \in 1..Len(Input.on)}
N == Len(Traces)

VARIABLES tid, l, c, seen
tvars == <<tid, l, c, seen>>

Hdr == Traces[tid].hdr
Evs == Traces[tid].evs

TInit == /\ tid = 1 /\ l = 1 /\ seen = <<>>
         /\ c = IF N = 0 THEN CInit({}) ELSE CInit(ResOf(Traces[1].hdr))

StepWhy == IF l > Len(Evs) THEN "end-of-trace" ELSE Why(c, Hdr, Evs[l], On)
TStep == /\ tid <= N /\ StepWhy = ""
         /\ c' = Do(c, Hdr, Evs[l]) /\ l' = l + 1
         /\ UNCHANGED <<tid, seen>>

\* digest agreement inside a group (checked when a trace has been accepted to its end)
DigestWhy == IF "callgraph" \in On /\ Hdr.group # "" /\ Hdr.group \in DOMAIN seen /\ seen[Hdr.group] # Hdr.digest
             THEN "callgraph:call-graph-or-result-differs-across-schedules" ELSE ""

TNextTrace ==
  /\ tid <= N /\ StepWhy # ""
  /\ LET accepted == l > Len(Evs)
         why == IF accepted THEN DigestWhy ELSE StepWhy
     IN /\ PrintT("VERDICT " \o ToJson(<<tid, IF accepted /\ why = "" THEN 1 ELSE 0, l, why>>))
        /\ seen' = IF accepted /\ Hdr.group # "" /\ Hdr.group \notin DOMAIN seen
                   THEN (Hdr.group :> Hdr.digest) @@ seen ELSE seen
  /\ tid' = tid + 1 /\ l' = 1
  /\ c' = IF tid + 1 <= N THEN CInit(ResOf(Traces[tid + 1].hdr)) ELSE CInit({})

TNext == TStep \/ TNextTrace
TSpec == TInit /\ [][TNext]_tvars

\* evaluated on every contract state reached while consuming accepted prefixes
TWithinLimits == tid <= N => (("limits" \in On) => WithinLimits(c, Hdr))
THeldIsSum == tid <= N => HeldIsSum(c, Hdr)
=============================================================================
