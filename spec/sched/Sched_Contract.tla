--------------------------- MODULE Sched_Contract ---------------------------
(***************************************************************************)
(* Contract-level specification of one scheduler execution, stated only    *)
(* over what is observable at stable seams (executor submissions, executor *)
(* completions, public backend calls, Scheduler.limits_used, the outcome   *)
(* of Scheduler.run).  It admits every implementation that keeps the       *)
(* listed properties; rejecting a recorded execution therefore means a     *)
(* property's own predicate failed on an observed step.                    *)
(*                                                                         *)
(* The contract state C:                                                   *)
(*   live    job -> units record, for jobs submitted and not yet reported  *)
(*   held    resource -> units held by live jobs (recomputed, never read   *)
(*           from the implementation)                                      *)
(*   keys    set of call keys (task hash, args hash, context) submitted    *)
(*   started / ended   jobs with a recorded start / end                    *)
(*   failed  set of <<etype, msg>> raised by task functions in this run    *)
(*   nsub, lastUsed                                                        *)
(* Each clause group belongs to one property and can be switched on alone  *)
(* (a check for C08 must not report a C06 failure).                        *)
(***************************************************************************)
EXTENDS Naturals, Integers, Sequences, FiniteSets, TLC, FiniteSetsExt

CInit(res) == [live |-> <<>>, held |-> [r \in res |-> 0], keys |-> {}, started |-> {},
               ended |-> {}, failed |-> {}, failedJobs |-> {}, ferr |-> <<>>, nsub |-> 0,
               lastUsed |-> [r \in res |-> 0], over |-> FALSE]

Lim(hdr, r) == hdr.limits[r]
ResOf(hdr) == DOMAIN hdr.limits

\* ---- clause predicates: each returns "" when satisfied, else the name of the failed clause ----
SubmitWhy(C, hdr, e, on) ==
  IF C.over THEN "event-after-end"
  ELSE IF e.job \in DOMAIN C.live THEN "job-submitted-twice"
  ELSE IF "once" \in on /\ e.optout = 0 /\ e.key \in C.keys THEN "once:key-submitted-twice"
  ELSE IF "limits" \in on /\ \E r \in ResOf(hdr) : C.held[r] + e.units[r] > Lim(hdr, r)
       THEN "limits:submit-exceeds-limit"
  ELSE IF "dry" \in on /\ hdr.mode = "dry" THEN "dry:submitted-in-dry-run"
  ELSE ""
DoSubmit(C, hdr, e) ==
  [C EXCEPT !.live = (e.job :> e.units) @@ @,
            !.held = [r \in ResOf(hdr) |-> @[r] + e.units[r]],
            !.keys = @ \cup {e.key}, !.nsub = @ + 1]

FinishWhy(C, hdr, e, on) ==
  IF C.over THEN "event-after-end"
  ELSE IF e.job \notin DOMAIN C.live THEN "finish-of-unsubmitted-job"
  ELSE ""
DoFinish(C, hdr, e) ==
  [C EXCEPT !.live = [j \in DOMAIN @ \ {e.job} |-> @[j]],
            !.held = [r \in ResOf(hdr) |-> @[r] - C.live[e.job][r]],
            !.failed = IF e.ok = 0 THEN @ \cup {<<e.etype, e.msg>>} ELSE @,
            !.failedJobs = IF e.ok = 0 THEN @ \cup {e.job} ELSE @,
            !.ferr = IF e.ok = 0 THEN (e.job :> <<e.etype, e.msg>>) @@ @ ELSE @]

\* limits_used as reported by the implementation after each step of the loop
StateWhy(C, hdr, e, on) ==
  IF "limits" \notin on THEN ""
  ELSE IF \E r \in ResOf(hdr) : e.used[r] > Lim(hdr, r) THEN "limits:used-exceeds-limit"
  ELSE IF \E r \in ResOf(hdr) : e.used[r] < 0 THEN "limits:used-negative"
  ELSE IF \E r \in ResOf(hdr) : e.used[r] < C.held[r] THEN "limits:used-below-held"
  ELSE ""
DoState(C, hdr, e) == [C EXCEPT !.lastUsed = e.used]

JobStartWhy(C, hdr, e, on) == IF C.over THEN "event-after-end" ELSE ""
DoJobStart(C, hdr, e) == [C EXCEPT !.started = @ \cup {e.job}]
JobEndWhy(C, hdr, e, on) ==
  IF "errors" \in on /\ e.job \in C.failedJobs /\ e.status # "FAILED" THEN "errors:failed-job-not-recorded-failed"
  ELSE ""
DoJobEnd(C, hdr, e) == [C EXCEPT !.ended = @ \cup {e.job}]

EndWhy(C, hdr, e, on) ==
  IF "nohang" \in on /\ e.outcome = "hang" THEN "nohang:quiescent-with-pending-workflow"
  \* if no task function raised, no job can end "failed": run() must return (the generated programs have no other
  \* source of errors than task functions and unknown executors)
  ELSE IF "nohang" \in on /\ e.outcome = "error" /\ C.failed = {} /\ e.etype # "SchedulerError"
       THEN "nohang:run-aborted-although-no-task-failed"
  ELSE IF "nohang" \in on /\ e.outcome = "value" /\ DOMAIN C.live # {} THEN "nohang:returned-with-running-jobs"
  ELSE IF "nohang" \in on /\ e.outcome = "value" /\ C.started # C.ended THEN "nohang:returned-with-unsettled-jobs"
  \* when run() returns, the scheduler accounts exactly for what still-running jobs hold (normally nothing)
  ELSE IF "limits" \in on /\ e.outcome = "value" /\ \E r \in ResOf(hdr) : C.lastUsed[r] # C.held[r]
       THEN "limits:units-not-returned"
  \* (errors raised by the scheduler itself -- unknown executor -- come from no task function)
  ELSE IF "errors" \in on /\ e.outcome = "error" /\ e.etype # "SchedulerError" /\ <<e.etype, e.msg>> \notin C.failed
       THEN "errors:raised-error-not-produced-by-an-execution-in-this-run"
  \* the job whose error run() raised is recorded (other jobs may have failed at their executor without the scheduler
  \* having processed the report before the workflow stopped: those are not "the failing job" of the statement)
  ELSE IF "errors" \in on /\ e.outcome = "error" /\ hdr.mode = "real" /\ e.etype # "SchedulerError"
          /\ <<e.etype, e.msg>> \in C.failed
          /\ ~\E j \in C.failedJobs : C.ferr[j] = <<e.etype, e.msg>> /\ j \in C.ended
       THEN "errors:failing-job-not-recorded"
  ELSE IF "errors" \in on /\ e.outcome = "value" /\ hdr.expect.res = "err" THEN "errors:error-swallowed"
  \* a dry run may also fail where the real run would fail before executing anything (unknown executor)
  ELSE IF "dry" \in on /\ hdr.mode = "dry" /\ e.outcome \notin {"value", "dry", "error"} THEN "dry:unexpected-outcome"
  ELSE IF "dry" \in on /\ hdr.prevdry.res = "error" /\ e.outcome = "value" THEN "dry:dry-run-failed-but-real-run-returned"
  ELSE IF "dry" \in on /\ hdr.prevdry.res = "value"
          /\ ~(e.outcome = "value" /\ e.val = hdr.prevdry.val) THEN "dry:real-run-differs-from-completed-dry-run"
  ELSE IF "dry" \in on /\ hdr.prevdry.res = "dry" /\ C.nsub = 0 THEN "dry:dry-run-stopped-but-real-run-executes-nothing"
  ELSE IF "determ" \in on /\ hdr.expect.res = "ok" /\ hdr.mode = "real"
          /\ ~(e.outcome = "value" /\ e.val = hdr.expect.v) THEN "determ:result-differs-from-reference"
  ELSE IF "determ" \in on /\ hdr.expect.res = "err" /\ hdr.mode = "real" /\ e.outcome # "error"
       THEN "determ:reference-fails-but-run-did-not"
  ELSE ""
DoEnd(C, hdr, e) == [C EXCEPT !.over = TRUE]

\* C03: an ultimate-reduction answer is served only from a call node all of whose subtree tasks (every task hash
\* reachable over the recorded call edges) are current; `stale` counts the ones that are not
UltWhy(C, hdr, e, on) ==
  IF "shallow" \in on /\ e.stale > 0 THEN "shallow:ultimate-hit-on-a-call-tree-with-edited-tasks" ELSE ""

Why(C, hdr, e, on) ==
  CASE e.ev = "submit"    -> SubmitWhy(C, hdr, e, on)
    [] e.ev = "finish"    -> FinishWhy(C, hdr, e, on)
    [] e.ev = "state"     -> StateWhy(C, hdr, e, on)
    [] e.ev = "job_start" -> JobStartWhy(C, hdr, e, on)
    [] e.ev = "job_end"   -> JobEndWhy(C, hdr, e, on)
    [] e.ev = "end"       -> EndWhy(C, hdr, e, on)
    [] e.ev = "ult_hit"   -> UltWhy(C, hdr, e, on)
    [] OTHER -> "unknown-event"
Do(C, hdr, e) ==
  CASE e.ev = "submit"    -> DoSubmit(C, hdr, e)
    [] e.ev = "finish"    -> DoFinish(C, hdr, e)
    [] e.ev = "state"     -> DoState(C, hdr, e)
    [] e.ev = "job_start" -> DoJobStart(C, hdr, e)
    [] e.ev = "job_end"   -> DoJobEnd(C, hdr, e)
    [] e.ev = "end"       -> DoEnd(C, hdr, e)
    [] e.ev = "ult_hit"   -> C

\* the invariant the limits clauses are meant to establish (checked on every contract state)
WithinLimits(C, hdr) == \A r \in ResOf(hdr) : C.held[r] <= Lim(hdr, r) /\ C.held[r] >= 0
HeldIsSum(C, hdr) ==
  \A r \in ResOf(hdr) : C.held[r] = FoldSet(LAMBDA j, a : a + C.live[j][r], 0, DOMAIN C.live)
=============================================================================
