------------------------------ MODULE Scheduler ------------------------------
(***************************************************************************)
(* As-built model of redun's event-loop scheduler (redun/scheduler.py),    *)
(* one TLA+ action per main-thread event handler plus the environment      *)
(* action "an executor finishes a running job".                            *)
(*                                                                         *)
(*   Step     _process_events pops the head of events_queue and runs it:   *)
(*     Exec     _exec_job_main_thread   (collapse | cache hit | wait for   *)
(*              limits | dry stop | submit)                                *)
(*     Done     _done_job_main_thread   (release + renominate, set cache,  *)
(*              evaluate the result: create child jobs)                    *)
(*     Resolve  _resolve_job_main_thread (record, settle promise: wake     *)
(*              dependants, parent, collapsed twins; finalize)             *)
(*     Reject   _reject_job_main_thread                                    *)
(*   Finish   executor thread calls done_job / reject_job (appends event)  *)
(*   NextRun  the next step of the plan: another Scheduler.run on the same *)
(*            backend (real or dry), or an edit of a task                  *)
(*                                                                         *)
(* Programs are JSON documents (harness/progen.py): tasks of kind leaf     *)
(* (arg + add), fail (raises) or calls (lazy sum of child calls whose      *)
(* arguments are constants, the parent's argument, or an earlier sibling's *)
(* result; kind noexec names an executor that does not exist),             *)
(* result), resource units per task, a plan of runs and edits.  Jobs are   *)
(* named by creation path (<<>> root, <<1,2>> second job created under the *)
(* first job created under the root), which the harness computes the same  *)
(* way on the real code.                                                   *)
(*                                                                         *)
(* Event order inside one handler follows the order in which the code      *)
(* registers promise callbacks (renominated jobs, then children with       *)
(* concrete arguments, then the job's own resolve event; on resolve:       *)
(* dependants, then the parent, then collapsed twins).                     *)
(***************************************************************************)
EXTENDS Naturals, Integers, Sequences, FiniteSets, TLC, Json, IOUtils, FiniteSetsExt, SequencesExt

\* a batch of programs; the initial state picks one (pi), so one TLC run covers them all
Progs == JsonDeserialize(IOEnv.PROGRAM_FILE)
VARIABLE pi
P == Progs[pi]
Tasks == P.tasks
TaskNames == DOMAIN Tasks
Res == {P.res[i] : i \in 1..Len(P.res)}
Plan == P.plan
Limit(r) == IF r \in DOMAIN P.limits THEN P.limits[r] ELSE 1
Units(t, r) == IF r \in DOMAIN Tasks[t].units THEN Tasks[t].units[r] ELSE 0
\* deviation switches (as-built = TRUE); the harness never changes them, they exist so that TLC can
\* show which property fails through which deviation
CONSTANTS DevChoices         \* subset of BOOLEAN: the initial state picks DevLostWakeup from it, so
                             \* one TLC run covers the model with and without the deviation
CONSTANTS DevRefork,         \* TRUE: a job re-entering after waiting for limits pre-processes its arguments
                             \* again and forks its handle a second time (redun as pinned; fixed)
          DevDoubleRelease,  \* TRUE: a job whose function finished (units released at Done) and whose
                             \* result evaluation then fails releases its units again in Reject
                             \* (redun as pinned; fixed)
          DevCseErrorArg,    \* TRUE (as built): an error replayed from a recorded failed call node (CSE hit)
                             \* is a deserialised copy with the recorded traceback attached, so the
                             \* recover call catch() makes for it has a different argument hash than
                             \* the one made for the original error object
          DevCseSubtree,     \* TRUE (redun as pinned; fixed): a job answered by CSE (it evaluates no child jobs)
                             \* contributes only its own task to the subtree task set its ancestors record,
                             \* so a check_valid="shallow" ancestor is replayed after an edit beneath it
          DevForkAtExec      \* TRUE (as built): a handle's fork key is the number of handle uses of the
                             \* parent *at the time the job first executes*, which depends on when its
                             \* other arguments resolve; FALSE: the key is positional
VARIABLE DevLostWakeup       \* a renominated job that is then served by collapse/CSE consumes
                             \* nothing and nobody renominates the jobs queued behind it

VARIABLES
  ver,        \* task -> current version (1-based); part of the task hash
  evalTab,    \* backend Evaluation table: set of <<task, ver, arg>> with a recorded single reduction
  nodeTab,    \* backend CallNode + CallSubtreeTask tables: sequence (oldest first) of
              \* [id, key, v, sub]; sub = the recorded subtree task set, a set of <<task, version>>
  catchTab,   \* what catch() has stored for "the error was recovered": set of <<guarded task, arg,
              \* version of the recover task, error id>> (keyed by the *name* of the guarded task)
  pc,         \* index into Plan of the current run (0 before the first)
  mode,       \* "real" | "dry" | "idle"
  useCache,   \* cache argument of the current run
  jobs,       \* path -> job record
  evq,        \* events_queue: sequence of [ty, j]
  running,    \* submitted to an executor, not yet reported
  pend,       \* _pending_jobs: key -> job path
  waiting,    \* _jobs_pending_limits
  used,       \* limits_used
  cse,        \* call nodes of this execution: key -> [ok, v]
  wf,         \* workflow promise: "pending" | "ok" | "err"
  rootval,    \* value of the workflow promise when ok
  submitted,  \* history: keys handed to an executor in this run, in order
  outs,       \* history: outcome record per finished run
  acts        \* history: choices of the current run (for spec -> code replay)

vars == <<DevLostWakeup, pi, ver, evalTab, nodeTab, catchTab, pc, mode, useCache, jobs, evq, running, pend, waiting, used, cse, wf,
          rootval, submitted, outs, acts>>

InSeq(x, s) == \E i \in 1..Len(s) : s[i] = x
TVer(t) == Tasks[t].vers[ver[t]]
KindOf(t) == TVer(t).kind
KeyOf(J, j) == <<J[j].t, ver[J[j].t], J[j].arg, J[j].fk>>
Key(j) == KeyOf(jobs, j)
TakesHandle(t) == Tasks[t].h = 1
\* cache_scope of the task: "BACKEND" (default), "CSE" (this execution only), "NONE" (opted out)
Scope(t) == Tasks[t].scope
\* check_valid="shallow": the task may be answered by ultimate reduction
\* an async def task cannot use single reduction; its backend lookups are shallow (ultimate reduction only)
IsAsync(t) == Tasks[t].as = 1
IsSh(t) == Tasks[t].sh = 1 \/ IsAsync(t)
CurHashes == {<<t, ver[t]>> : t \in TaskNames}
NoHit == [id |-> <<>>, key |-> <<>>, v |-> 0, sub |-> {}]
\* _get_call_node: recorded nodes of the call whose recorded subtree tasks are all current (and recorded at all)
UltNodes(k) == {i \in 1..Len(nodeTab) : nodeTab[i].key = k /\ nodeTab[i].sub # {} /\ nodeTab[i].sub \subseteq CurHashes}
\* units of a JOB: the call-time option limits=... (child spec field u, non-empty) replaces the task's own limits
JU(J, j, r) == IF DOMAIN J[j].u # {} THEN (IF r \in DOMAIN J[j].u THEN J[j].u[r] ELSE 0) ELSE Units(J[j].t, r)
FitsJ(J, j, u) == \A r \in Res : u[r] + JU(J, j, r) <= Limit(r)
Kids(j) == {k \in DOMAIN jobs : Len(k) = Len(j) + 1 /\ SubSeq(k, 1, Len(j)) = j}
Parent(j) == SubSeq(j, 1, Len(j) - 1)
NewJob(t, arg, ph) ==
  [t |-> t, arg |-> arg, ph |-> ph, cached |-> "no", res |-> 0, tw |-> <<>>, failed |-> FALSE,
   nom |-> FALSE,   \* nom: nominated from the limits queue by _check_jobs_pending_limits
   caught |-> FALSE, rec |-> <<0>>,   \* failed under a catch: the job of the recover call
   isrec |-> FALSE, for |-> <<0>>,    \* a recover job, and the failed sibling it stands in for
   ck |-> <<>>,                       \* recover job: the catch entry it completes when it resolves
   held |-> FALSE,  \* the job currently holds the units of its limits (consumed, not yet released)
   sub |-> {},      \* subtree task set of the job (known when it resolves / is rejected)
   nid |-> <<>>,    \* identity of its call node: <<key, value, identities of the child call nodes>>
   hit |-> NoHit,   \* the recorded node an ultimate-reduction hit replays
   u |-> <<>>,      \* call-time limits override (empty: the task's own limits apply)
   fk |-> 0,        \* fork key of the handle argument (0: the task takes no handle / not yet forked)
   nf |-> 0]        \* handle_forks counter of this job as a parent
\* phases: argwait (an argument is still a pending expression), execq (exec event queued),
\* waiting (limits queue), running (submitted), collapsed (waits for its twin), doneq (done/reject
\* event queued), evalwait (children running), resolveq, resolved, rejected, drystop

StartRun(m, c) ==
  /\ mode' = m /\ useCache' = c
  /\ jobs' = (<<>> :> NewJob(P.root.t, P.root.arg, "execq"))
  /\ evq' = << [ty |-> "exec", j |-> <<>>] >>
  /\ running' = {} /\ pend' = <<>> /\ waiting' = <<>> /\ used' = [r \in Res |-> 0]
  /\ cse' = <<>> /\ wf' = "pending" /\ rootval' = 0 /\ submitted' = <<>> /\ acts' = <<>>

Init ==
  /\ pi \in 1..Len(Progs) /\ DevLostWakeup \in DevChoices
  /\ ver = [t \in TaskNames |-> 1] /\ evalTab = {} /\ nodeTab = <<>> /\ catchTab = {} /\ pc = 0 /\ mode = "idle" /\ useCache = TRUE
  /\ jobs = <<>> /\ evq = <<>> /\ running = {} /\ pend = <<>> /\ waiting = <<>>
  /\ used = [r \in Res |-> 0] /\ cse = <<>> /\ wf = "idle" /\ rootval = 0
  /\ submitted = <<>> /\ outs = <<>> /\ acts = <<>>

(***************************************************************************)
(* _check_jobs_pending_limits: scan the queue in order, nominate the jobs  *)
(* that fit cumulatively, keep the rest.                                   *)
(***************************************************************************)
RECURSIVE Renom(_, _, _, _)
Renom(ws, u, ready, rest) ==
  IF ws = <<>> THEN <<ready, rest>>
  ELSE LET j == Head(ws) IN
       IF FitsJ(jobs, j, u)
       THEN Renom(Tail(ws), [r \in Res |-> u[r] + JU(jobs, j, r)], Append(ready, j), rest)
       ELSE Renom(Tail(ws), u, ready, Append(rest, j))
Release(j, u) == [r \in Res |-> u[r] - JU(jobs, j, r)]
ExecEvs(s) == [i \in 1..Len(s) |-> [ty |-> "exec", j |-> s[i]]]

(* a job that holds units releases them and renominates; served jobs (cached / collapsed) do not.
   As pinned, redun decided this by "was not cached" alone, which is also true of a job that already
   released its units when its function finished (DevDoubleRelease). *)
HoldsUnits(j) == IF DevDoubleRelease THEN jobs[j].cached = "no" ELSE jobs[j].held

CacheAllowed == useCache     \* cache=False downgrades cache_scope to CSE

(* A job that is served without consuming anything (collapse, cache hit) re-runs the nomination of
   the limits queue (DevLostWakeup = FALSE; redun after the "fix:" commit).  With the deviation
   (TRUE; redun as pinned) nothing happens: a job nominated from the queue that is then served
   hands nothing on and the jobs queued behind it wait for a release that may never come
   (finding lost-wakeup, C09). *)
NoTwin == <<0>>
Served(J, j, newph, newcached, ev, twin) ==
  LET rn == IF ~DevLostWakeup THEN Renom(waiting, used, <<>>, <<>>) ELSE <<<<>>, waiting>>
      ready == rn[1]
  IN /\ jobs' = [jj \in DOMAIN J |->
                   IF jj = j THEN [J[jj] EXCEPT !.ph = newph, !.cached = newcached]
                   ELSE IF jj = twin THEN [J[jj] EXCEPT !.tw = Append(@, j)]
                   ELSE IF InSeq(jj, ready) THEN [J[jj] EXCEPT !.ph = "execq", !.nom = TRUE]
                   ELSE J[jj]]
     /\ waiting' = rn[2]
     /\ evq' = Tail(evq) \o ExecEvs(ready) \o ev

\* position-based fork key: the number of handle-taking jobs created under the parent up to j
PosFk(J, j) == LET par == Parent(j) IN
  Cardinality({i \in 1..j[Len(j)] : Append(par, i) \in DOMAIN J /\ TakesHandle(J[Append(par, i)].t)})

(* _preprocess_args: a handle argument is forked with key = handle_forks counter of the parent.
   As built this happens on entry of _exec_job_main_thread, i.e. in execution order. *)
Preprocessed(j) ==
  LET t == jobs[j].t
      need == TakesHandle(t) /\ j # <<>> /\ (jobs[j].fk = 0 \/ DevRefork)
      par == Parent(j)
  IN IF ~need THEN jobs
     ELSE [jobs EXCEPT ![par].nf = @ + 1,
                       ![j].fk = IF DevForkAtExec THEN jobs[par].nf + 1 ELSE PosFk(jobs, j)]

Exec(j) ==
  LET J == Preprocessed(j) k == KeyOf(J, j) t == jobs[j].t IN
  IF Scope(t) # "NONE" /\ k \in DOMAIN pend THEN                      \* Collapse
       /\ Served(J, j, "collapsed", jobs[j].cached, <<>>, pend[k])
       /\ UNCHANGED <<running, pend, used, cse, wf, rootval, submitted, evalTab, nodeTab>>
  ELSE IF Scope(t) # "NONE" /\ k \in DOMAIN cse THEN                  \* HitCSE (value or error)
       /\ Served(J, j, "doneq", "cse", << [ty |-> IF cse[k].ok THEN "done" ELSE "reject", j |-> j] >>, NoTwin)
       /\ UNCHANGED <<running, pend, used, cse, wf, rootval, submitted, evalTab, nodeTab>>
  ELSE IF Scope(t) = "BACKEND" /\ CacheAllowed /\ IsSh(t) /\ UltNodes(k) # {} THEN   \* HitUltimate: the newest
       /\ Served([J EXCEPT ![j].hit = nodeTab[Max(UltNodes(k))]], j, "doneq", "ult",  \* current node's final value
                 << [ty |-> "done", j |-> j] >>, NoTwin)
       /\ UNCHANGED <<running, pend, used, cse, wf, rootval, submitted, evalTab, nodeTab>>
  ELSE IF Scope(t) = "BACKEND" /\ CacheAllowed /\ ~IsAsync(t) /\ k \in evalTab THEN   \* HitSingle
       /\ Served(J, j, "doneq", "single", << [ty |-> "done", j |-> j] >>, NoTwin)
       /\ UNCHANGED <<running, pend, used, cse, wf, rootval, submitted, evalTab, nodeTab>>
  ELSE IF mode = "dry" /\ KindOf(t) = "noexec" THEN                   \* dry run, unknown executor: rejected
       /\ jobs' = [J EXCEPT ![j].ph = "doneq"]                        \* (nothing was consumed)
       /\ evq' = Append(Tail(evq), [ty |-> "reject", j |-> j])
       /\ UNCHANGED <<running, pend, waiting, used, cse, wf, rootval, submitted, evalTab, nodeTab>>
  ELSE IF mode = "dry" THEN                                           \* DryStop
       /\ jobs' = [J EXCEPT ![j].ph = "drystop"]
       /\ evq' = Tail(evq)
       /\ UNCHANGED <<running, pend, waiting, used, cse, wf, rootval, submitted, evalTab, nodeTab>>
  ELSE IF ~FitsJ(J, j, used) THEN                                         \* Queue for limits
       /\ jobs' = [J EXCEPT ![j].ph = "waiting", ![j].nom = FALSE] /\ waiting' = Append(waiting, j)
       /\ evq' = Tail(evq)
       /\ UNCHANGED <<running, pend, used, cse, wf, rootval, submitted, evalTab, nodeTab>>
  ELSE IF KindOf(t) = "noexec" THEN                                   \* RejectNoExecutor: the units were
       /\ jobs' = [J EXCEPT ![j].ph = "doneq", ![j].held = TRUE]      \* consumed, the job is rejected
       /\ used' = [r \in Res |-> used[r] + JU(J, j, r)]              \* before reaching an executor
       /\ evq' = Append(Tail(evq), [ty |-> "reject", j |-> j])
       /\ UNCHANGED <<running, pend, waiting, cse, wf, rootval, submitted, evalTab, nodeTab>>
  ELSE                                                                \* Submit
       /\ jobs' = [J EXCEPT ![j].ph = "running", ![j].held = TRUE]
       /\ used' = [r \in Res |-> used[r] + JU(J, j, r)]
       /\ running' = running \cup {j}
       /\ pend' = IF Scope(t) = "NONE" THEN pend ELSE (k :> j) @@ pend   \* (nobody looks it up for NONE)
       /\ submitted' = Append(submitted, k)
       /\ evq' = Tail(evq)
       /\ UNCHANGED <<waiting, cse, wf, rootval, evalTab, nodeTab>>

(***************************************************************************)
(* Children of a "calls" job.  Two child expressions of one parent that    *)
(* denote the same call (same task, same argument expression) have the     *)
(* same expression hash and are evaluated once (_pending_expr): they share *)
(* one job.  SlotOf maps a child position to the first equal position,     *)
(* JobIdx to the creation index of the shared job.                         *)
(***************************************************************************)
CSpecs(t) == TVer(t).children
RECURSIVE SlotOf(_, _, _)
ArgX(t, parg, i) ==
  LET c == CSpecs(t)[i] IN
  IF c.k = "c" THEN <<"v", c.v>> ELSE IF c.k = "p" THEN <<"v", parg + c.v>>
  ELSE <<"s", SlotOf(t, parg, c.i)>>
SlotOf(t, parg, i) ==
  \* (call-time options are part of the expression hash)
  LET same(m) == CSpecs(t)[m].t = CSpecs(t)[i].t /\ ArgX(t, parg, m) = ArgX(t, parg, i) /\ CSpecs(t)[m].u = CSpecs(t)[i].u
  IN CHOOSE m \in 1..i : same(m) /\ \A m2 \in 1..(m - 1) : ~same(m2)
JobIdx(t, parg, i) == Cardinality({SlotOf(t, parg, m) : m \in 1..SlotOf(t, parg, i)})
DPos(t, parg) == {i \in 1..Len(CSpecs(t)) : SlotOf(t, parg, i) = i}
PosOf(t, parg, idx) == CHOOSE i \in DPos(t, parg) : JobIdx(t, parg, i) = idx
\* child spec of an existing child job k = Append(j, idx)
SpecOfJob(k) == LET j == Parent(k) IN CSpecs(jobs[j].t)[PosOf(jobs[j].t, jobs[j].arg, k[Len(k)])]

(***************************************************************************)
(* catch(t(arg), Exception, rec): a child spec with g = 1 is guarded.  When *)
(* the guarded job fails, promise_catch evaluates rec(error) as another job *)
(* of the same parent (created at that moment) instead of rejecting the     *)
(* parent; its value stands in for the child.  When the recovery succeeds   *)
(* catch() stores the recover call under a key made of the guarded          *)
(* expression's hash (task NAME and argument, not the task hash) and the    *)
(* recover task; a later execution that finds the entry evaluates the       *)
(* stored recover call directly and never starts the guarded task.          *)
(***************************************************************************)
RecTask == "rec"
TaskIx(t) == CHOOSE i \in 1..Len(P.tnames) : P.tnames[i] = t
ErrId(t, x) == IF KindOf(t) = "noexec" THEN 1999 ELSE 1000 + 10 * x + TaskIx(t)
Guarded(c) == c.g = 1
NewRec(errid, orig, key) ==
  [NewJob(RecTask, errid, "execq") EXCEPT !.isrec = TRUE, !.for = orig, !.ck = key]
CatchHit(t, x) == {c \in catchTab : c[1] = t /\ c[2] = x /\ c[3] = ver[RecTask]}

Done(j) ==
  LET holds == HoldsUnits(j)
      t == jobs[j].t
      parg == jobs[j].arg
      u1 == IF holds THEN Release(j, used) ELSE used
      rn == IF holds THEN Renom(waiting, u1, <<>>, <<>>) ELSE <<<<>>, waiting>>
      ready == rn[1]
      \* a CSE hit carries the final value; a single-reduction hit or a fresh result is evaluated
      hasKids == ~(jobs[j].cached \in {"cse", "ult"} \/ KindOf(t) # "calls") /\ Len(CSpecs(t)) > 0
      nd == IF hasKids THEN Cardinality(DPos(t, parg)) ELSE 0
      spec(idx) == CSpecs(t)[PosOf(t, parg, idx)]
      known(idx) == spec(idx).k # "s"
      argOf(idx) == IF spec(idx).k = "c" THEN spec(idx).v
                    ELSE IF spec(idx).k = "p" THEN parg + spec(idx).v ELSE 0
      jobs1 == [jj \in DOMAIN jobs |->
                  IF jj = j THEN [jobs[jj] EXCEPT !.ph = IF nd = 0 THEN "resolveq" ELSE "evalwait", !.held = FALSE]
                  ELSE IF InSeq(jj, ready) THEN [jobs[jj] EXCEPT !.ph = "execq", !.nom = TRUE] ELSE jobs[jj]]
      \* a guarded child whose recovery is in catch()'s table is replaced by the stored recover call
      replayRec(idx) == Guarded(spec(idx)) /\ known(idx) /\ useCache /\ CatchHit(spec(idx).t, argOf(idx)) # {}
      jobs2 == [k \in {Append(j, idx) : idx \in 1..nd} |->
                  LET idx == k[Len(k)] IN
                  IF replayRec(idx)
                  THEN LET c == CHOOSE c \in CatchHit(spec(idx).t, argOf(idx)) : TRUE IN NewRec(c[4], <<0>>, c)
                  ELSE [NewJob(spec(idx).t, argOf(idx), IF known(idx) THEN "execq" ELSE "argwait")
                          EXCEPT !.u = spec(idx).u]] @@ jobs1
      evKids == SelectSeq([idx \in 1..nd |-> [ty |-> "exec", j |-> Append(j, idx)]],
                          LAMBDA e : known(e.j[Len(e.j)]))
      evSelf == IF nd = 0 THEN << [ty |-> "resolve", j |-> j] >> ELSE <<>>
  IN /\ used' = u1 /\ waiting' = rn[2] /\ jobs' = jobs2
     /\ evq' = Tail(evq) \o ExecEvs(ready) \o evKids \o evSelf
     \* set_cache: single reduction recorded for fresh results (prov is always on here)
     /\ evalTab' = IF jobs[j].cached = "no" THEN evalTab \cup {Key(j)} ELSE evalTab
     /\ UNCHANGED <<running, pend, cse, wf, rootval, submitted, nodeTab>>

\* the lazy sum ranges over child *positions*: a shared job counts once per position
SumKids(j) == LET t == jobs[j].t parg == jobs[j].arg IN
  FoldSeq(LAMBDA x, a : a + x, 0,
          [i \in 1..Len(CSpecs(t)) |->
             LET c == jobs[Append(j, JobIdx(t, parg, i))] IN
             IF c.ph = "rejected" /\ c.caught THEN jobs[c.rec].res ELSE c.res])
\* Job.calc_subtree_tasks: a collapsed child was replaced in the parent's child list by the job it collapsed onto
TargetOf(s) == IF \E jj \in DOMAIN jobs : InSeq(s, jobs[jj].tw)
               THEN CHOOSE jj \in DOMAIN jobs : InSeq(s, jobs[jj].tw) ELSE s
\* children that have a call node: finished ones and failed ones (a failed job records its node too)
HashedKids(j) == {TargetOf(s) : s \in {x \in Kids(j) : jobs[x].ph \in {"resolved", "rejected"}}}
KidSub(j) == UNION {jobs[s].sub : s \in HashedKids(j)}
KidIds(j) == {jobs[s].nid : s \in HashedKids(j)}
OwnHash(j) == <<jobs[j].t, ver[jobs[j].t]>>
LeafVal(j) == IF KindOf(jobs[j].t) = "const" THEN TVer(jobs[j].t).add ELSE jobs[j].arg + TVer(jobs[j].t).add

Resolve(j) ==
  LET t == jobs[j].t
      k == Key(j)
      val == IF jobs[j].cached = "cse" THEN cse[k].v
             ELSE IF jobs[j].cached = "ult" THEN jobs[j].hit.v
             ELSE IF KindOf(t) = "calls" /\ Len(CSpecs(t)) > 0 THEN SumKids(j)
             ELSE LeafVal(j)
      par == Parent(j)
      \* a recover job stands in for the failed sibling: it wakes that sibling's dependants
      myidx == IF jobs[j].isrec /\ jobs[j].for # <<0>> THEN jobs[j].for[Len(jobs[j].for)] ELSE j[Len(j)]
      nsib == IF j = <<>> THEN 0 ELSE Cardinality(Kids(par))
      depsSeq == IF j = <<>> THEN <<>> ELSE
                 SelectSeq([i \in 1..nsib |-> Append(par, i)],
                           LAMBDA s : s \in DOMAIN jobs /\ jobs[s].ph = "argwait"
                                      /\ SpecOfJob(s).k = "s"
                                      /\ JobIdx(jobs[par].t, jobs[par].arg, SpecOfJob(s).i) = myidx)
      parDone == j # <<>> /\ \A s \in Kids(par) \ {j} :
                               jobs[s].ph = "resolved" \/ (jobs[s].ph = "rejected" /\ jobs[s].caught)
      twins == jobs[j].tw
      \* _resolve_job_main_thread: a job whose call hash came from the cache (CSE, ultimate) evaluated no
      \* children; its subtree tasks are read from the backend -- as pinned only for shallow tasks
      sub == IF jobs[j].cached = "ult" THEN jobs[j].hit.sub
             ELSE IF jobs[j].cached = "cse"
                  THEN (IF DevCseSubtree /\ ~IsSh(t) THEN {OwnHash(j)} ELSE cse[k].sub)
             ELSE {OwnHash(j)} \cup KidSub(j)
      nid == IF jobs[j].cached = "ult" THEN jobs[j].hit.id
             ELSE IF jobs[j].cached = "cse" THEN cse[k].id
             ELSE <<k, val, KidIds(j)>>
      jobs1 == [jj \in DOMAIN jobs |->
                 IF jj = j THEN [jobs[jj] EXCEPT !.ph = "resolved", !.res = val, !.sub = sub, !.nid = nid]
                 ELSE IF InSeq(jj, depsSeq) THEN [jobs[jj] EXCEPT !.ph = "execq", !.arg = val]
                 ELSE IF InSeq(jj, twins) THEN [jobs[jj] EXCEPT !.ph = "doneq", !.cached = "cse"]
                 ELSE IF parDone /\ jj = par THEN [jobs[jj] EXCEPT !.ph = "resolveq"]
                 ELSE jobs[jj]]
  IN /\ jobs' = jobs1
     /\ cse' = IF k \in DOMAIN cse THEN cse ELSE (k :> [ok |-> TRUE, v |-> val, sub |-> sub, id |-> nid]) @@ cse
     \* record_call_node: an existing call hash is left as it is (its subtree rows too)
     /\ nodeTab' = IF jobs[j].cached \in {"cse", "ult"} \/ \E i \in 1..Len(nodeTab) : nodeTab[i].id = nid THEN nodeTab
                   ELSE Append(nodeTab, [id |-> nid, key |-> k, v |-> val, sub |-> sub])
     /\ pend' = [kk \in {x \in DOMAIN pend : pend[x] # j} |-> pend[kk]]
     /\ evq' = Tail(evq) \o ExecEvs(depsSeq)
                \o (IF parDone THEN << [ty |-> "resolve", j |-> par] >> ELSE <<>>)
                \o [i \in 1..Len(twins) |-> [ty |-> "done", j |-> twins[i]]]
     /\ wf' = IF j = <<>> THEN "ok" ELSE wf
     /\ rootval' = IF j = <<>> THEN val ELSE rootval
     /\ UNCHANGED <<running, waiting, used, submitted, evalTab>>

(* rejection: collapsed twins are rejected synchronously inside the handler; each parent gets
   exactly one reject event (Promise.all rejects once) *)
Reject(j) ==
  LET holds == HoldsUnits(j)
      u1 == IF holds THEN Release(j, used) ELSE used
      rn == IF holds THEN Renom(waiting, u1, <<>>, <<>>) ELSE <<<<>>, waiting>>
      ready == rn[1]
      k == Key(j)
      twins == jobs[j].tw
      failing == <<j>> \o twins
      guarded(x) == x # <<>> /\ ~jobs[x].isrec /\ Guarded(SpecOfJob(x))
      \* twins have different parents (duplicates under one parent share one job), so every parent
      \* gets at most one new recover job in this step
      recPath(x) == Append(Parent(x), Cardinality(Kids(Parent(x))) + 1)
      \* the error object handed on: the original, or (the failing job was itself answered by CSE)
      \* the deserialised copy; collapsed twins receive whatever object j rejects with
      errOf(x) == ErrId(jobs[x].t, jobs[x].arg) + (IF DevCseErrorArg /\ jobs[j].cached = "cse" THEN 5000 ELSE 0)
      recKey(x) == <<jobs[x].t, jobs[x].arg, ver[RecTask], errOf(x)>>
      caughtSet == {failing[i] : i \in {n \in 1..Len(failing) : guarded(failing[n])}}
      \* unguarded failures reject their parent: one event per parent, unless it failed already
      plain == SelectSeq(failing, LAMBDA x : x # <<>> /\ ~guarded(x))
      pars == [i \in 1..Len(plain) |-> Parent(plain[i])]
      firstIdx(sq) == {i \in 1..Len(sq) : \A i2 \in 1..(i - 1) : sq[i2] # sq[i]}
      evOf(i) == LET x == failing[i] IN
                 IF x = <<>> THEN <<>>
                 ELSE IF guarded(x) THEN << [ty |-> "exec", j |-> recPath(x)] >>
                 ELSE LET p == Parent(x)
                          n == CHOOSE m \in 1..Len(plain) : plain[m] = x
                      IN IF ~jobs[p].failed /\ n \in firstIdx(pars) THEN << [ty |-> "reject", j |-> p] >> ELSE <<>>
      evs == FoldSeq(LAMBDA i, acc : acc \o evOf(i), <<>>, [i \in 1..Len(failing) |-> i])
      failPars == {e.j : e \in {evs[i] : i \in {n \in 1..Len(evs) : evs[n].ty = "reject"}}}
      jobs1 == [jj \in DOMAIN jobs |->
                 IF InSeq(jj, failing)
                 THEN [jobs[jj] EXCEPT !.ph = "rejected", !.held = FALSE,
                                       !.sub = {OwnHash(jj)} \cup KidSub(jj),
                                       !.nid = <<KeyOf(jobs, jj), -1, KidIds(jj)>>,
                                       !.cached = IF jj = j THEN jobs[j].cached ELSE "cse",
                                       !.caught = jj \in caughtSet,
                                       !.rec = IF jj \in caughtSet THEN recPath(jj) ELSE <<0>>]
                 ELSE IF InSeq(jj, ready) THEN [jobs[jj] EXCEPT !.ph = "execq", !.nom = TRUE]
                 ELSE IF jj \in failPars THEN [jobs[jj] EXCEPT !.failed = TRUE]
                 ELSE jobs[jj]]
      jobs2 == [p \in {recPath(x) : x \in caughtSet} |->
                  LET x == CHOOSE y \in caughtSet : recPath(y) = p IN
                  NewRec(errOf(x), x, recKey(x))] @@ jobs1
  IN /\ jobs' = jobs2 /\ used' = u1 /\ waiting' = rn[2]
     /\ cse' = IF k \in DOMAIN cse THEN cse
               ELSE (k :> [ok |-> FALSE, v |-> 0, sub |-> {OwnHash(j)} \cup KidSub(j), id |-> <<k, -1, KidIds(j)>>]) @@ cse
     /\ pend' = [kk \in {x \in DOMAIN pend : pend[x] # j} |-> pend[kk]]
     /\ evq' = Tail(evq) \o ExecEvs(ready) \o evs
     /\ wf' = IF InSeq(<<>>, failing) THEN "err" ELSE wf
     /\ UNCHANGED <<running, submitted, evalTab, nodeTab, rootval>>

\* observation compared with the real scheduler after every choice (primed: the state just reached)
ObsP == [used |-> used', running |-> running', waiting |-> waiting', qlen |-> Len(evq'),
         njobs |-> Cardinality(DOMAIN jobs'), nsub |-> Len(submitted'), wf |-> wf']

Step ==
  /\ wf = "pending" /\ evq # <<>>
  /\ LET e == Head(evq) IN
       /\ CASE e.ty = "exec" -> Exec(e.j)
            [] e.ty = "done" -> Done(e.j)
            [] e.ty = "resolve" -> Resolve(e.j)
            [] e.ty = "reject" -> Reject(e.j)
       \* on_recover: when the recover job resolves, catch() stores the recover call
       /\ catchTab' = IF e.ty = "resolve" /\ jobs[e.j].isrec THEN catchTab \cup {jobs[e.j].ck} ELSE catchTab
       /\ acts' = Append(acts, [c |-> <<"step">>, h |-> e.ty, j |-> e.j, o |-> ObsP])
  /\ UNCHANGED <<DevLostWakeup, pi, ver, pc, mode, useCache, outs>>

Finish(j) ==
  /\ wf = "pending" /\ j \in running
  /\ running' = running \ {j}
  /\ jobs' = [jobs EXCEPT ![j].ph = "doneq"]
  /\ evq' = Append(evq, [ty |-> IF KindOf(jobs[j].t) = "fail" THEN "reject" ELSE "done", j |-> j])
  /\ UNCHANGED <<DevLostWakeup, pi, pend, waiting, used, cse, wf, rootval, submitted, evalTab, nodeTab, catchTab, ver, pc, mode,
                 useCache, outs>>
  /\ acts' = Append(acts, [c |-> <<"finish", j>>, h |-> "finish", j |-> j, o |-> ObsP])

\* the run is over: run() returned, raised, or (dry) stopped with nothing left to process
RunOver == \/ wf \in {"ok", "err", "idle"}
           \/ (mode = "dry" /\ wf = "pending" /\ evq = <<>>)
Outcome == [mode |-> mode, cache |-> useCache, res |-> IF wf = "pending" THEN "dry" ELSE wf,
            v |-> rootval, nsub |-> Len(submitted), run |-> pc, ver |-> ver, acts |-> acts,
            subs |-> submitted]

NextRun ==
  /\ RunOver /\ pc < Len(Plan)
  /\ pc' = pc + 1 /\ pi' = pi /\ DevLostWakeup' = DevLostWakeup
  /\ outs' = IF mode = "idle" THEN outs ELSE Append(outs, Outcome)
  /\ LET st == Plan[pc + 1] IN
       IF st.k = "edit"
       THEN /\ ver' = [ver EXCEPT ![st.t] = IF @ = Len(Tasks[st.t].vers) THEN 1 ELSE @ + 1]
            /\ mode' = "idle" /\ wf' = "idle"
            /\ UNCHANGED <<evalTab, nodeTab, catchTab, useCache, jobs, evq, running, pend, waiting, used, cse, rootval,
                           submitted, acts>>
       ELSE /\ StartRun(st.mode, st.cache) /\ UNCHANGED <<ver, evalTab, nodeTab, catchTab>>

Next == Step \/ (\E j \in running : Finish(j)) \/ NextRun
Spec == Init /\ [][Next]_vars
PathSet == UNION {[1..n -> 1..5] : n \in 0..2}    \* job paths of depth <= 2, fan-out <= 5
\* fairness for C09: the loop keeps processing events and executors eventually report
FairSpec == Spec /\ WF_vars(Step) /\ WF_vars(NextRun)
            /\ \A j \in PathSet : WF_vars(Finish(j))

(***************************************************************************)
(* Properties                                                              *)
(***************************************************************************)
Holding == {j \in DOMAIN jobs : jobs[j].held}
\* C08: used is exactly what submitted-and-unreported jobs hold, and never exceeds the limit
HeldOK == \A r \in Res :
            /\ used[r] <= Limit(r)
            /\ used[r] = FoldSet(LAMBDA j, a : a + JU(jobs, j, r), 0, Holding)
\* C06: a key is handed to an executor at most once per execution
Once == \A i, i2 \in 1..Len(submitted) :
          (submitted[i] = submitted[i2] /\ Scope(submitted[i][1]) # "NONE") => i = i2
\* C09 (safety form): never quiescent with the workflow pending, except a dry run that stopped
NoHang == (~DevLostWakeup /\ wf = "pending" /\ mode = "real") => (evq # <<>> \/ running # {})
\* C09: when a real run returns, everything is settled
\* (as built, open finding: when a failure is caught, jobs that were still running beneath the failed job are
\*  abandoned -- the workflow can return while they are with the executor; OrphanReport names the programs)
UnderFailed(j) == \E n \in 1..(Len(j) - 1) : jobs[SubSeq(j, 1, n)].ph = "rejected"
Orphans == {j \in DOMAIN jobs : UnderFailed(j) /\ jobs[j].ph \notin {"resolved", "rejected"}}
SettledAtReturn == (wf = "ok") =>
   /\ waiting = <<>> /\ running \subseteq Orphans
   /\ \A r \in Res : used[r] = FoldSet(LAMBDA j, a : a + JU(jobs, j, r), 0, {j \in Orphans : jobs[j].held})
   /\ \A j \in DOMAIN jobs \ Orphans :
        jobs[j].ph = "resolved" \/ (jobs[j].ph = "rejected" /\ (jobs[j].caught \/ UnderFailed(j)))
\* always TRUE; reports the programs in which a real run can return while a job is still running
OrphanReport == (wf = "ok" /\ running # {}) => PrintT("ORPHANDEV " \o ToJson([pi |-> pi]))
\* C09 liveness
Terminates == []<>(RunOver)
\* C28: a dry run submits nothing
DrySubmitsNothing == mode = "dry" => (submitted = <<>> /\ running = {})
\* C12: errors are never in the single-reduction cache
NoErrorCached == \A k \in evalTab : Tasks[k[1]].vers[k[2]].kind \notin {"fail", "noexec"}

(* reference semantics (big-step), independent of scheduling: Val(t, arg) under the current versions *)
RECURSIVE RefVal(_, _, _)
RECURSIVE RefKids(_, _, _, _, _)
\* returns <<ok, value>>; children evaluated left to right, a failing child fails the call
RefVal(t, arg, vr) ==
  LET d == Tasks[t].vers[vr[t]] IN
  IF d.kind \in {"fail", "noexec"} THEN <<FALSE, 0>>
  ELSE IF d.kind = "const" THEN <<TRUE, d.add>>
  ELSE IF d.kind = "leaf" \/ Len(d.children) = 0 THEN <<TRUE, arg + d.add>>
  ELSE RefKids(t, arg, vr, 1, <<>>)
RefKids(t, arg, vr, i, got) ==
  LET d == Tasks[t].vers[vr[t]] IN
  IF i > Len(d.children)
  THEN <<TRUE, FoldSeq(LAMBDA x, a : a + x, 0, got)>>
  ELSE LET c == d.children[i]
           a == IF c.k = "c" THEN c.v ELSE IF c.k = "p" THEN arg + c.v ELSE got[c.i]
           r == RefVal(c.t, a, vr)
       IN IF r[1] THEN RefKids(t, arg, vr, i + 1, Append(got, r[2]))
          ELSE IF c.g = 1      \* caught: the recover task's value stands in
               THEN RefKids(t, arg, vr, i + 1, Append(got, RefVal(RecTask, 0, vr)[2]))
          ELSE \* the call fails, but later siblings that do not depend on it may still fail too;
               \* the outcome is "error" either way
               <<FALSE, 0>>
Ref == RefVal(P.root.t, P.root.arg, ver)
\* the reference outcome of every run of the plan (versions follow the edits), printed once per program: the harness
\* judges every recorded execution against it, whether or not a sampled behaviour reached that run
RECURSIVE PlanRefs(_, _, _)
PlanRefs(i, vr, acc) ==
  IF i > Len(Plan) THEN acc
  ELSE LET st == Plan[i] IN
       IF st.k = "edit"
       THEN PlanRefs(i + 1, [vr EXCEPT ![st.t] = IF @ = Len(Tasks[st.t].vers) THEN 1 ELSE @ + 1], acc)
       ELSE LET r == RefVal(P.root.t, P.root.arg, vr) IN
            PlanRefs(i + 1, vr, Append(acc, [res |-> IF st.mode # "real" THEN "none" ELSE IF r[1] THEN "ok" ELSE "err",
                                             v |-> r[2]]))
RefReport == (pc = 0 /\ mode = "idle" /\ outs = <<>>) =>
               PrintT("REF " \o ToJson([pi |-> pi, refs |-> PlanRefs(1, [t \in TaskNames |-> 1], <<>>)]))
\* C01/C02/C07: whatever the schedule and whatever is cached, a finished real run returns the
\* reference value, and fails iff the reference evaluation fails
Deterministic ==
  /\ (wf = "ok") => (Ref[1] /\ rootval = Ref[2])
  /\ (wf = "err") => ~Ref[1]
\* C07: the fork key of every handle argument (hence its hash, the args hash and the call hash) is a
\* function of the program, not of the schedule or of waiting for limits
ForkByPosition == \A j \in DOMAIN jobs : jobs[j].fk > 0 => jobs[j].fk = PosFk(jobs, j)
\* always TRUE; reports the programs in which a recover call was made for a CSE-replayed error
CseErrReport == (\E j \in DOMAIN jobs : jobs[j].isrec /\ jobs[j].arg >= 6000) =>
                   PrintT("CSEERRDEV " \o ToJson([pi |-> pi]))
\* always TRUE; reports the programs in which the as-built fork numbering is timing dependent
ForkReport == ~ForkByPosition => PrintT("FORKDEV " \o ToJson([pi |-> pi]))
\* C28 over consecutive outcomes: a completed dry run predicts the next real run (no edit between),
\* an incomplete one means the real run submits at least one job
DryPredicts ==
  \A i \in 1..(Len(outs) - 1) :
    (outs[i].mode = "dry" /\ outs[i + 1].mode = "real" /\ outs[i + 1].run = outs[i].run + 1) =>
       /\ (outs[i].res = "ok") => (outs[i + 1].res = "ok" /\ outs[i + 1].v = outs[i].v /\ outs[i + 1].nsub = 0)
       /\ (outs[i].res = "dry") => outs[i + 1].nsub >= 1
       /\ outs[i].res # "err" \/ outs[i + 1].res = "err"

OutsView == [i \in 1..Len(outs) |-> [outs[i] EXCEPT !.acts = <<>>]]
View == <<DevLostWakeup, pi, ver, evalTab, nodeTab, catchTab, pc, mode, useCache, jobs, evq, running, pend, waiting, used, cse, wf, rootval,
          submitted, OutsView>>
\* a hang is a terminal state too (the behaviour is replayed up to it)
Hung == wf = "pending" /\ mode = "real" /\ evq = <<>> /\ running = {}
\* behaviours for spec -> code replay: printed when the plan is exhausted (or the run hangs)
Emit == ((pc = Len(Plan) /\ RunOver /\ mode # "idle") \/ Hung) =>
          PrintT("BEH " \o ToJson([pi |-> pi, runs |-> Append(outs, Outcome), hung |-> Hung]))
\* exhaustive runs report every distinct hung state with one witness path (always TRUE)
HangReport == (Hung /\ DevLostWakeup) => PrintT("HUNG " \o ToJson([pi |-> pi, runs |-> Append(outs, Outcome), hung |-> TRUE]))
=============================================================================
