------------------------------ MODULE TagValue ------------------------------
(***************************************************************************)
(* redun/tags.py format_tag_value / parse_tag_value (C34) transcribed as a *)
(* decision table over texts.  A text is a sequence of unicode code points *)
(* (TLC has no string theory); everything the two functions delegate to is *)
(* transcribed too: Python int() and float() text recognisers, json.dumps  *)
(* (sort_keys, ensure_ascii) and json.loads (strict) as a recursive        *)
(* descent parser.                                                         *)
(*                                                                         *)
(* Values are records [k, v]:                                              *)
(*   "none" 0 | "bool" 0/1 | "int" <<sign, d1..dn>> (canonical decimal)    *)
(*   "float" [s, d, e, r]: sign, canonical digits (no leading / trailing   *)
(*       zeros, <<>> for zero), decimal exponent; r = the text Python's    *)
(*       repr gives (shortest round-trip digits are NOT modelled: r is an  *)
(*       oracle supplied with the value, <<>> on parser output)            *)
(*   "fnan" 0 | "finf" sign | "str" text | "list" <<values>>               *)
(*   "dict" << <<keytext, value>> ... >> sorted by key, keys unique        *)
(* Parse results: a value or ErrV (ValueError).  Format results: a text or *)
(* ErrT == <<-1>> (the call raised).                                       *)
(*                                                                         *)
(* Format takes a flag: TRUE = the contract (texts the parser would route  *)
(* to the JSON parser are always quoted), FALSE = the as-built code, whose *)
(* two deviations are named below.                                         *)
(***************************************************************************)
EXTENDS Naturals, Integers, Sequences, FiniteSets, TLC

V(k, v) == [k |-> k, v |-> v]
ErrV == V("err", 0)
ErrT == <<-1>>

LB == 91  RB == 93  LC == 123  RC == 125  QT == 34  BSL == 92  SP == 32  CM == 44  CL == 58
MI == 45  PL == 43  DT == 46  US == 95  NL == 10
Wtrue == <<116, 114, 117, 101>>
Wfalse == <<102, 97, 108, 115, 101>>
Wnull == <<110, 117, 108, 108>>
WNaN == <<78, 97, 78>>
WInfinity == <<73, 110, 102, 105, 110, 105, 116, 121>>
Wnan == <<110, 97, 110>>
Winf == <<105, 110, 102>>
Winfinity == <<105, 110, 102, 105, 110, 105, 116, 121>>

At(s, p) == IF p >= 1 /\ p <= Len(s) THEN s[p] ELSE -1
IsDigit(c) == c >= 48 /\ c <= 57
\* str.strip() / int() / float() whitespace (ASCII part + the common non-ASCII blanks)
IsPyWS(c) == c \in {9, 10, 11, 12, 13, 28, 29, 30, 31, 32, 133, 160, 5760, 8232, 8233, 8239, 8287, 12288}
             \/ (c >= 8192 /\ c <= 8202)
Lower(c) == IF c >= 65 /\ c <= 90 THEN c + 32 ELSE c
LowerSeq(s) == [i \in 1..Len(s) |-> Lower(s[i])]
StartsWith(s, p, w) == p + Len(w) - 1 <= Len(s) /\ SubSeq(s, p, p + Len(w) - 1) = w

RECURSIVE SkipDigits(_, _)
SkipDigits(s, p) == IF IsDigit(At(s, p)) THEN SkipDigits(s, p + 1) ELSE p     \* first non-digit position

---------------------------------------------------------------------------
(* numbers from text *)
RECURSIVE DropLeadingZeros(_), DropTrailingZeros(_)
DropLeadingZeros(ds) == IF ds # <<>> /\ Head(ds) = 0 THEN DropLeadingZeros(Tail(ds)) ELSE ds
DropTrailingZeros(ds) == IF ds # <<>> /\ ds[Len(ds)] = 0 THEN DropTrailingZeros(SubSeq(ds, 1, Len(ds) - 1)) ELSE ds
DigitVals(t) == [i \in 1..Len(t) |-> t[i] - 48]

IntVal(neg, dtext) ==
  LET ds == DropLeadingZeros(DigitVals(dtext)) IN
  IF ds = <<>> THEN V("int", <<0, 0>>) ELSE V("int", <<IF neg THEN 1 ELSE 0>> \o ds)

RECURSIVE NatOf(_, _)
NatOf(ds, acc) == IF ds = <<>> THEN acc ELSE NatOf(Tail(ds), acc * 10 + Head(ds))
\* exponents of more than 8 digits are clamped (the float over/underflows long before)
ExpOf(neg, dtext) == LET ds == DropLeadingZeros(DigitVals(dtext))
                         n == IF Len(ds) > 8 THEN 99999999 ELSE NatOf(ds, 0)
                     IN IF neg THEN -n ELSE n

FloatVal(neg, itext, ftext, ex) ==
  LET all == DropLeadingZeros(DigitVals(itext \o ftext))
      core == DropTrailingZeros(all)
      tz == Len(all) - Len(core)
  IN V("float", [s |-> IF neg THEN 1 ELSE 0, d |-> core,
                 e |-> IF core = <<>> THEN 0 ELSE ex - Len(ftext) + tz, r |-> <<>>])

\* surrounding blanks removed
RECURSIVE LStrip(_), RStrip(_)
LStrip(s) == IF s # <<>> /\ IsPyWS(Head(s)) THEN LStrip(Tail(s)) ELSE s
RStrip(s) == IF s # <<>> /\ IsPyWS(s[Len(s)]) THEN RStrip(SubSeq(s, 1, Len(s) - 1)) ELSE s
Strip(s) == RStrip(LStrip(s))

\* PEP 515: an underscore needs a digit on both sides; then it is dropped
UnderscoresOK(s) == \A i \in 1..Len(s) : s[i] = US => IsDigit(At(s, i - 1)) /\ IsDigit(At(s, i + 1))
RECURSIVE DropUS(_)
DropUS(s) == IF s = <<>> THEN <<>> ELSE IF Head(s) = US THEN DropUS(Tail(s)) ELSE <<Head(s)>> \o DropUS(Tail(s))
AllDigits(s) == \A i \in 1..Len(s) : IsDigit(s[i])

\* Python int(text): value or ErrV
PyInt(text) ==
  LET s0 == Strip(text)
      signed == s0 # <<>> /\ s0[1] \in {MI, PL}
      body0 == IF signed THEN Tail(s0) ELSE s0
  IN IF ~UnderscoresOK(body0) THEN ErrV
     ELSE LET body == DropUS(body0) IN
          IF body = <<>> \/ ~AllDigits(body) THEN ErrV
          ELSE IntVal(signed /\ s0[1] = MI, body)

\* Python float(text): value or ErrV
PyFloat(text) ==
  LET s0 == Strip(text)
      signed == s0 # <<>> /\ s0[1] \in {MI, PL}
      neg == signed /\ s0[1] = MI
      body0 == IF signed THEN Tail(s0) ELSE s0
      low == LowerSeq(body0)
  IN IF low \in {Winf, Winfinity} THEN V("finf", IF neg THEN 1 ELSE 0)
     ELSE IF low = Wnan THEN V("fnan", 0)
     ELSE IF ~UnderscoresOK(body0) THEN ErrV
     ELSE LET b == DropUS(body0)
              iEnd == SkipDigits(b, 1)                       \* integer digits b[1..iEnd-1]
              hasDot == At(b, iEnd) = DT
              fStart == IF hasDot THEN iEnd + 1 ELSE iEnd
              fEnd == IF hasDot THEN SkipDigits(b, fStart) ELSE iEnd
              itext == SubSeq(b, 1, iEnd - 1)
              ftext == IF hasDot THEN SubSeq(b, fStart, fEnd - 1) ELSE <<>>
              hasExp == At(b, fEnd) \in {101, 69}
              eSigned == hasExp /\ At(b, fEnd + 1) \in {MI, PL}
              eStart == IF eSigned THEN fEnd + 2 ELSE fEnd + 1
              eEnd == IF hasExp THEN SkipDigits(b, eStart) ELSE fEnd
              etext == IF hasExp THEN SubSeq(b, eStart, eEnd - 1) ELSE <<>>
          IN IF itext = <<>> /\ ftext = <<>> THEN ErrV
             ELSE IF hasExp /\ etext = <<>> THEN ErrV
             ELSE IF eEnd # Len(b) + 1 THEN ErrV
             ELSE FloatVal(neg, itext, ftext, IF hasExp THEN ExpOf(eSigned /\ At(b, fEnd + 1) = MI, etext) ELSE 0)

---------------------------------------------------------------------------
(* json.dumps(value, sort_keys=True) *)
HexDigit(n) == IF n < 10 THEN 48 + n ELSE 87 + n
U4(n) == <<BSL, 117, HexDigit(n \div 4096), HexDigit((n \div 256) % 16), HexDigit((n \div 16) % 16), HexDigit(n % 16)>>
EscChar(c) ==
  CASE c = QT -> <<BSL, QT>>
    [] c = BSL -> <<BSL, BSL>>
    [] c = 10 -> <<BSL, 110>>
    [] c = 13 -> <<BSL, 114>>
    [] c = 9 -> <<BSL, 116>>
    [] c = 8 -> <<BSL, 98>>
    [] c = 12 -> <<BSL, 102>>
    [] c < 32 -> U4(c)
    [] c < 128 -> <<c>>
    [] c < 65536 -> U4(c)
    [] OTHER -> U4(55296 + ((c - 65536) \div 1024)) \o U4(56320 + ((c - 65536) % 1024))
RECURSIVE EscText(_, _)
EscText(s, i) == IF i > Len(s) THEN <<>> ELSE EscChar(s[i]) \o EscText(s, i + 1)
DumpStr(s) == <<QT>> \o EscText(s, 1) \o <<QT>>

RECURSIVE LexLess(_, _)
LexLess(a, b) == IF a = <<>> THEN b # <<>>
                 ELSE IF b = <<>> THEN FALSE
                 ELSE IF Head(a) # Head(b) THEN Head(a) < Head(b)
                 ELSE LexLess(Tail(a), Tail(b))
RECURSIVE InsertPair(_, _), SortPairs(_)
InsertPair(sorted, pr) ==
  IF sorted = <<>> THEN <<pr>>
  ELSE IF LexLess(pr[1], Head(sorted)[1]) THEN <<pr>> \o sorted
  ELSE <<Head(sorted)>> \o InsertPair(Tail(sorted), pr)
SortPairs(ps) == IF ps = <<>> THEN <<>> ELSE InsertPair(SortPairs(SubSeq(ps, 1, Len(ps) - 1)), ps[Len(ps)])

RECURSIVE Dumps(_), DumpItems(_, _), DumpPairs(_, _)
Dumps(x) ==
  CASE x.k = "none" -> Wnull
    [] x.k = "bool" -> IF x.v = 1 THEN Wtrue ELSE Wfalse
    [] x.k = "int" -> (IF x.v[1] = 1 THEN <<MI>> ELSE <<>>) \o [j \in 1..(Len(x.v) - 1) |-> 48 + x.v[j + 1]]
    [] x.k = "float" -> x.v.r
    [] x.k = "fnan" -> WNaN
    [] x.k = "finf" -> (IF x.v = 1 THEN <<MI>> ELSE <<>>) \o WInfinity
    [] x.k = "str" -> DumpStr(x.v)
    [] x.k = "list" -> <<LB>> \o DumpItems(x.v, 1) \o <<RB>>
    [] x.k = "dict" -> <<LC>> \o DumpPairs(SortPairs(x.v), 1) \o <<RC>>
DumpItems(s, i) ==
  IF i > Len(s) THEN <<>>
  ELSE Dumps(s[i]) \o (IF i < Len(s) THEN <<CM, SP>> ELSE <<>>) \o DumpItems(s, i + 1)
DumpPairs(ps, i) ==
  IF i > Len(ps) THEN <<>>
  ELSE DumpStr(ps[i][1]) \o <<CL, SP>> \o Dumps(ps[i][2]) \o (IF i < Len(ps) THEN <<CM, SP>> ELSE <<>>)
       \o DumpPairs(ps, i + 1)

---------------------------------------------------------------------------
(* json.loads(text), strict: results [ok, val, p] *)
Ok(val, p) == [ok |-> TRUE, val |-> val, p |-> p]
Fail == [ok |-> FALSE, val |-> ErrV, p |-> 0]
IsJsonWS(c) == c \in {32, 9, 10, 13}
RECURSIVE SkipWS(_, _)
SkipWS(s, p) == IF IsJsonWS(At(s, p)) THEN SkipWS(s, p + 1) ELSE p

HexVal(c) == IF c >= 48 /\ c <= 57 THEN c - 48
             ELSE IF c >= 97 /\ c <= 102 THEN c - 87
             ELSE IF c >= 65 /\ c <= 70 THEN c - 55 ELSE -1
Hex4OK(s, p) == \A j \in 0..3 : HexVal(At(s, p + j)) >= 0
Hex4Val(s, p) == HexVal(s[p]) * 4096 + HexVal(s[p + 1]) * 256 + HexVal(s[p + 2]) * 16 + HexVal(s[p + 3])

\* scanstring: p is the position after the opening quote; returns the text and the position
\* after the closing quote
RECURSIVE ScanString(_, _, _)
ScanString(s, p, acc) ==
  LET c == At(s, p) IN
  CASE c = -1 -> Fail                                   \* unterminated
    [] c = QT -> Ok(acc, p + 1)
    [] c >= 0 /\ c < 32 -> Fail                         \* control character (strict)
    [] c = BSL ->
         LET e == At(s, p + 1) IN
         CASE e \in {QT, BSL, 47} -> ScanString(s, p + 2, Append(acc, e))
           [] e = 98 -> ScanString(s, p + 2, Append(acc, 8))
           [] e = 102 -> ScanString(s, p + 2, Append(acc, 12))
           [] e = 110 -> ScanString(s, p + 2, Append(acc, 10))
           [] e = 114 -> ScanString(s, p + 2, Append(acc, 13))
           [] e = 116 -> ScanString(s, p + 2, Append(acc, 9))
           [] e = 117 ->
                IF ~Hex4OK(s, p + 2) THEN Fail
                ELSE LET u == Hex4Val(s, p + 2) IN
                     IF u >= 55296 /\ u <= 56319 /\ At(s, p + 6) = BSL /\ At(s, p + 7) = 117
                     THEN IF ~Hex4OK(s, p + 8) THEN Fail
                          ELSE LET u2 == Hex4Val(s, p + 8) IN
                               IF u2 >= 56320 /\ u2 <= 57343
                               THEN ScanString(s, p + 12, Append(acc, 65536 + (u - 55296) * 1024 + (u2 - 56320)))
                               ELSE ScanString(s, p + 6, Append(acc, u))
                     ELSE ScanString(s, p + 6, Append(acc, u))
           [] OTHER -> Fail
    [] OTHER -> ScanString(s, p + 1, Append(acc, c))

\* NUMBER_RE = (-?(?:0|[1-9]\d*))(\.\d+)?([eE][-+]?\d+)?   matched at p; 0 if no match
JsonNumber(s, p) ==
  LET neg == At(s, p) = MI
      q == IF neg THEN p + 1 ELSE p
      iEnd == IF At(s, q) = 48 THEN q + 1 ELSE IF IsDigit(At(s, q)) THEN SkipDigits(s, q) ELSE 0
  IN IF iEnd = 0 THEN Fail
     ELSE LET hasFrac == At(s, iEnd) = DT /\ IsDigit(At(s, iEnd + 1))
              fEnd == IF hasFrac THEN SkipDigits(s, iEnd + 1) ELSE iEnd
              eSigned == At(s, fEnd + 1) \in {MI, PL}
              eStart == IF eSigned THEN fEnd + 2 ELSE fEnd + 1
              hasExp == At(s, fEnd) \in {101, 69} /\ IsDigit(At(s, eStart))
              eEnd == IF hasExp THEN SkipDigits(s, eStart) ELSE fEnd
              itext == SubSeq(s, q, iEnd - 1)
          IN IF ~hasFrac /\ ~hasExp THEN Ok(IntVal(neg, itext), iEnd)
             ELSE Ok(FloatVal(neg, itext, IF hasFrac THEN SubSeq(s, iEnd + 1, fEnd - 1) ELSE <<>>,
                              IF hasExp THEN ExpOf(eSigned /\ At(s, fEnd + 1) = MI, SubSeq(s, eStart, eEnd - 1))
                              ELSE 0), eEnd)

RECURSIVE IndexOfKey(_, _, _)
IndexOfKey(ps, key, i) == IF i > Len(ps) THEN 0 ELSE IF ps[i][1] = key THEN i ELSE IndexOfKey(ps, key, i + 1)
PutKey(ps, key, val) == LET j == IndexOfKey(ps, key, 1) IN
                        IF j = 0 THEN Append(ps, <<key, val>>) ELSE [ps EXCEPT ![j] = <<key, val>>]

RECURSIVE ScanValue(_, _), ScanArray(_, _, _), ScanObject(_, _, _)
ScanValue(s, p) ==
  LET c == At(s, p) IN
  CASE c = QT -> LET r == ScanString(s, p + 1, <<>>) IN IF r.ok THEN Ok(V("str", r.val), r.p) ELSE Fail
    [] c = LC -> LET q == SkipWS(s, p + 1) IN
                 IF At(s, q) = RC THEN Ok(V("dict", <<>>), q + 1) ELSE ScanObject(s, q, <<>>)
    [] c = LB -> LET q == SkipWS(s, p + 1) IN
                 IF At(s, q) = RB THEN Ok(V("list", <<>>), q + 1) ELSE ScanArray(s, q, <<>>)
    [] c = 110 /\ StartsWith(s, p, Wnull) -> Ok(V("none", 0), p + 4)
    [] c = 116 /\ StartsWith(s, p, Wtrue) -> Ok(V("bool", 1), p + 4)
    [] c = 102 /\ StartsWith(s, p, Wfalse) -> Ok(V("bool", 0), p + 5)
    [] OTHER ->
         LET n == JsonNumber(s, p) IN
         IF n.ok THEN n
         ELSE IF StartsWith(s, p, WNaN) THEN Ok(V("fnan", 0), p + 3)
         ELSE IF StartsWith(s, p, WInfinity) THEN Ok(V("finf", 0), p + 8)
         ELSE IF c = MI /\ StartsWith(s, p + 1, WInfinity) THEN Ok(V("finf", 1), p + 9)
         ELSE Fail
\* p is at the first character of an element
ScanArray(s, p, acc) ==
  LET r == ScanValue(s, p) IN
  IF ~r.ok THEN Fail
  ELSE LET q == SkipWS(s, r.p) IN
       IF At(s, q) = RB THEN Ok(V("list", Append(acc, r.val)), q + 1)
       ELSE IF At(s, q) = CM THEN ScanArray(s, SkipWS(s, q + 1), Append(acc, r.val))
       ELSE Fail
\* p is at the opening quote of a key
ScanObject(s, p, acc) ==
  IF At(s, p) # QT THEN Fail
  ELSE LET k == ScanString(s, p + 1, <<>>) IN
       IF ~k.ok THEN Fail
       ELSE LET q == SkipWS(s, k.p) IN
            IF At(s, q) # CL THEN Fail
            ELSE LET r == ScanValue(s, SkipWS(s, q + 1)) IN
                 IF ~r.ok THEN Fail
                 ELSE LET acc2 == PutKey(acc, k.val, r.val)
                          q2 == SkipWS(s, r.p)
                      IN IF At(s, q2) = RC THEN Ok(V("dict", SortPairs(acc2)), q2 + 1)
                         ELSE IF At(s, q2) = CM THEN ScanObject(s, SkipWS(s, q2 + 1), acc2)
                         ELSE Fail

Loads(s) == LET r == ScanValue(s, SkipWS(s, 1)) IN
            IF r.ok /\ SkipWS(s, r.p) = Len(s) + 1 THEN r.val ELSE ErrV

---------------------------------------------------------------------------
(* redun/tags.py *)
Parse(s) ==
  IF s = <<>> THEN V("none", 0)
  ELSE IF s[1] \in {LB, LC, QT} THEN Loads(s)               \* JSONDecodeError -> ValueError
  ELSE LET i == PyInt(s) IN
       IF i # ErrV THEN i
       ELSE LET f == PyFloat(s) IN
            IF f # ErrV THEN f
            ELSE IF s = Wtrue THEN V("bool", 1)
            ELSE IF s = Wfalse THEN V("bool", 0)
            ELSE IF s = Wnull THEN V("none", 0)
            ELSE V("str", s)

\* re.match(".*[ ,].*", s): '.' does not cross a newline, so only the first line is looked at
HasSpaceOrComma(s) == \E i \in 1..Len(s) : s[i] \in {SP, CM} /\ \A j \in 1..(i - 1) : s[j] # NL

JsonRouted(s) == s # <<>> /\ s[1] \in {LB, LC, QT}
\* the two as-built deviations:
\*  FormatRaisesOnBrokenJson: a string that starts like JSON but is not JSON makes format raise
\*  JsonStringShownBare: a string that is itself a JSON string literal ("a" with its quotes) counts
\*  as "parses to a string", is shown as is, and comes back without its quotes
DevRaises(x) == x.k = "str" /\ ~HasSpaceOrComma(x.v) /\ JsonRouted(x.v) /\ Loads(x.v) = ErrV
DevBare(x) == x.k = "str" /\ ~HasSpaceOrComma(x.v) /\ JsonRouted(x.v) /\ Loads(x.v).k = "str"
Dev(x) == DevRaises(x) \/ DevBare(x)

Format(x, fixed) ==
  IF x.k = "str" /\ ~HasSpaceOrComma(x.v) /\ ~(fixed /\ JsonRouted(x.v))
  THEN LET p == Parse(x.v) IN
       IF p = ErrV THEN ErrT                                  \* FormatRaisesOnBrokenJson
       ELSE IF p.k = "str" THEN x.v                           \* (JsonStringShownBare when p.v # x.v)
       ELSE Dumps(x)
  ELSE Dumps(x)

---------------------------------------------------------------------------
(* The law (C34) *)
\* equality of values up to the repr oracle carried by floats
RECURSIVE Plain(_)
Plain(x) ==
  CASE x.k = "float" -> V("float", [x.v EXCEPT !.r = <<>>])
    [] x.k = "list" -> V("list", [i \in 1..Len(x.v) |-> Plain(x.v[i])])
    [] x.k = "dict" -> V("dict", [i \in 1..Len(x.v) |-> <<x.v[i][1], Plain(x.v[i][2])>>])
    [] OTHER -> x
ValEq(a, b) == Plain(a) = Plain(b)

Back(x, fixed) == LET t == Format(x, fixed) IN IF t = ErrT THEN ErrV ELSE Parse(t)
\* formatting never fails, the displayed text parses back to the value (so strings stay strings)
RoundTripStrict(x, fixed) == LET t == Format(x, fixed) IN
                             t # ErrT /\ LET b == Parse(t) IN b # ErrV /\ ValEq(b, x)
\* the contract holds everywhere
ContractOK(x) == RoundTripStrict(x, TRUE)
\* the as-built code breaks the law exactly through its deviations
AsBuiltOK(x) == Dev(x) <=> ~RoundTripStrict(x, FALSE)
\* contract and as-built code agree wherever the as-built code does not deviate
AgreeOK(x) == ~Dev(x) => Format(x, TRUE) = Format(x, FALSE)
\* quoting is always safe, bare display only for texts the parser leaves alone
QuotedOK(x) == x.k = "str" => Loads(DumpStr(x.v)) = x
BareOK(x) == (x.k = "str" /\ ~Dev(x) /\ Format(x, FALSE) = x.v) => Parse(x.v) = x
\* the JSON layer on its own: loads(dumps(v)) = v for every value
JsonOK(x) == ValEq(Loads(Dumps(x)), x)
=============================================================================
