------------------------------ MODULE Migrations ------------------------------
(***************************************************************************)
(* C36  Schema migrations preserve recorded data.                          *)
(*                                                                         *)
(* The alembic chain of redun/backends/db/alembic/versions as a state      *)
(* machine over an abstract database (schema = table -> columns, rows =    *)
(* table -> set of rows, a row = function from its columns to values).     *)
(* One action per revision, carrying that revision's CONTRACT as read from *)
(* its upgrade():                                                          *)
(*   1  806f5dcb11bf  1.0  initial schema                                  *)
(*   2  647c510a77b1  2.0  + table evaluation                              *)
(*   3  30ffbaee18cd  2.1  back-fill a Value row for every Task without one*)
(*   4  71ec303c90e4  2.2  indexes only                                    *)
(*   5  d4af139b6f53  2.3  + job.execution_id (nullable, NULL)             *)
(*   6  cd2d53191748  3.0  stub Execution for every root job without one;  *)
(*                         job.execution_id := execution of the root       *)
(*                         ancestor; NOT NULL                              *)
(*   7  cc4f663817b6  3.1  + tables tag, tag_edit                          *)
(*   8  eb7b95e4e8bf  3.2  nothing on SQLite                               *)
(*   9  f68b3aaee9cc  3.3  indexes only                                    *)
(*  10  3b0a6e67cc58  3.4  job.start_time / end_time: local time -> UTC    *)
(*  11  0bee3d6dba76  3.5  + execution.updated_time (nullable, NULL)       *)
(*                                                                         *)
(* Law (C36): starting from any version with any population, after any     *)
(* number of further revisions every original row is still there (same     *)
(* primary key) with equal values in the columns both schemas share --     *)
(* a time column is "equal" when it denotes the same instant with the same *)
(* precision --, rows that were not there are only the ones a contract     *)
(* creates, and at the latest version the database satisfies what          *)
(* RedunBackendDb.load() and the ORM rely on.                              *)
(*                                                                         *)
(* Named deviation SubsecondLost: revision 10 is implemented on SQLite as  *)
(*     update job set start_time = datetime(start_time, 'utc'), ...        *)
(* and datetime() formats whole seconds: the microseconds every redun      *)
(* version records are dropped (fractions >= .9995 round up to the next    *)
(* second).  The time-zone shift is the documented purpose (same instant). *)
(***************************************************************************)
EXTENDS Naturals, Integers, Sequences, FiniteSets, TLC

CONSTANTS Deviations,     \* subset of {"SubsecondLost"}
          Offset          \* seconds local time is ahead of UTC in the model world (may be 0)

NULL == "~"
Latest == 11

(***************************************************************************)
(* Abstract schema per version (only what some revision touches, plus      *)
(* call_node as the representative of the tables no revision touches).     *)
(***************************************************************************)
BaseSchema ==
  [execution |-> {"id", "args", "job_id"},
   job |-> {"id", "start_time", "end_time", "task_hash", "cached", "call_hash", "parent_id"},
   task |-> {"hash", "name", "namespace", "source"},
   value |-> {"value_hash", "type", "format", "value"},
   call_node |-> {"call_hash", "task_hash", "value_hash"}]

Ext(f, k, v) == [x \in DOMAIN f \cup {k} |-> IF x = k THEN v ELSE f[x]]
SchemaAt(v) ==
  LET s2 == IF v >= 2 THEN Ext(BaseSchema, "evaluation", {"eval_hash", "task_hash", "args_hash", "value_hash"}) ELSE BaseSchema
      s5 == IF v >= 5 THEN [s2 EXCEPT !["job"] = @ \cup {"execution_id"}] ELSE s2
      s7 == IF v >= 7 THEN Ext(Ext(s5, "tag", {"tag_hash", "entity_id", "key", "value", "is_current"}),
                               "tag_edit", {"parent_id", "child_id"}) ELSE s5
  IN IF v >= 11 THEN [s7 EXCEPT !["execution"] = @ \cup {"updated_time"}] ELSE s7
PKOf(t) == CASE t = "execution" -> {"id"} [] t = "job" -> {"id"} [] t = "task" -> {"hash"}
             [] t = "value" -> {"value_hash"} [] t = "call_node" -> {"call_hash"}
             [] t = "evaluation" -> {"eval_hash"} [] t = "tag" -> {"tag_hash"}
             [] t = "tag_edit" -> {"parent_id", "child_id"}
NotNullAt(v) == IF v >= 6 THEN {<<"job", "execution_id">>} ELSE {}
TimeCols == {<<"job", "start_time">>, <<"job", "end_time">>}

(* a time value: [s, us] seconds and microseconds of the STORED wall-clock text; before revision 10
   the text is local time, afterwards UTC.  NoTime is SQL NULL. *)
NoTime == [s |-> -1, us |-> -1]
InstantOf(tv, v) == IF tv = NoTime THEN NoTime
                    ELSE IF v >= 10 THEN tv ELSE [s |-> tv.s - Offset, us |-> tv.us]

(***************************************************************************)
(* Revision contracts: rows' = Step(rev, rows).                            *)
(***************************************************************************)
Rows(db, t) == IF t \in DOMAIN db THEN db[t] ELSE {}
RECURSIVE RootOf(_, _, _)
RootOf(jobs, j, fuel) ==
  IF fuel = 0 \/ j.parent_id = NULL THEN j
  ELSE LET ps == {p \in jobs : p.id = j.parent_id} IN
         IF ps = {} THEN j ELSE RootOf(jobs, CHOOSE p \in ps : TRUE, fuel - 1)

AddCol(rs, c, val) == {[x \in DOMAIN r \cup {c} |-> IF x = c THEN val ELSE r[x]] : r \in rs}

ToUTC(tv) ==
  IF tv = NoTime THEN NoTime
  ELSE IF "SubsecondLost" \in Deviations
       THEN [s |-> tv.s - Offset + (IF tv.us >= 999500 THEN 1 ELSE 0), us |-> 0]     \* datetime(x, 'utc')
       ELSE [s |-> tv.s - Offset, us |-> tv.us]

Step(rev, db) ==
  CASE rev = 2 -> Ext(db, "evaluation", {})
    [] rev = 3 ->     \* backfill_values_for_lonely_tasks
         [db EXCEPT !["value"] = @ \cup {[value_hash |-> t.hash, type |-> "redun.Task", format |-> "pickle",
                                          value |-> "task:" \o t.name] :
                                           t \in {x \in db["task"] : ~\E w \in db["value"] : w.value_hash = x.hash}}]
    [] rev = 5 -> [db EXCEPT !["job"] = AddCol(@, "execution_id", NULL)]
    [] rev = 6 ->
         LET roots == {j \in db["job"] : j.parent_id = NULL /\ ~\E e \in db["execution"] : e.job_id = j.id}
             execs == db["execution"] \cup {[id |-> "stub_" \o j.id, args |-> "\"Stub Execution\"", job_id |-> j.id] : j \in roots}
             ExecFor(j) == LET r == RootOf(db["job"], j, 4)
                               es == {e \in execs : e.job_id = r.id} IN
                             IF es = {} THEN NULL ELSE (CHOOSE e \in es : TRUE).id
         IN [db EXCEPT !["execution"] = execs,
                       !["job"] = {[j EXCEPT !.execution_id = ExecFor(j)] : j \in @}]
    [] rev = 7 -> Ext(Ext(db, "tag", {}), "tag_edit", {})
    [] rev = 10 -> [db EXCEPT !["job"] = {[j EXCEPT !.start_time = ToUTC(@), !.end_time = ToUTC(@)] : j \in @}]
    [] rev = 11 -> [db EXCEPT !["execution"] = AddCol(@, "updated_time", NULL)]
    [] OTHER -> db                                      \* 4, 8, 9: indexes / no-op on SQLite

(***************************************************************************)
(* The world: any supported starting version, a small population that is   *)
(* legal for that version, then the rest of the chain.                     *)
(***************************************************************************)
Fracs == {0, 123456, 999700}
TimeVals == {[s |-> 100 + Offset, us |-> f] : f \in Fracs}

JobRow(id, parent, st, en, v, ex) ==
  LET base == [id |-> id, start_time |-> st, end_time |-> en, task_hash |-> "t1", cached |-> "0",
               call_hash |-> NULL, parent_id |-> parent]
  IN IF v >= 5 THEN [x \in DOMAIN base \cup {"execution_id"} |-> IF x = "execution_id" THEN ex ELSE base[x]] ELSE base
ExecRowM(id, job, v) ==
  LET base == [id |-> id, args |-> "[]", job_id |-> job]
  IN IF v >= 11 THEN [x \in DOMAIN base \cup {"updated_time"} |-> IF x = "updated_time" THEN NULL ELSE base[x]] ELSE base

(* populations: root job j1 (with or, before 3.0, without an execution), optionally a child j2 *)
Populations(v) ==
  {[execution |-> IF hasexec THEN {ExecRowM("e1", "j1", v)} ELSE {},
    job |-> {JobRow("j1", NULL, st, en, v, IF hasexec /\ v >= 6 THEN "e1" ELSE NULL)}
            \cup (IF child THEN {JobRow("j2", "j1", st, NoTime, v, IF hasexec /\ v >= 6 THEN "e1" ELSE NULL)} ELSE {}),
    task |-> {[hash |-> "t1", name |-> "f", namespace |-> "ns", source |-> "src"]},
    value |-> (IF lonely THEN {} ELSE {[value_hash |-> "t1", type |-> "redun.Task", format |-> "pickle", value |-> "orig"]})
              \cup {[value_hash |-> "v1", type |-> "int", format |-> "pickle", value |-> "1"]},
    call_node |-> {[call_hash |-> "c1", task_hash |-> "t1", value_hash |-> "v1"]}] :
     hasexec \in (IF v >= 6 THEN {TRUE} ELSE BOOLEAN), child \in BOOLEAN,
     lonely \in (IF v >= 3 THEN {FALSE} ELSE BOOLEAN),
     st \in TimeVals, en \in TimeVals \cup {NoTime}}

WithTables(p, v) ==
  LET a == IF v >= 2 THEN Ext(p, "evaluation", {[eval_hash |-> "ev1", task_hash |-> "t1", args_hash |-> "a", value_hash |-> "v1"]}) ELSE p
  IN IF v >= 7 THEN Ext(Ext(a, "tag", {[tag_hash |-> "g1", entity_id |-> "j1", key |-> "k", value |-> "1", is_current |-> "1"]}),
                        "tag_edit", {}) ELSE a

VARIABLES ver, db, v0, init
vars == <<ver, db, v0, init>>

Init == \E v \in 1..(Latest - 1) : \E p \in Populations(v) :
          /\ ver = v /\ v0 = v /\ db = WithTables(p, v) /\ init = db
Next == /\ ver < Latest
        /\ ver' = ver + 1 /\ db' = Step(ver + 1, db) /\ UNCHANGED <<v0, init>>
Spec == Init /\ [][Next]_vars

(***************************************************************************)
(* Properties.                                                             *)
(***************************************************************************)
SchemaOK == /\ DOMAIN db = DOMAIN SchemaAt(ver)
            /\ \A t \in DOMAIN db : \A r \in db[t] : DOMAIN r = SchemaAt(ver)[t]
SamePK(t, r, q) == \A c \in PKOf(t) : r[c] = q[c]
SameCell(t, c, a, b) ==
  IF <<t, c>> \in TimeCols THEN InstantOf(a, v0) = InstantOf(b, ver) ELSE a = b
(* every original row is kept with equal shared columns; execution_id may only be filled in *)
RowsPreserved ==
  \A t \in DOMAIN init : \A r \in init[t] :
     \E q \in db[t] : /\ SamePK(t, r, q)
                      /\ \A c \in DOMAIN r : (<<t, c>> # <<"job", "execution_id">> \/ r[c] # NULL) => SameCell(t, c, r[c], q[c])
(* the same, without the precision of time columns: the instant up to a second *)
SameSecond(a, b) == a = b \/ (a # NoTime /\ b # NoTime /\ (b.s - a.s) \in {0, 1})
RowsPreservedUpToSecond ==
  \A t \in DOMAIN init : \A r \in init[t] :
     \E q \in db[t] : /\ SamePK(t, r, q)
                      /\ \A c \in DOMAIN r :
                           IF <<t, c>> \in TimeCols THEN SameSecond(InstantOf(r[c], v0), InstantOf(q[c], ver))
                           ELSE (<<t, c>> # <<"job", "execution_id">> \/ r[c] # NULL) => r[c] = q[c]
(* only contract-created rows are new *)
OnlyContractRows ==
  \A t \in DOMAIN init : \A q \in db[t] :
     (\E r \in init[t] : SamePK(t, r, q))
     \/ (t = "value" /\ q.type = "redun.Task" /\ \E k \in init["task"] : k.hash = q.value_hash)
     \/ (t = "execution" /\ q.args = "\"Stub Execution\"" /\ \E j \in init["job"] : j.id = q.job_id /\ j.parent_id = NULL)
(* what load() and the ORM need at the latest version *)
Loadable ==
  ver = Latest =>
    /\ SchemaOK
    /\ \A j \in db["job"] : j.execution_id # NULL /\ \E e \in db["execution"] : e.id = j.execution_id
    /\ \A e \in db["execution"] : \E j \in db["job"] : j.id = e.job_id /\ j.parent_id = NULL
    /\ \A k \in db["task"] : \E w \in db["value"] : w.value_hash = k.hash
    /\ \A j \in db["job"] : j.start_time # NoTime
(* jobs end up in the execution of their root *)
ExecutionOfRoot ==
  ver >= 6 => \A j \in db["job"] : \E e \in db["execution"] : e.id = j.execution_id /\ e.job_id = RootOf(db["job"], j, 4).id
=============================================================================
