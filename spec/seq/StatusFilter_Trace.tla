------------------------- MODULE StatusFilter_Trace -------------------------
(* code -> spec: rows dumped from databases that the real scheduler wrote.  Each row carries its
   shape, the status the library displays for it and, for every status list that was queried,
   whether CallGraphQuery returned it.  One VERDICT per row:
     <<index, recorded, asbuilt, law, viadev>>
   recorded  the recording machine of StatusFilter.tla produces this shape (for this root flag)
   asbuilt   display and every membership equal the transcribed Display / Selected
   law       the property itself on the observed values: returned by S <=> displayed status in S
   viadev    a law failure is exactly the one the deviation CachedFlagOnFailedJob predicts
             (deviation shape, and the observation equals the as-built model)                  *)
EXTENDS StatusFilter, Json, IOUtils

Rows == JsonDeserialize(IOEnv.TRACE_FILE)

Shape(x) == Row(x.end = 1, x.cached = 1, x.res)
RangeOf(s) == {s[i] : i \in 1..Len(s)}

Recorded(x) == IF x.kind = "job" THEN Shape(x) \in RecordedShapes(x.root = 1)
               ELSE x.hasjob = 1 /\ Shape(x) \in RecordedShapes(TRUE)
ModelDisplay(x) == IF x.kind = "job" THEN Display(Shape(x)) ELSE ExecDisplay(x.hasjob = 1, Shape(x))
ModelSel(x, S) == IF x.kind = "job" THEN Selected(S, Shape(x)) ELSE ExecSelected(S, x.hasjob = 1, Shape(x))
AsBuilt(x) == /\ x.display = ModelDisplay(x)
              /\ \A k \in 1..Len(x.filters) : (x.filters[k].sel = 1) <=> ModelSel(x, RangeOf(x.filters[k].S))
Law(x) == \A k \in 1..Len(x.filters) : (x.filters[k].sel = 1) <=> (x.display \in RangeOf(x.filters[k].S))
ViaDev(x) == DevOn /\ Shape(x) = DevShape /\ AsBuilt(x)

VARIABLE i
TInit == i = 1 /\ row = Absent /\ isroot = FALSE /\ how = "-"
TNext == /\ i <= Len(Rows) /\ UNCHANGED vars
         /\ LET x == Rows[i] IN
              PrintT("VERDICT " \o ToJson(<<i, IF Recorded(x) THEN 1 ELSE 0, IF AsBuilt(x) THEN 1 ELSE 0,
                                             IF Law(x) THEN 1 ELSE 0, IF ViaDev(x) THEN 1 ELSE 0>>))
         /\ i' = i + 1
TSpec == TInit /\ [][TNext]_<<i, vars>>
=============================================================================
