------------------------------ MODULE RemoteJob ------------------------------
(***************************************************************************)
(* The scratch-file protocol of redun's remote executors (C32):            *)
(*   redun/executors/scratch.py   write_array_job_scratch_files,           *)
(*                                parse_job_result, parse_job_error        *)
(*   redun/executors/command.py   get_oneshot_command (single-job input)   *)
(*   redun/cli.py                 RedunClient.oneshot_command              *)
(*   redun/job_array.py           get_job_array_index                      *)
(*   redun/executors/aws_batch.py get_batch_job_name, is_array_job_name,   *)
(*                                get_hash_from_job_name,                  *)
(*                                gather_inflight_jobs, _submit (reunite)  *)
(*                                                                         *)
(* PART 1, the protocol.  A case is a group of n jobs of one task; job i   *)
(* has argument id i and evaluation hash id i (distinct calls).  What the  *)
(* task does is a function of its arguments: beh[a] \in {"ok", "raise",    *)
(* "unp", "rt"} ("unp": raises an exception that cannot be pickled; "rt":  *)
(* raises one that pickles but whose pickle cannot be loaded again).  The  *)
(* world is a file system fs: file name -> content,                        *)
(*   names     <<"ain",0>> <<"aout",0>> <<"aerr",0>> <<"ahash",0>>  array  *)
(*             <<"in",i>>  <<"out",i>>  <<"err",i>>                per job *)
(*   contents  [k, v]: "absent" | "arglist" <<a1..an>> | "args" <<a>> |    *)
(*             "paths" <<j1..jn>> (the out / err file of job j) |          *)
(*             "hashes" <<h1..hn>> | "result" <<a>> (pickled f(args a)) |  *)
(*             "junk" (an output that is not a valid value) |              *)
(*             "error" <<a, g>> (pickled exception of f(args a); g = 1:    *)
(*             replaced by Exception(repr(e)) because e does not pickle;   *)
(*             g = 2: pickled as it is although the pickle does not load;  *)
(*             a = 0: somebody else's error, a stale file)                 *)
(* Actions: Submit (the executor writes the inputs), Work(i) (the remote   *)
(* container runs `redun oneshot` for array index i - 1 / for job i),      *)
(* Parse(i) (the executor reads job i's outcome once its container is      *)
(* done).  Containers run in any order, may be retried, and are atomic     *)
(* with respect to each other only in so far as the law below needs it:    *)
(* they touch disjoint files (Isolation).                                  *)
(***************************************************************************)
EXTENDS Naturals, Integers, Sequences, FiniteSets, TLC, SequencesExt, FiniteSetsExt

CONSTANT Variant    \* "asbuilt"; model-level negative controls: "index_off_by_one" "error_type_lost"
                    \* "stale_output_trusted" "hash_first_segment" "child_index_shift"
CONSTANT Fixed      \* FALSE: as built.  TRUE: the named deviation DevUnreadableError is repaired (oneshot
                    \* checks that the pickled error loads before it trusts it, else takes its fallback)

Cn(k, v) == [k |-> k, v |-> v]
Absent == Cn("absent", <<>>)
AIN == <<"ain", 0>>   AOUT == <<"aout", 0>>   AERR == <<"aerr", 0>>   AHASH == <<"ahash", 0>>
Files(n) == {AIN, AOUT, AERR, AHASH} \cup {<<kd, i>> : kd \in {"in", "out", "err"}, i \in 1..n}
Ids(n) == [i \in 1..n |-> i]

\* what a stale file of job i looks like before the run starts
StaleFs(c) ==
  [f \in Files(c.n) |->
     IF f[1] = "err" /\ c.stale[f[2]] = "err" THEN Cn("error", <<0, 0>>)
     ELSE IF f[1] = "out" /\ c.stale[f[2]] = "out" THEN Cn("result", <<f[2]>>)
     ELSE IF f[1] = "out" /\ c.stale[f[2]] = "junk" THEN Cn("junk", <<>>)
     ELSE Absent]

\* write_array_job_scratch_files / get_oneshot_command's input file
DoSubmit(c, fs) ==
  IF c.array
  THEN [fs EXCEPT ![AIN] = Cn("arglist", Ids(c.n)), ![AOUT] = Cn("paths", Ids(c.n)),
                  ![AERR] = Cn("paths", Ids(c.n)), ![AHASH] = Cn("hashes", Ids(c.n))]
  ELSE [f \in Files(c.n) |-> IF f[1] = "in" THEN Cn("args", <<f[2]>>) ELSE fs[f]]

\* `redun oneshot` for array index i - 1 (array job) / for job i (single job)
DoWork(c, fs, i) ==
  LET idx == IF Variant = "index_off_by_one" /\ c.array THEN (i % c.n) + 1 ELSE i
      errj == IF c.array THEN fs[AERR].v[idx] ELSE i
      outj == IF c.array THEN fs[AOUT].v[idx] ELSE i
      a == IF c.array THEN fs[AIN].v[idx] ELSE fs[<<"in", i>>].v[1]
      fs1 == [fs EXCEPT ![<<"err", errj>>] = Absent]          \* stale error removed first
      old == fs1[<<"out", outj>>]
      reuse == ~c.nocache /\ (old.k = "result" \/ (Variant = "stale_output_trusted" /\ old.k = "junk"))
      \* an old output that is not reused is removed -- unless --no-cache, which skips the whole
      \* look-at-the-old-output step: the old file then stays until a result overwrites it
      fs2 == IF c.nocache THEN fs1 ELSE [fs1 EXCEPT ![<<"out", outj>>] = Absent]
  IN IF reuse THEN fs1
     ELSE CASE c.beh[a] = "ok" -> [fs2 EXCEPT ![<<"out", outj>>] = Cn("result", <<a>>)]
            [] c.beh[a] = "raise" -> [fs2 EXCEPT ![<<"err", errj>>] = Cn("error", <<a, 0>>)]
            [] c.beh[a] = "unp" -> [fs2 EXCEPT ![<<"err", errj>>] = Cn("error", <<a, 1>>)]
            \* DevUnreadableError: only the dump is guarded, so an error whose pickle does not load is
            \* written as it is
            [] c.beh[a] = "rt" -> [fs2 EXCEPT ![<<"err", errj>>] = Cn("error", <<a, IF Fixed THEN 1 ELSE 2>>)]

\* parse_job_result, then parse_job_error: <<status, argument id the value belongs to, generic flag>>
\* (an error file that does not load is reported as ScratchError: nobody's exception)
ReadErr(err) == IF err.v[2] = 2 THEN <<"scratcherr", 0, 0>>
                ELSE <<"err", err.v[1], IF Variant = "error_type_lost" THEN 1 ELSE err.v[2]>>
DoParse(fs, i) ==
  LET out == fs[<<"out", i>>]
      err == fs[<<"err", i>>]
  IN IF out.k = "result" THEN <<"ok", out.v[1], 0>>
     ELSE IF out.k = "junk" THEN (IF err.k = "error" THEN ReadErr(err) ELSE <<"junkvalue", 0, 0>>)
     ELSE IF err.k = "error" THEN ReadErr(err)
          ELSE <<"missing", 0, 0>>

\* the local call
Local(c, i) == CASE c.beh[i] = "ok" -> <<"ok", i, 0>>
                 [] c.beh[i] = "raise" -> <<"err", i, 0>>
                 [] c.beh[i] = "unp" -> <<"err", i, 1>>      \* documented fallback: Exception(repr(e))
                 [] c.beh[i] = "rt" -> <<"err", i, 1>>       \* the same fallback is the best that can be had
DevUnreadableError(c, i) == ~Fixed /\ c.beh[i] = "rt"

WellFormedCase(c) ==
  /\ c.n \in 1..Len(c.beh) /\ Len(c.beh) = c.n /\ Len(c.stale) = c.n
  /\ \A i \in 1..c.n : c.stale[i] = "out" => c.beh[i] = "ok"     \* the hash fixes the result
  /\ c.array => c.n >= 1

VARIABLES cas,     \* the case
          fs,      \* the scratch directory
          phase,   \* "init" | "run"
          ran,     \* ran[i]: completed containers of job i
          parsed,  \* parsed[i]: <<>> or the outcome the executor read
          act      \* the last action <<name, i>>
vars == <<cas, fs, phase, ran, parsed, act>>

CONSTANT MaxRuns   \* containers per job (1 + retries)

Submit == /\ phase = "init"
          /\ fs' = DoSubmit(cas, fs) /\ phase' = "run" /\ act' = <<"submit", 0>>
          /\ UNCHANGED <<cas, ran, parsed>>
Work(i) == /\ phase = "run" /\ ran[i] < MaxRuns /\ parsed[i] = <<>>
           /\ fs' = DoWork(cas, fs, i) /\ ran' = [ran EXCEPT ![i] = @ + 1] /\ act' = <<"work", i>>
           /\ UNCHANGED <<cas, phase, parsed>>
Parse(i) == /\ phase = "run" /\ ran[i] >= 1 /\ parsed[i] = <<>>
            /\ parsed' = [parsed EXCEPT ![i] = DoParse(fs, i)] /\ act' = <<"parse", i>>
            /\ UNCHANGED <<cas, fs, phase, ran>>
Next == Submit \/ \E i \in 1..cas.n : Work(i) \/ Parse(i)

\* the law: what the executor reads for job i is what calling the task locally gives
OutcomeOK == \A i \in 1..cas.n : parsed[i] # <<>> => parsed[i] = Local(cas, i)
\* ... which the code as built guarantees except through the named deviation
OutcomeUnlessDev ==
  \A i \in 1..cas.n : parsed[i] # <<>> => (parsed[i] = Local(cas, i) \/ DevUnreadableError(cas, i))
\* element i reads args[i] and writes out[i] / err[i], nothing else
Isolation ==
  [][act'[1] = "work" => \A f \in DOMAIN fs : fs'[f] # fs[f] => f \in {<<"out", act'[2]>>, <<"err", act'[2]>>}]_vars
\* a finished container leaves exactly one of output / error behind
OneOutcomeFile == \A i \in 1..cas.n : (phase = "run" /\ ran[i] >= 1) =>
                     (fs[<<"out", i>>].k = "result") # (fs[<<"err", i>>].k = "error")
\* observation the harness compares after every action: per job <<output kind, error kind>>
Obs(f, n) == [i \in 1..n |-> <<IF f[<<"out", i>>].k = "absent" THEN 0 ELSE 1, IF f[<<"err", i>>].k = "absent" THEN 0 ELSE 1>>]

(***************************************************************************)
(* PART 2, job names.  A name is the sequence of its dash-separated        *)
(* segments (strings; a prefix with dashes has several, "" is a segment).  *)
(***************************************************************************)
Name(pre, h, arr) == pre \o <<h>> \o (IF arr THEN <<"array">> ELSE <<>>)
IsArrayName(s) == Len(s) >= 2 /\ s[Len(s)] = "array"                \* endswith("-array")
StripArray(s) == IF IsArrayName(s) THEN SubSeq(s, 1, Len(s) - 1) ELSE s
\* re.match(".*-(?P<hash>[^-]+)"): the last non-empty segment that has a dash before it
HashOf(s) ==
  LET t == StripArray(s)
      J == {j \in 2..Len(t) : t[j] # ""}
  IN IF J = {} THEN "none" ELSE IF Variant = "hash_first_segment" THEN t[Min(J)] ELSE t[Max(J)]
NameLaw(pre, h, arr) == HashOf(Name(pre, h, arr)) = h /\ (IsArrayName(Name(pre, h, arr)) <=> arr)

(***************************************************************************)
(* PART 3, reuniting.  An in-flight remote job:                            *)
(*   [id, name, kids, made, hashfile]                                      *)
(*   kids      array children still in flight (1-based indices)            *)
(*   made      the evaluation hashes it was created for: <<e>> a single    *)
(*             job, <<e1..ek>> an array, <<>> not one of redun's            *)
(*   hashfile  the array's eval_hashes scratch file exists                 *)
(* gather_inflight_jobs builds hash -> <<remote id, child index>> (0: not  *)
(* a child); _submit reunites a job whose hash is in the table.            *)
(***************************************************************************)
Put(m, k, v) == [x \in DOMAIN m \cup {k} |-> IF x = k THEN v ELSE m[x]]
Empty == [x \in {} |-> 0]
GatherOne(m, r) ==
  IF ~IsArrayName(r.name)
  THEN LET h == HashOf(r.name) IN IF h = "none" THEN m ELSE Put(m, h, <<r.id, 0>>)
  ELSE IF HashOf(r.name) = "none" \/ ~r.hashfile THEN m
       ELSE FoldLeft(LAMBDA mm, k :
                       LET kk == IF Variant = "child_index_shift" THEN (k % Len(r.made)) + 1 ELSE k
                       IN Put(mm, r.made[kk], <<r.id, k>>),
                     m, SetToSeq(r.kids))
\* single jobs first, arrays afterwards (as built: two passes)
Gather(R) ==
  LET singles == SelectSeq(R, LAMBDA r : ~IsArrayName(r.name))
      arrays == SelectSeq(R, LAMBDA r : IsArrayName(r.name))
  IN FoldLeft(GatherOne, FoldLeft(GatherOne, Empty, singles), arrays)
CreatedFor(R, ch) ==
  LET r == CHOOSE x \in ToSet(R) : x.id = ch[1]
  IN IF ch[2] = 0 THEN (IF Len(r.made) = 1 /\ ~IsArrayName(r.name) THEN r.made[1] ELSE "none")
     ELSE IF ch[2] <= Len(r.made) THEN r.made[ch[2]] ELSE "none"
Decision(R, e) == LET m == Gather(R) IN IF e \in DOMAIN m THEN m[e] ELSE <<"new", 0>>
\* the law: a job is only ever paired with a remote job created for its own evaluation hash
ReuniteSound(R, E) == \A e \in E : LET d == Decision(R, e) IN d[1] # "new" => CreatedFor(R, d) = e
=============================================================================
