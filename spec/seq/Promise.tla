------------------------------- MODULE Promise -------------------------------
(***************************************************************************)
(* redun/promise.py as a state machine at API-call granularity (C13).     *)
(*                                                                         *)
(* The code is single threaded, so every public call (Promise(), then,    *)
(* do_resolve, do_reject, Promise.all, wait_promises) is one atomic       *)
(* action.  What makes the module interesting is that `_notify` runs      *)
(* callbacks synchronously and callbacks may re-enter the API (settle     *)
(* another promise, register on another -- or the same -- promise, return *)
(* a promise).  The effect of one call is therefore computed by mutually  *)
(* recursive operators that thread the whole store `S` through the        *)
(* depth-first callback execution, exactly as the interpreter would.      *)
(*                                                                         *)
(* Store S:                                                                *)
(*   st[p]   "none" (unallocated) | "pending" | "ok" | "err"               *)
(*   val[p]  value / error payload (Int, or a sequence for all / wait)     *)
(*   cbs[p]  registered, not yet notified callback records, in order       *)
(*   comb[r] combinator state of Promise.all / wait_promises results       *)
(*   np, nc  next promise index / next callback id                         *)
(*   ghost:  ran[c] (#invocations), regseq[p], inv[p], active (promises   *)
(*           currently inside _notify), dev (a registration happened on a  *)
(*           promise that was inside its own _notify: re-entrant then),    *)
(*           log (invocations of the current API call, the step output)    *)
(*                                                                         *)
(* A callback record is [id, q, ok, err]: id = 0 for internal callbacks,   *)
(* q = chained promise (0 = nobody holds it, not modelled), ok / err =     *)
(* handler descriptions:                                                   *)
(*   [k |-> "none"]            no handler given: propagate outcome to q    *)
(*   [k |-> "ret", v]          return constant v                           *)
(*   [k |-> "id"]              return the argument                         *)
(*   [k |-> "raise", v]        raise error v                               *)
(*   [k |-> "retp", r]         return promise r (q adopts r's outcome)     *)
(*   [k |-> "settle", r, sk, v] settle promise r (sk = ok/err) then return *)
(*                              the argument                               *)
(*   [k |-> "reg", r]          r.then(<logging id handler>) then return    *)
(*                              the argument                               *)
(*   internal: "fwd" (adopt), "allthen"/"allfail", "waitdone"              *)
(***************************************************************************)
EXTENDS Naturals, Integers, Sequences, FiniteSets, TLC, SequencesExt

CONSTANTS MaxP,      \* promise indices 1..MaxP
          MaxC,      \* callback ids 1..MaxC
          MaxOps,    \* API calls per behaviour
          Vals       \* payload constants used by API calls and handlers

NoneV == -1          \* Python None (result of internal callbacks)

PIdx == 1..MaxP

H(k, r, sk, v, i) == [k |-> k, r |-> r, sk |-> sk, v |-> v, i |-> i]
HNone == H("none", 0, "ok", 0, 0)
HId == H("id", 0, "ok", 0, 0)
HRet(v) == H("ret", 0, "ok", v, 0)
HRaise(v) == H("raise", 0, "ok", v, 0)
HRetP(r) == H("retp", r, "ok", 0, 0)
HSettle(r, sk, v) == H("settle", r, sk, v, 0)
HReg(r) == H("reg", r, "ok", 0, 0)
HFwd == H("fwd", 0, "ok", 0, 0)
HAllThen(r, i) == H("allthen", r, "ok", 0, i)
HAllFail(r) == H("allfail", r, "ok", 0, 0)
HWaitDone(r) == H("waitdone", r, "ok", 0, 0)

Cb(id, q, ok, err) == [id |-> id, q |-> q, ok |-> ok, err |-> err]

EmptyStore ==
  [st |-> [p \in PIdx |-> "none"], val |-> [p \in PIdx |-> 0], cbs |-> [p \in PIdx |-> <<>>],
   comb |-> [p \in PIdx |-> [kind |-> "plain", subs |-> <<>>, res |-> <<>>, ndone |-> 0]],
   np |-> 1, nc |-> 1,
   ran |-> [c \in 1..MaxC |-> 0], regseq |-> [p \in PIdx |-> <<>>], inv |-> [p \in PIdx |-> <<>>],
   active |-> {}, dev |-> FALSE, log |-> <<>>]

Alloc(S) == [S EXCEPT !.st[S.np] = "pending", !.np = S.np + 1]

RECURSIVE Settle(_, _, _, _), Notify(_, _), RunList(_, _, _, _), RunCb(_, _, _), Register(_, _, _)

(* do_resolve / do_reject: first settlement wins, then _notify *)
Settle(S, p, kind, v) ==
  IF p = 0 \/ S.st[p] # "pending" THEN S
  ELSE Notify([S EXCEPT !.st[p] = kind, !.val[p] = v], p)

(* _notify: swap the callback lists out, then run them in order *)
Notify(S, p) ==
  IF S.st[p] = "pending" \/ S.cbs[p] = <<>> THEN S
  ELSE LET list == S.cbs[p]
           wasActive == p \in S.active
           S1 == [S EXCEPT !.cbs[p] = <<>>, !.active = @ \cup {p}]
           S2 == RunList(S1, p, list, 1)
       IN [S2 EXCEPT !.active = IF wasActive THEN @ ELSE @ \ {p}]

RunList(S, p, list, i) ==
  IF i > Len(list) THEN S ELSE RunList(RunCb(S, p, list[i]), p, list, i + 1)

(* then(): append the callback pair, then _notify (runs at once if p is settled) *)
Register(S, p, cb) ==
  LET reentrant == p \in S.active /\ S.st[p] # "pending"
      S1 == [S EXCEPT !.cbs[p] = Append(@, cb),
                      !.regseq[p] = IF cb.id > 0 THEN Append(@, cb.id) ELSE @,
                      !.dev = @ \/ (reentrant /\ cb.id > 0)]
  IN Notify(S1, p)

RunCb(S, p, cb) ==
  LET okSide == S.st[p] = "ok"
      h == IF okSide THEN cb.ok ELSE cb.err
      arg == S.val[p]
      logged == cb.id > 0 /\ h.k # "none"
      S0 == IF logged
            THEN [S EXCEPT !.ran[cb.id] = @ + 1, !.inv[p] = Append(@, cb.id),
                           !.log = Append(@, <<cb.id, IF okSide THEN 1 ELSE 0, arg>>)]
            ELSE IF cb.id > 0   \* propagate-only side of a user callback still counts as consumed
                 THEN [S EXCEPT !.ran[cb.id] = @ + 1, !.inv[p] = Append(@, cb.id)]
                 ELSE S
  IN CASE h.k = "none"  -> Settle(S0, cb.q, S.st[p], arg)
       [] h.k = "fwd"   -> Settle(S0, cb.q, S.st[p], arg)
       [] h.k = "ret"   -> Settle(S0, cb.q, "ok", h.v)
       [] h.k = "id"    -> Settle(S0, cb.q, "ok", arg)
       [] h.k = "raise" -> Settle(S0, cb.q, "err", h.v)
       [] h.k = "retp"  -> Register(S0, h.r, Cb(0, cb.q, HFwd, HFwd))
       [] h.k = "settle" -> Settle(Settle(S0, h.r, h.sk, h.v), cb.q, "ok", arg)
       [] h.k = "reg"   ->
            IF S0.nc > MaxC THEN Settle(S0, cb.q, "ok", arg)    \* bound: handler degenerates to id
            ELSE LET c == S0.nc
                     S1 == Register([S0 EXCEPT !.nc = c + 1], h.r, Cb(c, 0, HId, HId))
                 IN Settle(S1, cb.q, "ok", arg)
       [] h.k = "allthen" ->
            LET r == h.r
                res == [S0.comb[r].res EXCEPT ![h.i] = arg]
                nd == S0.comb[r].ndone + 1
                S1 == [S0 EXCEPT !.comb[r].res = res, !.comb[r].ndone = nd]
            IN IF nd = Len(res) THEN Settle(S1, r, "ok", res) ELSE S1
       [] h.k = "allfail" -> Settle(S0, h.r, "err", arg)
       [] h.k = "waitdone" ->
            LET r == h.r
                nd == S0.comb[r].ndone + 1
                S1 == [S0 EXCEPT !.comb[r].ndone = nd]
            IN IF nd = Len(S0.comb[r].subs) THEN Settle(S1, r, "ok", S0.comb[r].subs) ELSE S1

RECURSIVE RegisterAll(_, _, _, _)
RegisterAll(S, r, subs, i) ==
  IF i > Len(subs) THEN S
  ELSE LET cb == IF S.comb[r].kind = "all" THEN Cb(0, 0, HAllThen(r, i), HAllFail(r))
                 ELSE Cb(0, 0, HWaitDone(r), HWaitDone(r))
       IN RegisterAll(Register(S, subs[i], cb), r, subs, i + 1)

(***************************************************************************)
(* API calls.  An operation is a record; Apply is the big-step semantics.  *)
(***************************************************************************)
Op(n, p, v, ok, err, subs) == [n |-> n, p |-> p, v |-> v, ok |-> ok, err |-> err, subs |-> subs]

Apply(S0, op) ==
  LET S == [S0 EXCEPT !.log = <<>>]
  IN CASE op.n = "new"     -> Alloc(S)
       [] op.n = "resolve" -> Settle(S, op.p, "ok", op.v)
       [] op.n = "reject"  -> Settle(S, op.p, "err", op.v)
       [] op.n = "then"    ->
            LET q == S.np
                c == S.nc
                S1 == [Alloc(S) EXCEPT !.nc = c + 1]
            IN Register(S1, op.p, Cb(c, q, op.ok, op.err))
       [] op.n = "all"     ->
            LET r == S.np
                S1 == [Alloc(S) EXCEPT !.comb[r] = [kind |-> "all", subs |-> op.subs,
                                                    res |-> [i \in 1..Len(op.subs) |-> NoneV],
                                                    ndone |-> 0]]
                S2 == RegisterAll(S1, r, op.subs, 1)
            IN IF Len(op.subs) = 0 THEN Settle(S2, r, "ok", <<>>) ELSE S2
       [] op.n = "wait"    ->
            LET r == S.np
                S1 == [Alloc(S) EXCEPT !.comb[r] = [kind |-> "wait", subs |-> op.subs,
                                                    res |-> <<>>, ndone |-> 0]]
                S2 == RegisterAll(S1, r, op.subs, 1)
            IN IF Len(op.subs) = 0 THEN Settle(S2, r, "ok", <<>>) ELSE S2

Allocated(S) == 1..(S.np - 1)
\* promises a user may settle by hand: not the results of all / wait (their settlement is the
\* combinator's business; C13 states what the combinator does with them)
Settleable(S) == {p \in Allocated(S) : S.comb[p].kind = "plain"}

Handlers(S) ==
  {HNone, HId} \cup {HRet(v) : v \in Vals} \cup {HRaise(v) : v \in Vals}
  \cup {HRetP(r) : r \in Allocated(S)}
  \cup {HSettle(r, sk, v) : r \in Settleable(S), sk \in {"ok", "err"}, v \in Vals}
  \cup {HReg(r) : r \in Allocated(S)}

\* handler pairs: only-ok, only-err, same handler on both sides (keeps the branching factor sane)
HandlerPairs(S) == {<<h, HNone>> : h \in Handlers(S)} \cup {<<HNone, h>> : h \in Handlers(S)}
                   \cup {<<h, h>> : h \in Handlers(S)}

SubChoices(S) == {<<>>} \cup {<<a>> : a \in Allocated(S)} \cup {<<a, b>> : a, b \in Allocated(S)}

Ops(S) ==
  (IF S.np <= MaxP THEN {Op("new", 0, 0, HNone, HNone, <<>>)} ELSE {})
  \cup {Op("resolve", p, v, HNone, HNone, <<>>) : p \in Settleable(S), v \in Vals}
  \cup {Op("reject", p, v, HNone, HNone, <<>>) : p \in Settleable(S), v \in Vals}
  \cup (IF S.np <= MaxP /\ S.nc <= MaxC
        THEN {Op("then", p, 0, hp[1], hp[2], <<>>) : p \in Allocated(S), hp \in HandlerPairs(S)}
        ELSE {})
  \cup (IF S.np <= MaxP
        THEN {Op(n, 0, 0, HNone, HNone, ss) : n \in {"all", "wait"}, ss \in SubChoices(S)}
        ELSE {})

VARIABLES s, nops, lastop
vars == <<s, nops, lastop>>

Init == s = EmptyStore /\ nops = 0 /\ lastop = Op("init", 0, 0, HNone, HNone, <<>>)
Next == /\ nops < MaxOps
        /\ \E op \in Ops(s) : s' = Apply(s, op) /\ lastop' = op
        /\ nops' = nops + 1
Spec == Init /\ [][Next]_vars

(***************************************************************************)
(* Properties (C13).                                                       *)
(***************************************************************************)
\* a promise settles at most once, the first settlement wins
SettleOnce ==
  [][\A p \in PIdx : s.st[p] \in {"ok", "err"} => (s'.st[p] = s.st[p] /\ s'.val[p] = s.val[p])]_vars

\* callback c was registered on promise CbHome(c)
CbHome(S, c) == CHOOSE p \in PIdx : \E i \in 1..Len(S.regseq[p]) : S.regseq[p][i] = c
Registered(S) == {c \in 1..MaxC : \E p \in PIdx : \E i \in 1..Len(S.regseq[p]) : S.regseq[p][i] = c}

\* every registered callback runs exactly once, and only after settlement (API calls are atomic,
\* so after each call everything registered on a settled promise has run)
ExactlyOnce ==
  \A c \in Registered(s) :
     LET p == CbHome(s, c) IN
       /\ s.ran[c] <= 1
       /\ (s.st[p] = "pending") => s.ran[c] = 0
       /\ (s.st[p] # "pending") => s.ran[c] = 1
NoPendingCallbacksOnSettled == \A p \in PIdx : s.st[p] \in {"ok", "err"} => s.cbs[p] = <<>>

\* callbacks of one promise run in registration order ...
OrderStrict == \A p \in PIdx : IsPrefix(s.inv[p], s.regseq[p])
\* ... which the code guarantees only when nobody registers on a promise from inside that
\* promise's own notification (deviation ReentrantThenRunsImmediately)
OrderUnlessReentrant == s.dev \/ OrderStrict

\* Promise.all: fulfils, in input order, exactly when all inputs fulfilled; rejects iff some input
\* rejected, with an error one of the inputs carries
AllOK ==
  \A r \in PIdx : s.comb[r].kind = "all" =>
     LET subs == s.comb[r].subs IN
       /\ (s.st[r] = "ok") <=> (\A i \in 1..Len(subs) : s.st[subs[i]] = "ok")
       /\ (s.st[r] = "ok") => s.val[r] = [i \in 1..Len(subs) |-> s.val[subs[i]]]
       /\ (s.st[r] = "err") <=> (\E i \in 1..Len(subs) : s.st[subs[i]] = "err")
       /\ (s.st[r] = "err") => \E i \in 1..Len(subs) : s.st[subs[i]] = "err" /\ s.val[subs[i]] = s.val[r]
\* "the first rejection observed": once all() has rejected, later rejections do not change it
\* (covered by SettleOnce), and it rejects in the very call in which the first input rejects
AllRejectsAtFirst ==
  [][\A r \in PIdx : (s.comb[r].kind = "all" /\ s.st[r] = "pending" /\ s'.st[r] = "err") =>
        (\A i \in 1..Len(s.comb[r].subs) : s.st[s.comb[r].subs[i]] # "err")]_vars

WaitOK ==
  \A r \in PIdx : s.comb[r].kind = "wait" =>
     LET subs == s.comb[r].subs IN
       /\ (s.st[r] = "ok") <=> (\A i \in 1..Len(subs) : s.st[subs[i]] # "pending")
       /\ s.st[r] # "err"
       /\ (s.st[r] = "ok") => s.val[r] = subs

\* chained promise adopts the outcome of a promise returned from a callback: checked by the
\* observation comparison of the replay (q's status follows r's); here: a then-promise with plain
\* handlers on a settled promise is settled
TypeOK == /\ s.np \in 1..(MaxP + 1) /\ s.nc \in 1..(MaxC + 1)
          /\ \A p \in PIdx : s.st[p] \in {"none", "pending", "ok", "err"}
          /\ s.active = {}

\* observation = what the harness compares after every call (sequences only, so that ToJson is
\* canonical): <<statuses, values, invocation log of this call, dev flag>>
Obs(S) == <<[p \in 1..(S.np - 1) |-> S.st[p]], [p \in 1..(S.np - 1) |-> S.val[p]], S.log,
            IF S.dev THEN 1 ELSE 0>>
Obs3(S) == <<[p \in 1..(S.np - 1) |-> S.st[p]], [p \in 1..(S.np - 1) |-> S.val[p]], S.log>>
View == <<[s EXCEPT !.log = <<>>], nops>>
=============================================================================
