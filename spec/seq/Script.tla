------------------------------- MODULE Script -------------------------------
(***************************************************************************)
(* redun/scripting.py (C29): prepare_command, get_command_eof,             *)
(* get_wrapped_command, script() / postprocess_script, and the shell that  *)
(* finally reads the text.                                                 *)
(*                                                                         *)
(* TEXTS.  A text is a NON-EMPTY sequence of lines (the text is the lines  *)
(* joined by newline; "" is the one empty line).  TLC has no strings, so a *)
(* line is abstracted to a record                                          *)
(*     [ind, tok, n, sp, tr]                                               *)
(*   ind  number of leading blanks            tr  number of trailing blanks*)
(*   tok  "eof"      the line's content is the terminator prefix followed  *)
(*                   by the canonical decimal n (n = 0: the bare prefix),   *)
(*                   i.e. a candidate of the get_command_eof loop          *)
(*        "shebang"  content starts with #!           (n = content id)     *)
(*        "other"    anything else                    (n = content id)     *)
(*        "blank"    only blanks (ind of them, tr = 0)                     *)
(*        "open"     content ends with a here-document operator whose      *)
(*                   delimiter is candidate n; sp = 1 iff it is quoted      *)
(*   sp   1 iff the content holds a character an UNQUOTED here-document    *)
(*        would expand ($, backquote, backslash)                           *)
(* Two lines are the same text iff the records are equal (content ids are  *)
(* assigned per case by the harness), so line equality -- all the shell    *)
(* and the loop ever look at -- is record equality.  Bytes inside a line   *)
(* are concrete only (chosen by the generator, checked through a real sh). *)
(*                                                                         *)
(* NESTED VALUES come from Values.tla (C19): leaves are Leaf(id) with      *)
(* id = kind * 100 + local * 10 + remote (path ids 0..9).                  *)
(***************************************************************************)
EXTENDS Values

CONSTANT Variant    \* "asbuilt"; the other values are model-level negative controls:
                    \* "eof_fixed" "no_dedent" "unquoted" "unstage_first" "stdout_kept"

Ln(ind, tok, n, sp, tr) == [ind |-> ind, tok |-> tok, n |-> n, sp |-> sp, tr |-> tr]
EmptyLine == Ln(0, "blank", 0, 0, 0)
EofLine(k) == Ln(0, "eof", k, 0, 0)         \* prefix (k = 0) / prefix ++ str(k)
OpenLine(k, q) == Ln(0, "open", k, q, 0)    \* cat > "$COMMAND_FILE" <<"{eof}"
TplLine(j) == Ln(0, "other", 900 + j, 1, 0)  \* the wrapper's own lines
IsBlank(l) == l.tok = "blank"

HasLine(ls, l) == \E i \in 1..Len(ls) : ls[i] = l

(***************************************************************************)
(* prepare_command: textwrap.dedent, str.strip, default shell.             *)
(***************************************************************************)
NonBlank(ls) == {i \in 1..Len(ls) : ~IsBlank(ls[i])}
Margin(ls) == IF NonBlank(ls) = {} THEN 0 ELSE Min({ls[i].ind : i \in NonBlank(ls)})
\* dedent: blank-only lines are normalised to empty lines, the common margin of the others goes
Dedent(ls) == [i \in 1..Len(ls) |-> IF IsBlank(ls[i]) THEN EmptyLine
                                    ELSE [ls[i] EXCEPT !.ind = @ - Margin(ls)]]
\* strip() works on the whole text: surrounding blank lines go, and so do the blanks before the
\* first and after the last visible character
Strip(ls) ==
  IF NonBlank(ls) = {} THEN <<EmptyLine>>
  ELSE LET core == SubSeq(ls, Min(NonBlank(ls)), Max(NonBlank(ls)))
       IN [i \in 1..Len(core) |-> [core[i] EXCEPT !.ind = IF i = 1 THEN 0 ELSE @,
                                                  !.tr = IF i = Len(core) THEN 0 ELSE @]]
Body(ls) == IF Variant = "no_dedent" THEN Strip(ls) ELSE Strip(Dedent(ls))
StartsWithShebang(ls) == ls[1].tok = "shebang" /\ ls[1].ind = 0
Prepare(ls, dsh) == LET b == Body(ls) IN IF StartsWithShebang(b) THEN b ELSE dsh \o b

\* the line-level reading of "the dedented command text": surrounding blank LINES removed, nothing
\* else.  Differs from Body exactly when strip() also eats blanks inside the first / last line
\* (reported as a count, not a finding: such blanks are not significant to any interpreter's
\* first line, see the driver's notes)
LineLevelBody(ls) ==
  LET d == Dedent(ls) IN IF NonBlank(d) = {} THEN <<EmptyLine>> ELSE SubSeq(d, Min(NonBlank(d)), Max(NonBlank(d)))
StripTouchesLine(ls) == Body(ls) # LineLevelBody(ls)

(***************************************************************************)
(* get_command_eof: the loop, as a recursive operator (the state machine   *)
(* below runs it step by step for the termination argument).               *)
(***************************************************************************)
RECURSIVE EofFrom(_, _)
EofFrom(ls, k) == IF HasLine(ls, EofLine(k)) THEN EofFrom(ls, k + 1) ELSE k
GetEof(ls) == IF Variant = "eof_fixed" THEN 0 ELSE EofFrom(ls, 0)

(***************************************************************************)
(* get_wrapped_command, and what a POSIX shell does with it: the body of a *)
(* here-document is every line after the operator up to, not including,    *)
(* the FIRST line equal to the delimiter; with a quoted delimiter the body *)
(* is literal, otherwise $, ` and \ are expanded.                          *)
(***************************************************************************)
\* the wrapper's own lines are opaque to every law: one line before the operator, a blank line, one
\* line after the terminator and the final newline stand for the fourteen of the template
Pre == <<TplLine(1)>>
Post == <<EmptyLine, TplLine(2), EmptyLine>>
Wrap(ls, k) == Pre \o <<OpenLine(k, IF Variant = "unquoted" THEN 0 ELSE 1)>> \o ls \o <<EofLine(k)>> \o Post

Mangle(l) == IF l.sp = 1 THEN [l EXCEPT !.tok = "mangled"] ELSE l
ShellRead(w) ==
  LET O == {i \in 1..Len(w) : w[i].tok = "open"} IN
  IF O = {} THEN [ok |-> FALSE, delim |-> -1, quoted |-> 0, body |-> <<>>]
  ELSE LET o == Min(O)
           d == w[o].n
           T == {i \in (o + 1)..Len(w) : w[i] = EofLine(d)}
           t == IF T = {} THEN Len(w) + 1 ELSE Min(T)
           raw == SubSeq(w, o + 1, t - 1)
       IN [ok |-> T # {}, delim |-> d, quoted |-> w[o].sp,
           body |-> IF w[o].sp = 1 THEN raw ELSE [i \in 1..Len(raw) |-> Mangle(raw[i])]]

\* the laws of the statement, for a text ls, the terminator k chosen for it and a wrapper w
LawTerminator(ls, k) == ~HasLine(ls, EofLine(k))
LawHeredoc(ls, w) == LET r == ShellRead(w) IN r.ok /\ r.body = ls
LawLeast(ls, k) == \A j \in 0..(k - 1) : HasLine(ls, EofLine(j))        \* as-built: the least free one

(***************************************************************************)
(* Staging.  Leaf ids.                                                     *)
(***************************************************************************)
KStdout == 1   \* File("-")
KStage == 2    \* StagingFile(local, remote); local = remote: "no staging is needed"
KFile == 3     \* File(remote), not "-"
KSDir == 4     \* StagingDir(local, remote)
KPlain == 5    \* any other leaf (local = 1: a dict key)
KRFile == 6    \* result: File(remote)
KRDir == 7     \* result: Dir(remote)
KBytes == 8    \* result: the command's stdout
Id(kind, l, r) == kind * 100 + l * 10 + r
KindOf(i) == i \div 100
LocOf(i) == (i % 100) \div 10
RemOf(i) == i % 10

\* script(): plain output Files are self-staged
PreOp(i) == IF KindOf(i) = KFile THEN Id(KStage, RemOf(i), RemOf(i)) ELSE i
\* postprocess_script: stdout file -> output, staging pair -> remote object
PostOp(i) == CASE KindOf(i) = KStdout -> IF Variant = "stdout_kept" THEN i ELSE Id(KBytes, 0, 0)
               [] KindOf(i) = KStage -> Id(KRFile, 0, RemOf(i))
               [] KindOf(i) = KSDir -> Id(KRDir, 0, RemOf(i))
               [] OTHER -> i
\* the statement's shape map, on the outputs as the caller gave them (stated on its own, not through
\* the two functions above)
ShapeOp(i) == CASE KindOf(i) = KStdout -> Id(KBytes, 0, 0)
                [] KindOf(i) \in {KStage, KFile} -> Id(KRFile, 0, RemOf(i))
                [] KindOf(i) = KSDir -> Id(KRDir, 0, RemOf(i))
                [] OTHER -> i
\* leaf functions for MapNested, tabulated on the leaf ids that occur in v
LeafIds(v) == {n.t : n \in ToSet(IterLeaves(v))}
PreMap(v) == MapNested([i \in LeafIds(v) |-> PreOp(i)], v)
PostMap(v) == MapNested([i \in LeafIds(v) |-> PostOp(i)], v)
ShapeMap(v) == MapNested([i \in LeafIds(v) |-> ShapeOp(i)], v)
IsStagingId(i) == KindOf(i) \in {KStage, KSDir}
NeedsCopy(i) == IsStagingId(i) /\ LocOf(i) # RemOf(i)

Seg(k, a) == [k |-> k, a |-> a]
StagingLeaves(v) == SelectSeq(IterLeaves(v), LAMBDA n : n.k = "leaf" /\ IsStagingId(n.t))
\* the command text script() assembles, one segment per joined part (as built: leaves in
\* iter_nested_value order; a staging pair that needs no copy renders an empty line)
Assemble(c) ==
  LET ins == IterLeaves(c.ins)
      outs == StagingLeaves(PreMap(c.outs))
      stage == [j \in 1..Len(ins) |-> IF NeedsCopy(ins[j].t) THEN Seg("stage", ins[j].t) ELSE Seg("noop", 0)]
      unstage == [j \in 1..Len(outs) |-> IF NeedsCopy(outs[j].t) THEN Seg("unstage", outs[j].t) ELSE Seg("noop", 0)]
      cd == IF c.tempdir THEN <<Seg("cd", 0)>> ELSE <<>>
  IN IF Variant = "unstage_first" THEN cd \o unstage \o stage \o <<Seg("wrap", 0)>>
     ELSE cd \o stage \o <<Seg("wrap", 0)>> \o unstage

(***************************************************************************)
(* Executing the assembled text, segment by segment.  World:               *)
(*   fs[p]   content at path p: Cn("none") | Cn("init", p) (what was at a  *)
(*           remote input before) | Cn("made", p, <what the command saw at *)
(*           its input paths>)                                             *)
(*   tmp     the temp file the here-document wrote (lines) / <<>>          *)
(*   out     stdout of the command (the convention of the harness: the     *)
(*           command prints its own file, so out = tmp)                    *)
(*   ran     number of times the command ran                               *)
(* The command is a black box that reads every input's local path and      *)
(* writes every output's local path.                                       *)
(***************************************************************************)
Cn(k, p, seen) == [ck |-> k, p |-> p, seen |-> seen]
NoContent == Cn("none", 0, <<>>)
PathsOf(c) ==
  LET A == StagingLeaves(c.ins) \o StagingLeaves(PreMap(c.outs))
  IN UNION {{LocOf(A[j].t), RemOf(A[j].t)} : j \in 1..Len(A)}
InitFs(c) ==
  LET ins == StagingLeaves(c.ins) IN
  [p \in PathsOf(c) |-> IF \E j \in 1..Len(ins) : RemOf(ins[j].t) = p
                        THEN Cn("init", p, <<>>) ELSE NoContent]
World0(c) == [fs |-> InitFs(c), tmp |-> <<>>, out |-> <<>>, ran |-> 0]

\* (folds are FoldLeft of SequencesExt: evaluated strictly by its Java override; a recursive operator
\* that threads the world through its arguments is re-evaluated at every use by TLC)
WriteAll(fs, outs, seen) ==
  FoldLeft(LAMBDA f, o : [f EXCEPT ![LocOf(o.t)] = Cn("made", LocOf(o.t), seen)], fs, outs)

ExecSeg(c, wrapper, wd, sg) ==
  CASE sg.k = "stage" -> [wd EXCEPT !.fs[LocOf(sg.a)] = wd.fs[RemOf(sg.a)]]
    [] sg.k = "unstage" -> [wd EXCEPT !.fs[RemOf(sg.a)] = wd.fs[LocOf(sg.a)]]
    [] sg.k = "wrap" ->
         LET ins == StagingLeaves(c.ins)
             outs == StagingLeaves(PreMap(c.outs))
             seen == [j \in 1..Len(ins) |-> wd.fs[LocOf(ins[j].t)]]
             body == ShellRead(wrapper).body
         IN [fs |-> WriteAll(wd.fs, outs, seen), tmp |-> body, out |-> body, ran |-> wd.ran + 1]
    [] OTHER -> wd        \* cd, noop

RunSegs(c, wrapper, wd, segs) == FoldLeft(LAMBDA x, sg : ExecSeg(c, wrapper, x, sg), wd, segs)

\* "stages every input before and unstages every output after the command": at the end every
\* remote output holds what the command made from the inputs' remote contents
LawStaging(c, wd) ==
  LET ins == StagingLeaves(c.ins)
      outs == StagingLeaves(PreMap(c.outs))
      want == [j \in 1..Len(ins) |-> Cn("init", RemOf(ins[j].t), <<>>)]
  IN /\ wd.ran = 1
     /\ \A j \in 1..Len(outs) : wd.fs[RemOf(outs[j].t)] = Cn("made", LocOf(outs[j].t), want)
\* order-free reading of a segment list (any order among the inputs, any among the outputs)
SegContract(c, segs) ==
  LET W == {i \in 1..Len(segs) : segs[i].k = "wrap"} IN
  /\ Cardinality(W) = 1
  /\ LET w == CHOOSE i \in W : TRUE
         need(v, kind) == {n.t : n \in {x \in ToSet(StagingLeaves(v)) : NeedsCopy(x.t)}}
     IN /\ \A i \in 1..Len(segs) : segs[i].k = "stage" => i < w
        /\ \A i \in 1..Len(segs) : segs[i].k = "unstage" => i > w
        /\ {segs[i].a : i \in {j \in 1..Len(segs) : segs[j].k = "stage"}} = need(c.ins, "stage")
        /\ {segs[i].a : i \in {j \in 1..Len(segs) : segs[j].k = "unstage"}}
             = need(PreMap(c.outs), "unstage")
LawShape(c, res) == res = ShapeMap(c.outs)

(***************************************************************************)
(* One call of script(), step by step.                                     *)
(***************************************************************************)
VARIABLES cas,    \* [cmd, ins, outs, tempdir, dsh]: the call
          pc,     \* "prepare" "eof" "exec" "done"  (generators add their own start labels)
          txt,    \* the prepared text
          idx,    \* get_command_eof's index
          segs, ip, world, res
vars == <<cas, pc, txt, idx, segs, ip, world, res>>
wrp == Wrap(txt, idx)     \* the wrapper text (once the loop has returned)

NoRes == Leaf(0)
StepPrepare == /\ pc = "prepare"
               /\ txt' = Prepare(cas.cmd, cas.dsh) /\ idx' = 0 /\ pc' = "eof"
               /\ UNCHANGED <<cas, segs, ip, world, res>>
\* one iteration of `while True: if eof in lines: index += 1 ... else: return eof`; on return the
\* wrapper is formatted and script() joins the parts (no state of its own: nothing can interleave)
StepEof == /\ pc = "eof"
           /\ IF HasLine(txt, EofLine(idx)) /\ Variant # "eof_fixed"
              THEN idx' = idx + 1 /\ pc' = pc /\ UNCHANGED <<segs, ip, world>>
              ELSE idx' = idx /\ pc' = "exec" /\ segs' = Assemble(cas) /\ ip' = 1 /\ world' = World0(cas)
           /\ UNCHANGED <<cas, txt, res>>
\* the shell executes one part; after the last one postprocess_script maps the outputs
StepExec == /\ pc = "exec" /\ ip <= Len(segs)
            /\ world' = ExecSeg(cas, wrp, world, segs[ip]) /\ ip' = ip + 1
            /\ IF ip = Len(segs) THEN res' = PostMap(PreMap(cas.outs)) /\ pc' = "done"
                                 ELSE res' = res /\ pc' = pc
            /\ UNCHANGED <<cas, txt, idx, segs>>
Run == StepPrepare \/ StepEof \/ StepExec

(***************************************************************************)
(* Properties.  The laws are stated once, on the final state of a call     *)
(* (everything they mention is still there); the loop bound and the        *)
(* staging order are invariants of the intermediate states.                *)
(***************************************************************************)
\* the loop's variant: every earlier candidate is a line of the text, so idx <= number of lines
EofLoopBound == pc = "eof" => idx <= Len(txt) /\ \A j \in 0..(idx - 1) : HasLine(txt, EofLine(j))
Terminates == <>(pc = "done")
\* the terminator never equals a line; the shell reads back exactly the prepared text
TerminatorOK == pc = "done" => LawTerminator(txt, idx) /\ LawLeast(txt, idx)
HeredocOK == pc = "done" => LawHeredoc(txt, wrp)
\* the same two laws for the raw text (the two functions are public and take any text)
RawOK == pc = "done" => /\ LawTerminator(cas.cmd, GetEof(cas.cmd))
                        /\ LawHeredoc(cas.cmd, Wrap(cas.cmd, GetEof(cas.cmd)))
\* exactly the dedented text, under the default shell unless it starts with a shebang
PrepareOK == pc = "done" =>
               LET b == Strip(Dedent(cas.cmd)) IN
               IF b[1].tok = "shebang" THEN txt = b ELSE txt = cas.dsh \o b
\* the executor prepares the assembled text once more (exec_script_task): that must not touch the
\* here-document (no blank-only line survives the first preparation, the margin of the outer text
\* is zero because the wrapper's own lines start in column one)
OuterPrepareTransparent ==
  pc = "done" => LET outer == Prepare(wrp, cas.dsh) IN LawHeredoc(txt, outer)
\* what ran is what was written, the staging law, the shape law
ExecutedOK == pc = "done" => world.tmp = txt /\ world.out = txt
StagingOK == pc = "done" => LawStaging(cas, world) /\ SegContract(cas, segs)
ShapeOK == pc = "done" => LawShape(cas, res)
\* while the command runs every input is at its local path and no output has been copied yet
StagedBeforeRun ==
  (pc = "exec" /\ ip <= Len(segs) /\ segs[ip].k = "wrap") =>
     LET ins == StagingLeaves(cas.ins) IN
     \A j \in 1..Len(ins) : world.fs[LocOf(ins[j].t)] = Cn("init", RemOf(ins[j].t), <<>>)
=============================================================================
