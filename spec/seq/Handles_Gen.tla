----------------------------- MODULE Handles_Gen -----------------------------
(* Behaviour generator for spec -> code replay: Handles plus a history variable, so the state
   graph is the tree of all operation sequences; every state at depth MaxOps prints its path once
   ("BEH <json>").  Next to the as-built machine (all deviations of Dev on) two more machines run
   with exactly one deviation each, so that a difference between the real code and the reference
   can be attributed: per step the history holds the valid sets of
       v   as built (Dev)          ref  reference lineage model
       v1  only ForkEdgeUnrecorded v2   only RollbackSkipsInvalidParent
   Used exhaustively for small MaxOps and with -simulate for long random behaviours. *)
EXTENDS Handles, Json
VARIABLES hist, a1, a2
gvars == <<vars, hist, a1, a2>>
GInit == Init /\ hist = <<>> /\ a1 = M0 /\ a2 = M0
GNext == /\ Next
         /\ a1' = Apply({"ForkEdgeUnrecorded"}, a1, lastop')
         /\ a2' = Apply({"RollbackSkipsInvalidParent"}, a2, lastop')
         /\ hist' = Append(hist, [op |-> lastop', v |-> m'.valid, ref |-> r'.valid,
                                  v1 |-> a1'.valid, v2 |-> a2'.valid, fired |-> fired',
                                  stale |-> stale'])
GSpec == GInit /\ [][GNext]_gvars
Emit == (nops = MaxOps) => PrintT("BEH " \o ToJson(hist))
=============================================================================
