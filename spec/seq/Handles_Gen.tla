----------------------------- MODULE Handles_Gen -----------------------------
(* Behaviour generator for spec -> code replay: Handles plus a history variable, so the state
   graph is the tree of all operation sequences; every state at depth MaxOps prints its path once
   ("BEH <json>").  Next to the as-built machine (all deviations of Dev on) two more machines run
   with exactly one deviation each, so that a difference between the real code and the reference
   can be attributed: per step the history holds the valid sets of
       v   as built (Dev)          ref  reference lineage model
       v1  only ForkEdgeUnrecorded v2   only RollbackSkipsInvalidParent
   Used exhaustively for small MaxOps and with -simulate for long random behaviours. *)
EXTENDS Handles, Json
VARIABLES hist, a1, a2, emitted
gvars == <<vars, hist, a1, a2, emitted>>
GInit == Init /\ hist = <<>> /\ a1 = M0 /\ a2 = M0 /\ emitted = FALSE
GStep == /\ Next
         /\ a1' = Apply({"ForkEdgeUnrecorded"}, a1, lastop')
         /\ a2' = Apply({"RollbackSkipsInvalidParent"}, a2, lastop')
         /\ hist' = Append(hist, [op |-> lastop', v |-> m'.valid, ref |-> r'.valid,
                                  v1 |-> a1'.valid, v2 |-> a2'.valid, fired |-> fired',
                                  stale |-> stale'])
         /\ UNCHANGED emitted
(* The path is printed by a final step of its own (not by an invariant): in -simulate mode TLC
   evaluates invariants on every candidate successor, an action only once per chosen state. *)
GEmit == /\ nops = MaxOps /\ ~emitted
         /\ PrintT("BEH " \o ToJson(hist))
         /\ emitted' = TRUE /\ UNCHANGED <<vars, hist, a1, a2>>
GNext == GStep \/ GEmit
GSpec == GInit /\ [][GNext]_gvars
=============================================================================
