-------------------------- MODULE StatusFilter_Gen --------------------------
(* spec -> code: the decision table of StatusFilter.tla, one record per row shape: expected
   displayed status and expected membership in every status filter (single statuses and pairs),
   whether the recording machine can produce the shape, and whether the law holds on it.  The
   driver builds databases that contain such rows and compares the real Job.status /
   CallGraphQuery results with this table.  The machine itself is explored as well: every state
   prints its shape (REACHED) so that the declarative RecordedShapes can be cross-checked. *)
EXTENDS StatusFilter, Json

Bool(b) == IF b THEN 1 ELSE 0
SetSeq(S) == LET RECURSIVE f(_) f(X) == IF X = {} THEN <<>> ELSE LET x == CHOOSE y \in X : TRUE IN <<x>> \o f(X \ {x}) IN f(S)
Lists(U) == {S \in NonEmpty(U) : Cardinality(S) <= 2}

JobEntry(r) ==
  [kind |-> "job", end |-> Bool(r.end), cached |-> Bool(r.cached), res |-> r.res,
   display |-> Display(r),
   filters |-> [i \in 1..Cardinality(Lists(Statuses)) |->
                  LET S == SetSeq(Lists(Statuses))[i] IN [S |-> SetSeq(S), sel |-> Bool(Selected(S, r))]],
   rec_root |-> Bool(r \in RecordedShapes(TRUE)), rec_child |-> Bool(r \in RecordedShapes(FALSE)),
   law |-> Bool(JobLawAt(r))]

ExecEntry(hasjob, r) ==
  [kind |-> "exec", hasjob |-> Bool(hasjob), end |-> Bool(r.end), cached |-> Bool(r.cached), res |-> r.res,
   display |-> ExecDisplay(hasjob, r),
   filters |-> [i \in 1..Cardinality(Lists(ExecStatuses)) |->
                  LET S == SetSeq(Lists(ExecStatuses))[i] IN [S |-> SetSeq(S), sel |-> Bool(ExecSelected(S, hasjob, r))]],
   rec_root |-> Bool(hasjob /\ r \in RecordedShapes(TRUE)), rec_child |-> 0,
   law |-> Bool(ExecLawAt(hasjob, r))]

ASSUME \A r \in JobRows : PrintT("JOBSHAPE " \o ToJson(JobEntry(r)))
ASSUME \A r \in JobRows : PrintT("EXECSHAPE " \o ToJson(ExecEntry(TRUE, r)))
ASSUME PrintT("EXECSHAPE " \o ToJson(ExecEntry(FALSE, Row(FALSE, FALSE, "none"))))

Emit == row # Absent =>
          PrintT("REACHED " \o ToJson([end |-> Bool(row.end), cached |-> Bool(row.cached), res |-> row.res,
                                        root |-> Bool(isroot), how |-> how]))
=============================================================================
