---------------------------- MODULE Handles_Trace ----------------------------
(* Code -> spec: executions recorded from the real backend (advance_handle / rollback_handle, with
   is_valid_handle of every state the driver ever made observed after every call) are validated
   against Handles.tla.  A trace is a sequence of [op, obs]: op as in Handles (ps, fresh: lists of
   terms), obs = list of the terms the implementation reports valid.

   The machines are advanced with the logged operation; the model does not depend on obs, so a
   trace is always consumed to its end and every invariant of Handles.tla is evaluated on every
   state.  `bad` remembers the first step at which the implementation's valid set differs from
   the REFERENCE (= the property fails on the real code there) together with the machines that
   explain the observed set: "asbuilt" (Dev), "d1" (only ForkEdgeUnrecorded), "d2" (only
   RollbackSkipsInvalidParent).  One VERDICT line per trace:
        <<tid, 0 | first bad step, explaining machines, deviations fired up to that step>>      *)
EXTENDS Handles, Json, IOUtils
Traces == JsonDeserialize(IOEnv.TRACE_FILE)
VARIABLES tid, l, bad, a1, a2
tvars == <<vars, tid, l, bad, a1, a2>>
Cur == Traces[tid]
ToSet(q) == {q[i] : i \in 1..Len(q)}
TOp(o) == Op(o.n, ToSet(o.ps), o.c, ToSet(o.fresh))
NoBad == <<0, {}, {}>>
TInit == Init /\ tid = 1 /\ l = 1 /\ bad = NoBad /\ a1 = M0 /\ a2 = M0
TStep == /\ l <= Len(Cur)
         /\ LET op == TOp(Cur[l].op)
                obs == ToSet(Cur[l].obs)
                m2 == Apply(Dev, m, op)
                r2 == RefApply(r, op)
                b1 == Apply({"ForkEdgeUnrecorded"}, a1, op)
                b2 == Apply({"RollbackSkipsInvalidParent"}, a2, op)
                f2 == fired \cup Fires(m, op)
            IN /\ m' = m2 /\ mfix' = Apply({}, mfix, op) /\ r' = r2 /\ a1' = b1 /\ a2' = b2 /\ fired' = f2
               /\ stale' = (stale \/ StaleParent(m, op))
               /\ lastop' = op /\ nops' = nops + 1
               /\ bad' = IF bad[1] = 0 /\ obs # r2.valid
                         THEN <<l, (IF obs = m2.valid THEN {"asbuilt"} ELSE {})
                                   \cup (IF obs = b1.valid THEN {"d1"} ELSE {})
                                   \cup (IF obs = b2.valid THEN {"d2"} ELSE {}), f2>>
                         ELSE bad
         /\ l' = l + 1 /\ tid' = tid
TNextTrace == /\ l > Len(Cur)
              /\ PrintT("VERDICT " \o ToJson(<<tid, bad[1], bad[2], bad[3]>>))
              /\ tid < Len(Traces)
              /\ tid' = tid + 1 /\ l' = 1 /\ bad' = NoBad /\ a1' = M0 /\ a2' = M0
              /\ m' = M0 /\ mfix' = M0 /\ r' = R0 /\ fired' = {} /\ stale' = FALSE /\ nops' = 0 /\ lastop' = NoOp
TNext == TStep \/ TNextTrace
TSpec == TInit /\ [][TNext]_tvars
\* action properties of Handles.tla restated over the trace run (a new trace resets the machines)
TMonotone == [][tid' = tid => /\ lastop'.n = "rb" => m'.valid \subseteq m.valid
                              /\ lastop'.n = "adv" => m.valid \subseteq m'.valid]_tvars
=============================================================================
