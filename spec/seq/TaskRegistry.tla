---------------------------- MODULE TaskRegistry ----------------------------
(***************************************************************************)
(* redun/task.py: TaskRegistry (add / rename / get / task_hashes), the     *)
(* @task decorator and wraps_task, as a state machine at call granularity  *)
(* (C37).                                                                  *)
(*                                                                         *)
(* A full name is [ns |-> <<components>>, name |-> n]                      *)
(* ("N.W.f" = [ns |-> <<"N","W">>, name |-> "f"]).                         *)
(* A task object is a record                                               *)
(*   fn      its current full name (namespace + name attributes)           *)
(*   body    source identity: <<"b", b>> for a body b of Bodies, or        *)
(*           <<"w", W>> for the wrapper function produced by wrapper W     *)
(*   hn      the full name the hash was computed with: Task.hash is        *)
(*           computed in __init__ from fullname + source + hash_includes   *)
(*           and is NOT recomputed by TaskRegistry.rename, so a renamed    *)
(*           task keeps the hash of its old name (as built; the registry   *)
(*           invariants are stated on the hash the task carries)           *)
(*   hinc    hash of the hidden task at wrap time (hash_includes), or <<>> *)
(*   wrapped task option "wrapped_task": full name of the hidden task, or  *)
(*           NoName                                                        *)
(* The hash a task carries is <<hn, body, hinc>>.                          *)
(*                                                                         *)
(* Registry R: tasks (function full name -> task object, `_tasks`),        *)
(* counts (function hash -> Nat, `_task_hash_counts`; entries are removed  *)
(* when they reach zero), err (the last call raised).                      *)
(*                                                                         *)
(* Calls: Define (a @task definition; on an existing name with another     *)
(* body it is a Redefine), Rename (TaskRegistry.rename), Wrap (a           *)
(* wraps_task decorator applied to the task registered under a name: the   *)
(* chain of already wrapped tasks is renamed innermost first into the      *)
(* wrapper's inner namespace, then the wrapper is defined under the        *)
(* visible name).                                                          *)
(***************************************************************************)
EXTENDS Naturals, Sequences, FiniteSets, TLC

CONSTANTS Names,      \* task names
          Bodies,     \* function bodies
          BaseNs,     \* namespaces used by definitions: one component each, "" = no namespace
          Wrappers,   \* wrapper names (inner namespace component)
          MaxOps,
          OpKinds     \* subset of {"define", "rename", "wrap"}

FN(ns, n) == [ns |-> ns, name |-> n]
NoName == FN(<<>>, "")
NoHash == <<>>
Task(fn, body, hn, hinc, wrapped) == [fn |-> fn, body |-> body, hn |-> hn, hinc |-> hinc, wrapped |-> wrapped]
Hash(t) == <<t.hn, t.body, t.hinc>>

EmptyFn == [x \in {} |-> 0]
EmptyReg == [tasks |-> EmptyFn, counts |-> EmptyFn, err |-> FALSE]

Keys(R) == DOMAIN R.tasks
Without(f, k) == [x \in (DOMAIN f) \ {k} |-> f[x]]
With(f, k, v) == [x \in (DOMAIN f) \cup {k} |-> IF x = k THEN v ELSE f[x]]

(* _decrement_hash_count *)
Decrement(counts, h) ==
  IF h \notin DOMAIN counts THEN counts
  ELSE IF counts[h] = 1 THEN Without(counts, h) ELSE With(counts, h, counts[h] - 1)

(* TaskRegistry.add *)
Add(R, t) ==
  LET c1 == IF t.fn \in Keys(R) THEN Decrement(R.counts, Hash(R.tasks[t.fn])) ELSE R.counts
      h == Hash(t)
  IN [R EXCEPT !.tasks = With(R.tasks, t.fn, t),
               !.counts = With(c1, h, IF h \in DOMAIN c1 THEN c1[h] + 1 ELSE 1)]

(* TaskRegistry.rename: the task under `old` (assert it exists) gets a new namespace and name and
   is added again; its hash is left alone *)
Rename(R, old, new) ==
  IF old \notin Keys(R) THEN [R EXCEPT !.err = TRUE]
  ELSE LET t == R.tasks[old]
           R1 == [R EXCEPT !.tasks = Without(R.tasks, old), !.counts = Decrement(R.counts, Hash(t))]
       IN Add(R1, [t EXCEPT !.fn = new])

(* wraps_task.recursive_rename: the objects of the chain are fetched outermost first (each level
   looks its inner task up before recursing), the renames happen innermost first.  Chain(R, k, fuel)
   is the sequence of keys k, wrapped(k), wrapped(wrapped(k)), ...; <<>> if a link is missing (the
   code dies with AttributeError on None) or repeats (RecursionError).  Nothing has been renamed
   when either happens. *)
RECURSIVE ChainFrom(_, _, _)
ChainFrom(R, k, seen) ==
  IF k \notin Keys(R) \/ k \in seen THEN <<NoName>>                 \* marker: broken chain
  ELSE IF R.tasks[k].wrapped = NoName THEN <<k>>
  ELSE <<k>> \o ChainFrom(R, R.tasks[k].wrapped, seen \cup {k})
Chain(R, k) == LET c == ChainFrom(R, k, {}) IN IF c[Len(c)] = NoName THEN <<>> ELSE c

Inner(fn, W) == FN(Append(fn.ns, W), fn.name)

\* rename chain[i], chain[i-1], ..., chain[1]; `below` is the new full name of the level below
RECURSIVE RenameUp(_, _, _, _, _)
RenameUp(R, objs, i, W, below) ==
  IF i = 0 \/ R.err THEN R
  ELSE LET o == objs[i]                                   \* the object fetched before any rename
           old == o.fn
           new == Inner(o.fn, W)
           \* the level above points at the renamed inner task (task_options_base["wrapped_task"])
           R0 == IF below # NoName /\ old \in Keys(R) /\ R.tasks[old] = o
                 THEN [R EXCEPT !.tasks[old].wrapped = below] ELSE R
           R1 == Rename(R0, old, new)
       IN RenameUp(R1, objs, i - 1, W, new)

Wrap(R, k, W) ==
  LET chain == Chain(R, k) IN
  IF chain = <<>> THEN [R EXCEPT !.err = TRUE]
  ELSE LET objs == [i \in 1..Len(chain) |-> R.tasks[chain[i]]]
           hidden == objs[1]
           R1 == RenameUp(R, objs, Len(chain), W, NoName)
           w == Task(hidden.fn, <<"w", W>>, hidden.fn, Hash(hidden), Inner(hidden.fn, W))
       IN IF R1.err THEN R1 ELSE Add(R1, w)

(***************************************************************************)
(* Calls.                                                                  *)
(***************************************************************************)
Op(n, fn, body, to, w) == [n |-> n, fn |-> fn, body |-> body, to |-> to, w |-> w]
NoOp == Op("init", NoName, "", NoName, "")

Apply(R0, op) ==
  LET R == [R0 EXCEPT !.err = FALSE] IN
  CASE op.n = "define" -> Add(R, Task(op.fn, <<"b", op.body>>, op.fn, NoHash, NoName))
    [] op.n = "rename" -> Rename(R, op.fn, op.to)
    [] op.n = "wrap" -> Wrap(R, op.fn, op.w)

NsSeq(b) == IF b = "" THEN <<>> ELSE <<b>>
DefNames == {FN(NsSeq(b), n) : b \in BaseNs, n \in Names}
Targets == DefNames \cup {FN(Append(NsSeq(b), w), n) : b \in BaseNs, w \in Wrappers, n \in Names}
Ops(R) ==
  (IF "define" \in OpKinds THEN {Op("define", fn, b, NoName, "") : fn \in DefNames, b \in Bodies} ELSE {})
  \cup (IF "rename" \in OpKinds THEN {Op("rename", k, "", to, "") : k \in Keys(R), to \in Targets} ELSE {})
  \cup (IF "wrap" \in OpKinds THEN {Op("wrap", k, "", NoName, w) : k \in Keys(R), w \in Wrappers} ELSE {})

VARIABLES r, nops, lastop
vars == <<r, nops, lastop>>
Init == r = EmptyReg /\ nops = 0 /\ lastop = NoOp
Next == /\ nops < MaxOps
        /\ \E op \in Ops(r) : r' = Apply(r, op) /\ lastop' = op
        /\ nops' = nops + 1
Spec == Init /\ [][Next]_vars

(***************************************************************************)
(* Properties (C37).                                                       *)
(***************************************************************************)
TaskHashes(R) == {h \in DOMAIN R.counts : R.counts[h] > 0}          \* the task_hashes property
HeldHashes(R) == {Hash(R.tasks[k]) : k \in Keys(R)}
\* the set of current task hashes equals the set of hashes of the tasks the registry holds
HashesMatch == TaskHashes(r) = HeldHashes(r)
\* stronger, as built: every count is the number of held tasks with that hash
CountsExact == \A h \in DOMAIN r.counts : r.counts[h] = Cardinality({k \in Keys(r) : Hash(r.tasks[k]) = h})
\* "All entries have positive non-zero counts"
CountsPositive == \A h \in DOMAIN r.counts : r.counts[h] >= 1
\* each task is found under its current full name
NamesMatch == \A k \in Keys(r) : r.tasks[k].fn = k
\* a wrapped task keeps its visible name, the original moves to the wrapper's inner namespace,
\* and the chain below the visible name resolves to tasks the registry holds
WrapKeepsName ==
  [][(lastop'.n = "wrap" /\ ~r'.err) =>
       LET k == lastop'.fn
           in1 == Inner(k, lastop'.w)
           old == r.tasks[k]
       IN /\ k \in Keys(r') /\ r'.tasks[k].body = <<"w", lastop'.w>> /\ r'.tasks[k].wrapped = in1
          /\ in1 \in Keys(r') /\ r'.tasks[in1].body = old.body /\ Hash(r'.tasks[in1]) = Hash(old)
          /\ r'.tasks[k].hinc = Hash(old)
          /\ Len(Chain(r', k)) = Len(Chain(r, k)) + 1]_vars
\* a failing call changes nothing
ErrNoChange == [][r'.err => (r'.tasks = r.tasks /\ r'.counts = r.counts)]_vars
\* definitions: the name holds exactly the new task afterwards
DefineOK == [][lastop'.n = "define" => (/\ lastop'.fn \in Keys(r') /\ r'.tasks[lastop'.fn].body = <<"b", lastop'.body>>
                                        /\ r'.tasks[lastop'.fn].wrapped = NoName
                                        /\ \A k \in Keys(r) \ {lastop'.fn} : k \in Keys(r') /\ r'.tasks[k] = r.tasks[k])]_vars
TypeOK == /\ nops \in 0..MaxOps /\ r.err \in BOOLEAN
          /\ \A k \in Keys(r) : k.name \in Names

\* Hash staleness is real and reachable (documented control, not a property): a renamed task
\* carries the hash of its old name
NoStaleHash == \A k \in Keys(r) : r.tasks[k].hn = r.tasks[k].fn

(***************************************************************************)
(* Observation compared with the implementation: per held task             *)
(* <<key, own full name, body, wrapped_task, hash id>>, the task_hashes    *)
(* set, the counts.  Hash ids are terms here and hex strings there: they   *)
(* are compared up to a bijection.                                         *)
(***************************************************************************)
Obs(R) == [tasks |-> {<<k, R.tasks[k].fn, R.tasks[k].body, R.tasks[k].wrapped, Hash(R.tasks[k])>> : k \in Keys(R)},
           hashes |-> TaskHashes(R),
           counts |-> {<<h, R.counts[h]>> : h \in DOMAIN R.counts},
           err |-> IF R.err THEN 1 ELSE 0]
=============================================================================
