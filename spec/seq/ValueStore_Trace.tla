-------------------------- MODULE ValueStore_Trace --------------------------
(* Code -> spec: executions recorded from a real RedunBackendDb with a value store are validated
   against ValueStore.tla.  A trace is [min0, steps]; a step is [op, res, gets]: the operation, the
   outcome of record_value (<<"ok">> | <<"toolarge">> | <<"none">>) and, for every value the
   driver knows, what get_value(key) returned: the value's id or <<"absent">> (a value the driver
   cannot identify is logged as <<"other">>).

   The machines are advanced with the logged operation only, so a trace is always consumed to its
   end with every invariant of ValueStore.tla evaluated on every state.  `bad` remembers the first
   step at which the PROPERTY fails on the observation:
     "wrong"      some get returned something that is neither absent nor the value of that key
     "res"        record_value accepted an oversize value / rejected one that fits
     "unreadable" a value the repaired machine can read came back absent;
                  "explained" if the as-built machine (deviation fired) says absent too
   A value read although the model says absent is not a failure of the property (flagged as drift).
   One VERDICT line per trace: <<tid, first bad step | 0, kind, explained (0/1), drift steps>>. *)
EXTENDS ValueStore, Json, IOUtils
Traces == JsonDeserialize(IOEnv.TRACE_FILE)
VARIABLES tid, l, bad, drift
tvars == <<vars, tid, l, bad, drift>>
Cur == Traces[tid]
TOp(o) == Op(o.n, o.v, o.mn)
NoBad == <<0, "", 0>>
ResKind(res) == res[1]
TInit == /\ s = S0(Traces[1].min0) /\ sfix = S0(Traces[1].min0)
         /\ fired = {} /\ lastop = NoOp /\ lastres = <<"none">> /\ nops = 0
         /\ tid = 1 /\ l = 1 /\ bad = NoBad /\ drift = 0
Judge(a, f, step) ==
  LET gets == {step.gets[i] : i \in 1..Len(step.gets)}
      wrong == \E g \in gets : g[2] # Absent /\ g[2] # g[1]
      resbad == ResKind(step.res) # ResKind(a.res)
      unread == {g \in gets : g[2] = Absent /\ Get(f.S, Key(g[1])) # Absent}
      expl == \A g \in unread : Get(a.S, Key(g[1])) = Absent
  IN IF wrong THEN <<"wrong", 0>> ELSE IF resbad THEN <<"res", 0>>
     ELSE IF unread # {} THEN <<"unreadable", IF expl THEN 1 ELSE 0>> ELSE <<"", 0>>
Drifts(a, step) == \E i \in 1..Len(step.gets) :
                      step.gets[i][2] # Absent /\ Get(a.S, Key(step.gets[i][1])) = Absent
TStep == /\ l <= Len(Cur.steps)
         /\ LET step == Cur.steps[l]
                op == TOp(step.op)
                a == Apply(Dev, s, op)
                f == Apply({}, sfix, op)
                j == Judge(a, f, step)
            IN /\ s' = a.S /\ sfix' = f.S /\ lastres' = a.res /\ lastop' = op
               /\ fired' = fired \cup {d \in Dev : a.S # Apply(Dev \ {d}, s, op).S}
               /\ nops' = nops + 1
               /\ bad' = IF bad[1] = 0 /\ j[1] # "" THEN <<l, j[1], j[2]>> ELSE bad
               /\ drift' = IF Drifts(a, step) THEN drift + 1 ELSE drift
         /\ l' = l + 1 /\ tid' = tid
TNextTrace == /\ l > Len(Cur.steps)
              /\ PrintT("VERDICT " \o ToJson(<<tid, bad[1], bad[2], bad[3], drift>>))
              /\ tid < Len(Traces)
              /\ tid' = tid + 1 /\ l' = 1 /\ bad' = NoBad /\ drift' = 0
              /\ s' = S0(Traces[tid + 1].min0) /\ sfix' = S0(Traces[tid + 1].min0)
              /\ fired' = {} /\ lastop' = NoOp /\ lastres' = <<"none">> /\ nops' = 0
TNext == TStep \/ TNextTrace
TSpec == TInit /\ [][TNext]_tvars
TOversizeRejected ==
  [][(tid' = tid /\ lastop'.n = "record" /\ DLen(lastop'.v) > Max) => (lastres' = <<"toolarge">> /\ s' = s)]_tvars
=============================================================================
