-------------------------- MODULE Migrations_Trace --------------------------
(* code -> spec: real SQLite databases built with the real alembic chain at an old version,
   populated, and upgraded by RedunBackendDb.migrate().  A trace item is one upgrade
   (one revision, or the whole remaining chain in one call):
     revs     the revision numbers (1..11, see Migrations.tla) the upgrade applies
     before, after   [table |-> [cols, pk, notnull, rows]]  reflected schema and all rows; a cell
              is a string (NULL = "~"; blobs as digests), a time cell of job.start_time /
              end_time is [s, us]: seconds (relative to a fixed base) and microseconds of the
              INSTANT the stored text denotes under the convention of that schema version
              (local time before revision 10, UTC from it on); NULL = [s |-> -1, us |-> -1]
   TLC evaluates the per-revision contracts on the dumps; one VERDICT record per item. *)
EXTENDS Migrations, Json, IOUtils

Items == JsonDeserialize(IOEnv.TRACE_FILE)
ToSet(s) == {s[k] : k \in 1..Len(s)}
B(b) == IF b THEN 1 ELSE 0

Bookkeeping == {"alembic_version", "redun_version"}
NewTablesOf(R) == (IF 2 \in R THEN {"evaluation"} ELSE {}) \cup (IF 7 \in R THEN {"tag", "tag_edit"} ELSE {})
NewColsOf(R, t) == (IF 5 \in R /\ t = "job" THEN {"execution_id"} ELSE {})
                   \cup (IF 11 \in R /\ t = "execution" THEN {"updated_time"} ELSE {})
IsTime(t, c) == <<t, c>> \in TimeCols

Tabs(d) == DOMAIN d
ColsOf(d, t) == ToSet(d[t].cols)
RowsOf(d, t) == ToSet(d[t].rows)
Same(d, t, r, q) == \A c \in ToSet(d[t].pk) : r[c] = q[c]
Match(b, a, t, r) == {q \in RowsOf(a, t) : Same(b, t, r, q)}

RECURSIVE RootId(_, _, _)
RootId(jobs, j, fuel) ==
  IF fuel = 0 \/ j.parent_id = NULL THEN j.id
  ELSE LET ps == {p \in jobs : p.id = j.parent_id} IN
         IF ps = {} THEN j.id ELSE RootId(jobs, CHOOSE p \in ps : TRUE, fuel - 1)

(* the documented effect of revision 10 on a time cell: same instant, same precision ... *)
TimeExact(x, y) == x = y
(* ... and what datetime(x, 'utc') does: whole seconds, fractions >= .9995 carried *)
TimeAsBuilt(x, y) == IF x.s = -1 THEN y = x
                     ELSE y.us = 0 /\ y.s = x.s + (IF x.us >= 999500 THEN 1 ELSE 0)

Verdict(it) ==
  LET R == ToSet(it.revs)
      b == it.before
      a == it.after
      data == Tabs(b) \ Bookkeeping
      jobsB == RowsOf(b, "job")
      execA == RowsOf(a, "execution")
      schema == /\ Tabs(a) = Tabs(b) \cup NewTablesOf(R)
                /\ \A t \in Tabs(b) : ColsOf(a, t) = ColsOf(b, t) \cup NewColsOf(R, t)
                /\ \A t \in NewTablesOf(R) \ Tabs(b) : RowsOf(a, t) = {}
      kept == \A t \in data : \A r \in RowsOf(b, t) : Cardinality(Match(b, a, t, r)) = 1
      Cells(P(_, _, _, _)) ==    \* P(t, c, old, new) over every (row, shared column)
        \A t \in data : \A r \in RowsOf(b, t) : \A q \in Match(b, a, t, r) : \A c \in ColsOf(b, t) : P(t, c, r[c], q[c])
      plainEq(t, c, x, y) == (IsTime(t, c) \/ (6 \in R /\ t = "job" /\ c = "execution_id")) \/ x = y
      timeEq(t, c, x, y) == IsTime(t, c) => TimeExact(x, y)
      timeAB(t, c, x, y) == IsTime(t, c) => (IF 10 \in R THEN TimeAsBuilt(x, y) ELSE x = y)
      execid == (6 \in R) =>
                  \A j \in jobsB : \A q \in Match(b, a, "job", j) :
                     \E e \in execA : e.id = q.execution_id /\ e.job_id = RootId(jobsB, j, 50)
      newcols == \A t \in Tabs(b) : \A c \in NewColsOf(R, t) \ ColsOf(b, t) :
                    \A q \in RowsOf(a, t) : q[c] = NULL \/ (6 \in R /\ c = "execution_id")
      NewRows(t) == {q \in RowsOf(a, t) : ~\E r \in RowsOf(b, t) : Same(b, t, r, q)}
      lonely == {k.hash : k \in {x \in RowsOf(b, "task") : ~\E w \in RowsOf(b, "value") : w.value_hash = x.hash}}
      needstub == {j.id : j \in {x \in jobsB : x.parent_id = NULL /\ ~\E e \in RowsOf(b, "execution") : e.job_id = x.id}}
      newrows == \A t \in data :
                   CASE t = "value" /\ 3 \in R ->
                          /\ {q.value_hash : q \in NewRows(t)} = lonely
                          /\ \A q \in NewRows(t) : q.type = "redun.Task"
                     [] t = "execution" /\ 6 \in R ->
                          /\ {q.job_id : q \in NewRows(t)} = needstub
                          /\ Cardinality(NewRows(t)) = Cardinality(needstub)
                          /\ \A q \in NewRows(t) : q.args = "\"Stub Execution\""
                     [] OTHER -> NewRows(t) = {}
      notnull == \A t \in Tabs(a) : \A c \in ToSet(a[t].notnull) : \A q \in RowsOf(a, t) :
                    IF IsTime(t, c) THEN q[c].s # -1 ELSE q[c] # NULL
  IN [schema |-> B(schema), kept |-> B(kept), cells |-> B(Cells(plainEq)), times |-> B(Cells(timeEq)),
      times_asbuilt |-> B(Cells(timeAB)), execid |-> B(execid), newcols |-> B(newcols),
      newrows |-> B(newrows), notnull |-> B(notnull)]

VARIABLE i
TInit == i = 1 /\ ver = 1 /\ db = <<>> /\ v0 = 1 /\ init = <<>>
TNext == /\ i <= Len(Items) /\ UNCHANGED vars
         /\ PrintT("VERDICT " \o ToJson(<<i, Verdict(Items[i])>>))
         /\ i' = i + 1
TSpec == TInit /\ [][TNext]_<<i, vars>>
=============================================================================
