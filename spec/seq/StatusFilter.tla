---------------------------- MODULE StatusFilter ----------------------------
(***************************************************************************)
(* C33  Status filters agree with displayed statuses.                      *)
(*                                                                         *)
(* Two functions of redun are transcribed and related:                     *)
(*   Display  = Job.calc_status / Execution.calc_status                    *)
(*              (redun/backends/db/__init__.py) -- the status column of    *)
(*              `redun log`, the console and the JSON serialisation;       *)
(*   Selected = the WHERE clause CallGraphQuery builds for                 *)
(*              filter_job_statuses / filter_execution_statuses            *)
(*              (_job_status_term, redun/backends/db/query.py), evaluated  *)
(*              over the row  Job LEFT JOIN CallNode LEFT JOIN Value  with *)
(*              SQL's three-valued logic (a comparison with NULL is        *)
(*              UNKNOWN, a row is returned only when the clause is TRUE).  *)
(*                                                                         *)
(* A job row is abstracted to its shape (end time present?, cached flag,   *)
(* kind of the result its call node points to: none = no call node yet).   *)
(* An execution row is its root job (inner join: an execution without a    *)
(* job row is never returned by a status filter).                          *)
(*                                                                         *)
(* Which shapes a database can contain is not arbitrary: the small state   *)
(* machine below follows record_job_start / record_job_end as the          *)
(* scheduler calls them (exec_job, done_job, _reject_job_main_thread,      *)
(* Job.collapse).  The law                                                 *)
(*        row \in Filter(S)  <=>  Display(row) \in S                       *)
(* is an invariant of that machine -- except through the named deviation   *)
(* CachedFlagOnFailedJob: a job whose own reduction was served from the    *)
(* cache (or that was collapsed into a pending twin) and whose evaluation  *)
(* then FAILS is recorded with cached = TRUE *and* an ErrorValue result;   *)
(* it is displayed FAILED but also matches the CACHED term, and as a root  *)
(* job makes a FAILED execution match the DONE filter.                     *)
(***************************************************************************)
EXTENDS Naturals, Sequences, FiniteSets, TLC

CONSTANT Deviations          \* subset of {"CachedFlagOnFailedJob"}

Statuses == {"RUNNING", "CACHED", "FAILED", "DONE"}
ExecStatuses == {"RUNNING", "FAILED", "DONE"}   \* what --exec-status documents
Kinds == {"none", "value", "error"}
JobRows == [end : BOOLEAN, cached : BOOLEAN, res : Kinds]
Row(e, c, r) == [end |-> e, cached |-> c, res |-> r]

(***************************************************************************)
(* Display: Job.calc_status(result_type), in the order of its branches.    *)
(***************************************************************************)
Display(r) ==
  IF r.res = "error" THEN "FAILED"
  ELSE IF ~r.end THEN "RUNNING"
  ELSE IF r.cached THEN "CACHED"
  ELSE "DONE"

(* Execution._job_status2exec_status: no root job -> FAILED, DONE/CACHED -> DONE *)
ExecDisplay(hasjob, r) ==
  IF ~hasjob THEN "FAILED"
  ELSE IF Display(r) \in {"DONE", "CACHED"} THEN "DONE" ELSE Display(r)

(***************************************************************************)
(* SQL three-valued logic.                                                 *)
(***************************************************************************)
T3 == "T"
F3 == "F"
U3 == "U"
NULL == "<null>"
And3(a, b) == IF a = F3 \/ b = F3 THEN F3 ELSE IF a = U3 \/ b = U3 THEN U3 ELSE T3
Or3(a, b) == IF a = T3 \/ b = T3 THEN T3 ELSE IF a = U3 \/ b = U3 THEN U3 ELSE F3
IsNull3(x) == IF x = NULL THEN T3 ELSE F3
Eq3(x, c) == IF x = NULL THEN U3 ELSE IF x = c THEN T3 ELSE F3
Neq3(x, c) == IF x = NULL THEN U3 ELSE IF x = c THEN F3 ELSE T3
IsTrue3(b) == IF b THEN T3 ELSE F3          \* column IS TRUE on a non-null boolean column
IsFalse3(b) == IF b THEN F3 ELSE T3

ERR == "redun.ErrorValue"
(* the joined row  Job LEFT JOIN CallNode LEFT JOIN Value *)
Joined(r) == [end_time  |-> IF r.end THEN "t" ELSE NULL,
              call_hash |-> IF r.res = "none" THEN NULL ELSE "c",
              cached    |-> r.cached,
              vtype     |-> CASE r.res = "none" -> NULL [] r.res = "error" -> ERR [] OTHER -> "builtins.int"]

(* CallGraphQuery._job_status_term *)
Term(s, r) ==
  LET j == Joined(r) IN
  CASE s = "RUNNING" -> And3(IsNull3(j.end_time), IsNull3(j.call_hash))
    [] s = "CACHED"  -> IsTrue3(j.cached)
    [] s = "FAILED"  -> Eq3(j.vtype, ERR)
    [] s = "DONE"    -> And3(IsFalse3(j.cached), Neq3(j.vtype, ERR))

RECURSIVE OrAll(_, _)
OrAll(S, r) == IF S = {} THEN F3
               ELSE LET s == CHOOSE x \in S : TRUE IN Or3(Term(s, r), OrAll(S \ {s}, r))

(* filter_job_statuses(S): reduce(or_, terms); a row is returned iff the clause is TRUE *)
Selected(S, r) == OrAll(S, r) = T3
(* filter_execution_statuses(S): DONE also asks for CACHED root jobs; inner join with the root *)
ExecSelected(S, hasjob, r) ==
  hasjob /\ Selected(S \cup (IF "DONE" \in S THEN {"CACHED"} ELSE {}), r)

(***************************************************************************)
(* The law, per row and per non-empty status list.                         *)
(***************************************************************************)
NonEmpty(U) == SUBSET U \ {{}}
JobLawAt(r) == \A S \in NonEmpty(Statuses) : Selected(S, r) <=> Display(r) \in S
ExecLawAt(hasjob, r) ==
  \A S \in NonEmpty(ExecStatuses) : ExecSelected(S, hasjob, r) <=> ExecDisplay(hasjob, r) \in S

(***************************************************************************)
(* Which shapes are recorded.  One job row from creation to its end.       *)
(***************************************************************************)
Absent == [end |-> FALSE, cached |-> FALSE, res |-> "absent"]
DevOn == "CachedFlagOnFailedJob" \in Deviations

VARIABLES row,      \* the job row (Absent before record_job_start)
          isroot,   \* the job is the root job of its execution
          how       \* ghost: the action that ended the job
vars == <<row, isroot, how>>

Init == row = Absent /\ isroot \in BOOLEAN /\ how = "-"

(* record_job_start: start_time only; cached defaults to False; no call node yet.  A process that
   dies (or a workflow aborted by a failure elsewhere) leaves the row like this for ever. *)
RecordStart == /\ row = Absent
               /\ row' = Row(FALSE, FALSE, "none") /\ how' = "start" /\ UNCHANGED isroot

Running == row = Row(FALSE, FALSE, "none")

(* the job's task ran; done_job / reject_job record the call node and then the job end *)
EndExecuted(kind) == /\ Running /\ kind \in {"value", "error"}
                     /\ row' = Row(TRUE, FALSE, kind) /\ how' = "executed" /\ UNCHANGED isroot

(* the job's reduction came from the cache and everything below it succeeded *)
EndCacheHit == /\ Running
               /\ row' = Row(TRUE, TRUE, "value") /\ how' = "cache-hit" /\ UNCHANGED isroot

(* Job.collapse: the job was merged into a pending twin (siblings only), twin succeeded *)
EndCollapsedOk == /\ Running /\ ~isroot
                  /\ row' = Row(TRUE, TRUE, "value") /\ how' = "collapsed" /\ UNCHANGED isroot

(* the two ways to fail with was_cached = True; a repaired recorder (deviation off) would record
   these as an executed failure *)
FailedAfterCachedReduction ==      \* single reduction cached, the expression it returned fails
  /\ Running
  /\ row' = Row(TRUE, DevOn, "error") /\ how' = "cached-reduction-failed" /\ UNCHANGED isroot
FailedCollapsed ==                 \* collapsed into a twin that fails
  /\ Running /\ ~isroot
  /\ row' = Row(TRUE, DevOn, "error") /\ how' = "collapsed-failed" /\ UNCHANGED isroot

Next == \/ RecordStart
        \/ \E k \in {"value", "error"} : EndExecuted(k)
        \/ EndCacheHit \/ EndCollapsedOk
        \/ FailedAfterCachedReduction \/ FailedCollapsed

Spec == Init /\ [][Next]_vars

(* declarative form of the reachable shapes, used by the trace specification; ReachOK keeps it
   in step with the machine, the generator prints both so that the driver can compare them *)
DevShape == Row(TRUE, TRUE, "error")
RecordedShapes(root) ==
  {Row(FALSE, FALSE, "none"), Row(TRUE, FALSE, "value"), Row(TRUE, FALSE, "error"),
   Row(TRUE, TRUE, "value")} \cup (IF DevOn THEN {DevShape} ELSE {})

TypeOK == row = Absent \/ row \in JobRows
ReachOK == row # Absent => row \in RecordedShapes(isroot)
JobLaw == row # Absent => JobLawAt(row)
ExecLaw == (row # Absent /\ isroot) => ExecLawAt(TRUE, row)
(* the law fails nowhere but at the deviation shape *)
OnlyDevShapeFails == (row # Absent /\ ~JobLawAt(row)) => row = DevShape
=============================================================================
