------------------------------- MODULE Config -------------------------------
(***************************************************************************)
(* redun/config.py (C35): Config over ConfigParser with                    *)
(* RedunExtendedInterpolation, get_config_dict, read_dict, _parse_sections *)
(* and the config_dir replacement, transcribed over texts = sequences of   *)
(* unicode code points (TLC has no string theory).                         *)
(*                                                                         *)
(* A configuration is [defaults, sections]:                                *)
(*   defaults  option map of [DEFAULT]: sequence of <<key, rawvalue>>      *)
(*   sections  sequence (file order) of [name |-> text, opts |-> map]      *)
(* Env is the part of os.environ the model knows (the driver sets exactly  *)
(* these variables and checks no other option name is in the environment). *)
(* Missing == <<-1>>; results of interpolation are [ok, text].             *)
(*                                                                         *)
(* The two-level dictionary is a sequence of [name, opts] (opts a map of   *)
(* effective values), or ErrD when get_config_dict raises.  A config that  *)
(* cannot be constructed is ErrC.                                          *)
(*                                                                         *)
(* ToDict takes a flag: TRUE = the contract (a literal dollar is written   *)
(* back as $$, so read_dict sees the text it would have seen in the INI    *)
(* file), FALSE = the as-built code (deviation DollarNotReescaped).        *)
(***************************************************************************)
EXTENDS Naturals, Integers, Sequences, FiniteSets, TLC

\* the environment the driver establishes (TLC config files cannot express nested tuples, so
\* these are definitions): E=v and c=w are visible to interpolation; REDUN_CONFIG=/d is what
\* redun.cli.get_config_dir() returns; "." is the replace_config_dir argument used by subrun
Env == << << <<69>>, <<118>> >>, << <<99>>, <<119>> >> >>
LocalDir == <<47, 100>>
NewDir == <<46>>

DOLLAR == 36  LBRACE == 123  RBRACE == 125  COLON == 58  DOT == 46
Missing == <<-1>>
DefaultName == <<68, 69, 70, 65, 85, 76, 84>>      \* "DEFAULT"
MaxDepth == 10                                      \* configparser.MAX_INTERPOLATION_DEPTH

At(s, p) == IF p >= 1 /\ p <= Len(s) THEN s[p] ELSE -1
RECURSIVE Find(_, _, _)
Find(s, p, c) == IF p > Len(s) THEN 0 ELSE IF s[p] = c THEN p ELSE Find(s, p + 1, c)
HasDollar(s) == Find(s, 1, DOLLAR) # 0
From(s, p) == SubSeq(s, p, Len(s))

RECURSIVE Split(_, _)
Split(s, c) == LET p == Find(s, 1, c) IN
               IF p = 0 THEN <<s>> ELSE <<SubSeq(s, 1, p - 1)>> \o Split(From(s, p + 1), c)
RECURSIVE Join(_, _)
Join(parts, c) == IF Len(parts) = 1 THEN parts[1] ELSE parts[1] \o <<c>> \o Join(Tail(parts), c)

---------------------------------------------------------------------------
(* option maps *)
RECURSIVE Lookup(_, _)
Lookup(m, k) == IF m = <<>> THEN Missing ELSE IF m[1][1] = k THEN m[1][2] ELSE Lookup(Tail(m), k)
Keys(m) == [i \in 1..Len(m) |-> m[i][1]]
HasKey(m, k) == \E i \in 1..Len(m) : m[i][1] = k
\* a over b: a's entries first (a's value wins), then b's keys that a does not have
RECURSIVE Without(_, _)
Without(b, a) == IF b = <<>> THEN <<>>
                 ELSE IF HasKey(a, b[1][1]) THEN Without(Tail(b), a) ELSE <<b[1]>> \o Without(Tail(b), a)
Over(a, b) == a \o Without(b, a)

SectionIndex(cfg, name) ==
  LET I == {i \in 1..Len(cfg.sections) : cfg.sections[i].name = name} IN
  IF I = {} THEN 0 ELSE CHOOSE i \in I : TRUE
\* parser.items(sect, raw=True) / the chain map of parser.get: section over defaults.
\* A section that does not exist raises NoSectionError; [DEFAULT] itself is allowed.
SectionExists(cfg, name) == name = DefaultName \/ SectionIndex(cfg, name) # 0
Items(cfg, name) ==
  IF name = DefaultName THEN cfg.defaults
  ELSE LET i == SectionIndex(cfg, name) IN
       IF i = 0 THEN <<>> ELSE Over(cfg.sections[i].opts, cfg.defaults)
GetRaw(cfg, name, key) == IF SectionExists(cfg, name) THEN Lookup(Items(cfg, name), key) ELSE Missing

---------------------------------------------------------------------------
(* ExtendedInterpolation._interpolate_some, statement by statement *)
Ok(t) == [ok |-> TRUE, text |-> t]
Bad == [ok |-> FALSE, text |-> <<>>]
Cat(pre, r) == IF r.ok THEN Ok(pre \o r.text) ELSE Bad

RECURSIVE Interp(_, _, _, _, _)
Interp(cfg, sect, rest, map, depth) ==
  IF depth > MaxDepth THEN Bad                                   \* InterpolationDepthError
  ELSE LET p == Find(rest, 1, DOLLAR) IN
       IF p = 0 THEN Ok(rest)
       ELSE LET pre == SubSeq(rest, 1, p - 1)
                r == From(rest, p)
                c == At(r, 2)
            IN IF c = DOLLAR THEN Cat(pre \o <<DOLLAR>>, Interp(cfg, sect, From(r, 3), map, depth))
               ELSE IF c = LBRACE
               THEN LET close == Find(r, 3, RBRACE) IN              \* \$\{([^}]+)\}
                    IF close = 0 \/ close = 3 THEN Bad             \* bad variable reference
                    ELSE LET path == Split(SubSeq(r, 3, close - 1), COLON)
                             rest2 == From(r, close + 1)
                         IN IF Len(path) > 2 THEN Bad              \* more than one ':'
                            ELSE LET sect2 == IF Len(path) = 1 THEN sect ELSE path[1]
                                     v == IF Len(path) = 1 THEN Lookup(map, path[1])
                                          ELSE GetRaw(cfg, path[1], path[2])
                                 IN IF v = Missing THEN Bad       \* InterpolationMissingOptionError
                                    ELSE LET sub == IF HasDollar(v)
                                                    \* the nested map is the section's own items:
                                                    \* no environment below the first level
                                                    THEN Interp(cfg, sect2, v, Items(cfg, sect2), depth + 1)
                                                    ELSE Ok(v)
                                         IN IF ~sub.ok THEN Bad
                                            ELSE Cat(pre \o sub.text, Interp(cfg, sect, rest2, map, depth))
               ELSE Bad                                            \* '$' must be followed by '$' or '{'

\* RedunExtendedInterpolation.before_get: {**defaults, **os.environ}: the environment WINS over
\* the section's own options and over [DEFAULT] (the docstring says "fallback")
TopMap(cfg, name) == Over(Env, Items(cfg, name))
Effective(cfg, name, key) == Interp(cfg, name, GetRaw(cfg, name, key), TopMap(cfg, name), 1)

---------------------------------------------------------------------------
(* Config._parse_sections: dotted names into nested dicts.  Visible(names) is the set of section
   names reachable through Config.keys() / [] afterwards, ErrN when the walk raises:
     - an earlier section whose name is a proper dotted prefix of a later one is a SectionProxy
       where a dict is needed: TypeError;
     - a later section whose name is a proper prefix of earlier ones replaces their subtree. *)
ErrN == {<<-1>>}
Parts(name) == Split(name, DOT)
ProperPrefix(p, q) == Len(p) < Len(q) /\ SubSeq(q, 1, Len(p)) = p
RECURSIVE VisibleFrom(_, _, _)
VisibleFrom(names, i, vis) ==
  IF i > Len(names) THEN vis
  ELSE LET P == Parts(names[i]) IN
       IF \E q \in vis : ProperPrefix(Parts(q), P) THEN ErrN
       ELSE VisibleFrom(names, i + 1, {q \in vis : ~ProperPrefix(P, Parts(q))} \cup {names[i]})
Visible(cfg) == VisibleFrom([i \in 1..Len(cfg.sections) |-> cfg.sections[i].name], 1, {})
Constructible(cfg) == Visible(cfg) # ErrN

\* what a user of the Config object sees: for every visible section (file order) the keys in
\* SectionProxy iteration order with their effective value, Missing where reading it raises
OptKeys(cfg, name) == Keys(Items(cfg, name))
SectionView(cfg, name) ==
  [i \in 1..Len(OptKeys(cfg, name)) |->
     LET k == OptKeys(cfg, name)[i]
         e == Effective(cfg, name, k)
     IN <<k, IF e.ok THEN e.text ELSE Missing>>]
ViewSeq(cfg) == LET visible == Visible(cfg)
                    vis == SelectSeq(cfg.sections, LAMBDA sec : sec.name \in visible)
                IN [j \in 1..Len(vis) |-> [name |-> vis[j].name, opts |-> SectionView(cfg, vis[j].name)]]
\* the same as a set (order of sections and keys is immaterial to the property)
ViewSet(view) == {<<view[j].name, {<<view[j].opts[i][1], view[j].opts[i][2]>> : i \in 1..Len(view[j].opts)}>> :
                  j \in 1..Len(view)}
AllOK(view) == \A j \in 1..Len(view) : \A i \in 1..Len(view[j].opts) : view[j].opts[i][2] # Missing

---------------------------------------------------------------------------
(* get_config_dict *)
RECURSIVE ReplaceAll(_, _, _)
ReplaceAll(s, old, new) ==                                         \* str.replace, old non-empty
  IF Len(s) < Len(old) THEN s
  ELSE IF SubSeq(s, 1, Len(old)) = old THEN new \o ReplaceAll(From(s, Len(old) + 1), old, new)
  ELSE <<s[1]>> \o ReplaceAll(Tail(s), old, new)
Contains(s, old) == \E p \in 1..(Len(s) - Len(old) + 1) : SubSeq(s, p, p + Len(old) - 1) = old
RECURSIVE EscapeDollars(_)
EscapeDollars(s) == IF s = <<>> THEN <<>>
                    ELSE (IF s[1] = DOLLAR THEN <<DOLLAR, DOLLAR>> ELSE <<s[1]>>) \o EscapeDollars(Tail(s))

ErrD == <<[name |-> Missing, opts |-> <<>>]>>
DictValue(t, replace, fixed) ==
  LET t1 == IF replace THEN ReplaceAll(t, LocalDir, NewDir) ELSE t IN
  IF fixed THEN EscapeDollars(t1) ELSE t1                          \* as built: DollarNotReescaped
\* the dictionary from the view: every value is read (an Interpolation*Error escapes: ErrD),
\* optionally rewritten, and -- in the contract only -- its dollars are escaped again
DictOf(view, replace, fixed) ==
  IF ~AllOK(view) THEN ErrD
  ELSE [j \in 1..Len(view) |->
          [name |-> view[j].name,
           opts |-> [i \in 1..Len(view[j].opts) |->
                       <<view[j].opts[i][1], DictValue(view[j].opts[i][2], replace, fixed)>>]]]
ToDict(cfg, replace, fixed) == DictOf(ViewSeq(cfg), replace, fixed)

(* read_dict: every value goes through ExtendedInterpolation.before_set *)
RECURSIVE StripEscaped(_), StripRefs(_)
StripEscaped(s) == IF Len(s) < 2 THEN s                            \* value.replace('$$', '')
                   ELSE IF s[1] = DOLLAR /\ s[2] = DOLLAR THEN StripEscaped(From(s, 3))
                   ELSE <<s[1]>> \o StripEscaped(Tail(s))
StripRefs(s) ==                                                    \* _KEYCRE.sub('', value)
  IF s = <<>> THEN <<>>
  ELSE IF s[1] = DOLLAR /\ At(s, 2) = LBRACE /\ Find(s, 3, RBRACE) > 3
       THEN StripRefs(From(s, Find(s, 3, RBRACE) + 1))
       ELSE <<s[1]>> \o StripRefs(Tail(s))
SetOK(v) == ~HasDollar(StripRefs(StripEscaped(v)))                 \* else ValueError

ErrC == [defaults |-> <<>>, sections |-> <<[name |-> Missing, opts |-> <<>>]>>]
ReadDict(d) ==
  IF d = ErrD \/ \E j \in 1..Len(d) : \E i \in 1..Len(d[j].opts) : ~SetOK(d[j].opts[i][2]) THEN ErrC
  ELSE LET c == [defaults |-> <<>>, sections |-> d] IN IF Constructible(c) THEN c ELSE ErrC

---------------------------------------------------------------------------
(* The law (C35), over a configuration's view (computed once) *)
HasLiteralDollar(view) == \E j \in 1..Len(view) : \E i \in 1..Len(view[j].opts) :
                             view[j].opts[i][2] # Missing /\ HasDollar(view[j].opts[i][2])
\* to the dictionary and back: same sections, same nesting, same effective values
RoundTrip(view, fixed) == LET c2 == ReadDict(DictOf(view, FALSE, fixed)) IN
                          c2 # ErrC /\ LET v2 == ViewSeq(c2) IN AllOK(v2) /\ ViewSet(v2) = ViewSet(view)
\* replacing the config dir: same sections and keys; a value changes iff it contains LocalDir,
\* and then every occurrence is replaced
ReplaceLaw(d0, d1) ==
  /\ Len(d0) = Len(d1)
  /\ \A j \in 1..Len(d0) :
       /\ d0[j].name = d1[j].name /\ Keys(d0[j].opts) = Keys(d1[j].opts)
       /\ \A i \in 1..Len(d0[j].opts) :
            LET v == d0[j].opts[i][2]
                w == d1[j].opts[i][2]
            IN /\ (~Contains(v, LocalDir) => w = v)
               /\ (Contains(v, LocalDir) => w # v \/ LocalDir = NewDir)
               /\ (~Contains(NewDir, LocalDir) => ~Contains(w, LocalDir))
\* preconditions of the property: the configuration exists and all its values can be read
WellFormedV(cfg, view) == Constructible(cfg) /\ AllOK(view)
ContractOKV(cfg, view) == WellFormedV(cfg, view) => RoundTrip(view, TRUE)
\* the as-built code breaks the law exactly when some effective value contains a literal dollar
AsBuiltOKV(cfg, view) == WellFormedV(cfg, view) => (HasLiteralDollar(view) <=> ~RoundTrip(view, FALSE))
ReplaceOKV(cfg, view) == WellFormedV(cfg, view) =>
                           /\ ReplaceLaw(DictOf(view, FALSE, FALSE), DictOf(view, TRUE, FALSE))
                           /\ ReplaceLaw(DictOf(view, FALSE, TRUE), DictOf(view, TRUE, TRUE))
=============================================================================
