----------------------------- MODULE Script_Gen -----------------------------
(* Bounded universes for C29 (spec -> code).  Every case is one call of script(): it is chosen in
   two steps (block, then element, so that TLC's workers share the enumeration), run through the
   state machine of Script.tla with every law as an invariant, and emitted when done
   ("CASE <json>") with what the model expects of the real functions.

   Mode "cmd": every command text of 1..MaxLines lines over the line alphabet below, no staging.
   Mode "io" : a fixed one-line command with every input structure / every output structure
               of depth <= 2 over the staging leaves below. *)
EXTENDS Script, Json

CONSTANTS Mode,       \* "cmd" | "io" | "all"
          MaxLines,
          Rich,       \* TRUE: the larger alphabet / leaf set (thorough tier)
          DshLen      \* number of lines of the real DEFAULT_SHELL (the first one is a shebang)

DSH == [i \in 1..DshLen |-> Ln(0, IF i = 1 THEN "shebang" ELSE "other", 90 + i, 0, 0)]

TuplesUpTo(S, n) == UNION {[1..m -> S] : m \in 0..n}

(* line alphabet: every candidate the loop can reach with MaxLines lines, an indented and a
   trailing-blank look-alike of the prefix, shebang / ordinary lines at two margins, an ordinary
   line with expansion characters, empty and blank-only lines *)
Alphabet ==
  {EofLine(k) : k \in 0..(MaxLines - 1)}
  \cup {Ln(1, "eof", 0, 0, 0)}
  \cup {Ln(0, "shebang", 1, 0, 0), Ln(0, "other", 1, 0, 0), Ln(1, "other", 1, 0, 0), EmptyLine}
  \cup (IF Rich THEN {Ln(0, "eof", 0, 0, 1), Ln(1, "shebang", 1, 0, 0), Ln(0, "other", 2, 1, 0),
                      Ln(1, "blank", 0, 0, 0), Ln(2, "other", 1, 0, 0), Ln(0, "open", 0, 0, 0)}
        ELSE {})

(* staging leaves: remote inputs 1, 2 -> local 3, 4; local outputs 5, 6 -> remote 7, 8; 9 a plain
   output file *)
K1 == Leaf(Id(KPlain, 1, 1))
K2 == Leaf(Id(KPlain, 1, 2))
InLeaves == {Leaf(Id(KStage, 3, 1)), Leaf(Id(KStage, 4, 2)), Leaf(Id(KStage, 2, 2))}
            \cup (IF Rich THEN {Leaf(Id(KSDir, 4, 2))} ELSE {})
OutLeaves == {Leaf(Id(KStdout, 0, 0)), Leaf(Id(KStage, 5, 7)), Leaf(Id(KFile, 0, 9))}
             \cup (IF Rich THEN {Leaf(Id(KPlain, 0, 1)), Leaf(Id(KSDir, 6, 8))} ELSE {})
Containers(P) ==
  {ListV(s) : s \in TuplesUpTo(P, 2)}
  \cup {DictV(<<>>, <<>>)} \cup {DictV(<<K1>>, <<a>>) : a \in P} \cup {DictV(<<K1, K2>>, <<a, b>>) : a, b \in P}
Out1 == Containers(OutLeaves)
Ins == {ListV(s) : s \in TuplesUpTo(InLeaves \cup {ListV(t) : t \in TuplesUpTo(InLeaves, 2)}, 2)}
       \cup (IF Rich THEN {TupleV(s) : s \in TuplesUpTo(InLeaves, 2)} ELSE {})

OneLine == <<Ln(0, "other", 1, 0, 0)>>
Case(cmd, ins, outs, td) == [cmd |-> cmd, ins |-> ins, outs |-> outs, tempdir |-> td, dsh |-> DSH]
DefaultIns == ListV(<<Leaf(Id(KStage, 3, 1))>>)
DefaultOuts == DictV(<<K1>>, <<Leaf(Id(KStage, 5, 7))>>)
NullCase == Case(<<EmptyLine>>, ListV(<<>>), Leaf(Id(KStdout, 0, 0)), FALSE)

\* blocks: <<"c", first line>>; <<"i", Leaf(1)>> the input structures; <<"i", b>> the output b itself
\* (depth 0 / 1) and every depth-2 output whose first child is b
CmdBlocks == {<<"c", a>> : a \in Alphabet}
IoBlocks == {<<"i", b>> : b \in {Leaf(1)} \cup OutLeaves \cup Out1}
TupleBlocks == IF Rich THEN {<<"t", b>> : b \in OutLeaves \cup Out1} ELSE {}
Blocks == CASE Mode = "cmd" -> CmdBlocks [] Mode = "io" -> IoBlocks \cup TupleBlocks
            [] OTHER -> CmdBlocks \cup IoBlocks \cup TupleBlocks
BlockCases(bb) ==
  LET b == bb[2] IN
  IF bb[1] = "c"
  THEN {Case(<<b>> \o tl, ListV(<<>>), Leaf(Id(KStdout, 0, 0)), FALSE) : tl \in TuplesUpTo(Alphabet, MaxLines - 1)}
  ELSE IF bb[1] = "t"          \* tuples: of one or two leaves, and around / inside one other container
  THEN {Case(OneLine, DefaultIns, o, FALSE) :
          o \in {TupleV(<<b>> \o tl) : tl \in TuplesUpTo(OutLeaves, 1)} \cup {ListV(<<TupleV(<<b>>)>>)}}
  ELSE IF b = Leaf(1)
       THEN {Case(OneLine, i, DefaultOuts, FALSE) : i \in Ins}
            \cup {Case(OneLine, i, DefaultOuts, TRUE) : i \in IF Rich THEN Ins ELSE {DefaultIns}}
       ELSE {Case(OneLine, DefaultIns, b, FALSE)}
            \cup {Case(OneLine, DefaultIns, o, FALSE) :
                    o \in {ListV(<<b>> \o tl) : tl \in TuplesUpTo(OutLeaves \cup Out1, 1)}
                          \cup {DictV(<<K1>>, <<b>>)} \cup {DictV(<<K1, K2>>, <<b, c>>) : c \in OutLeaves \cup Out1}
                   }

VARIABLE blk
gvars == <<vars, blk>>
NoBlk == <<"-", Leaf(0)>>
GInit == /\ pc = "start" /\ blk = NoBlk /\ cas = NullCase /\ txt = <<>> /\ idx = 0
         /\ segs = <<>> /\ ip = 0 /\ world = World0(NullCase) /\ res = NoRes
\* choosing the case and preparing its command are one step (one state less per case)
GNext == \/ /\ pc = "start" /\ blk' \in Blocks /\ pc' = "start2"
            /\ UNCHANGED <<cas, txt, idx, segs, ip, world, res>>
         \/ /\ pc = "start2" /\ cas' \in BlockCases(blk)
            /\ txt' = Prepare(cas'.cmd, cas'.dsh) /\ idx' = 0 /\ pc' = "eof"
            /\ UNCHANGED <<blk, segs, ip, world, res>>
         \/ (Run /\ UNCHANGED blk)
GSpec == GInit /\ [][GNext]_gvars
GFair == GSpec /\ WF_gvars(GNext)

\* compact line code for the emitted cases: <<ind, tok code, n, sp, tr>>
TokCode(t) == CASE t = "eof" -> 1 [] t = "shebang" -> 2 [] t = "other" -> 3 [] t = "blank" -> 4
                [] t = "open" -> 5 [] OTHER -> 9
Enc(ls) == [i \in 1..Len(ls) |-> <<ls[i].ind, TokCode(ls[i].tok), ls[i].n, ls[i].sp, ls[i].tr>>]
Emit ==
  pc = "done" =>
    IF blk[1] = "c"
    THEN PrintT("CASE " \o ToJson([cmd |-> Enc(cas.cmd), txt |-> Enc(txt), eof |-> idx,
                                   raweof |-> GetEof(cas.cmd),
                                   strip |-> IF StripTouchesLine(cas.cmd) THEN 1 ELSE 0]))
    ELSE PrintT("IOCASE " \o ToJson([ins |-> cas.ins, outs |-> cas.outs, td |-> IF cas.tempdir THEN 1 ELSE 0,
                                   segs |-> segs, res |-> res]))
=============================================================================
