--------------------------- MODULE TaskRegistry_Gen ---------------------------
(* Behaviour generator for spec -> code replay: TaskRegistry plus a history variable.  Every state
   at depth MaxOps prints its path once ("BEH <json>": per call the operation and Obs).  GSpec is
   the exhaustive tree; RSpec takes one random call per step for -simulate (one trace = one
   behaviour). *)
EXTENDS TaskRegistry, Json
VARIABLE hist
GInit == Init /\ hist = <<>>
GNext == Next /\ hist' = Append(hist, [op |-> lastop', obs |-> Obs(r')])
GSpec == GInit /\ [][GNext]_<<vars, hist>>
RNext == /\ nops < MaxOps
         /\ \E op \in {RandomElement(Ops(r))} : r' = Apply(r, op) /\ lastop' = op
         /\ nops' = nops + 1
         /\ hist' = Append(hist, [op |-> lastop', obs |-> Obs(r')])
RSpec == GInit /\ [][RNext]_<<vars, hist>>
Emit == (nops = MaxOps) => PrintT("BEH " \o ToJson(hist))
=============================================================================
