--------------------------- MODULE FileValues_Gen ---------------------------
(* Behaviour generator for spec -> code replay: FileValues plus a history variable, so the state
   graph is the tree of operation sequences; every state at depth MaxOps prints its path once
   ("BEH <json>").  Used exhaustively for small bounds and with -simulate for long random
   behaviours.  Each step carries the operation, the model's observation after it and, for runs,
   the set of outcomes the model admits (alt).
     GSpecOps       C30 operations; the first operation creates an object (an environment change
                    before any object exists is the same behaviour with the change moved later)
     GSpecRuns      C04 histories; the first operation is a run
     GSpecRunsTree  ... and so is the last (a trailing environment change is not observable) *)
EXTENDS FileValues, Json
VARIABLE hist
gvars == <<vars, hist>>
Rec == hist' = Append(hist, [op |-> lastop', obs |-> Obs(s'),
                             alt |-> IF lastop'.n = "run" THEN RunOutcomes(s) ELSE {}])
GSpecOps == (InitOps /\ hist = <<>>)
            /\ [][NextOps /\ Rec /\ (nops = 0 => lastop'.n = "new")]_gvars
GSpecRuns == (InitRuns /\ hist = <<>>)
             /\ [][NextRuns /\ Rec /\ (nops = 0 => lastop'.n = "run")]_gvars
GSpecRunsTree == (InitRuns /\ hist = <<>>)
                 /\ [][NextRuns /\ Rec /\ ((nops = 0 \/ nops = MaxOps - 1) => lastop'.n = "run")]_gvars
\* optional state constraint for the exhaustive trees: all objects of one family
SameFamily == \A k \in 1..Len(s.objs) : Family(s.objs[k].cls) = Family(s.objs[1].cls)
Emit == (nops = MaxOps) => PrintT("BEH " \o ToJson([wf |-> s.wf, steps |-> hist]))
=============================================================================
