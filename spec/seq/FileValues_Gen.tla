--------------------------- MODULE FileValues_Gen ---------------------------
(* Behaviour generator for spec -> code replay: FileValues plus a history variable, so the state
   graph is the tree of operation sequences; every state at depth MaxOps prints its path once
   ("BEH <json>").  Used exhaustively for small bounds and with -simulate for long random
   behaviours.  Each step carries the operation, the model's observation after it and, for runs,
   the set of outcomes the model admits (alt).
     GSpecOps       C30 operations; the first operation creates an object (an environment change
                    before any object exists is the same behaviour with the change moved later)
     GSpecRuns      C04 histories; the first operation is a run
     GSpecRunsTree  ... and so is the last (a trailing environment change is not observable) *)
EXTENDS FileValues, Json
VARIABLE hist
gvars == <<vars, hist>>
\* the history holds the operations only (cheap successor states); the observations are
\* recomputed from the initial store when a behaviour is printed
Rec == hist' = Append(hist, lastop')
RECURSIVE Steps(_, _, _)
Steps(S, ops, i) ==
  IF i > Len(ops) THEN <<>>
  ELSE LET S2 == Apply(S, ops[i]) IN
       <<[op |-> ops[i], obs |-> Obs(S2), alt |-> IF ops[i].n = "run" THEN RunOutcomes(S) ELSE {}]>>
       \o Steps(S2, ops, i + 1)
Beh == [wf |-> s.wf, steps |-> Steps(Store(s.wf), hist, 1)]
GSpecOps == (InitOps /\ hist = <<>>)
            /\ [][NextOps /\ Rec /\ (nops = 0 => lastop'.n = "new")]_gvars
GSpecRuns == (InitRuns /\ hist = <<>>)
             /\ [][NextRuns /\ Rec /\ (nops = 0 => lastop'.n = "run")]_gvars
GSpecRunsTree == (InitRuns /\ hist = <<>>)
                 /\ [][NextRuns /\ Rec /\ ((nops = 0 \/ nops = MaxOps - 1) => lastop'.n = "run")]_gvars
\* optional state constraint for the exhaustive trees: all objects of one family
SameFamily == \A k \in 1..Len(s.objs) : Family(s.objs[k].cls) = Family(s.objs[1].cls)
Emit == (nops = MaxOps) => PrintT("BEH " \o ToJson(Beh))
\* -simulate evaluates the invariants on every successor it generates, so at the last level every
\* sibling of the chosen state would be printed; print the one reached by a designated closing
\* operation instead (always enabled: update_hash of the first object, resp. a run at time 1)
Closing == \/ lastop.n = "update" /\ lastop.i = 1
           \/ lastop.n = "run" /\ lastop.m = 1
EmitSim == (nops = MaxOps /\ Closing) => PrintT("BEH " \o ToJson(Beh))
=============================================================================
