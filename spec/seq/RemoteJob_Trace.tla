-------------------------- MODULE RemoteJob_Trace --------------------------
(* Code -> spec for C32: executions of the real scratch-file protocol are validated against
   RemoteJob.tla.  A trace is [c, ev]: the case (number of jobs, array or single, what each
   argument set makes the task do, stale files, --no-cache) and the events the harness performed on
   the real code, each with what it observed afterwards:
       a    <<"submit", 0>> | <<"work", i>> | <<"parse", i>>
       obs  per job <<output file exists, error file exists>>
       out  for a parse: <<status, j, generic>> -- status "ok" / "err" / "missing"; j the job whose
            LOCAL result / exception the parsed value equals (0: none); generic = 1 iff the parsed
            exception is the generic replacement of one that does not pickle
   The model takes the logged action; the step is accepted iff the model's observation (and, for
   a parse, outcome) equals the logged one.  OutcomeOK, OneOutcomeFile and the isolation property
   are checked on every state of every accepted prefix.  One line per trace:
   VERDICT <<tid, accepted, first unmatched event>>. *)
EXTENDS RemoteJob, Json, IOUtils
Traces == JsonDeserialize(IOEnv.TRACE_FILE)
VARIABLES tid, l
tvars == <<vars, tid, l>>
Cur == Traces[tid]
CaseOf(t) == [n |-> t.c.n, array |-> t.c.array = 1, beh |-> t.c.beh, stale |-> t.c.stale, nocache |-> t.c.nocache = 1]
Load(t) == LET c == CaseOf(t) IN
           /\ cas' = c /\ fs' = StaleFs(c) /\ phase' = "init" /\ ran' = [i \in 1..c.n |-> 0]
           /\ parsed' = [i \in 1..c.n |-> <<>>] /\ act' = <<"case", 0>>
TInit == LET c == CaseOf(Traces[1]) IN
         /\ tid = 1 /\ l = 1
         /\ cas = c /\ fs = StaleFs(c) /\ phase = "init" /\ ran = [i \in 1..c.n |-> 0]
         /\ parsed = [i \in 1..c.n |-> <<>>] /\ act = <<"case", 0>>
\* the model's next state for the logged action (no MaxRuns bound here: the log decides)
Enabled(e) == CASE e.a[1] = "submit" -> phase = "init"
                [] e.a[1] = "work" -> phase = "run" /\ e.a[2] \in 1..cas.n /\ parsed[e.a[2]] = <<>>
                [] e.a[1] = "parse" -> phase = "run" /\ e.a[2] \in 1..cas.n /\ ran[e.a[2]] >= 1 /\ parsed[e.a[2]] = <<>>
                [] OTHER -> FALSE
FsAfter(e) == CASE e.a[1] = "submit" -> DoSubmit(cas, fs) [] e.a[1] = "work" -> DoWork(cas, fs, e.a[2]) [] OTHER -> fs
StepOK == /\ l <= Len(Cur.ev)
          /\ LET e == Cur.ev[l] IN
             /\ Enabled(e)
             /\ ToJson(Obs(FsAfter(e), cas.n)) = ToJson(e.obs)
             \* (a code base that repairs DevUnreadableError must not be rejected: for such an element the
             \* repaired outcome is accepted as well)
             /\ e.a[1] = "parse" => \/ ToJson(DoParse(fs, e.a[2])) = ToJson(e.out)
                                    \/ /\ DevUnreadableError(cas, e.a[2])
                                       /\ ToJson(Local(cas, e.a[2])) = ToJson(e.out)
TStep == /\ StepOK
         /\ LET e == Cur.ev[l] IN
            /\ fs' = FsAfter(e)
            /\ phase' = IF e.a[1] = "submit" THEN "run" ELSE phase
            /\ ran' = IF e.a[1] = "work" THEN [ran EXCEPT ![e.a[2]] = @ + 1] ELSE ran
            /\ parsed' = IF e.a[1] = "parse" THEN [parsed EXCEPT ![e.a[2]] = <<e.out[1], e.out[2], e.out[3]>>] ELSE parsed
            /\ act' = <<e.a[1], e.a[2]>>
         /\ l' = l + 1 /\ UNCHANGED <<cas, tid>>
TNextTrace == /\ ~StepOK
              /\ PrintT("VERDICT " \o ToJson(<<tid, IF l > Len(Cur.ev) THEN 1 ELSE 0, l>>))
              /\ tid < Len(Traces)
              /\ tid' = tid + 1 /\ l' = 1 /\ Load(Traces[tid + 1])
TNext == TStep \/ TNextTrace
TSpec == TInit /\ [][TNext]_tvars
TIsolation ==
  [][(tid' = tid /\ act'[1] = "work") =>
       \A f \in DOMAIN fs : fs'[f] # fs[f] => f \in {<<"out", act'[2]>>, <<"err", act'[2]>>}]_tvars
=============================================================================
