----------------------------- MODULE Promise_Gen -----------------------------
(* Behaviour generator for spec -> code replay: Promise plus a history variable.  With `hist` in
   the state the state graph is the tree of all API-call sequences; every state at depth MaxOps
   prints its path once ("BEH <json>").  Used exhaustively for small MaxOps and with -simulate
   for long random behaviours. *)
EXTENDS Promise, Json
VARIABLE hist
GInit == Init /\ hist = <<>>
GNext == Next /\ hist' = Append(hist, [op |-> lastop', obs |-> Obs(s')])
GSpec == GInit /\ [][GNext]_<<vars, hist>>
Emit == (nops = MaxOps) => PrintT("BEH " \o ToJson(hist))
=============================================================================
