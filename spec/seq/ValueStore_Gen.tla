--------------------------- MODULE ValueStore_Gen ---------------------------
(* Behaviour generator for spec -> code replay: ValueStore plus a history variable (the state graph
   becomes the tree of all operation sequences).  Per step the history holds the operation, the
   result of the as-built machine, what Get returns for every value in the as-built machine (g) and
   in the repaired one (gf), and where the bytes are (loc: row state / store object / cache file).
   The path is printed by a final step of its own, once per behaviour (exhaustive and -simulate:
   an invariant would be evaluated on every candidate successor). *)
EXTENDS ValueStore, Json
VARIABLES hist, emitted, min0
gvars == <<vars, hist, emitted, min0>>
Gets(S) == {<<v, Get(S, Key(v))>> : v \in Vals}
Loc(S) == {<<v, S.row[Key(v)].st, IF S.store[Key(v)] = <<>> THEN 0 ELSE 1,
             IF S.fcf[v] = <<>> THEN 0 ELSE 1>> : v \in Vals}
GInit == Init /\ hist = <<>> /\ emitted = FALSE /\ min0 = s.min
GStep == /\ Next
         /\ hist' = Append(hist, [op |-> lastop', res |-> lastres', g |-> Gets(s'),
                                  gf |-> Gets(sfix'), loc |-> Loc(s'), fired |-> fired'])
         /\ UNCHANGED <<emitted, min0>>
GEmit == /\ nops = MaxOps /\ ~emitted
         /\ PrintT("BEH " \o ToJson([min0 |-> min0, steps |-> hist]))
         /\ emitted' = TRUE /\ UNCHANGED <<vars, hist, min0>>
GSpec == GInit /\ [][GStep \/ GEmit]_gvars
=============================================================================
