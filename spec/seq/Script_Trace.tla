---------------------------- MODULE Script_Trace ----------------------------
(* Code -> spec for C29: what the real functions returned is validated by TLC against Script.tla.
   A case is recorded by the harness from redun.scripting and abstracted line by line (one and the
   same syntactic abstraction for the command, the prepared text and the wrapper; it knows
   nothing about the generator):

     kind = "cmd":  cmd   the generated command text
                    dsh   DEFAULT_SHELL
                    prep  what prepare_command(cmd) returned
                    eof   the candidate index get_command_eof(prep) returned (-1: not of the
                          form prefix / prefix ++ canonical decimal)
                    wrap  what get_wrapped_command(prep) returned
                    reof, rwrap   the same two for the unprepared text
     kind = "io":   ins, outs   the structures handed to script()
                    td          tempdir flag
                    segs        the parts of the command text script() assembled, in order
                    res         what postprocess_script returned for the (pre-processed) outputs

   One state per case (blocks of 64); one line per case:
     VERDICT   <<i, prepOK, termOK, bodyOK, rawOK, outerOK, leastOK>>
     IOVERDICT <<i, orderOK, runOK, shapeOK, asbuiltOK>>
   prepOK  prep is the dedented, stripped text under the default shell unless it starts with #!
   termOK  the terminator is no line of prep          bodyOK  the shell reads prep out of wrap
   rawOK   both for the unprepared text               outerOK the executor's second preparation
                                                              leaves the here-document alone
   leastOK (as built, not part of the property) the least free candidate was chosen
   orderOK every stage part before, every unstage part after the one wrapper, each needed copy
           present; runOK executing the parts in order satisfies the staging law; shapeOK the
           result is the shape map of the outputs; asbuiltOK (not part of the property) the
           parts are in iter_nested_value order *)
EXTENDS Script, Json, IOUtils
Cases == JsonDeserialize(IOEnv.TRACE_FILE)
NCases == Len(Cases)
BlockSize == 64
VARIABLES blk, i
tvars == <<blk, i, vars>>
\* the variables of the step-by-step machine are not used here (the laws are evaluated as operators)
Idle == /\ cas = 0 /\ pc = "trace" /\ txt = <<>> /\ idx = 0 /\ segs = <<>> /\ ip = 0 /\ world = 0 /\ res = 0
TInit == blk = 0 /\ i = 0 /\ Idle
TNext == /\ UNCHANGED vars
         /\ \/ blk = 0 /\ blk' \in 1..((NCases + BlockSize - 1) \div BlockSize) /\ i' = 0
            \/ blk > 0 /\ i = 0 /\ blk' = blk
               /\ i' \in {j \in ((blk - 1) * BlockSize + 1)..(blk * BlockSize) : j <= NCases}
TSpec == TInit /\ [][TNext]_tvars
B(b) == IF b THEN 1 ELSE 0

CmdVerdict(c) ==
  LET b == Strip(Dedent(c.cmd))
      want == IF b[1].tok = "shebang" THEN b ELSE c.dsh \o b
      prepOK == c.prep = want
      termOK == c.eof >= 0 /\ LawTerminator(c.prep, c.eof)
      bodyOK == LawHeredoc(c.prep, c.wrap) /\ ShellRead(c.wrap).delim = c.eof
      rawOK == /\ c.reof >= 0 /\ LawTerminator(c.cmd, c.reof)
               /\ LawHeredoc(c.cmd, c.rwrap) /\ ShellRead(c.rwrap).delim = c.reof
      outerOK == LawHeredoc(c.prep, Prepare(c.wrap, c.dsh))
      leastOK == c.eof >= 0 /\ LawLeast(c.prep, c.eof)
  IN <<B(prepOK), B(termOK), B(bodyOK), B(rawOK), B(outerOK), B(leastOK)>>

IoVerdict(c) ==
  LET cc == [cmd |-> <<EmptyLine>>, ins |-> c.ins, outs |-> c.outs, tempdir |-> c.td = 1, dsh |-> <<>>]
      w == Wrap(<<EmptyLine>>, 0)
      orderOK == SegContract(cc, c.segs)
      runOK == LET end == RunSegs(cc, w, World0(cc), c.segs) IN LawStaging(cc, end)
      shapeOK == ToJson(c.res) = ToJson(ShapeMap(c.outs))
      asbuiltOK == c.segs = Assemble(cc)
  IN <<B(orderOK), B(runOK), B(shapeOK), B(asbuiltOK)>>

Verdict ==
  i > 0 =>
    LET c == Cases[i] IN
    IF c.kind = "cmd" THEN PrintT("VERDICT " \o ToJson(<<i>> \o CmdVerdict(c)))
    ELSE PrintT("IOVERDICT " \o ToJson(<<i>> \o IoVerdict(c)))
=============================================================================
