------------------------------ MODULE HandlesWf ------------------------------
(***************************************************************************)
(* C25, second sentence, at workflow level: a chain of handle-writing      *)
(* tasks executed repeatedly by the scheduler while task bodies are edited *)
(* and reverted between executions.                                        *)
(*                                                                         *)
(*   wf():  c = H(name); c = stage_1(c); ...; c = stage_N(c); return c     *)
(*   kind "plain":  stage_i(c) writes through c and returns it             *)
(*   kind "ufork":  stage_i(c) = return inner_i(c.fork("a"))  (an explicit *)
(*                  user fork handed to the task that writes)              *)
(* A run has a version vector (which body each writing task has) and may   *)
(* FAIL at one stage: the writing task of that stage performs its side     *)
(* effect and then raises, the run ends in an error there.  Nothing is     *)
(* stored for a failed job -- but the rollback of the state it started     *)
(* from has happened, because _perform_rollbacks runs after the cache miss *)
(* and BEFORE the job is handed to an executor: the external system is now *)
(* in a partial state, so everything derived from the start state is       *)
(* invalid and the stage must execute again after a revert.  The what-if   *)
(* deviation NoRollbackOnFailure (not a deviation of the code as built)    *)
(* rolls back only when the job succeeds: TLC shows that an invalidated     *)
(* result is then replayed, and the generator uses it to pick the          *)
(* histories that tell the two apart.                                      *)
(*                                                                         *)
(* What the scheduler does per job (redun/scheduler.py                     *)
(* _exec_job_main_thread, _get_cache, _done_job_main_thread):              *)
(*   P = fork(arg, call order)             _preprocess_args -> advance     *)
(*   result O = call(P, eval hash)         known from the Evaluation table *)
(*   if O is stored and is_valid_handle(O): replay, nothing executes       *)
(*   else rollback(P); execute; advance([P], O); store                     *)
(* and for the wrapper (its stored result is the expression inner(x),      *)
(* x = fork(P,"a"), valid iff x is valid): on a hit x comes back unpickled *)
(* (recorded, no fork_parent), on a miss the body runs and x is a fresh    *)
(* fork object.                                                            *)
(*                                                                         *)
(* Two systems run side by side on the same version history: A = the code  *)
(* as built (deviations Dev), F = the repaired code (no deviation); each   *)
(* makes its own replay decisions from its own flags.  The reference       *)
(* lineage model follows each system's operations.                         *)
(***************************************************************************)
EXTENDS Handles

CONSTANTS NStages, MaxRuns, StageKinds, Versions,
          FailAt     \* stages at which a run may fail; 0 = the run succeeds
KindChoices == [1..NStages -> StageKinds]

WfName == CHOOSE n \in Names : TRUE
Lab(i, ver) == "t" \o ToString(i) \o "v" \o ToString(ver)

Sys0 == [m |-> M0, r |-> R0, fired |-> {}, done |-> {}, wdone |-> {}]

AdvS(D, S, ps, c, fresh) ==
  [S EXCEPT !.m = Adv(D, S.m, ps, c, fresh), !.r = RefAdv(S.r, ps, c, fresh),
            !.fired = @ \cup FiresD(D, S.m, Op("adv", ps, c, fresh))]
RbS(D, S, h) ==
  [S EXCEPT !.m = Rb(D, S.m, h), !.r = RefRb(S.r, h),
            !.fired = @ \cup FiresD(D, S.m, Op("rb", {}, h, {}))]

(* TLC evaluates LET definitions and operator arguments lazily and may evaluate them again at every
   use, which is exponential for a computation threaded through a dozen steps.  Every intermediate
   system state is therefore bound by a quantifier over a singleton set (x \in {e} is evaluated
   once), and the operators below return singleton sets that are chained with UNION. *)

\* the job that writes: input state P (already forked), label of its evaluation, does it fail
\* result: [S, out, ex (did it execute), bad (replayed although the reference says invalid), failed]
WriterS(D, S, P, lab, fails) ==
  LET O == Call(P, lab)
  IN IF ~fails /\ O \in S.done /\ O \in S.m.valid
     THEN {[S |-> S, out |-> O, ex |-> FALSE, bad |-> O \notin S.r.valid, failed |-> FALSE]}
     ELSE IF fails
     THEN \* cache miss (errors are never served from the backend cache), rollback, execute, raise
          {[S |-> S2, out |-> O, ex |-> TRUE, bad |-> FALSE, failed |-> TRUE] :
             S2 \in {IF "NoRollbackOnFailure" \in D THEN [S EXCEPT !.r = RefRb(S.r, P)] ELSE RbS(D, S, P)}}
     ELSE {[S |-> [S3 EXCEPT !.done = @ \cup {O}], out |-> O, ex |-> TRUE, bad |-> FALSE, failed |-> FALSE] :
             S3 \in UNION {{AdvS(D, S2, {P}, O, {})} : S2 \in {RbS(D, S, P)}}}

UForkS(D, S1, P, lab, fails) ==
  LET x == Fork(P, "a")
      X2 == Fork(x, "a")
      whit == P \in S1.wdone /\ x \in S1.m.valid
      wbad == whit /\ x \notin S1.r.valid
  IN UNION {UNION {{[w EXCEPT !.bad = @ \/ wbad] : w \in WriterS(D, S3, X2, lab, fails)} :
                     S3 \in {AdvS(D, S2, {x}, X2, IF whit THEN {} ELSE {x})}} :
              S2 \in {IF whit THEN S1 ELSE [RbS(D, S1, P) EXCEPT !.wdone = @ \cup {P}]}}

StageS(D, S, kind, i, s, ver, fails) ==
  LET P == Fork(s, "1")
      lab == IF fails THEN Lab(i, 0) ELSE Lab(i, ver)
  IN UNION {IF kind = "plain" THEN WriterS(D, S1, P, lab, fails) ELSE UForkS(D, S1, P, lab, fails) :
              S1 \in {AdvS(D, S, {s}, P, {})}}

\* the chain is evaluated lazily from the first stage on: nothing after a failed stage is started
RECURSIVE StagesS(_, _, _, _, _, _, _, _, _)
StagesS(D, S, kinds, vers, f, i, s, ex, bad) ==
  IF i > NStages THEN {[S |-> S, ex |-> ex, bad |-> bad]}
  ELSE UNION {IF st.failed
              THEN {[S |-> st.S, ex |-> ex \cup {i}, bad |-> IF st.bad THEN bad \cup {i} ELSE bad]}
              ELSE StagesS(D, st.S, kinds, vers, f, i + 1, st.out,
                           IF st.ex THEN ex \cup {i} ELSE ex, IF st.bad THEN bad \cup {i} ELSE bad) :
                st \in StageS(D, S, kinds[i], i, s, vers[i], i = f)}
RunWf(D, S, kinds, vers, f) == CHOOSE x \in StagesS(D, S, kinds, vers, f, 1, Root(WfName), {}, {}) : TRUE

VARIABLES sysA, sysF,   \* the two systems
          kinds,        \* kind of every stage (fixed per behaviour)
          prev,         \* version vector of the previous run (<<>> before the first)
          lastfail,     \* stage at which the previous run failed (0: it succeeded)
          est,          \* versions of the stages whose effect is established: the previous run's
                        \* vector up to (excluding) the stage at which it failed
          lastA, lastF, \* [ex, bad] of the last run in each system
          nruns
wvars == <<sysA, sysF, kinds, prev, lastfail, est, lastA, lastF, nruns>>
NoRun == [ex |-> {}, bad |-> {}]
MinVer == CHOOSE v \in Versions : \A w \in Versions : v <= w

WInit == /\ sysA = Sys0 /\ sysF = Sys0 /\ kinds \in KindChoices /\ prev = <<>> /\ lastfail = 0 /\ est = <<>>
         /\ lastA = NoRun /\ lastF = NoRun /\ nruns = 0
WRun(vers, f) == \E a \in {RunWf(Dev, sysA, kinds, vers, f)}, g \in {RunWf({}, sysF, kinds, vers, f)} :
                 /\ sysA' = a.S /\ sysF' = g.S
                 /\ lastA' = [ex |-> a.ex, bad |-> a.bad] /\ lastF' = [ex |-> g.ex, bad |-> g.bad]
                 /\ prev' = vers /\ lastfail' = f
                 /\ est' = IF f = 0 THEN vers ELSE SubSeq(vers, 1, f - 1)
                 /\ nruns' = nruns + 1 /\ UNCHANGED kinds
\* the versions behind a failing stage do not matter (never started): one representative
WNext == /\ nruns < MaxRuns
         /\ \E f \in FailAt \cap (0..NStages) : \E vers \in [1..NStages -> Versions] :
               /\ f > 0 => \A j \in f..NStages : vers[j] = MinVer
               /\ WRun(vers, f)
\* the variables of Handles are not used at this level
WSpec == /\ WInit /\ m = M0 /\ mfix = M0 /\ r = R0 /\ fired = {} /\ stale = FALSE /\ nops = 0 /\ lastop = NoOp
         /\ [][WNext /\ UNCHANGED vars]_<<wvars, vars>>

(***************************************************************************)
(* Properties                                                              *)
(***************************************************************************)
\* repaired code: flags = reference, and a stored result holding an invalidated state is never replayed
AgreeF == sysF.m.rows = sysF.r.known /\ sysF.m.valid = sysF.r.valid /\ sysF.fired = {}
NeverReplayInvalidF == lastF.bad = {}
\* the code as built keeps both until a deviation fires
NeverReplayInvalidA == lastA.bad = {}
AsBuiltUnlessFired == sysA.fired # {} \/
                      (/\ sysA.m.valid = sysA.r.valid /\ lastA.bad = {} /\ lastA.ex = lastF.ex)
\* documented semantics ("no fast revert", docs/source/values.md): stage i is replayed exactly when
\* nothing at or before i differs from what the immediately preceding run established; a run executes
\* nothing behind the stage it fails at, and the failing stage itself always
Expected(vers, f) == {i \in 1..(IF f = 0 THEN NStages ELSE f) :
                        i = f \/ i > Len(est) \/ \E j \in 1..i : vers[j] # est[j]}
NoFastRevertF == [][lastF'.ex = Expected(prev', lastfail')]_<<wvars, vars>>
\* which deviations these workflows can reach
OnlyForkEdge == sysA.fired \subseteq {"ForkEdgeUnrecorded"}
WView == <<sysA, sysF, kinds, prev, lastfail, est, lastA, lastF, nruns>>
=============================================================================
