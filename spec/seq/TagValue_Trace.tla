--------------------------- MODULE TagValue_Trace ---------------------------
(* Code -> spec for C34: triples recorded from redun.tags are validated by TLC.  A case is
   [x, fmt, back]: the value (tagged JSON), the text format_tag_value returned (<<-1>> if it raised)
   and what parse_tag_value returned for that text (k = "err" if it raised / nothing to parse).
   One state per case (blocks of 64 to spread the cases over the workers); one line
   "VERDICT [i, fmtOK, parseOK, lawOK, dev]" per case:
     fmtOK    the recorded text is what the as-built model or the contract produces (conformance)
     parseOK  the recorded parse result is what the model's parser gives for the recorded text
     lawOK    the property itself on the recorded data: no raise, parsed value = original value
     dev      0 / 1 (FormatRaisesOnBrokenJson) / 2 (JsonStringShownBare): the model's explanation *)
EXTENDS TagValue, Json, IOUtils
Cases == JsonDeserialize(IOEnv.TRACE_FILE)
N == Len(Cases)
BlockSize == 64
VARIABLES blk, i
vars == <<blk, i>>
Init == blk = 0 /\ i = 0
Next == \/ blk = 0 /\ blk' \in 1..((N + BlockSize - 1) \div BlockSize) /\ i' = 0
        \/ blk > 0 /\ i = 0 /\ blk' = blk
           /\ i' \in {j \in ((blk - 1) * BlockSize + 1)..(blk * BlockSize) : j <= N}
Spec == Init /\ [][Next]_vars
B(b) == IF b THEN 1 ELSE 0
Verdict ==
  i > 0 =>
    LET c == Cases[i]
        fmtOK == Format(c.x, FALSE) = c.fmt \/ Format(c.x, TRUE) = c.fmt
        parseOK == IF c.fmt = ErrT THEN c.back = ErrV
                   ELSE ToJson(Plain(Parse(c.fmt))) = ToJson(Plain(c.back))
        lawOK == c.fmt # ErrT /\ c.back.k # "err" /\ ToJson(Plain(c.back)) = ToJson(Plain(c.x))
        dev == IF DevRaises(c.x) THEN 1 ELSE IF DevBare(c.x) THEN 2 ELSE 0
    IN PrintT("VERDICT " \o ToJson(<<i, B(fmtOK), B(parseOK), B(lawOK), dev>>))
=============================================================================
