---------------------------- MODULE HandlesWf_Gen ----------------------------
(* Workflow histories for the real scheduler: kinds, per run the version vector and the stages each
   system executes (A as built, F repaired) and the stages A replays against the reference. *)
EXTENDS HandlesWf, Json
VARIABLES whist, wemitted
WGInit == WInit /\ whist = <<>> /\ wemitted = FALSE
WGStep == /\ WNext
          /\ whist' = Append(whist, [vers |-> prev', exA |-> lastA'.ex, exF |-> lastF'.ex,
                                     badA |-> lastA'.bad, fired |-> sysA'.fired])
          /\ UNCHANGED wemitted
WGEmit == /\ nruns = MaxRuns /\ ~wemitted
          /\ PrintT("WBEH " \o ToJson([kinds |-> kinds, runs |-> whist]))
          /\ wemitted' = TRUE /\ UNCHANGED <<wvars, whist>>
WGSpec == /\ WGInit /\ m = M0 /\ mfix = M0 /\ r = R0 /\ fired = {} /\ stale = FALSE /\ nops = 0 /\ lastop = NoOp
          /\ [][(WGStep \/ WGEmit) /\ UNCHANGED vars]_<<wvars, vars, whist, wemitted>>
=============================================================================
