---------------------------- MODULE HandlesWf_Gen ----------------------------
(* Workflow histories for the real scheduler: kinds, per run the version vector and the stages each
   system executes (A as built, F repaired) and the stages A replays against the reference. *)
EXTENDS HandlesWf, Json
VARIABLE whist
WGInit == WInit /\ whist = <<>>
WGNext == /\ WNext
          /\ whist' = Append(whist, [vers |-> prev', exA |-> lastA'.ex, exF |-> lastF'.ex,
                                     badA |-> lastA'.bad, fired |-> sysA'.fired])
WGSpec == /\ WGInit /\ m = M0 /\ r = R0 /\ fired = {} /\ stale = FALSE /\ nops = 0 /\ lastop = NoOp
          /\ [][WGNext /\ UNCHANGED vars]_<<wvars, vars, whist>>
WEmit == (nruns = MaxRuns) => PrintT("WBEH " \o ToJson([kinds |-> kinds, runs |-> whist]))
=============================================================================
