---------------------------- MODULE HandlesWf_Gen ----------------------------
(* Workflow histories for the real scheduler: kinds, per run the version vector, the stage at which
   the run fails (0 = none) and the stages each system executes (A as built, F repaired, W the
   what-if system that rolls back only when a job succeeds) and the stages A replays against the
   reference.  Histories with exW # exF are the ones that show that the rollback precedes execution. *)
EXTENDS HandlesWf, Json
VARIABLES whist, wemitted, sysW, lastW
WGInit == WInit /\ whist = <<>> /\ wemitted = FALSE /\ sysW = Sys0 /\ lastW = {}
WGStep == /\ WNext
          /\ \E w \in {RunWf({"NoRollbackOnFailure"}, sysW, kinds, prev', lastfail')} :
                sysW' = w.S /\ lastW' = w.ex
          /\ whist' = Append(whist, [vers |-> prev', fail |-> lastfail', exA |-> lastA'.ex, exF |-> lastF'.ex,
                                     exW |-> lastW', badA |-> lastA'.bad, fired |-> sysA'.fired])
          /\ UNCHANGED wemitted
WGEmit == /\ nruns = MaxRuns /\ ~wemitted
          /\ PrintT("WBEH " \o ToJson([kinds |-> kinds, runs |-> whist]))
          /\ wemitted' = TRUE /\ UNCHANGED <<wvars, whist, sysW, lastW>>
WGSpec == /\ WGInit /\ m = M0 /\ mfix = M0 /\ r = R0 /\ fired = {} /\ stale = FALSE /\ nops = 0 /\ lastop = NoOp
          /\ [][(WGStep \/ WGEmit) /\ UNCHANGED vars]_<<wvars, vars, whist, wemitted, sysW, lastW>>
=============================================================================
