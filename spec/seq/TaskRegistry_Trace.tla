-------------------------- MODULE TaskRegistry_Trace --------------------------
(* Code -> spec: histories executed on a real redun TaskRegistry through @task, wraps_task and
   TaskRegistry.rename are validated against TaskRegistry.tla.  A trace is a sequence of
   [op, obs]; obs.tasks has one row <<key, own full name, body, wrapped_task, hash token>> per
   entry the harness found through iteration and get(), obs.hashes is task_hashes as tokens
   ("h1", "h2", ... numbered by first appearance of the hex hash in the trace), obs.counts the
   private counter (empty if it could not be read), obs.err whether the call raised.

   Contract level (decides acceptance): after every call the rows without their hash equal the
   model's, the error flag agrees, and the observation itself satisfies the property: task_hashes
   = the hashes of the rows, every row sits under its own full name, counts positive.
   As-built level (reported as drift only): the hash tokens are in bijection with the model's
   hash terms, and the counts agree.  One VERDICT line per trace:
   <<tid, accepted, position of the first unmatched call, drift>>.  All invariants of
   TaskRegistry.tla are evaluated on every state of every accepted prefix. *)
EXTENDS TaskRegistry, Json, IOUtils, SequencesExt
Traces == JsonDeserialize(IOEnv.TRACE_FILE)
VARIABLES tid, l, drift
tvars == <<vars, tid, l, drift>>
Steps == Traces[tid]

TInit == r = EmptyReg /\ nops = 0 /\ lastop = NoOp /\ tid = 1 /\ l = 1 /\ drift = FALSE

Rows(o) == ToSet(o.tasks)
ObsOK(R2, o) ==
  /\ {<<x[1], x[2], x[3], x[4]>> : x \in Rows(o)}
       = {<<k, R2.tasks[k].fn, R2.tasks[k].body, R2.tasks[k].wrapped>> : k \in Keys(R2)}
  /\ o.err = (IF R2.err THEN 1 ELSE 0)
  /\ ToSet(o.hashes) = {x[5] : x \in Rows(o)}                      \* task_hashes = held hashes
  /\ \A x \in Rows(o) : x[1] = x[2]                                 \* found under its own name
  /\ \A c \in ToSet(o.counts) : c[2] >= 1                           \* counts positive
HashRel(R2, o) == {<<Hash(R2.tasks[x[1]]), x[5]>> : x \in {y \in Rows(o) : y[1] \in Keys(R2)}}
AsBuiltOK(R2, o) ==
  LET rel == HashRel(R2, o) IN
  /\ \A a, b \in rel : (a[1] = b[1]) <=> (a[2] = b[2])              \* bijection
  /\ (o.counts # <<>> =>
        {<<c[1], c[2]>> : c \in ToSet(o.counts)}
          = {<<a[2], R2.counts[a[1]]>> : a \in {b \in rel : b[1] \in DOMAIN R2.counts}})

More == l <= Len(Steps)
TNext ==
  LET R2 == IF More THEN Apply(r, Steps[l].op) ELSE r
      ok == More /\ ObsOK(R2, Steps[l].obs)
  IN IF ok
     THEN /\ r' = R2 /\ lastop' = Steps[l].op /\ nops' = nops + 1
          /\ drift' = (drift \/ ~AsBuiltOK(R2, Steps[l].obs))
          /\ l' = l + 1 /\ tid' = tid
     ELSE /\ PrintT("VERDICT " \o ToJson(<<tid, IF More THEN 0 ELSE 1, l, IF drift THEN 1 ELSE 0>>))
          /\ tid < Len(Traces)
          /\ tid' = tid + 1 /\ l' = 1 /\ r' = EmptyReg /\ nops' = 0 /\ lastop' = NoOp /\ drift' = FALSE
TSpec == TInit /\ [][TNext]_tvars

\* the action properties of TaskRegistry.tla restated over the trace run
TWrapKeepsName ==
  [][(tid' = tid /\ lastop'.n = "wrap" /\ ~r'.err) =>
       LET k == lastop'.fn
           in1 == Inner(k, lastop'.w)
           old == r.tasks[k]
       IN /\ k \in Keys(r') /\ r'.tasks[k].body = <<"w", lastop'.w>> /\ r'.tasks[k].wrapped = in1
          /\ in1 \in Keys(r') /\ r'.tasks[in1].body = old.body /\ Hash(r'.tasks[in1]) = Hash(old)
          /\ r'.tasks[k].hinc = Hash(old)
          /\ Len(Chain(r', k)) = Len(Chain(r, k)) + 1]_tvars
TErrNoChange == [][(tid' = tid /\ r'.err) => (r'.tasks = r.tasks /\ r'.counts = r.counts)]_tvars
=============================================================================
