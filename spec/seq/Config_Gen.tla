----------------------------- MODULE Config_Gen -----------------------------
(* Bounded universe of configurations for C35: [DEFAULT] absent or with one option; one to
   MaxSections sections named from {s, t, s.u, t.u, s.u.w} in every order (so prefix conflicts in
   both orders occur); option a with a raw value from pool A (literals, escaped dollars, references
   to own / default / other-section / environment options, self reference, bad syntax, the config
   dir), option b absent or from pool B.  One TLC state per configuration (two levels so that the
   work spreads over the workers); the laws of Config.tla are invariants; every configuration is
   emitted with everything the real Config must show ("CASE <json>"). *)
EXTENDS Config, Json

CONSTANTS WideA,         \* FALSE: quick pool for option a, TRUE: full pool
          WideB,         \* likewise for option b and for [DEFAULT]
          NNames,        \* how many of the five section names are used
          MaxSections

A == 97  B == 98  C == 99
T(s) == s
PoolAQuick == {<<120>>,                              \* x
               <<99, 36, 36, 53>>,                   \* c$$5
               <<36, 123, 98, 125>>,                 \* ${b}
               <<36, 123, 116, 58, 98, 125>>,        \* ${t:b}
               <<36, 36, 123, 98, 125>>,             \* $${b}
               <<36, 123, 69, 125>>,                 \* ${E}
               <<47, 100, 47, 120>>,                 \* /d/x
               <<36, 120>>}                          \* $x
PoolAWide == PoolAQuick \cup
              {<<>>,                                 \* (empty)
               <<36, 123, 97, 125>>,                 \* ${a}   (self reference)
               <<36, 36, 36, 36>>,                   \* $$$$
               <<36, 123, 122, 125>>,                \* ${z}   (missing)
               <<120, 47, 100, 47, 100>>,            \* x/d/d
               <<36, 123, 115, 46, 117, 58, 97, 125>>,   \* ${s.u:a}
               <<36, 123, 99, 125>>,                 \* ${c}   (environment wins over the option)
               <<36, 123, 68, 69, 70, 65, 85, 76, 84, 58, 98, 125>>,  \* ${DEFAULT:b}
               <<36, 123, 116, 58, 98, 58, 99, 125>>}    \* ${t:b:c}
PoolA == IF WideA THEN PoolAWide ELSE PoolAQuick
\* option b: absent (<<-1>>), y, ${a}, $$
PoolB == IF WideB THEN {Missing, <<121>>, <<36, 123, 97, 125>>, <<36, 36>>} ELSE {Missing, <<121>>}
AllNames == << <<115>>, <<115, 46, 117>>, <<116>>, <<116, 46, 117>>, <<115, 46, 117, 46, 119>> >>   \* s s.u t t.u s.u.w
Names == {AllNames[i] : i \in 1..NNames}
DefaultsChoices == {<<>>, << <<<<98>>, <<100, 121>>>> >>} \cup
                   (IF WideB THEN { << <<<<99>>, <<111>>>>, <<<<98>>, <<36, 123, 97, 125>>>> >> } ELSE {})

NameSeqs == {ns \in UNION {[1..m -> Names] : m \in 1..MaxSections} : \A i, j \in 1..Len(ns) : ns[i] = ns[j] => i = j}
Opts(a, b) == IF b = Missing THEN << <<<<A>>, a>> >> ELSE << <<<<A>>, a>>, <<<<B>>, b>> >>
OptChoices == {Opts(a, b) : a \in PoolA, b \in PoolB}

Null == [defaults |-> <<>>, sections |-> <<>>]
VARIABLES shape, cfg
vars == <<shape, cfg>>
Start == [d |-> <<>>, ns |-> <<>>, go |-> FALSE]
Init == shape = Start /\ cfg = Null
Next == \/ /\ shape = Start
           /\ shape' \in {[d |-> d, ns |-> ns, go |-> TRUE] : d \in DefaultsChoices, ns \in NameSeqs}
           /\ cfg' = Null
        \/ /\ shape.go /\ cfg = Null /\ shape' = shape
           /\ cfg' \in {[defaults |-> shape.d,
                         sections |-> [i \in 1..Len(shape.ns) |-> [name |-> shape.ns[i], opts |-> os[i]]]] :
                        os \in [1..Len(shape.ns) -> OptChoices]}
Spec == Init /\ [][Next]_vars

On == cfg # Null
TheView == IF Constructible(cfg) THEN ViewSeq(cfg) ELSE <<>>
Laws == On => LET view == TheView IN
              /\ ContractOKV(cfg, view) /\ AsBuiltOKV(cfg, view) /\ ReplaceOKV(cfg, view)
\* the same, separately (to name the broken law), and the control the as-built model violates
LawContract == On => ContractOKV(cfg, TheView)
LawAsBuilt == On => AsBuiltOKV(cfg, TheView)
LawReplace == On => ReplaceOKV(cfg, TheView)
LawStrictAsBuilt == On => (WellFormedV(cfg, TheView) => RoundTrip(TheView, FALSE))

Emit == On => LET view == TheView
                  cons == Constructible(cfg)
                  wf == WellFormedV(cfg, view)
                  dev == wf /\ HasLiteralDollar(view)
              IN PrintT("CASE " \o ToJson(
  [cfg |-> cfg,
   ok |-> IF cons THEN 1 ELSE 0,
   wf |-> IF wf THEN 1 ELSE 0,
   view |-> view,
   dict |-> IF cons THEN DictOf(view, FALSE, FALSE) ELSE ErrD,
   dictr |-> IF cons THEN DictOf(view, TRUE, FALSE) ELSE ErrD,
   dev |-> IF dev THEN 1 ELSE 0,
   dictc |-> IF dev THEN DictOf(view, FALSE, TRUE) ELSE <<>>,
   dictrc |-> IF dev THEN DictOf(view, TRUE, TRUE) ELSE <<>>,
   rt |-> IF wf /\ RoundTrip(view, FALSE) THEN 1 ELSE 0]))
=============================================================================
