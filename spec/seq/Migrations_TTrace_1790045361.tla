---- MODULE Migrations_TTrace_1790045361 ----
EXTENDS Sequences, TLCExt, Toolbox, Migrations, Naturals, TLC

_expression ==
    LET Migrations_TEExpression == INSTANCE Migrations_TEExpression
    IN Migrations_TEExpression!expression
----

_trace ==
    LET Migrations_TETrace == INSTANCE Migrations_TETrace
    IN Migrations_TETrace!trace
----

_inv ==
    ~(
        TLCGet("level") = Len(_TETrace)
        /\
        init = ([execution |-> {[id |-> "e1", job_id |-> "j1", args |-> "[]"]}, job |-> {[parent_id |-> "~", id |-> "j1", execution_id |-> "e1", start_time |-> [s |-> 108, us |-> 0], end_time |-> [s |-> 108, us |-> 123456], task_hash |-> "t1", cached |-> "0", call_hash |-> "~"]}, task |-> {[hash |-> "t1", name |-> "f", namespace |-> "ns", source |-> "src"]}, value |-> {[value |-> "1", value_hash |-> "v1", type |-> "int", format |-> "pickle"], [value |-> "orig", value_hash |-> "t1", type |-> "redun.Task", format |-> "pickle"]}, call_node |-> {[value_hash |-> "v1", task_hash |-> "t1", call_hash |-> "c1"]}, evaluation |-> {[value_hash |-> "v1", task_hash |-> "t1", eval_hash |-> "ev1", args_hash |-> "a"]}, tag |-> {[value |-> "1", tag_hash |-> "g1", entity_id |-> "j1", key |-> "k", is_current |-> "1"]}, tag_edit |-> {}])
        /\
        ver = (10)
        /\
        v0 = (9)
        /\
        db = ([execution |-> {[id |-> "e1", job_id |-> "j1", args |-> "[]"]}, job |-> {[parent_id |-> "~", id |-> "j1", execution_id |-> "e1", start_time |-> [s |-> 100, us |-> 0], end_time |-> [s |-> 100, us |-> 0], task_hash |-> "t1", cached |-> "0", call_hash |-> "~"]}, task |-> {[hash |-> "t1", name |-> "f", namespace |-> "ns", source |-> "src"]}, value |-> {[value |-> "1", value_hash |-> "v1", type |-> "int", format |-> "pickle"], [value |-> "orig", value_hash |-> "t1", type |-> "redun.Task", format |-> "pickle"]}, call_node |-> {[value_hash |-> "v1", task_hash |-> "t1", call_hash |-> "c1"]}, evaluation |-> {[value_hash |-> "v1", task_hash |-> "t1", eval_hash |-> "ev1", args_hash |-> "a"]}, tag |-> {[value |-> "1", tag_hash |-> "g1", entity_id |-> "j1", key |-> "k", is_current |-> "1"]}, tag_edit |-> {}])
    )
----

_init ==
    /\ init = _TETrace[1].init
    /\ db = _TETrace[1].db
    /\ ver = _TETrace[1].ver
    /\ v0 = _TETrace[1].v0
----

_next ==
    /\ \E i,j \in DOMAIN _TETrace:
        /\ \/ /\ j = i + 1
              /\ i = TLCGet("level")
        /\ init  = _TETrace[i].init
        /\ init' = _TETrace[j].init
        /\ db  = _TETrace[i].db
        /\ db' = _TETrace[j].db
        /\ ver  = _TETrace[i].ver
        /\ ver' = _TETrace[j].ver
        /\ v0  = _TETrace[i].v0
        /\ v0' = _TETrace[j].v0

\* Uncomment the ASSUME below to write the states of the error trace
\* to the given file in Json format. Note that you can pass any tuple
\* to `JsonSerialize`. For example, a sub-sequence of _TETrace.
    \* ASSUME
    \*     LET J == INSTANCE Json
    \*         IN J!JsonSerialize("Migrations_TTrace_1790045361.json", _TETrace)

=============================================================================

 Note that you can extract this module `Migrations_TEExpression`
  to a dedicated file to reuse `expression` (the module in the 
  dedicated `Migrations_TEExpression.tla` file takes precedence 
  over the module `Migrations_TEExpression` below).

---- MODULE Migrations_TEExpression ----
EXTENDS Sequences, TLCExt, Toolbox, Migrations, Naturals, TLC

expression == 
    [
        \* To hide variables of the `Migrations` spec from the error trace,
        \* remove the variables below.  The trace will be written in the order
        \* of the fields of this record.
        init |-> init
        ,db |-> db
        ,ver |-> ver
        ,v0 |-> v0
        
        \* Put additional constant-, state-, and action-level expressions here:
        \* ,_stateNumber |-> _TEPosition
        \* ,_initUnchanged |-> init = init'
        
        \* Format the `init` variable as Json value.
        \* ,_initJson |->
        \*     LET J == INSTANCE Json
        \*     IN J!ToJson(init)
        
        \* Lastly, you may build expressions over arbitrary sets of states by
        \* leveraging the _TETrace operator.  For example, this is how to
        \* count the number of times a spec variable changed up to the current
        \* state in the trace.
        \* ,_initModCount |->
        \*     LET F[s \in DOMAIN _TETrace] ==
        \*         IF s = 1 THEN 0
        \*         ELSE IF _TETrace[s].init # _TETrace[s-1].init
        \*             THEN 1 + F[s-1] ELSE F[s-1]
        \*     IN F[_TEPosition - 1]
    ]

=============================================================================



Parsing and semantic processing can take forever if the trace below is long.
 In this case, it is advised to uncomment the module below to deserialize the
 trace from a generated binary file.

\*
\*---- MODULE Migrations_TETrace ----
\*EXTENDS IOUtils, Migrations, TLC
\*
\*trace == IODeserialize("Migrations_TTrace_1790045361.bin", TRUE)
\*
\*=============================================================================
\*

---- MODULE Migrations_TETrace ----
EXTENDS Migrations, TLC

trace == 
    <<
    ([init |-> [execution |-> {[id |-> "e1", job_id |-> "j1", args |-> "[]"]}, job |-> {[parent_id |-> "~", id |-> "j1", execution_id |-> "e1", start_time |-> [s |-> 108, us |-> 0], end_time |-> [s |-> 108, us |-> 123456], task_hash |-> "t1", cached |-> "0", call_hash |-> "~"]}, task |-> {[hash |-> "t1", name |-> "f", namespace |-> "ns", source |-> "src"]}, value |-> {[value |-> "1", value_hash |-> "v1", type |-> "int", format |-> "pickle"], [value |-> "orig", value_hash |-> "t1", type |-> "redun.Task", format |-> "pickle"]}, call_node |-> {[value_hash |-> "v1", task_hash |-> "t1", call_hash |-> "c1"]}, evaluation |-> {[value_hash |-> "v1", task_hash |-> "t1", eval_hash |-> "ev1", args_hash |-> "a"]}, tag |-> {[value |-> "1", tag_hash |-> "g1", entity_id |-> "j1", key |-> "k", is_current |-> "1"]}, tag_edit |-> {}],ver |-> 9,v0 |-> 9,db |-> [execution |-> {[id |-> "e1", job_id |-> "j1", args |-> "[]"]}, job |-> {[parent_id |-> "~", id |-> "j1", execution_id |-> "e1", start_time |-> [s |-> 108, us |-> 0], end_time |-> [s |-> 108, us |-> 123456], task_hash |-> "t1", cached |-> "0", call_hash |-> "~"]}, task |-> {[hash |-> "t1", name |-> "f", namespace |-> "ns", source |-> "src"]}, value |-> {[value |-> "1", value_hash |-> "v1", type |-> "int", format |-> "pickle"], [value |-> "orig", value_hash |-> "t1", type |-> "redun.Task", format |-> "pickle"]}, call_node |-> {[value_hash |-> "v1", task_hash |-> "t1", call_hash |-> "c1"]}, evaluation |-> {[value_hash |-> "v1", task_hash |-> "t1", eval_hash |-> "ev1", args_hash |-> "a"]}, tag |-> {[value |-> "1", tag_hash |-> "g1", entity_id |-> "j1", key |-> "k", is_current |-> "1"]}, tag_edit |-> {}]]),
    ([init |-> [execution |-> {[id |-> "e1", job_id |-> "j1", args |-> "[]"]}, job |-> {[parent_id |-> "~", id |-> "j1", execution_id |-> "e1", start_time |-> [s |-> 108, us |-> 0], end_time |-> [s |-> 108, us |-> 123456], task_hash |-> "t1", cached |-> "0", call_hash |-> "~"]}, task |-> {[hash |-> "t1", name |-> "f", namespace |-> "ns", source |-> "src"]}, value |-> {[value |-> "1", value_hash |-> "v1", type |-> "int", format |-> "pickle"], [value |-> "orig", value_hash |-> "t1", type |-> "redun.Task", format |-> "pickle"]}, call_node |-> {[value_hash |-> "v1", task_hash |-> "t1", call_hash |-> "c1"]}, evaluation |-> {[value_hash |-> "v1", task_hash |-> "t1", eval_hash |-> "ev1", args_hash |-> "a"]}, tag |-> {[value |-> "1", tag_hash |-> "g1", entity_id |-> "j1", key |-> "k", is_current |-> "1"]}, tag_edit |-> {}],ver |-> 10,v0 |-> 9,db |-> [execution |-> {[id |-> "e1", job_id |-> "j1", args |-> "[]"]}, job |-> {[parent_id |-> "~", id |-> "j1", execution_id |-> "e1", start_time |-> [s |-> 100, us |-> 0], end_time |-> [s |-> 100, us |-> 0], task_hash |-> "t1", cached |-> "0", call_hash |-> "~"]}, task |-> {[hash |-> "t1", name |-> "f", namespace |-> "ns", source |-> "src"]}, value |-> {[value |-> "1", value_hash |-> "v1", type |-> "int", format |-> "pickle"], [value |-> "orig", value_hash |-> "t1", type |-> "redun.Task", format |-> "pickle"]}, call_node |-> {[value_hash |-> "v1", task_hash |-> "t1", call_hash |-> "c1"]}, evaluation |-> {[value_hash |-> "v1", task_hash |-> "t1", eval_hash |-> "ev1", args_hash |-> "a"]}, tag |-> {[value |-> "1", tag_hash |-> "g1", entity_id |-> "j1", key |-> "k", is_current |-> "1"]}, tag_edit |-> {}]])
    >>
----


=============================================================================

---- CONFIG Migrations_TTrace_1790045361 ----
CONSTANTS
    Deviations = { "SubsecondLost" }
    Offset = 8

INVARIANT
    _inv

CHECK_DEADLOCK
    \* CHECK_DEADLOCK off because of PROPERTY or INVARIANT above.
    FALSE

INIT
    _init

NEXT
    _next

CONSTANT
    _TETrace <- _trace

ALIAS
    _expression
=============================================================================
\* Generated on Tue Sep 22 02:49:26 UTC 2026