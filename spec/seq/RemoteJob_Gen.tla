--------------------------- MODULE RemoteJob_Gen ---------------------------
(* Bounded universe and behaviour generator for C32 (spec -> code).

   Kind "proto":   every case of RemoteJob.tla with 1..MaxN jobs (array groups of >= 2, single jobs
                   of <= 2), every outcome per element (return / raise / raise something that does
                   not pickle / raise something whose pickle does not load), at most one stale file (an old error, a valid old output, an
                   invalid old output) and the --no-cache flag; containers and parses in every
                   order, MaxRuns containers per job.  Checked exhaustively with the history
                   hidden by the VIEW; with -simulate the history of each random behaviour is
                   printed ("BEH <json>") and replayed on the real code.
   Kind "name":    every prefix of <= MaxSeg dash-separated segments over Segs, every hash token,
                   array or not: NameLaw.
   Kind "reunite": every list of <= 2 in-flight remote jobs (single / array / not redun's) named
                   with every prefix, every set of submitted jobs: ReuniteSound.
   Every name / reunite case and every final proto state prints what the model expects. *)
EXTENDS RemoteJob, Json

CONSTANTS MaxN, MaxSeg, Kinds,     \* Kinds \subseteq {"proto", "name", "reunite"}
          SimPick                  \* TRUE (with -simulate): draw the case at random instead of branching on it

Behs == {"ok", "raise", "unp", "rt"}
Stales(n, beh) ==
  {[i \in 1..n |-> "none"]}
  \cup {[i \in 1..n |-> IF i = j THEN s ELSE "none"] :
          j \in 1..n, s \in {"err", "junk"}}
  \cup {[i \in 1..n |-> IF i = j THEN "out" ELSE "none"] : j \in {k \in 1..n : beh[k] = "ok"}}
ProtoN(n) ==
  UNION {{[n |-> n, array |-> arr, beh |-> b, stale |-> s, nocache |-> nc] :
            s \in Stales(n, b), nc \in BOOLEAN} :
         arr \in IF n >= 3 THEN {TRUE} ELSE IF n = 1 THEN {FALSE} ELSE BOOLEAN, b \in [1..n -> Behs]}
Proto == UNION {ProtoN(n) : n \in 1..MaxN}

Segs == {"", "p", "q", "array"}
Hashes == {"h1", "h2", "h3"}
NamePrefixes == UNION {[1..m -> Segs] : m \in 1..MaxSeg}
NameCases == {[pre |-> p, h |-> h, arr |-> a] : p \in NamePrefixes, h \in Hashes \cup {"u7"}, a \in BOOLEAN}

(* remote jobs: a single job made for h1 / h2, an array made for <<h1, h2>> or <<h2, h3>> with some
   children in flight (with or without its eval_hashes file), a job that is not redun's (its last
   segment is no hash) *)
RemoteShapes(p, u) ==
  {[name |-> Name(p, h, FALSE), kids |-> {}, made |-> <<h>>, hashfile |-> FALSE] : h \in {"h1", "h2"}}
  \cup {[name |-> Name(p, u, TRUE), kids |-> ks, made |-> m, hashfile |-> hf] :
          ks \in {{1}, {2}, {1, 2}}, m \in {<<"h1", "h2">>, <<"h2", "h3">>}, hf \in BOOLEAN}
  \cup {[name |-> p \o <<"headnode">>, kids |-> {}, made |-> <<>>, hashfile |-> FALSE],
        [name |-> p, kids |-> {}, made |-> <<>>, hashfile |-> FALSE]}
WithId(r, id) == [id |-> id, name |-> r.name, kids |-> r.kids, made |-> r.made, hashfile |-> r.hashfile]
ReunitePrefixes == {<<"p">>, <<"p", "q">>, <<"">>, <<"p", "array">>, <<"array", "">>}
ReuniteCases ==
  UNION {{<<WithId(a, "A")>> : a \in RemoteShapes(p, "u7")}
         \cup {<<WithId(a, "A"), WithId(b, "B")>> : a \in RemoteShapes(p, "u7"), b \in RemoteShapes(p, "u8")} :
         p \in ReunitePrefixes}

NullCase == [n |-> 1, array |-> FALSE, beh |-> <<"ok">>, stale |-> <<"none">>, nocache |-> FALSE]
VARIABLES kind,    \* "start" | "proto" | "name" | "reunite"
          x,       \* the name / reunite case (0 otherwise)
          hist     \* proto: the actions so far with the observation after each
gvars == <<vars, kind, x, hist>>

Fresh(c) == /\ cas' = c /\ fs' = StaleFs(c) /\ phase' = "init" /\ ran' = [i \in 1..c.n |-> 0]
            /\ parsed' = [i \in 1..c.n |-> <<>>] /\ act' = <<"case", 0>>
GInit == /\ kind = "start" /\ x = 0 /\ hist = <<>>
         /\ cas = NullCase /\ fs = StaleFs(NullCase) /\ phase = "idle" /\ ran = <<0>> /\ parsed = <<<<>>>>
         /\ act = <<"none", 0>>
Choose == /\ kind = "start"
          /\ \/ "proto" \in Kinds /\ kind' = "proto" /\ x' = 0 /\ hist' = <<>>
                /\ \E c \in IF SimPick THEN {RandomElement(Proto)} ELSE Proto : Fresh(c)
             \/ "name" \in Kinds /\ kind' = "name" /\ x' \in NameCases /\ UNCHANGED <<vars, hist>>
             \/ "reunite" \in Kinds /\ kind' = "reunite" /\ x' \in ReuniteCases /\ UNCHANGED <<vars, hist>>
Step == /\ kind = "proto" /\ Next
        /\ hist' = Append(hist, [a |-> act', obs |-> Obs(fs', cas.n),
                                 out |-> IF act'[1] = "parse" THEN parsed'[act'[2]] ELSE <<>>])
        /\ UNCHANGED <<kind, x>>
GNext == Choose \/ Step
GSpec == GInit /\ [][GNext]_gvars
View == <<vars, kind, x>>

\* the properties of RemoteJob.tla over the generator's runs
GOutcomeOK == kind = "proto" => OutcomeOK
GOutcomeUnlessDev == kind = "proto" => OutcomeUnlessDev
GOneOutcomeFile == kind = "proto" => OneOutcomeFile
GIsolation ==
  [][(kind = "proto" /\ act'[1] = "work") =>
       \A f \in DOMAIN fs : fs'[f] # fs[f] => f \in {<<"out", act'[2]>>, <<"err", act'[2]>>}]_gvars
GNameLaw == kind = "name" => (x.h \in Hashes => NameLaw(x.pre, x.h, x.arr))
E3 == {"h1", "h2", "h3"}
GReunite == kind = "reunite" => ReuniteSound(x, E3)

AllParsed == \A i \in 1..cas.n : parsed[i] # <<>>
B(b) == IF b THEN 1 ELSE 0
Emit ==
  /\ (kind = "proto" /\ phase = "run" /\ AllParsed) =>
        PrintT("BEH " \o ToJson([c |-> [n |-> cas.n, array |-> B(cas.array), beh |-> cas.beh,
                                        stale |-> cas.stale, nocache |-> B(cas.nocache)],
                                 hist |-> hist]))
  /\ kind = "name" =>
        PrintT("NAME " \o ToJson([pre |-> x.pre, h |-> x.h, arr |-> B(x.arr),
                                  hash |-> HashOf(Name(x.pre, x.h, x.arr)),
                                  isarr |-> B(IsArrayName(Name(x.pre, x.h, x.arr)))]))
  /\ kind = "reunite" =>
        PrintT("REUNITE " \o ToJson([R |-> [j \in 1..Len(x) |->
                                             [id |-> x[j].id, name |-> x[j].name, kids |-> SetToSeq(x[j].kids),
                                              made |-> x[j].made, hashfile |-> B(x[j].hashfile)]],
                                     dec |-> [e \in E3 |-> Decision(x, e)]]))
\* exhaustive run (history hidden): only the outcome per case is printed
EmitCases ==
  /\ (kind = "proto" /\ phase = "run" /\ AllParsed) =>
        PrintT("CASE " \o ToJson([c |-> [n |-> cas.n, array |-> B(cas.array), beh |-> cas.beh,
                                         stale |-> cas.stale, nocache |-> B(cas.nocache)],
                                  out |-> parsed, obs |-> Obs(fs, cas.n)]))
  /\ kind = "name" =>
        PrintT("NAME " \o ToJson([pre |-> x.pre, h |-> x.h, arr |-> B(x.arr),
                                  hash |-> HashOf(Name(x.pre, x.h, x.arr)),
                                  isarr |-> B(IsArrayName(Name(x.pre, x.h, x.arr)))]))
  /\ kind = "reunite" =>
        PrintT("REUNITE " \o ToJson([R |-> [j \in 1..Len(x) |->
                                             [id |-> x[j].id, name |-> x[j].name, kids |-> SetToSeq(x[j].kids),
                                              made |-> x[j].made, hashfile |-> B(x[j].hashfile)]],
                                     dec |-> [e \in E3 |-> Decision(x, e)]]))
=============================================================================
