----------------------------- MODULE FileValues -----------------------------
(***************************************************************************)
(* redun/file.py file values over a file system (C30), and the scheduler's *)
(* validity check of cached results that hold such values (C04).           *)
(*                                                                         *)
(* File system: path -> [ex, size, mtime, bytes].  A path is <<dir, name>>; *)
(* a directory is the set of its existing member paths (an empty directory *)
(* and a missing one hash alike in redun, so directory existence is not    *)
(* modelled).  bytes is an abstract content id; size is a function of it   *)
(* (ids 2 and 3 have the same size: a same-size rewrite).                  *)
(*                                                                         *)
(* Value objects [cls, t, hash]: cls one of the nine classes, t the target *)
(* (<<d, n>> for file classes, <<d, "">> for Dir / FileSet classes: the    *)
(* directory d, resp. the glob "d/<star>"), hash the RECORDED hash (what    *)
(* `_hash` caches and `__getstate__` pickles).  Hashes are records that    *)
(* transcribe the pre-image the code hashes:                               *)
(*   File            LocalFileSystem.get_hash: path, size, mtime           *)
(*                   (missing: size = mtime = -1)                          *)
(*   IFile/IDir/IFileSet   type name and path / pattern only               *)
(*   ContentFile     path and content digest (bytes id)                    *)
(*   Dir, ContentDir type name, path, sorted *File* hashes of the members  *)
(*                   (FileSystem.iter_file_hashes iterates Dir(path), i.e. *)
(*                   plain Files: ContentDir is mtime/size based)          *)
(*   FileSet         pattern + sorted File hashes of the matches           *)
(*   ContentFileSet  pattern + sorted ContentFile hashes of the matches    *)
(* `.hash` is lazy: computed on first read, then cached.  The harness      *)
(* reads `.hash` of every live object after every step, and so does the    *)
(* model (Observe), which is why an object without recorded hash exists    *)
(* only inside a step (a destination object created by the very call).     *)
(*                                                                         *)
(* Named deviations of the code as built (constants, TRUE = as built):     *)
(*   DevContentMissing  ContentFile._calc_hash opens the file, so hashing, *)
(*                      update_hash and is_valid of a ContentFile whose    *)
(*                      path is missing raise; Scheduler.run raises while  *)
(*                      validating a cached result that holds one.         *)
(*   DevDirCopyStale    Dir.copy_to (and StagingDir.stage / unstage) copy  *)
(*                      the members but never refresh the destination      *)
(*                      object's recorded hash.                            *)
(***************************************************************************)
EXTENDS Naturals, Integers, Sequences, FiniteSets, TLC

CONSTANTS Dirs,              \* directory names
          Names,             \* member names ("a" is the member a task writes)
          Bytes,             \* content ids, subset of 1..4
          MTimes,            \* modification times
          Classes,           \* value classes in play
          MaxObjs,           \* value objects per behaviour (C30 operations)
          MaxOps,            \* operations per behaviour
          Shapes,            \* result shapes of the workflows (C04): subset of {"bare","list","dict"}
          DevContentMissing, DevDirCopyStale

ASSUME "a" \in Names /\ Bytes \subseteq 1..4 /\ 2 \in Bytes

Paths == Dirs \X Names
DirT(d) == <<d, "">>
NoT == <<"", "">>

\* content ids: 1 = "", 2 = "x", 3 = "y", 4 = "xy"
Size(b) == CASE b = 1 -> 0 [] b = 2 -> 1 [] b = 3 -> 1 [] b = 4 -> 2 [] OTHER -> -1
\* opening with mode "a" and writing a non-empty suffix: <<old, new>>, old = 0 for a missing file
AppendPairs == {<<0, 2>>, <<0, 3>>, <<1, 2>>, <<1, 3>>, <<2, 4>>}
TaskBytes == 2     \* what the generated task writes

Missing == [ex |-> FALSE, size |-> -1, mtime |-> -1, bytes |-> 0]
FS(b, m) == [ex |-> TRUE, size |-> Size(b), mtime |-> m, bytes |-> b]

FileCls == {"File", "IFile", "ContentFile"}
DirCls == {"Dir", "IDir", "ContentDir"}
SetCls == {"FileSet", "IFileSet", "ContentFileSet"}
AllClasses == FileCls \cup DirCls \cup SetCls
Family(c) == IF c \in {"File", "Dir", "FileSet"} THEN "plain"
             ELSE IF c \in {"IFile", "IDir", "IFileSet"} THEN "imm" ELSE "content"
Immutable(c) == Family(c) = "imm"
FileOf(c) == CASE Family(c) = "plain" -> "File" [] Family(c) = "imm" -> "IFile" [] OTHER -> "ContentFile"
Targets(c) == IF c \in FileCls THEN Paths ELSE {DirT(d) : d \in Dirs}

(***************************************************************************)
(* Hashes                                                                  *)
(***************************************************************************)
HRec(c, p, s, m, b, ms) == [c |-> c, p |-> p, s |-> s, m |-> m, b |-> b, ms |-> ms]
NoHash == HRec("none", NoT, 0, 0, 0, {})     \* nothing recorded yet (`_hash is None`)
Raise == HRec("raise", NoT, 0, 0, 0, {})     \* the computation raised

\* hash of a file class from the state f of its path; devCM = the ContentFile deviation
FileHashOf(c, p, f, devCM) ==
  CASE c = "File" -> HRec("File", p, f.size, f.mtime, 0, {})
    [] c = "IFile" -> HRec("IFile", p, 0, 0, 0, {})
    [] c = "ContentFile" -> IF f.ex THEN HRec("ContentFile", p, 0, 0, f.bytes, {})
                            ELSE IF devCM THEN Raise
                            ELSE HRec("ContentFile", p, 0, 0, -1, {})

Members(d, fs) == {n \in Names : fs[<<d, n>>].ex}

CalcD(c, t, fs, devCM) ==
  CASE c \in FileCls -> FileHashOf(c, t, fs[t], devCM)
    [] c \in {"IDir", "IFileSet"} -> HRec(c, t, 0, 0, 0, {})
    [] c \in {"Dir", "ContentDir", "FileSet"} ->
         HRec(c, t, 0, 0, 0, {FileHashOf("File", <<t[1], n>>, fs[<<t[1], n>>], devCM) : n \in Members(t[1], fs)})
    [] c = "ContentFileSet" ->
         HRec(c, t, 0, 0, 0, {FileHashOf("ContentFile", <<t[1], n>>, fs[<<t[1], n>>], devCM) : n \in Members(t[1], fs)})

\* the specification of "a freshly computed hash of the current state" (total) ...
FreshHash(c, t, fs) == CalcD(c, t, fs, FALSE)
\* ... and `_calc_hash` as built
Calc(c, t, fs) == CalcD(c, t, fs, DevContentMissing)

Obj(c, t, h) == [cls |-> c, t |-> t, hash |-> h]

\* is_valid as coded: "T" / "F", or "R" when it raises.  IFile and IFileSet override it; IDir
\* inherits the comparison, which is constant because its hash is
IsValid(o, fs) ==
  IF o.cls \in {"IFile", "IFileSet"} THEN "T"
  ELSE LET c == Calc(o.cls, o.t, fs) IN
       IF c = Raise THEN "R"
       ELSE IF o.hash = NoHash \/ o.hash = c THEN "T" ELSE "F"

\* validity as the properties state it: current hash equals the recorded one; immutable always
ValidC(o, fs) == Immutable(o.cls) \/ o.hash = FreshHash(o.cls, o.t, fs)

\* the input class of the ContentFile deviation
CMHit(c, t, fs) == DevContentMissing /\ c = "ContentFile" /\ ~fs[t].ex

(***************************************************************************)
(* Store and operations (big-step, one public call or one environment      *)
(* change per operation)                                                   *)
(***************************************************************************)
Op(n, i, j, c, t, b, m, k) == [n |-> n, i |-> i, j |-> j, c |-> c, t |-> t, b |-> b, m |-> m, k |-> k]
NoOp == Op("init", 0, 0, "", NoT, 0, 0, 0)
NoWf == [shape |-> "none", items |-> <<>>]
NoLast == [kind |-> "none", had |-> FALSE, allv |-> FALSE]

Store(wf) ==
  [fs |-> [p \in Paths |-> Missing], objs |-> <<>>,
   ob |-> 0,           \* object that carries a freshness obligation after this operation
   dev |-> {},         \* named deviations that fired in this operation
   raised |-> FALSE,   \* the call raised
   wf |-> wf, has |-> FALSE, cached |-> <<>>, count |-> 0, last |-> NoLast]

\* update_hash: an exception leaves the recorded hash as it was
Refresh(S, i) ==
  LET h == Calc(S.objs[i].cls, S.objs[i].t, S.fs) IN
  IF h = Raise THEN [S EXCEPT !.raised = TRUE, !.dev = @ \cup {"content-missing"}]
  ELSE [S EXCEPT !.objs[i].hash = h]

\* File.open(mode w / a) ... close(): the close hook recomputes the hash
DoWrite(S, i, b, m) == Refresh([S EXCEPT !.fs[S.objs[i].t] = FS(b, m), !.ob = i], i)

\* File.copy_to: filesystem.copy, then dest_file.update_hash()
DoCopy(S, si, di, m) ==
  Refresh([S EXCEPT !.fs[S.objs[di].t] = FS(S.fs[S.objs[si].t].bytes, m), !.ob = di], di)

\* Dir.copy_to: every member file of the source is copied with File.copy_to onto a *new* file
\* object of the destination's family; as built nothing refreshes the destination Dir object
DoDirCopy(S, si, di, m) ==
  LET ds == S.objs[si].t[1]
      dd == S.objs[di].t[1]
      fs2 == [p \in Paths |-> IF p[1] = dd /\ S.fs[<<ds, p[2]>>].ex
                              THEN FS(S.fs[<<ds, p[2]>>].bytes, m) ELSE S.fs[p]]
      old == S.objs[di].hash
      stale == DevDirCopyStale /\ old # NoHash /\ old # Calc(S.objs[di].cls, S.objs[di].t, fs2)
      S1 == [S EXCEPT !.fs = fs2, !.ob = di,
                      !.dev = IF stale THEN @ \cup {"dir-copy-stale"} ELSE @]
  IN IF DevDirCopyStale THEN S1 ELSE Refresh(S1, di)

AddObj(S, c, t) == [S EXCEPT !.objs = Append(@, Obj(c, t, NoHash))]

\* the harness reads `.hash` of every object after every step: lazy hashes get computed
Observe(S) ==
  [S EXCEPT !.objs = [k \in 1..Len(S.objs) |->
      IF S.objs[k].hash # NoHash THEN S.objs[k]
      ELSE LET h == Calc(S.objs[k].cls, S.objs[k].t, S.fs) IN
           IF h = Raise THEN S.objs[k] ELSE [S.objs[k] EXCEPT !.hash = h]]]

(* ---- C04: a task whose result holds external values, run through the scheduler ---- *)
WTarget(it) == IF it.cls \in FileCls THEN it.t ELSE <<it.t[1], "a">>
ExecFs(S, m) == [p \in Paths |-> IF \E k \in 1..Len(S.wf.items) : WTarget(S.wf.items[k]) = p
                                 THEN FS(TaskBytes, m) ELSE S.fs[p]]
\* outcomes of Scheduler.run the code admits.  As built the cached values are validated one by one
\* until the first invalid one; the order is an implementation detail, so when a raising and an
\* invalid value are both present either may come first
RunOutcomes(S) ==
  LET vs == {IsValid(S.cached[k], S.fs) : k \in 1..Len(S.cached)} IN
  IF ~S.has THEN {"exec"}
  ELSE IF "R" \in vs THEN {"raise"} \cup (IF "F" \in vs THEN {"exec"} ELSE {})
  ELSE IF "F" \in vs THEN {"exec"} ELSE {"replay"}

DoRun(S, m, out) ==
  LET last == [kind |-> out, had |-> S.has,
               allv |-> \A k \in 1..Len(S.cached) : ValidC(S.cached[k], S.fs)]
  IN IF out = "exec"
     THEN LET fs2 == ExecFs(S, m) IN
          [S EXCEPT !.fs = fs2, !.has = TRUE, !.count = @ + 1, !.last = last,
                    !.cached = [k \in 1..Len(S.wf.items) |->
                                  Obj(S.wf.items[k].cls, S.wf.items[k].t,
                                      FreshHash(S.wf.items[k].cls, S.wf.items[k].t, fs2))]]
     ELSE IF out = "raise"
     THEN [S EXCEPT !.last = last, !.raised = TRUE, !.dev = @ \cup {"content-missing"}]
     ELSE [S EXCEPT !.last = last]

Apply(S0, op) ==
  LET S == [S0 EXCEPT !.ob = 0, !.dev = {}, !.raised = FALSE,
                      !.last = IF op.n = "run" THEN @ ELSE [@ EXCEPT !.kind = "env"]]
      n == op.n
      R == CASE n = "new" -> AddObj(S, op.c, op.t)
             [] n \in {"write", "append"} -> DoWrite(S, op.i, op.b, op.m)
             [] n = "copy" ->
                  LET S1 == IF op.j = 0 THEN AddObj(S, op.c, op.t) ELSE S
                      di == IF op.j = 0 THEN Len(S1.objs) ELSE op.j
                  IN IF op.k = 1 /\ S1.fs[S1.objs[di].t].ex THEN S1     \* skip_if_exists
                     ELSE DoCopy(S1, op.i, di, op.m)
             \* Staging*(local = i, remote = j): stage copies remote -> local, unstage local -> remote;
             \* equal paths: "no staging is needed"
             [] n = "stage" -> IF S.objs[op.i].t = S.objs[op.j].t THEN S ELSE DoCopy(S, op.j, op.i, op.m)
             [] n = "unstage" -> IF S.objs[op.i].t = S.objs[op.j].t THEN S ELSE DoCopy(S, op.i, op.j, op.m)
             [] n = "dcopy" ->
                  LET S1 == IF op.j = 0 THEN AddObj(S, op.c, op.t) ELSE S
                      di == IF op.j = 0 THEN Len(S1.objs) ELSE op.j
                  IN DoDirCopy(S1, op.i, di, op.m)
             [] n = "dstage" -> IF S.objs[op.i].t = S.objs[op.j].t THEN S ELSE DoDirCopy(S, op.j, op.i, op.m)
             [] n = "dunstage" -> IF S.objs[op.i].t = S.objs[op.j].t THEN S ELSE DoDirCopy(S, op.i, op.j, op.m)
             [] n = "mkdir" -> Refresh([S EXCEPT !.ob = op.i], op.i)
             [] n = "rmdir" ->     \* recursive
                  Refresh([S EXCEPT !.fs = [p \in Paths |-> IF p[1] = S.objs[op.i].t[1] THEN Missing ELSE @[p]],
                                    !.ob = op.i], op.i)
             \* File.remove / File.touch change the file and leave the recorded hash alone: no
             \* obligation (the property names written, copied and staged objects)
             [] n = "remove" -> [S EXCEPT !.fs[S.objs[op.i].t] = Missing]
             [] n = "touch" -> [S EXCEPT !.fs[S.objs[op.i].t].mtime = op.m]
             [] n = "update" -> Refresh(S, op.i)
             [] n = "reload" -> S          \* pickle round trip keeps class, path and recorded hash
             [] n = "eset" -> [S EXCEPT !.fs[op.t] = FS(op.b, op.m)]
             [] n = "edel" -> [S EXCEPT !.fs[op.t] = Missing]
             [] n = "run" -> DoRun(S, op.m, op.c)
  IN Observe(R)

(***************************************************************************)
(* Enabled operations: Pre(S, op) is the whole precondition of an          *)
(* operation record (shape, index ranges, what the call needs in order not *)
(* to fail for reasons outside the properties: an existing copy source,    *)
(* distinct source and destination).                                       *)
(***************************************************************************)
OI(S) == 1..Len(S.objs)
IsFileObj(S, i) == i \in OI(S) /\ S.objs[i].cls \in FileCls
IsDirObj(S, i) == i \in OI(S) /\ S.objs[i].cls \in DirCls
Room(S) == Len(S.objs) < MaxObjs
Cur(S, i) == S.fs[S.objs[i].t]
Plain(op) == op.c = "" /\ op.t = NoT     \* no class / target argument

Pre(S, op) ==
  LET n == op.n IN
  CASE n = "new" -> /\ Room(S) /\ op.c \in Classes /\ op.t \in Targets(op.c)
                    /\ op.i = 0 /\ op.j = 0 /\ op.b = 0 /\ op.m = 0 /\ op.k = 0
    [] n = "write" -> /\ IsFileObj(S, op.i) /\ op.b \in Bytes /\ op.m \in MTimes
                      /\ op.j = 0 /\ op.k = 0 /\ Plain(op)
    [] n = "append" -> /\ IsFileObj(S, op.i) /\ op.b \in Bytes /\ op.m \in MTimes
                       /\ <<Cur(S, op.i).bytes, op.b>> \in AppendPairs
                       /\ op.j = 0 /\ op.k = 0 /\ Plain(op)
    [] n = "copy" ->
         /\ IsFileObj(S, op.i) /\ Cur(S, op.i).ex /\ op.m \in MTimes /\ op.b = 0
         /\ \/ /\ IsFileObj(S, op.j) /\ S.objs[op.j].t # S.objs[op.i].t /\ op.k \in {0, 1} /\ Plain(op)
            \/ /\ op.j = 0 /\ Room(S) /\ op.c \in Classes \cap FileCls /\ op.t \in Paths \ {S.objs[op.i].t}
               /\ op.k = 0
    \* stage needs the remote (j) to exist, unstage the local (i), unless the paths coincide
    [] n = "stage" -> /\ IsFileObj(S, op.i) /\ IsFileObj(S, op.j) /\ op.i # op.j /\ op.m \in MTimes
                      /\ (Cur(S, op.j).ex \/ S.objs[op.i].t = S.objs[op.j].t)
                      /\ op.b = 0 /\ op.k = 0 /\ Plain(op)
    [] n = "unstage" -> /\ IsFileObj(S, op.i) /\ IsFileObj(S, op.j) /\ op.i # op.j /\ op.m \in MTimes
                        /\ (Cur(S, op.i).ex \/ S.objs[op.i].t = S.objs[op.j].t)
                        /\ op.b = 0 /\ op.k = 0 /\ Plain(op)
    [] n = "dcopy" ->
         /\ IsDirObj(S, op.i) /\ op.m \in MTimes /\ op.b = 0 /\ op.k = 0
         /\ \/ /\ IsDirObj(S, op.j) /\ S.objs[op.j].t # S.objs[op.i].t /\ Plain(op)
            \/ /\ op.j = 0 /\ Room(S) /\ op.c \in Classes \cap DirCls
               /\ op.t \in Targets(op.c) \ {S.objs[op.i].t}
    [] n \in {"dstage", "dunstage"} ->
         /\ IsDirObj(S, op.i) /\ IsDirObj(S, op.j) /\ op.i # op.j /\ op.m \in MTimes
         /\ op.b = 0 /\ op.k = 0 /\ Plain(op)
    [] n \in {"mkdir", "rmdir"} -> /\ IsDirObj(S, op.i) /\ op.j = 0 /\ op.b = 0 /\ op.m = 0 /\ op.k = 0 /\ Plain(op)
    [] n = "remove" -> /\ IsFileObj(S, op.i) /\ op.j = 0 /\ op.b = 0 /\ op.m = 0 /\ op.k = 0 /\ Plain(op)
    [] n = "touch" -> /\ IsFileObj(S, op.i) /\ Cur(S, op.i).ex /\ op.m \in MTimes
                      /\ op.j = 0 /\ op.b = 0 /\ op.k = 0 /\ Plain(op)
    [] n = "update" -> /\ op.i \in OI(S) /\ op.j = 0 /\ op.b = 0 /\ op.m = 0 /\ op.k = 0 /\ Plain(op)
    [] n = "reload" -> /\ op.i \in OI(S) /\ S.objs[op.i].hash # NoHash
                       /\ op.j = 0 /\ op.b = 0 /\ op.m = 0 /\ op.k = 0 /\ Plain(op)
    [] n = "eset" -> /\ op.t \in Paths /\ op.b \in Bytes /\ op.m \in MTimes
                     /\ op.i = 0 /\ op.j = 0 /\ op.k = 0 /\ op.c = ""
    [] n = "edel" -> /\ op.t \in Paths /\ S.fs[op.t].ex
                     /\ op.i = 0 /\ op.j = 0 /\ op.b = 0 /\ op.m = 0 /\ op.k = 0 /\ op.c = ""
    [] n = "run" -> /\ S.wf # NoWf /\ op.c \in RunOutcomes(S) /\ op.m \in MTimes
                    /\ op.i = 0 /\ op.j = 0 /\ op.b = 0 /\ op.k = 0 /\ op.t = NoT
    [] OTHER -> FALSE

Items == UNION {{[cls |-> c, t |-> t] : t \in Targets(c)} : c \in Classes}
Workflows ==
  (IF "bare" \in Shapes THEN {[shape |-> "bare", items |-> <<x>>] : x \in Items} ELSE {})
  \cup {[shape |-> sh, items |-> <<x, y>>] : sh \in Shapes \cap {"list", "dict"}, x \in Items, y \in Items}

VARIABLES s, nops, lastop
vars == <<s, nops, lastop>>

Step(op) == Pre(s, op) /\ s' = Apply(s, op) /\ lastop' = op

EnvStep ==
  \E p \in Paths :
     \/ \E b \in Bytes, m \in MTimes : Step(Op("eset", 0, 0, "", p, b, m, 0))
     \/ Step(Op("edel", 0, 0, "", p, 0, 0, 0))
FileObjs(S) == {i \in OI(S) : S.objs[i].cls \in FileCls}
DirObjs(S) == {i \in OI(S) : S.objs[i].cls \in DirCls}
ObjStep ==
  \/ \E c \in Classes : \E t \in Targets(c) : Step(Op("new", 0, 0, c, t, 0, 0, 0))
  \/ \E i \in OI(s), n \in {"update", "reload"} : Step(Op(n, i, 0, "", NoT, 0, 0, 0))
  \/ \E i \in FileObjs(s) :
       \/ Step(Op("remove", i, 0, "", NoT, 0, 0, 0))
       \/ \E m \in MTimes :
            \/ \E b \in Bytes : \/ Step(Op("write", i, 0, "", NoT, b, m, 0))
                                \/ Step(Op("append", i, 0, "", NoT, b, m, 0))
            \/ Step(Op("touch", i, 0, "", NoT, 0, m, 0))
            \/ \E j \in FileObjs(s) \ {i} :
                 \/ \E k \in {0, 1} : Step(Op("copy", i, j, "", NoT, 0, m, k))
                 \/ \E n \in {"stage", "unstage"} : Step(Op(n, i, j, "", NoT, 0, m, 0))
            \/ \E c \in Classes \cap FileCls : \E t \in Paths : Step(Op("copy", i, 0, c, t, 0, m, 0))
  \/ \E i \in DirObjs(s) :
       \/ \E n \in {"mkdir", "rmdir"} : Step(Op(n, i, 0, "", NoT, 0, 0, 0))
       \/ \E m \in MTimes :
            \/ \E j \in DirObjs(s) \ {i}, n \in {"dcopy", "dstage", "dunstage"} :
                 Step(Op(n, i, j, "", NoT, 0, m, 0))
            \/ \E c \in Classes \cap DirCls : \E t \in Targets(c) : Step(Op("dcopy", i, 0, c, t, 0, m, 0))
RunStep == \E out \in {"exec", "replay", "raise"}, m \in MTimes : Step(Op("run", 0, 0, out, NoT, 0, m, 0))

\* C30: histories of value operations and environment changes
InitOps == s = Store(NoWf) /\ nops = 0 /\ lastop = NoOp
NextOps == nops < MaxOps /\ nops' = nops + 1 /\ (ObjStep \/ EnvStep)
SpecOps == InitOps /\ [][NextOps]_vars

\* C04: histories of runs of one workflow interleaved with environment changes
InitRuns == s \in {Store(wf) : wf \in Workflows} /\ nops = 0 /\ lastop = NoOp
NextRuns == nops < MaxOps /\ nops' = nops + 1 /\ (RunStep \/ EnvStep)
SpecRuns == InitRuns /\ [][NextRuns]_vars

\* both (used by the trace specification: a recorded history may mix them)
NextAll == nops < MaxOps /\ nops' = nops + 1 /\ (ObjStep \/ RunStep \/ EnvStep)

View == <<s, nops>>

(***************************************************************************)
(* C30                                                                     *)
(***************************************************************************)
FreshAt(S, k) == S.objs[k].hash = FreshHash(S.objs[k].cls, S.objs[k].t, S.fs)

\* after a value was written, copied or staged through redun its hash is the fresh one
FreshAfterOp == s.ob # 0 => FreshAt(s, s.ob)
FreshAfterOpUnlessDev == (s.ob # 0 /\ "dir-copy-stale" \notin s.dev) => FreshAt(s, s.ob)

\* valid exactly when the recorded hash equals the current one; immutable types always valid;
\* is_valid is total
ValidIffAt(S, k) ==
  LET v == IsValid(S.objs[k], S.fs) IN
  /\ v \in {"T", "F"}
  /\ (v = "T") <=> ValidC(S.objs[k], S.fs)
  /\ Immutable(S.objs[k].cls) => (v = "T" /\ FreshAt(S, k))
ValidIff == \A k \in OI(s) : ValidIffAt(s, k)
ValidIffUnlessDev == \A k \in OI(s) : CMHit(s.objs[k].cls, s.objs[k].t, s.fs) \/ ValidIffAt(s, k)

\* hashing never raises, whatever the state of the path (and no call raised)
HashTotal == /\ \A c \in Classes : \A t \in Targets(c) : Calc(c, t, s.fs) # Raise
             /\ ~s.raised
HashTotalUnlessDev ==
  /\ \A c \in Classes : \A t \in Targets(c) : CMHit(c, t, s.fs) \/ Calc(c, t, s.fs) # Raise
  /\ s.raised => "content-missing" \in s.dev

\* what the hash of each file class is a function of (constant-level laws over all file states)
FStates == {Missing} \cup {FS(b, m) : b \in Bytes, m \in MTimes}
HashLaws ==
  \A p \in Paths : \A f, g \in FStates :
    \* content-hashed files change hash only when their bytes change (and then they do)
    /\ (f.ex /\ g.ex) => ((FileHashOf("ContentFile", p, f, FALSE) = FileHashOf("ContentFile", p, g, FALSE))
                          <=> f.bytes = g.bytes)
    \* File: existence, size and mtime
    /\ (FileHashOf("File", p, f, FALSE) = FileHashOf("File", p, g, FALSE))
         <=> (f.ex = g.ex /\ f.size = g.size /\ f.mtime = g.mtime)
    \* immutable: nothing
    /\ FileHashOf("IFile", p, f, FALSE) = FileHashOf("IFile", p, g, FALSE)
    \* a missing path has a hash of its own, for every class whose hash looks at the file
    /\ g.ex => /\ FileHashOf("File", p, Missing, FALSE) # FileHashOf("File", p, g, FALSE)
               /\ FileHashOf("ContentFile", p, Missing, FALSE) # FileHashOf("ContentFile", p, g, FALSE)
\* (constant-level: evaluated in the initial state only when used as an invariant)
HashLawsInit == nops = 0 => HashLaws
\* ... and as transitions: a step that keeps the bytes of an existing file keeps its content hash
ContentBytesOnly ==
  [][\A p \in Paths : (s.fs[p].ex /\ s'.fs[p].ex) =>
        ((FreshHash("ContentFile", p, s.fs) = FreshHash("ContentFile", p, s'.fs))
         <=> s.fs[p].bytes = s'.fs[p].bytes)]_vars

\* Model-level controls folded into the as-built runs (always TRUE; prints a WITNESS line when a
\* strict invariant is false in a reachable state, i.e. TLC has the counterexample).  Together with
\* the Unless-invariants this is "the invariant fails, and only through the named deviation".
Witness ==
  /\ (s.ob # 0 /\ ~FreshAt(s, s.ob) /\ "dir-copy-stale" \in s.dev)
        => PrintT("WITNESS FreshAfterOp dir-copy-stale")
  /\ (nops <= 1 /\ \E k \in OI(s) : ~ValidIffAt(s, k) /\ CMHit(s.objs[k].cls, s.objs[k].t, s.fs))
        => PrintT("WITNESS ValidIff content-missing")
  /\ (nops = 0 /\ ~HashTotal) => PrintT("WITNESS HashTotal content-missing")
  /\ (s.last.kind = "raise") => PrintT("WITNESS RunNeverRaises content-missing")

TypeOK == /\ Len(s.objs) <= MaxObjs
          /\ \A k \in OI(s) : s.objs[k].cls \in Classes /\ s.objs[k].t \in Targets(s.objs[k].cls)
          /\ \A k \in OI(s) : s.objs[k].hash = NoHash => CMHit(s.objs[k].cls, s.objs[k].t, s.fs)

(***************************************************************************)
(* C04                                                                     *)
(***************************************************************************)
RunSteps == {"exec", "replay", "raise"}
\* run() never raises because of the state of an external value ...
RunNeverRaises == s.last.kind # "raise"
\* ... as built it does, but only through the ContentFile deviation
RunRaisesOnlyThroughDev ==
  s.last.kind = "raise" => \E k \in 1..Len(s.cached) : CMHit(s.cached[k].cls, s.cached[k].t, s.fs)
\* the stored result is replayed iff there is one and every external value in it is still valid
ReplayIffValid ==
  s.last.kind \in {"exec", "replay"} => ((s.last.kind = "replay") <=> (s.last.had /\ s.last.allv))
\* a raise only ever stands in for a re-execution (the stored result was not valid)
RaiseOnlyWhenInvalid == s.last.kind = "raise" => (s.last.had /\ ~s.last.allv)
\* after a run the result reflects the current external state
ResultReflects ==
  s.last.kind \in {"exec", "replay"} =>
    \A k \in 1..Len(s.cached) :
       /\ s.cached[k].hash = FreshHash(s.cached[k].cls, s.cached[k].t, s.fs)
       /\ s.last.kind = "exec" => s.fs[WTarget(s.cached[k])] = FS(TaskBytes, lastop.m)
ExecCounts ==
  [][/\ s'.last.kind = "exec" => s'.count = s.count + 1
     /\ s'.last.kind # "exec" => s'.count = s.count]_vars

(***************************************************************************)
(* What the harness compares after every step (sequences / records only)   *)
(***************************************************************************)
ObjObs(S, k) ==
  [h |-> IF S.objs[k].hash = NoHash THEN Raise ELSE S.objs[k].hash,
   v |-> IsValid(S.objs[k], S.fs),
   f |-> Calc(S.objs[k].cls, S.objs[k].t, S.fs)]
Obs(S) ==
  [objs |-> [k \in 1..Len(S.objs) |-> ObjObs(S, k)],
   ob |-> S.ob, raised |-> IF S.raised THEN 1 ELSE 0, dev |-> S.dev,
   kind |-> S.last.kind, count |-> S.count,
   res |-> [k \in 1..Len(S.cached) |->
              [h |-> S.cached[k].hash, f |-> Calc(S.cached[k].cls, S.cached[k].t, S.fs)]],
   fs |-> [d \in Dirs |-> [n \in Names |-> S.fs[<<d, n>>]]]]
=============================================================================
