SPECIFICATION Spec
CONSTANTS
  MaxP = 3
  MaxC = 3
  MaxOps = 4
  Vals = {1}
VIEW View
INVARIANT OrderStrict
CHECK_DEADLOCK FALSE
