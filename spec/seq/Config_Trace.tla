---------------------------- MODULE Config_Trace ----------------------------
(* Code -> spec for C35: observations recorded from redun.config.Config are validated by TLC.
   A case is [cfg, ok, view, dict, dictr, back]:
     cfg    the configuration (defaults, sections with raw values) the INI text was rendered from
     ok     1 if Config.read_string succeeded
     view   what the object shows: <<[name, opts <<key, effective value or <<-1>>>>]>>
     dict   get_config_dict() as <<[name, opts]>>, ErrD-shaped if it raised
     dictr  get_config_dict(replace_config_dir=NewDir)
     back   the view of Config(config_dict=dict); <<[name |-> <<-1>>, opts |-> <<>>]>> if it raised
   One state per case (blocks of 64); one line "VERDICT [i, viewOK, dictOK, replOK, lawOK, rlawOK, dev]":
     viewOK  construction outcome and view are the model's (conformance)
     dictOK  dict is the as-built model's or the contract's; replOK likewise for dictr
     lawOK   the property on the recorded data: back = view (same sections, keys, effective values)
     rlawOK  the replacement law on the recorded data: dictr differs from dict only in values that
             contain LocalDir, and no value of dictr still contains it
     dev     1 if the model explains a failure by DollarNotReescaped *)
EXTENDS Config, Json, IOUtils
Cases == JsonDeserialize(IOEnv.TRACE_FILE)
N == Len(Cases)
BlockSize == 64
VARIABLES blk, i
vars == <<blk, i>>
Init == blk = 0 /\ i = 0
Next == \/ blk = 0 /\ blk' \in 1..((N + BlockSize - 1) \div BlockSize) /\ i' = 0
        \/ blk > 0 /\ i = 0 /\ blk' = blk
           /\ i' \in {j \in ((blk - 1) * BlockSize + 1)..(blk * BlockSize) : j <= N}
Spec == Init /\ [][Next]_vars
B(b) == IF b THEN 1 ELSE 0
SetOfOpts(opts) == {<<opts[j][1], opts[j][2]>> : j \in 1..Len(opts)}
SetOfView(v) == {<<v[j].name, SetOfOpts(v[j].opts)>> : j \in 1..Len(v)}
IsErr(d) == Len(d) = 1 /\ d[1].name = Missing
SameDict(d, e) == IF IsErr(d) \/ IsErr(e) THEN IsErr(d) /\ IsErr(e) ELSE SetOfView(d) = SetOfView(e)
ReplLaw(d0, d1) ==
  /\ Len(d0) = Len(d1)
  /\ \A j \in 1..Len(d0) :
       /\ d0[j].name = d1[j].name /\ Len(d0[j].opts) = Len(d1[j].opts)
       /\ \A k \in 1..Len(d0[j].opts) :
            LET v == d0[j].opts[k][2]
                w == d1[j].opts[k][2]
            IN /\ d0[j].opts[k][1] = d1[j].opts[k][1]
               /\ (~Contains(v, LocalDir) => w = v)
               /\ (~Contains(NewDir, LocalDir) => ~Contains(w, LocalDir))
Verdict ==
  i > 0 =>
    LET c == Cases[i]
        cons == Constructible(c.cfg)
        viewOK == (c.ok = 1) = cons /\ (cons => SetOfView(c.view) = View(c.cfg))
        wf == c.ok = 1 /\ ~IsErr(c.dict)
        dictOK == IF ~cons THEN TRUE
                  ELSE SameDict(c.dict, ToDict(c.cfg, FALSE, FALSE)) \/ SameDict(c.dict, ToDict(c.cfg, FALSE, TRUE))
        replOK == IF ~cons THEN TRUE
                  ELSE SameDict(c.dictr, ToDict(c.cfg, TRUE, FALSE)) \/ SameDict(c.dictr, ToDict(c.cfg, TRUE, TRUE))
        lawOK == wf => (~IsErr(c.back) /\ SetOfView(c.back) = SetOfView(c.view))
        rlawOK == wf => (~IsErr(c.dictr) /\ ReplLaw(c.dict, c.dictr))
        dev == cons /\ AllEffective(c.cfg) /\ HasLiteralDollar(c.cfg)
    IN PrintT("VERDICT " \o ToJson(<<i, B(viewOK), B(dictOK), B(replOK), B(lawOK), B(rlawOK), B(dev)>>))
=============================================================================
