---------------------------- MODULE Config_Trace ----------------------------
(* Code -> spec for C35: observations recorded from redun.config.Config are validated by TLC.
   A case is [cfg, ok, view, dict, dictr, back]:
     cfg    the configuration (defaults, sections with raw values) the INI text was rendered from
     ok     1 if Config.read_string succeeded
     view   what the object shows: <<[name, opts <<key, effective value or <<-1>>>>]>>
     dict   get_config_dict() as <<[name, opts]>>, ErrD-shaped if it raised
     dictr  get_config_dict(replace_config_dir=NewDir)
     back   the view of Config(config_dict=dict); <<[name |-> <<-1>>, opts |-> <<>>]>> if it raised
   One state per case (blocks of 64); one line "VERDICT [i, viewOK, dictOK, replOK, lawOK, rlawOK, dev]":
     viewOK  construction outcome and view are the model's (conformance)
     dictOK  dict is the as-built model's or the contract's; replOK likewise for dictr
     lawOK   the property on the recorded data: back = view (same sections, keys, effective values)
     rlawOK  the replacement law on the recorded data: dictr differs from dict only in values that
             contain LocalDir, and no value of dictr still contains it
     dev     1 if the model explains a failure by DollarNotReescaped *)
EXTENDS Config, Json, IOUtils
Cases == JsonDeserialize(IOEnv.TRACE_FILE)
N == Len(Cases)
BlockSize == 64
VARIABLES blk, i
vars == <<blk, i>>
Init == blk = 0 /\ i = 0
Next == \/ blk = 0 /\ blk' \in 1..((N + BlockSize - 1) \div BlockSize) /\ i' = 0
        \/ blk > 0 /\ i = 0 /\ blk' = blk
           /\ i' \in {j \in ((blk - 1) * BlockSize + 1)..(blk * BlockSize) : j <= N}
Spec == Init /\ [][Next]_vars
B(b) == IF b THEN 1 ELSE 0
IsErr(d) == Len(d) = 1 /\ d[1].name = Missing
SameDict(d, e) == IF IsErr(d) \/ IsErr(e) THEN IsErr(d) /\ IsErr(e) ELSE ViewSet(d) = ViewSet(e)
Verdict ==
  i > 0 =>
    LET c == Cases[i]
        cons == Constructible(c.cfg)
        view == IF cons THEN ViewSeq(c.cfg) ELSE <<>>
        viewOK == (c.ok = 1) = cons /\ (cons => ViewSet(c.view) = ViewSet(view))
        wf == c.ok = 1 /\ AllOK(c.view)
        dictOK == IF ~cons THEN TRUE
                  ELSE SameDict(c.dict, DictOf(view, FALSE, FALSE)) \/ SameDict(c.dict, DictOf(view, FALSE, TRUE))
        replOK == IF ~cons THEN TRUE
                  ELSE SameDict(c.dictr, DictOf(view, TRUE, FALSE)) \/ SameDict(c.dictr, DictOf(view, TRUE, TRUE))
        lawOK == wf => (~IsErr(c.dict) /\ ~IsErr(c.back) /\ ViewSet(c.back) = ViewSet(c.view))
        rlawOK == wf => (~IsErr(c.dictr) /\ ReplaceLaw(c.dict, c.dictr))
        dev == cons /\ AllOK(view) /\ HasLiteralDollar(view)
    IN PrintT("VERDICT " \o ToJson(<<i, B(viewOK), B(dictOK), B(replOK), B(lawOK), B(rlawOK), B(dev)>>))
=============================================================================
