-------------------------- MODULE FileValues_Trace --------------------------
(* Code -> spec: executions recorded from redun.file objects / a real Scheduler are validated
   against FileValues.tla.  A trace is [wf, steps]; a step is [op, obs].  The store is advanced
   with the logged operation (Pre must hold, Apply) and the logged observation must match the
   model's:
     - is_valid answers, the "call raised" flag, run outcome and execution count are compared
       literally;
     - hashes are compared up to renaming: the recorder interns the 40-digit hashes of one trace
       as small integers (0 = the computation raised) and the relation {<<token, model hash>>}
       accumulated over the trace must stay a bijection.  This is what checks that the real File
       hash is a function of exactly (path, size, mtime), the ContentFile hash of (path, bytes),
       an immutable hash of the path alone, a Dir hash of its member hashes ...
   Thousands of traces are batched in one TLC run (tid walks the list); one VERDICT line per
   trace: <<tid, code, first unmatched index>> (Code below).  The invariants of FileValues.tla are checked
   on every state of every accepted prefix. *)
EXTENDS FileValues, Json, IOUtils
Traces == JsonDeserialize(IOEnv.TRACE_FILE)
VARIABLES tid, l, tok
tvars == <<vars, tid, l, tok>>
CurT == Traces[tid]
Tok0 == {<<0, Raise>>}

\* pairs <<token, model hash>> a step contributes
Pairs(S, o) ==
  {<<o.objs[k].h, ObjObs(S, k).h>> : k \in 1..Len(S.objs)}
  \cup {<<o.objs[k].f, ObjObs(S, k).f>> : k \in 1..Len(S.objs)}
  \cup {<<o.res[k].h, S.cached[k].hash>> : k \in 1..Len(S.cached)}
  \cup {<<o.res[k].f, Calc(S.cached[k].cls, S.cached[k].t, S.fs)>> : k \in 1..Len(S.cached)}
Bij(P) == \A x \in P : \A y \in P : (x[1] = y[1]) <=> (x[2] = y[2])

ObsOK(S, o) ==
  /\ Len(o.objs) = Len(S.objs)
  /\ \A k \in 1..Len(S.objs) : o.objs[k].v = IsValid(S.objs[k], S.fs)
  /\ o.raised = (IF S.raised THEN 1 ELSE 0)
  /\ o.kind = S.last.kind /\ o.count = S.count
  /\ Len(o.res) = Len(S.cached)
  /\ Bij(tok \cup Pairs(S, o))

Done == l > Len(CurT.steps)
PreOK == ~Done /\ Pre(s, CurT.steps[l].op)
\* verdict: 1 accepted; 0 the observation at step l does not match; 2 the operation at step l is not
\* enabled in the model (for a run: the observed outcome is not admitted)
TInit == s = Store(Traces[1].wf) /\ nops = 0 /\ lastop = NoOp /\ tid = 1 /\ l = 1 /\ tok = Tok0
NextTrace(code) ==
  /\ PrintT("VERDICT " \o ToJson(<<tid, code, l>>))
  /\ tid < Len(Traces)
  /\ tid' = tid + 1 /\ l' = 1 /\ s' = Store(Traces[tid + 1].wf) /\ nops' = 0
  /\ lastop' = NoOp /\ tok' = Tok0
TStep ==
  IF Done THEN NextTrace(1)
  ELSE IF ~PreOK THEN NextTrace(2)
  ELSE LET A == Apply(s, CurT.steps[l].op) IN
       IF ObsOK(A, CurT.steps[l].obs)
       THEN /\ s' = A /\ lastop' = CurT.steps[l].op /\ nops' = nops + 1
            /\ tok' = tok \cup Pairs(A, CurT.steps[l].obs)
            /\ l' = l + 1 /\ tid' = tid
       ELSE NextTrace(0)
TNext == TStep
TSpec == TInit /\ [][TNext]_tvars
\* action properties of FileValues.tla restated over the trace run (a new trace resets the store)
TContentBytesOnly ==
  [][tid' = tid => \A p \in Paths : (s.fs[p].ex /\ s'.fs[p].ex) =>
        ((FreshHash("ContentFile", p, s.fs) = FreshHash("ContentFile", p, s'.fs))
         <=> s.fs[p].bytes = s'.fs[p].bytes)]_tvars
TExecCounts ==
  [][tid' = tid => /\ s'.last.kind = "exec" => s'.count = s.count + 1
                   /\ s'.last.kind # "exec" => s'.count = s.count]_tvars
=============================================================================
