------------------------------ MODULE Tags_Trace ------------------------------
(* Code -> spec: histories executed on the real tag tables (RedunBackendDb on SQLite) are validated
   against Tags.tla.  A trace is [steps |-> <<[op, obs]>>, nodes, edges]: after every backend call
   the harness recorded the current pairs per entity (with multiplicities), whether the call
   raised, and the table sizes; at the end the whole Tag / TagEdit graph (nodes numbered 1..n,
   node = <<entity, key, value token, is_current>>, edge = <<parent, child>>).

   The model is advanced with the logged call (Apply, with the deviations in Devs built in).
   Contract level (decides acceptance): the logged set of current pairs and the error flag equal the
   model's after every call, and the logged edit graph is acyclic.  As-built level (reported as
   drift, never as rejection): multiplicities and table sizes after every call and the final graph, rebuilt from the
   rows as terms, equal the model's.  Thousands of traces are batched in one TLC run; one VERDICT
   line per trace: <<tid, "ok" | "step" | "cyclic", position, drift, deviations taken>>.  Every
   invariant of Tags.tla is evaluated on every state of every accepted prefix. *)
EXTENDS Tags, Json, IOUtils
Traces == JsonDeserialize(IOEnv.TRACE_FILE)
VARIABLES tid, l, drift
tvars == <<vars, tid, l, drift>>
Cur == Traces[tid]
Steps == Cur.steps

TInit == s = Empty /\ nops = 0 /\ lastop = NoOp /\ tid = 1 /\ l = 1 /\ drift = FALSE

ObsMatches(S2, o) == /\ \A e \in Entities : {<<x[1], x[2]>> : x \in ToSet(o.cur[e])} = Current(S2, e)
                     /\ o.err = (IF S2.err THEN 1 ELSE 0)
SizesMatch(S2, o) == /\ o.nt = Cardinality(S2.tags) /\ o.ne = Cardinality(S2.edits)
                     /\ o.nc = Cardinality(S2.cur)
                     /\ \A e \in Entities : ToSet(o.cur[e]) = CurrentBag(S2, e)
\* one model call per step: S2 is evaluated once and used for the comparison and for the successor
More == l <= Len(Steps)
Next2 == IF More THEN Apply(s, Steps[l].op) ELSE s

\* the recorded graph
ObsEdges == ToSet(Cur.edges)
ObsAcyclic == AcyclicRel(ObsEdges)
RECURSIVE ObsId(_)
ObsId(i) == TagId(Cur.nodes[i][1], Cur.nodes[i][2], Cur.nodes[i][3],
                  {ObsId(ed[1]) : ed \in {x \in ObsEdges : x[2] = i}})
ObsGraphMatches == /\ {ObsId(i) : i \in 1..Len(Cur.nodes)} = s.tags
                   /\ {ObsId(i) : i \in {j \in 1..Len(Cur.nodes) : Cur.nodes[j][4] = 1}} = s.cur
                   /\ Len(Cur.nodes) = Cardinality(s.tags)
                   /\ Cardinality(ObsEdges) = Cardinality(s.edits)

Verdict == IF l <= Len(Steps) THEN "step" ELSE IF ~ObsAcyclic THEN "cyclic" ELSE "ok"
FinalDrift == l > Len(Steps) /\ ObsAcyclic /\ ~ObsGraphMatches

TNext ==
  LET S2 == Next2
      ok == More /\ ObsMatches(S2, Steps[l].obs)
  IN IF ok
     THEN /\ s' = S2 /\ lastop' = Steps[l].op /\ nops' = nops + 1
          /\ drift' = (drift \/ ~SizesMatch(S2, Steps[l].obs))
          /\ l' = l + 1 /\ tid' = tid
     ELSE /\ PrintT("VERDICT " \o ToJson(<<tid, Verdict, l, IF drift \/ FinalDrift THEN 1 ELSE 0,
                                            SetToSeq(s.dev)>>))
          /\ tid < Len(Traces)
          /\ tid' = tid + 1 /\ l' = 1 /\ s' = Empty /\ nops' = 0 /\ lastop' = NoOp /\ drift' = FALSE
TSpec == TInit /\ [][TNext]_tvars

\* the action properties of Tags.tla restated over the trace run (a new trace resets the tables)
TStepRefines ==
  [][(tid' = tid /\ s'.devstep = {}) => \A e \in Entities :
        Current(s', e) = (IF e = lastop'.e THEN AbsSet(Current(s, e), lastop') ELSE Current(s, e))]_tvars
TNoResurrection ==
  [][tid' = tid => /\ s.tags \subseteq s'.tags /\ s.edits \subseteq s'.edits
                   /\ (("PlainNoRevive" \in Devs \/ CliOnly) => (s.tags \ s.cur) \subseteq (s'.tags \ s'.cur))]_tvars
=============================================================================
