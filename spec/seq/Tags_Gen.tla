------------------------------- MODULE Tags_Gen -------------------------------
(* Behaviour generator for spec -> code replay: Tags plus a history variable.  With `hist` in the
   state the state graph is the tree of all call sequences; every state at depth MaxOps prints its
   path once ("BEH <json>": per call the operation and the observation ObsStep, and the complete
   tag graph of the final state).  Used exhaustively for small MaxOps and with -simulate for long
   random behaviours. *)
EXTENDS Tags, Json
VARIABLE hist
GInit == Init /\ hist = <<>>
GNext == Next /\ hist' = Append(hist, [op |-> lastop', obs |-> ObsStep(s')])
GSpec == GInit /\ [][GNext]_<<vars, hist>>
\* -simulate: TLC would evaluate Emit on *every* successor of the last state of a trace; one random
\* call per step instead makes one trace = one behaviour (the vocabulary may then be large)
RNext == /\ nops < MaxOps
         /\ \E op \in {RandomElement(Ops)} : s' = Apply(s, op) /\ lastop' = op
         /\ nops' = nops + 1
         /\ hist' = Append(hist, [op |-> lastop', obs |-> ObsStep(s')])
RSpec == GInit /\ [][RNext]_<<vars, hist>>
Emit == (nops = MaxOps) => PrintT("BEH " \o ToJson([h |-> hist, g |-> ObsGraph(s)]))
=============================================================================
