-------------------------------- MODULE Tags --------------------------------
(***************************************************************************)
(* The tag tables of redun/backends/db/__init__.py as a state machine at   *)
(* backend-call granularity (C24), refining a key-value multiset per       *)
(* entity.                                                                 *)
(*                                                                         *)
(* As-built state (one record S, so that a call is a function S -> S):     *)
(*   tags   set of tag ids.  A tag id is the pre-image of hash_tag:        *)
(*          [e, k, v, ps] = entity id, key, JSON value token, *set* of     *)
(*          parent tag ids (the code hashes the sorted list of parent      *)
(*          hashes).  Ids are therefore well-founded terms.                *)
(*   cur    the tags with is_current = TRUE                                *)
(*   edits  TagEdit rows <<parent, child>>                                 *)
(* Abstract state:                                                         *)
(*   model  [entity -> set of <<key, value>>], driven only by AbsApply     *)
(*   rmodel the same, but re-synchronised with the tables after a step     *)
(*          that went through a named deviation (keeps the step contract   *)
(*          checkable after a deviation)                                   *)
(* Ghosts: dev (deviations taken so far), devstep (taken by the last       *)
(*   call), err (last call raised).                                        *)
(*                                                                         *)
(* JSON values are abstract tokens; "i1" (1), "f1" (1.0), "s1" ("1"),      *)
(* "null", "true" are pairwise different values as in the JSON column.     *)
(*                                                                         *)
(* Calls (exactly what the CLI commands make, redun/cli.py):               *)
(*   add     record_tags(type, e, kvs, new=True)        redun tag add      *)
(*   update  record_tags(type, e, kvs, update=True)     redun tag update   *)
(*   rm      delete_tags(e, kvs, keys)                  redun tag rm       *)
(* neighbouring backend API (not reachable from the tag commands):         *)
(*   record       record_tags(type, e, kvs)             scheduler / tasks  *)
(*   update_tags  update_tags(type, e, old_keys, kvs)                      *)
(*                                                                         *)
(* Named deviations (members of the constant Devs are "as built"; with     *)
(* Devs = {} the machine is the repaired one):                             *)
(*   NullNotDeletable     delete_tags compares the JSON column with        *)
(*                        CAST(NULL AS JSON): a pair whose value is JSON   *)
(*                        null never matches                               *)
(*   DupPairRaises        the same new pair twice in one call builds two   *)
(*                        rows with one tag_hash: IntegrityError, the      *)
(*                        call's own rows are rolled back (walks of        *)
(*                        superseded pairs are already committed)          *)
(*   EmptyRmDeletesAll    delete_tags with no pair and no key: or_() of    *)
(*                        nothing filters nothing, every current tag of    *)
(*                        the entity is superseded                         *)
(*   PlainNoRevive        (record / update_tags only) a tag id that exists *)
(*                        and is not current stays not current, because    *)
(*                        only new=True walks down to a fresh leaf         *)
(*   UpdateTagsEmptyNoop  (update_tags only) no new pair: record_tags      *)
(*                        returns early, the old keys stay                 *)
(***************************************************************************)
EXTENDS Naturals, Sequences, FiniteSets, TLC, SequencesExt

CONSTANTS Entities,   \* entity ids (strings)
          Keys,       \* tag keys (strings)
          Vals,       \* JSON value tokens (strings)
          MaxOps,     \* calls per behaviour
          MaxArgs,    \* Len(kvs) + Len(keys) of a generated call
          OpKinds,    \* subset of {"add", "update", "rm", "record", "update_tags"}
          Devs        \* deviations that are built in

AllDevs == {"NullNotDeletable", "DupPairRaises", "EmptyRmDeletesAll", "PlainNoRevive",
            "UpdateTagsEmptyNoop"}
NullTok == "null"

TagId(e, k, v, ps) == [e |-> e, k |-> k, v |-> v, ps |-> ps]
DeleteTag(ps) == TagId("", "", NullTok, ps)

Empty == [tags |-> {}, cur |-> {}, edits |-> {},
          model |-> [e \in Entities |-> {}], rmodel |-> [e \in Entities |-> {}],
          dev |-> {}, devstep |-> {}, err |-> FALSE]

Superseded(S, t) == \E ed \in S.edits : ed[1] = t
CurTags(S, e) == {t \in S.cur : t.e = e}
Current(S, e) == {<<t.k, t.v>> : t \in CurTags(S, e)}
\* multiset view: <<key, value, multiplicity>>
CurrentBag(S, e) == {<<p[1], p[2], Cardinality({t \in CurTags(S, e) : t.k = p[1] /\ t.v = p[2]})>> :
                       p \in Current(S, e)}
PairSet(kvs) == {<<kvs[i][1], kvs[i][2]>> : i \in 1..Len(kvs)}
KeySet(kvs) == {kvs[i][1] : i \in 1..Len(kvs)}
HasDup(sq) == \E i, j \in 1..Len(sq) : i < j /\ sq[i] = sq[j]

(***************************************************************************)
(* record_tags, statement by statement.                                    *)
(***************************************************************************)
RECURSIVE RecordTags(_, _, _, _, _, _), WalkAll(_, _, _, _)

RecordTags(S, e, kvs, parents0, update, new0) ==
  IF Len(kvs) = 0 THEN S                                        \* if not tags: return []
  ELSE
  LET parents == IF update                                      \* current tags with these keys
                 THEN parents0 \cup {t \in S.cur : t.e = e /\ t.k \in KeySet(kvs)}
                 ELSE parents0
      new == new0 \/ update
      rows == [i \in 1..Len(kvs) |-> TagId(e, kvs[i][1], kvs[i][2], parents)]
      \* new=True: rows that are already superseded are re-recorded one by one below their own
      \* id ("walking down the tag graph until we walk off it")
      sup == IF new THEN SelectSeq(rows, LAMBDA r : Superseded(S, r)) ELSE <<>>
      rest == IF new THEN SelectSeq(rows, LAMBDA r : ~Superseded(S, r)) ELSE rows
      S1 == WalkAll(S, e, sup, 1)
      fresh == SelectSeq(rest, LAMBDA r : r \notin S1.tags)
      stale == {r \in ToSet(rest) : r \in S1.tags /\ r \notin S1.cur}
  IN IF HasDup(fresh) /\ "DupPairRaises" \in Devs
     THEN [S1 EXCEPT !.err = TRUE, !.devstep = @ \cup {"DupPairRaises"}]
     ELSE [S1 EXCEPT !.tags = @ \cup ToSet(rest),
                     !.edits = @ \cup {<<p, r>> : p \in parents, r \in ToSet(rest)},
                     !.cur = ((@ \ parents) \cup ToSet(fresh))
                             \cup (IF "PlainNoRevive" \in Devs THEN {} ELSE stale),
                     !.devstep = @ \cup (IF stale # {} /\ "PlainNoRevive" \in Devs
                                         THEN {"PlainNoRevive"} ELSE {})]

WalkAll(S, e, sup, i) ==
  IF i > Len(sup) THEN S
  ELSE WalkAll(RecordTags(S, e, <<<<sup[i].k, sup[i].v>>>>, {sup[i]}, FALSE, TRUE), e, sup, i + 1)

DeleteTags(S, e, kvs, keys) ==
  LET nullBroken == "NullNotDeletable" \in Devs
      Match(t, honest) == \/ \E i \in 1..Len(kvs) : /\ t.k = kvs[i][1] /\ t.v = kvs[i][2]
                                                   /\ (honest \/ ~nullBroken \/ kvs[i][2] # NullTok)
                          \/ t.k \in keys
      nothing == Len(kvs) = 0 /\ keys = {}
      wanted == {t \in CurTags(S, e) : Match(t, TRUE)}
      parents == IF nothing /\ "EmptyRmDeletesAll" \in Devs THEN CurTags(S, e)
                 ELSE {t \in CurTags(S, e) : Match(t, FALSE)}
      d == (IF parents # wanted /\ ~nothing THEN {"NullNotDeletable"} ELSE {})
           \cup (IF parents # wanted /\ nothing THEN {"EmptyRmDeletesAll"} ELSE {})
      S1 == RecordTags(S, "", <<<<"", NullTok>>>>, parents, FALSE, FALSE)
  IN [S1 EXCEPT !.devstep = (@ \ {"PlainNoRevive"}) \cup d]   \* the parentless delete tag is no pair

UpdateTags(S, e, oldkeys, kvs) ==
  LET parents == {t \in CurTags(S, e) : t.k \in oldkeys}
      S1 == RecordTags(S, e, kvs, parents, FALSE, FALSE)
  IN IF Len(kvs) = 0 /\ parents # {}
     THEN IF "UpdateTagsEmptyNoop" \in Devs THEN [S1 EXCEPT !.devstep = @ \cup {"UpdateTagsEmptyNoop"}]
          ELSE [S1 EXCEPT !.cur = @ \ parents]      \* repaired reading: the old keys go away
     ELSE S1

(***************************************************************************)
(* The multiset model.                                                     *)
(***************************************************************************)
Op(n, e, kvs, keys) == [n |-> n, e |-> e, kvs |-> kvs, keys |-> keys]

AbsSet(cur, op) ==
  CASE op.n \in {"add", "record"} -> cur \cup PairSet(op.kvs)
    [] op.n = "update" -> {p \in cur : p[1] \notin KeySet(op.kvs)} \cup PairSet(op.kvs)
    [] op.n = "rm" -> {p \in cur : p \notin PairSet(op.kvs) /\ p[1] \notin ToSet(op.keys)}
    [] op.n = "update_tags" -> {p \in cur : p[1] \notin ToSet(op.keys)} \cup PairSet(op.kvs)

AbsApply(M, op) == [M EXCEPT ![op.e] = AbsSet(@, op)]

Apply(S, op) ==
  LET S0 == [S EXCEPT !.err = FALSE, !.devstep = {}]
      S1 == CASE op.n = "add" -> RecordTags(S0, op.e, op.kvs, {}, FALSE, TRUE)
              [] op.n = "update" -> RecordTags(S0, op.e, op.kvs, {}, TRUE, FALSE)
              [] op.n = "rm" -> DeleteTags(S0, op.e, op.kvs, ToSet(op.keys))
              [] op.n = "record" -> RecordTags(S0, op.e, op.kvs, {}, FALSE, FALSE)
              [] op.n = "update_tags" -> UpdateTags(S0, op.e, ToSet(op.keys), op.kvs)
  IN [S1 EXCEPT !.model = AbsApply(S.model, op),
                !.rmodel = IF S1.devstep = {} THEN AbsApply(S.rmodel, op)
                           ELSE [e \in Entities |-> Current(S1, e)],
                !.dev = S.dev \cup S1.devstep]

(***************************************************************************)
(* Call vocabulary of the generator.                                       *)
(***************************************************************************)
KVS == SetToSeq(Keys \X Vals)
KYS == SetToSeq(Keys)
KvSeqs(n) == IF n = 0 THEN {<<>>}
             ELSE IF n = 1 THEN {<<KVS[i]>> : i \in 1..Len(KVS)}
             ELSE {<<KVS[i], KVS[j]>> : i \in 1..Len(KVS), j \in 1..Len(KVS)} \* order and duplicates matter to the code
KeySeqs(n) == IF n = 0 THEN {<<>>}
              ELSE IF n = 1 THEN {<<KYS[i]>> : i \in 1..Len(KYS)}
              ELSE {<<KYS[q[1]], KYS[q[2]]>> : q \in {r \in (1..Len(KYS)) \X (1..Len(KYS)) : r[1] < r[2]}}
Lens == 0..(IF MaxArgs < 2 THEN MaxArgs ELSE 2)
Ops ==
  UNION {{Op(n, e, kvs, <<>>) : kvs \in KvSeqs(a)} :
           n \in OpKinds \cap {"add", "update", "record"}, e \in Entities, a \in Lens}
  \cup UNION {{Op(n, e, kvs, ks) : kvs \in KvSeqs(a[1]), ks \in KeySeqs(a[2])} :
                n \in OpKinds \cap {"rm", "update_tags"}, e \in Entities,
                a \in {b \in Lens \X Lens : b[1] + b[2] <= MaxArgs}}

VARIABLES s, nops, lastop
vars == <<s, nops, lastop>>
NoOp == Op("init", "", <<>>, <<>>)

Init == s = Empty /\ nops = 0 /\ lastop = NoOp
Next == /\ nops < MaxOps
        /\ \E op \in Ops : s' = Apply(s, op) /\ lastop' = op
        /\ nops' = nops + 1
Spec == Init /\ [][Next]_vars

(***************************************************************************)
(* Properties (C24).                                                       *)
(***************************************************************************)
\* the statement: after every call the current tags are the model's -- true as long as no
\* deviation was taken ...
CurrentIsModelUnlessDev == s.dev = {} => \A e \in Entities : Current(s, e) = s.model[e]
\* ... and false otherwise (model-level control: violated iff Devs # {})
CurrentIsModelStrict == \A e \in Entities : Current(s, e) = s.model[e]
\* the same contract step by step, also after a deviation (model re-synchronised there)
CurrentIsRModel == \A e \in Entities : Current(s, e) = s.rmodel[e]
StepRefines ==
  [][s'.devstep = {} => \A e \in Entities :
        Current(s', e) = (IF e = lastop'.e THEN AbsSet(Current(s, e), lastop') ELSE Current(s, e))]_vars
\* re-adding a pair (deleted, superseded or never seen) makes it current
ReAddCurrent == (lastop.n \in {"add", "update"} /\ ~s.err) => PairSet(lastop.kvs) \subseteq Current(s, lastop.e)
\* NOT an invariant (kept as a documented control): the tables can hold two current rows for one
\* pair -- add k=1; update k="1"; add k="1" leaves <<k,"1",{}>> and <<k,"1",{<<k,1,{}>>}>> both
\* current, and get_tags returns the value twice.  The contract above is on the *set* of pairs;
\* multiplicities (CurrentBag) are compared at the as-built level only.
UniqueCurrentPair == \A t, u \in s.cur : (t.e # "" /\ t.e = u.e /\ t.k = u.k /\ t.v = u.v) => t = u
CliOnly == OpKinds \subseteq {"add", "update", "rm"}

\* the edit graph is acyclic (transitive closure, not the term structure of the ids)
RECURSIVE Closure(_, _)
Closure(R, n) ==
  LET R2 == R \cup {<<z[1][1], z[2][2]>> : z \in {y \in R \X R : y[1][2] = y[2][1]}}
  IN IF n = 0 \/ R2 = R THEN R2 ELSE Closure(R2, n - 1)
AcyclicRel(R) == \A ed \in Closure(R, Cardinality(R)) : ed[1] # ed[2]
Acyclic == AcyclicRel(s.edits)

\* shape of the tables
GraphWF == /\ s.cur \subseteq s.tags
           /\ \A t \in s.tags : /\ t.ps \subseteq s.tags
                                /\ {ed[1] : ed \in {x \in s.edits : x[2] = t}} = t.ps
           /\ \A ed \in s.edits : ed[1] \in s.tags /\ ed[2] \in s.tags
           /\ \A t \in s.cur : ~Superseded(s, t)
           /\ (CliOnly => \A t \in s.tags \ s.cur : Superseded(s, t))
           /\ \A t \in s.tags : t.e = "" => (t.k = "" /\ t.v = NullTok /\ t \in s.cur)
\* a superseded tag id never becomes current again; rows are never removed
NoResurrection == [][/\ s.tags \subseteq s'.tags /\ s.edits \subseteq s'.edits
                     /\ (("PlainNoRevive" \in Devs \/ CliOnly) => (s.tags \ s.cur) \subseteq (s'.tags \ s'.cur))]_vars
\* deviations only arise where the description above says
DevScope == /\ s.devstep \subseteq Devs
            /\ ("NullNotDeletable" \in s.devstep => lastop.n = "rm" /\ \E i \in 1..Len(lastop.kvs) : lastop.kvs[i][2] = NullTok)
            /\ ("DupPairRaises" \in s.devstep <=> s.err)
            /\ (s.err => HasDup(lastop.kvs))
            /\ ("EmptyRmDeletesAll" \in s.devstep => lastop.n = "rm" /\ Len(lastop.kvs) = 0 /\ Len(lastop.keys) = 0)
            /\ (s.devstep \cap {"PlainNoRevive", "UpdateTagsEmptyNoop"} # {} => lastop.n \in {"record", "update_tags"})
TypeOK == /\ nops \in 0..MaxOps
          /\ \A e \in Entities : s.model[e] \subseteq Keys \X Vals
          /\ \A t \in s.tags : (t.e \in Entities /\ t.k \in Keys /\ t.v \in Vals) \/ t.e = ""

(***************************************************************************)
(* Observation compared with the implementation.                           *)
(***************************************************************************)
ObsStep(S) == [cur |-> [e \in Entities |-> SetToSeq(CurrentBag(S, e))],
               err |-> IF S.err THEN 1 ELSE 0,
               devstep |-> SetToSeq(S.devstep),
               nt |-> Cardinality(S.tags), ne |-> Cardinality(S.edits), nc |-> Cardinality(S.cur)]
\* the whole graph, flat: node i = <<entity, key, value, is_current, indices of the parents>>
ObsGraph(S) ==
  LET ts == SetToSeq(S.tags)
      Idx(t) == CHOOSE i \in 1..Len(ts) : ts[i] = t
  IN [nodes |-> [i \in 1..Len(ts) |-> <<ts[i].e, ts[i].k, ts[i].v, IF ts[i] \in S.cur THEN 1 ELSE 0,
                                         SetToSeq({Idx(p) : p \in ts[i].ps})>>]]
=============================================================================
