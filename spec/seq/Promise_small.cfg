SPECIFICATION Spec
CONSTANTS
  MaxP = 4
  MaxC = 3
  MaxOps = 4
  Vals = {1, 2}
VIEW View
INVARIANT TypeOK
INVARIANT ExactlyOnce
INVARIANT NoPendingCallbacksOnSettled
INVARIANT OrderUnlessReentrant
INVARIANT AllOK
INVARIANT WaitOK
PROPERTY SettleOnce
PROPERTY AllRejectsAtFirst
CHECK_DEADLOCK FALSE
