----------------------------- MODULE ValueStore -----------------------------
(***************************************************************************)
(* Where the bytes of a recorded value live (C31):                         *)
(* redun/backends/db/__init__.py record_value / get_value /                *)
(* _get_value_data, redun/backends/value_store.py ValueStore.put/get/has,  *)
(* redun/value.py FileCache.serialize/deserialize.                         *)
(*                                                                         *)
(* A value is <<kind, size class, id>>.                                    *)
(*   kind "plain": serialized bytes Ser(v) = <<"ser", v>> of length        *)
(*                 SLen[size class]                                         *)
(*   kind "fc":    a FileCache-typed value: serialize() writes the pickle  *)
(*                 <<"pk", v>> to the file named after its content hash    *)
(*                 and returns the FILE NAME <<"fn", v>> (short) -- that is *)
(*                 what is hashed and stored                               *)
(* The hash of a byte string is injective, so the key of v is Ser(v).      *)
(*                                                                         *)
(* State: min (value_store_min_size; the store itself is always configured *)
(* -- a database opened without its store is a configuration error, not a  *)
(* case of this property), row[k] (table value: none | inline bytes | empty *)
(* placeholder), store[k] (object in the value store), fcf[v] (file-cache   *)
(* file).                                                                  *)
(*                                                                         *)
(* Actions, as coded:                                                      *)
(*   Record(v)   reject if the bytes are longer than Max; if the bytes     *)
(*               reach min: ValueStore.put (a no-op if the object exists)   *)
(*               and the row data becomes the empty placeholder; if the    *)
(*               row exists: return (the row is left alone -- deviation     *)
(*               RerecordKeepsDanglingPlaceholder); else insert the row.    *)
(*               A second Record is "RecordAgain".                          *)
(*   PutOnly(v)  a Record that died between ValueStore.put and the commit  *)
(*   Get(k)      row missing -> absent; inline -> deserialize row bytes;   *)
(*               placeholder -> ValueStore.get, missing -> absent;         *)
(*               FileCache: file missing -> absent (InvalidValueError)     *)
(*   DelStore(k) the store object disappears                               *)
(*   DelFile(v)  the file-cache file disappears                            *)
(*   SetMin(n)   the database is reopened with another value_store_min_size *)
(***************************************************************************)
EXTENDS Naturals, Sequences, FiniteSets, TLC

CONSTANTS Kinds,      \* subset of {"plain", "fc"}
          Sizes,      \* size classes, subset of DOMAIN SLen
          Ids,        \* value ids per kind and size
          MinChoices, \* values of value_store_min_size
          Max,        \* max_value_size
          MaxOps,
          Dev         \* deviations switched on

DevNames == {"RerecordKeepsDanglingPlaceholder"}

\* abstract lengths of the size classes: "atmax" is exactly Max, "over" is Max + 1
SLen == [small |-> 1, mid |-> 5, atmax |-> Max, over |-> Max + 1]
FnLen == 2   \* a file name is short

Vals == {<<k, s, i>> : k \in Kinds, s \in Sizes, i \in Ids}
Kind(v) == v[1]
Ser(v) == IF Kind(v) = "fc" THEN <<"fn", v>> ELSE <<"ser", v>>
DLen(v) == IF Kind(v) = "fc" THEN FnLen ELSE SLen[v[2]]
Key(v) == Ser(v)          \* value_hash = injective hash of the stored bytes
Keys == {Key(v) : v \in Vals}
ValOfKey(k) == k[2]

Absent == <<"absent">>
None == [st |-> "none", data |-> <<>>]

S0(mn) == [min |-> mn, row |-> [k \in Keys |-> None], store |-> [k \in Keys |-> <<>>],
           fcf |-> [v \in Vals |-> <<>>]]

(***************************************************************************)
(* get_value                                                               *)
(***************************************************************************)
\* bytes -> value (TypeRegistry.deserialize); a FileCache file name is resolved through the file
Deser(S, data) ==
  IF data[1] = "ser" THEN data[2]
  ELSE LET f == S.fcf[data[2]] IN IF f = <<>> THEN Absent ELSE f[2]

Get(S, k) ==
  LET rw == S.row[k]
  IN IF rw.st = "none" THEN Absent
     ELSE IF rw.st = "inline" THEN Deser(S, rw.data)
     ELSE IF S.store[k] = <<>> THEN Absent ELSE Deser(S, S.store[k])

(***************************************************************************)
(* record_value                                                            *)
(***************************************************************************)
Record(D, S, v) ==
  IF DLen(v) > Max THEN [S |-> S, res |-> <<"toolarge">>]
  ELSE LET k == Key(v)
           data == Ser(v)
           off == DLen(v) >= S.min
           \* FileCache.serialize writes the file first (overwriting)
           S1 == IF Kind(v) = "fc" THEN [S EXCEPT !.fcf[v] = <<"pk", v>>] ELSE S
           \* ValueStore.put: nothing happens if the object exists
           S2 == IF off /\ S1.store[k] = <<>> THEN [S1 EXCEPT !.store[k] = data] ELSE S1
           rw == S2.row[k]
           S3 == IF rw.st = "none"
                 THEN [S2 EXCEPT !.row[k] = IF off THEN [st |-> "placeholder", data |-> <<>>]
                                                   ELSE [st |-> "inline", data |-> data]]
                 ELSE IF rw.st = "placeholder" /\ ~off /\ "RerecordKeepsDanglingPlaceholder" \notin D
                 THEN [S2 EXCEPT !.row[k] = [st |-> "inline", data |-> data]]   \* repaired
                 ELSE S2                                                        \* as coded: row untouched
       IN [S |-> S3, res |-> <<"ok", k>>]

PutOnly(S, v) ==
  IF DLen(v) > Max \/ DLen(v) < S.min THEN S
  ELSE LET S1 == IF Kind(v) = "fc" THEN [S EXCEPT !.fcf[v] = <<"pk", v>>] ELSE S
       IN IF S1.store[Key(v)] = <<>> THEN [S1 EXCEPT !.store[Key(v)] = Ser(v)] ELSE S1

Op(n, v, mn) == [n |-> n, v |-> v, mn |-> mn]
NoOp == Op("init", <<>>, 0)

Apply(D, S, op) ==
  CASE op.n = "record" -> Record(D, S, op.v)
    [] op.n = "putonly" -> [S |-> PutOnly(S, op.v), res |-> <<"none">>]
    [] op.n = "delstore" -> [S |-> [S EXCEPT !.store[Key(op.v)] = <<>>], res |-> <<"none">>]
    [] op.n = "delfile" -> [S |-> [S EXCEPT !.fcf[op.v] = <<>>], res |-> <<"none">>]
    [] op.n = "setmin" -> [S |-> [S EXCEPT !.min = op.mn], res |-> <<"none">>]
    [] op.n = "get" -> [S |-> S, res |-> Get(S, Key(op.v))]
    [] OTHER -> [S |-> S, res |-> <<"none">>]

Ops(S) ==
  {Op("record", v, 0) : v \in Vals}
  \cup {Op("putonly", v, 0) : v \in {v \in Vals : DLen(v) <= Max /\ DLen(v) >= S.min /\ S.store[Key(v)] = <<>>}}
  \cup {Op("delstore", v, 0) : v \in {v \in Vals : S.store[Key(v)] # <<>>}}
  \cup {Op("delfile", v, 0) : v \in {v \in Vals : S.fcf[v] # <<>>}}
  \cup {Op("setmin", <<>>, mn) : mn \in MinChoices \ {S.min}}

VARIABLES s,       \* the store as built (Dev)
          sfix,    \* the repaired code
          fired,   \* a deviation made a difference
          lastop, lastres, nops
vars == <<s, sfix, fired, lastop, lastres, nops>>

Init == /\ \E mn \in MinChoices : s = S0(mn) /\ sfix = S0(mn)
        /\ fired = {} /\ lastop = NoOp /\ lastres = <<"none">> /\ nops = 0
Step(op) == LET a == Apply(Dev, s, op)
                f == Apply({}, sfix, op)
            IN /\ s' = a.S /\ sfix' = f.S
               /\ lastres' = a.res /\ lastop' = op
               /\ fired' = fired \cup {d \in Dev : Apply(Dev, s, op).S # Apply(Dev \ {d}, s, op).S}
               /\ nops' = nops + 1
Next == nops < MaxOps /\ \E op \in Ops(s) : Step(op)
Spec == Init /\ [][Next]_vars

(***************************************************************************)
(* Properties (C31)                                                        *)
(***************************************************************************)
TypeOK == /\ \A k \in Keys : s.row[k].st \in {"none", "inline", "placeholder"}
          /\ \A k \in Keys : (s.row[k].st = "inline") <=> (s.row[k].data # <<>>)
          /\ s.min \in MinChoices

\* Get returns the value whose hash is the key, or "absent" -- never a different value
GetSoundIn(S) == \A k \in Keys : LET g == Get(S, k) IN g = Absent \/ Key(g) = k
GetSound == GetSoundIn(s) /\ GetSoundIn(sfix)

\* the key of a value does not depend on where its bytes go (any threshold)
SameKeyAnywhere ==
  \A v \in Vals : \A mn \in MinChoices :
     LET rr == Record(Dev, [s EXCEPT !.min = mn], v) IN rr.res[1] = "ok" => rr.res[2] = Key(v)

\* oversize is rejected, nothing is written (not truncated): checked on every step
OversizeRejected ==
  [][(lastop'.n = "record" /\ DLen(lastop'.v) > Max) => (lastres' = <<"toolarge">> /\ s' = s)]_vars
AcceptedUpToMax ==
  [][(lastop'.n = "record" /\ DLen(lastop'.v) <= Max) => lastres' = <<"ok", Key(lastop'.v)>>]_vars

\* a value that has just been recorded reads back (repaired code: always; as built: unless the
\* deviation fired)
ReadsBackIn(S, op) == op.n = "record" /\ DLen(op.v) <= Max => Get(S, Key(op.v)) = op.v
ReadsBackRepaired == ReadsBackIn(sfix, lastop)
ReadsBackUnlessFired == fired # {} \/ ReadsBackIn(s, lastop)
ReadsBackStrict == ReadsBackIn(s, lastop)

\* offloaded bytes missing -> absent; present -> the value (location is transparent)
MissingReadsAbsent ==
  \A k \in Keys : s.row[k].st = "placeholder" /\ s.store[k] = <<>> => Get(s, k) = Absent
Transparent ==
  \A v \in Vals : LET k == Key(v) IN
     (Kind(v) = "plain" /\ (s.row[k].st = "inline" \/ (s.row[k].st = "placeholder" /\ s.store[k] # <<>>)))
        => Get(s, k) = v

\* the two machines differ only after the deviation fired
SameUnlessFired == fired # {} \/ s = sfix

View == <<s, sfix, fired, lastop, lastres, nops>>
=============================================================================
