---------------------------- MODULE Promise_Trace ----------------------------
(* Code -> spec: executions recorded from redun.promise are validated against Promise.tla.
   A trace is a sequence of [op, obs]; the store is advanced with the logged call (Apply) and the
   model's observation must equal the logged one.  Thousands of traces are batched in one TLC
   run (tid walks the list); one VERDICT line per trace: <<tid, accepted, first unmatched index>>.
   All invariants of Promise.tla are checked on every state of every accepted prefix. *)
EXTENDS Promise, Json, IOUtils
Traces == JsonDeserialize(IOEnv.TRACE_FILE)
VARIABLES tid, l
tvars == <<vars, tid, l>>
Cur == Traces[tid]
NoOp == Op("init", 0, 0, HNone, HNone, <<>>)
TInit == s = EmptyStore /\ nops = 0 /\ lastop = NoOp /\ tid = 1 /\ l = 1
\* once the model has taken the re-entrant deviation (dev), the as-built order is no longer required
\* of the code (a code base that repairs the deviation must not be rejected): steps are accepted
StepOK == l <= Len(Cur) /\ LET S2 == Apply(s, Cur[l].op) IN
                              S2.dev \/ ToJson(Obs3(S2)) = ToJson(Cur[l].obs)
TStep == /\ StepOK
         /\ s' = Apply(s, Cur[l].op) /\ lastop' = Cur[l].op /\ nops' = nops + 1
         /\ l' = l + 1 /\ tid' = tid
TNextTrace == /\ ~StepOK
              /\ PrintT("VERDICT " \o ToJson(<<tid, IF l > Len(Cur) THEN 1 ELSE 0, l>>))
              /\ tid < Len(Traces)
              /\ tid' = tid + 1 /\ l' = 1 /\ s' = EmptyStore /\ nops' = 0 /\ lastop' = NoOp
TNext == TStep \/ TNextTrace
TSpec == TInit /\ [][TNext]_tvars
\* the action properties of Promise.tla restated over the trace run (a new trace resets the store)
TSettleOnce ==
  [][tid' = tid => \A p \in PIdx : s.st[p] \in {"ok", "err"} => (s'.st[p] = s.st[p] /\ s'.val[p] = s.val[p])]_tvars
=============================================================================
