---------------------------- MODULE TagValue_Gen ----------------------------
(* Bounded universe for C34.  Mode "strings": every text made of at most MaxPieces pieces, a piece
   being one character of Alpha or one of the words below (so that `true`, `NaN`, `"a"` ... occur
   although their letters are not in the alphabet).  Mode "values": the JSON kinds (scalars, the
   float table, tricky strings, containers of <= 2 elements, depth 2).  One TLC state per element;
   the laws of TagValue.tla are invariants (contract and as-built model in the same run); every
   element is emitted with the text the as-built Format produces and the value Parse returns for
   it, plus the contract's text where the as-built model deviates ("CASE <json>"). *)
EXTENDS TagValue, Json

CONSTANTS Mode,        \* "strings" | "values"
          Alpha,       \* code points
          MaxPieces,
          FewWords     \* TRUE: only the words whose letters are not in any alphabet

SeqsUpTo(S, n) == UNION {[1..m -> S] : m \in 0..n}
RECURSIVE Flatten(_)
Flatten(ps) == IF ps = <<>> THEN <<>> ELSE Head(ps) \o Flatten(Tail(ps))

Words == IF FewWords THEN {Wtrue, Wnull, WNaN, WInfinity}
         ELSE {Wtrue, Wnull, WNaN, WInfinity, Wnan, Winf, <<QT, 97, QT>>, <<LB, 49, RB>>}
Pieces == {<<c>> : c \in Alpha} \cup Words
Texts == {Flatten(ps) : ps \in SeqsUpTo(Pieces, MaxPieces)}

F(s, d, e, r) == V("float", [s |-> s, d |-> d, e |-> e, r |-> r])
Floats == {F(0, <<>>, 0, <<48, 46, 48>>),                          \* 0.0
           F(1, <<>>, 0, <<45, 48, 46, 48>>),                      \* -0.0
           F(0, <<1>>, 0, <<49, 46, 48>>),                         \* 1.0
           F(0, <<1, 5>>, -1, <<49, 46, 53>>),                     \* 1.5
           F(1, <<1, 5>>, -1, <<45, 49, 46, 53>>),                 \* -1.5
           F(0, <<1>>, 1, <<49, 48, 46, 48>>),                     \* 10.0
           F(0, <<1>>, 16, <<49, 101, 43, 49, 54>>),               \* 1e+16
           F(0, <<1>>, -5, <<49, 101, 45, 48, 53>>),               \* 1e-05
           F(0, <<1>>, -4, <<48, 46, 48, 48, 48, 49>>),            \* 0.0001
           F(1, <<2, 5>>, -11, <<45, 50, 46, 53, 101, 45, 49, 48>>), \* -2.5e-10
           F(0, <<1>>, 22, <<49, 101, 43, 50, 50>>)}               \* 1e+22
Ints == {V("int", <<0, 0>>), V("int", <<0, 1>>), V("int", <<1, 1>>), V("int", <<0, 1, 0>>),
         V("int", <<1, 1, 2, 3, 4, 5, 6, 7, 8, 9, 0, 1, 2, 3, 4, 5, 6, 7, 8, 9, 0>>)}
Consts == {V("none", 0), V("bool", 0), V("bool", 1), V("fnan", 0), V("finf", 0), V("finf", 1)}
TrickyTexts == {<<>>, <<LB>>, <<LB, 49, RB>>, <<QT, 97, QT>>, <<QT>>, <<LC>>, <<LC, RC>>, <<49>>, <<49, 46, 53>>,
                Wtrue, Wnull, Wnan, <<97>>, <<97, SP, 98>>, <<97, CM, 98>>, <<233>>, <<BSL>>, <<NL>>,
                <<SP, 49>>, <<128512>>, <<97, NL, 98, SP, 99>>, <<49, US, 48>>}
Strs == {V("str", t) : t \in TrickyTexts}
Scalars == Consts \cup Ints \cup Floats \cup Strs
Small == {V("none", 0), V("bool", 1), V("int", <<0, 1>>), F(0, <<1, 5>>, -1, <<49, 46, 53>>),
          V("str", <<>>), V("str", <<LB>>), V("str", <<49>>), V("str", <<97, SP, 98>>), V("str", <<QT, 97, QT>>)}
KeyTexts == {<<>>, <<97>>, <<98>>, <<LB>>, <<49>>, <<233>>, <<QT>>}
Lists1 == {V("list", s) : s \in SeqsUpTo(Scalars, 1)} \cup {V("list", s) : s \in SeqsUpTo(Small, 2)}
SortedPairSeqs(KS, VS, n) == {ps \in SeqsUpTo(KS \X VS, n) : \A i \in 1..(Len(ps) - 1) : LexLess(ps[i][1], ps[i + 1][1])}
Dicts1 == {V("dict", ps) : ps \in SortedPairSeqs(KeyTexts, Small, 2)}
Tiny1 == {V("list", <<>>), V("dict", <<>>), V("list", <<V("int", <<0, 1>>)>>), V("list", <<V("str", <<LB>>), V("none", 0)>>),
          V("dict", <<<<<<97>>, V("int", <<0, 1>>)>>>>), V("dict", <<<<<<QT>>, V("str", <<QT, 97, QT>>)>>>>)}
Lists2 == {V("list", s) : s \in SeqsUpTo(Tiny1 \cup {V("str", <<97>>)}, 2)}
Dicts2 == {V("dict", ps) : ps \in SortedPairSeqs({<<97>>, <<98>>, <<LB>>}, Tiny1, 2)}
Values == Scalars \cup Lists1 \cup Dicts1 \cup Lists2 \cup Dicts2

\* two levels (block, element) so that the elements are spread over the TLC workers
Null == V("null", 0)
Start == <<-1>>
Blocks == IF Mode = "strings" THEN {<<>>} \cup Pieces ELSE {<<1>>, <<2>>, <<3>>, <<4>>, <<5>>}
BlockSet(b) ==
  IF Mode = "strings"
  THEN IF b = <<>> THEN {V("str", <<>>)}
       ELSE {V("str", b \o Flatten(ps)) : ps \in SeqsUpTo(Pieces, MaxPieces - 1)}
  ELSE CASE b = <<1>> -> Scalars [] b = <<2>> -> Lists1 [] b = <<3>> -> Dicts1
         [] b = <<4>> -> Lists2 [] b = <<5>> -> Dicts2

VARIABLES blk, x
vars == <<blk, x>>
Init == blk = Start /\ x = Null
Next == \/ blk = Start /\ blk' \in Blocks /\ x' = Null
        \/ blk # Start /\ x = Null /\ blk' = blk /\ x' \in BlockSet(blk)
Spec == Init /\ [][Next]_vars

On == x # Null
LawContract == On => ContractOK(x)
LawAsBuilt == On => AsBuiltOK(x) /\ AgreeOK(x)
LawStrictAsBuilt == On => RoundTripStrict(x, FALSE)      \* the as-built model violates it (control)
LawQuoted == On => QuotedOK(x) /\ BareOK(x)
LawJson == On => JsonOK(x)

DevCode == IF DevRaises(x) THEN 1 ELSE IF DevBare(x) THEN 2 ELSE 0
\* fmt / back: the as-built expectation; fmtc: the contract's text where it differs (deviations only)
Emit == On => PrintT("CASE " \o ToJson([x |-> x, fmt |-> Format(x, FALSE), back |-> Back(x, FALSE), dev |-> DevCode,
                                         fmtc |-> IF DevCode = 0 THEN <<>> ELSE Format(x, TRUE),
                                         p |-> IF x.k = "str" THEN Parse(x.v) ELSE ErrV]))
=============================================================================
