----------------------------- MODULE LimitsInd -----------------------------
(***************************************************************************)
(* C08, unbounded in the numbers: the accounting core of Scheduler.tla     *)
(* (consume on submission if the job fits, release exactly once when the   *)
(* job is reported done or failed, served jobs hold nothing) for a fixed   *)
(* set of jobs and resources but ARBITRARY integer limits and per-job      *)
(* demands.  IndInv is shown inductive with Apalache:                      *)
(*   apalache-mc check --init=IndInit --inv=IndInv --length=1              *)
(*   apalache-mc check --init=Init    --inv=IndInv --length=0              *)
(* so HeldOK (used = sum of what running jobs hold, 0 <= used <= limit)    *)
(* holds in every reachable state for every limit / demand configuration,  *)
(* not only the ones TLC enumerates.  DoubleRelease = TRUE is the pinned   *)
(* redun behaviour (fixed): the induction step fails, as it must.          *)
(***************************************************************************)
EXTENDS Integers, Apalache

Jobs == {"j1", "j2", "j3", "j4"}
Res == {"r", "q"}

CONSTANTS
  \* @type: Str -> Int;
  Limit,
  \* @type: <<Str, Str>> -> Int;
  Units,
  \* @type: Bool;
  DoubleRelease

VARIABLES
  \* @type: Str -> Int;
  used,
  \* @type: Str -> Str;
  ph,
  \* @type: Str -> Bool;
  holds

ConstInit ==
  /\ Limit \in [Res -> Int] /\ \A r \in Res : Limit[r] >= 1
  /\ Units \in [Jobs \X Res -> Int]
  \* premise of the property: no job demands more than the limit, demands are not negative
  /\ \A j \in Jobs, r \in Res : Units[<<j, r>>] >= 0 /\ Units[<<j, r>>] <= Limit[r]
  /\ DoubleRelease \in {FALSE}
\* the pinned behaviour, as a control: the induction step must fail
ConstInitDev ==
  /\ Limit \in [Res -> Int] /\ \A r \in Res : Limit[r] >= 1
  /\ Units \in [Jobs \X Res -> Int]
  /\ \A j \in Jobs, r \in Res : Units[<<j, r>>] >= 0 /\ Units[<<j, r>>] <= Limit[r]
  /\ DoubleRelease \in {TRUE}

Phases == {"new", "waiting", "running", "evaluating", "done", "failed", "served"}

\* what the running jobs hold of resource r
\* @type: (Str) => Int;
HeldSum(r) == ApaFoldSet(LAMBDA acc, j : acc + (IF holds[j] THEN Units[<<j, r>>] ELSE 0), 0, Jobs)

Fits(j) == \A r \in Res : used[r] + Units[<<j, r>>] <= Limit[r]

Init ==
  /\ used = [r \in Res |-> 0]
  /\ ph = [j \in Jobs |-> "new"]
  /\ holds = [j \in Jobs |-> FALSE]

\* _exec_job_main_thread: a cache hit / collapse serves the job without units; otherwise consume or queue
Serve(j) == /\ ph[j] \in {"new", "waiting"} /\ ph' = [ph EXCEPT ![j] = "served"] /\ UNCHANGED <<used, holds>>
Queue(j) == /\ ph[j] = "new" /\ ~Fits(j) /\ ph' = [ph EXCEPT ![j] = "waiting"] /\ UNCHANGED <<used, holds>>
Submit(j) ==
  /\ ph[j] \in {"new", "waiting"} /\ Fits(j)
  /\ used' = [r \in Res |-> used[r] + Units[<<j, r>>]]
  /\ holds' = [holds EXCEPT ![j] = TRUE]
  /\ ph' = [ph EXCEPT ![j] = "running"]
\* _done_job_main_thread: the function finished, the units are returned; the result is still evaluated
Done(j) ==
  /\ ph[j] = "running"
  /\ used' = [r \in Res |-> used[r] - Units[<<j, r>>]]
  /\ holds' = [holds EXCEPT ![j] = FALSE]
  /\ ph' = [ph EXCEPT ![j] = "evaluating"]
Resolve(j) == /\ ph[j] = "evaluating" /\ ph' = [ph EXCEPT ![j] = "done"] /\ UNCHANGED <<used, holds>>
\* _reject_job_main_thread: from running (the function raised) or from evaluating (a child raised)
Reject(j) ==
  /\ ph[j] \in {"running", "evaluating"}
  /\ LET release == IF DoubleRelease THEN TRUE ELSE holds[j] IN
       /\ used' = [r \in Res |-> IF release THEN used[r] - Units[<<j, r>>] ELSE used[r]]
       /\ holds' = [holds EXCEPT ![j] = FALSE]
  /\ ph' = [ph EXCEPT ![j] = "failed"]

Next == \E j \in Jobs : Serve(j) \/ Queue(j) \/ Submit(j) \/ Done(j) \/ Resolve(j) \/ Reject(j)

TypeOK ==
  /\ used \in [Res -> Int]
  /\ ph \in [Jobs -> Phases]
  /\ holds \in [Jobs -> BOOLEAN]

IndInv ==
  /\ TypeOK
  /\ \A j \in Jobs : holds[j] <=> ph[j] = "running"
  /\ \A r \in Res : used[r] = HeldSum(r) /\ used[r] >= 0 /\ used[r] <= Limit[r]

IndInit == IndInv
=============================================================================
