---------------------------- MODULE Backend_Trace ----------------------------
(* Code -> spec.  One record per REAL run of the workload (harness/dbfault.py):
     pre / post   projection of the sqlite file before / after the run (rows named through
                  redun's own hash functions), reg = task versions loaded, no = execution number
     inj          the injection performed (kind, at = point index, site)
     pts          the points of the run in order: k = flush | commit, op = innermost public backend
                  operation, tabs = tables written (skip = 1 where the point was cut short)
     out          <<"ok", value, executed tasks>> | <<"error", type, executed>> | <<"crashed", "", _>>
     role         recording | fault | crash | recovery;  fresh = value returned on an empty backend
     var          workload variant: 0 = chain, 1 = child and grandchild run with prov=False
   Every record is an initial state; the model is stepped from `pre` under the same injection
   and must pass exactly the recorded points and end with the recorded outcome and tables:
   "ACC {tid, devs}" is printed when some resolution of the model's nondeterminism (foreign-key
   enforcement) does, "REJ {tid, np, why}" where a branch dies.  This validates the commit
   granularity of Backend.tla and the as-built deviations against the code.
   Independently of the model run, the property's predicates are evaluated by TLC on the LOGGED
   data: "CON {tid, fk, fresh, survives, complete, c03, sem}". *)
EXTENDS Backend, Json, IOUtils
Traces == JsonDeserialize(IOEnv.TRACE_FILE)
VARIABLE tid
tvars == <<s, tid>>

ToSet(q) == {q[i] : i \in 1..Len(q)}
TabOf(j) == [Value |-> ToSet(j.Value), Task |-> ToSet(j.Task), Exec |-> ToSet(j.Exec),
             Job |-> ToSet(j.Job), JobEnd |-> ToSet(j.JobEnd), Eval |-> ToSet(j.Eval),
             Node |-> ToSet(j.NodeSeq), Edge |-> ToSet(j.Edge), Arg |-> ToSet(j.Arg),
             Sub |-> ToSet(j.Sub)]
MerkleGhost(db) == UNION {{<<n, x>> : x \in NodeTasks(n)} : n \in db.Node}

InitOf(t, inj) ==
  LET db == TabOf(t.pre)
      S0 == State0(db, t.pre.NodeSeq, t.reg, inj, MerkleGhost(db))
  IN StartRun([S0 EXCEPT !.run.no = t.no - 1, !.injrun = t.no, !.noprov = (t.var = 1)], 0)

\* what the fault-free recording run leaves behind (fault runs always start from the empty backend):
\* FaultFreeEnd of Backend.tla, per workload variant (var = 1: child and grandchild without provenance)
FF0 == FaultFreeEnd(FALSE)
FF1 == FaultFreeEnd(TRUE)

\* ---- the property's predicates on the logged data ----
NoStr(n) == CASE n = 1 -> "1" [] n = 2 -> "2" [] n = 3 -> "3" [] OTHER -> "4"
Con(t) ==
  LET post == TabOf(t.post)
      exe == ToSet(t.out[3])
      okfresh == t.out[1] = "ok" /\ t.out[2] = t.fresh
      pj == NoStr(t.no) \o "P"
      pend == {e \in post.JobEnd : e[1] = pj /\ e[2] # <<>>}
      \* the parent's job was answered by ultimate reduction: nothing ran and nothing was looked up
      \* beneath it (jobs without provenance leave no Job row but always execute)
      hitP == /\ t.out[1] = "ok" /\ "P" \notin exe /\ pend # {}
              /\ IF t.var = 1 THEN "C" \notin exe ELSE ~\E j \in post.Job : j[1] = NoStr(t.no) \o "C"
      ff == IF t.var = 1 THEN FF1 ELSE FF0
  IN [fk |-> FKClosed(TabOf(t.pre)) => FKClosed(post),
      fresh |-> (t.role = "recovery") => okfresh,
      survives |-> (t.role = "fault") => okfresh,
      complete |-> (t.role = "fault" /\ t.out[1] = "ok") =>
                      (t.pre.NodeSeq = <<>> /\ t.reg = <<1, 1, 1>> /\ post = ff.db /\ t.post.NodeSeq = ff.nseq),
      c03 |-> hitP => \A e \in pend : NodeTasks(e[2]) \subseteq RegHashes(t.reg),
      sem |-> t.fresh = Fresh(t.reg),
      fkpost |-> FKClosed(post),
      hitp |-> hitP]

\* a record with role "import" is a transfer (put_records into an empty repository), not a run:
\* the destination must be exactly Imported(source)
TInit == /\ tid \in 1..Len(Traces)
         /\ IF Traces[tid].role = "import"
            THEN /\ s = [State0(TabOf(Traces[tid].pre), Traces[tid].pre.NodeSeq, Traces[tid].reg, NoInj, {})
                           EXCEPT !.noprov = (Traces[tid].var = 1)]
                 /\ PrintT("IMP " \o ToJson([tid |-> tid,
                                              ok |-> Imported(TabOf(Traces[tid].pre)) = TabOf(Traces[tid].post),
                                              fk |-> FKClosed(TabOf(Traces[tid].post))]))
            ELSE /\ s = InitOf(Traces[tid], Traces[tid].inj)
                 /\ PrintT("CON " \o ToJson([tid |-> tid, con |-> Con(Traces[tid])]))

PtOK(t, S2) ==
  S2.np > s.np =>
    /\ S2.np <= Len(t.pts)
    /\ LET p == t.pts[S2.np] IN
         /\ p.k = S2.lastpt.k /\ p.op = S2.lastpt.op
         /\ (p.skip = 1 \/ ToSet(p.tabs) = S2.lastpt.tabs)

EndOK(t, S2) ==
  ~Running(S2) =>
    LET o == S2.outs[Len(S2.outs)] IN
      /\ S2.np = Len(t.pts)
      /\ o[1] = t.out[1] /\ o[2] = t.out[2]
      /\ (t.out[1] # "crashed" => o[3] = ToSet(t.out[3]))
      /\ S2.db = TabOf(t.post) /\ S2.nseq = t.post.NodeSeq

TNext ==
  /\ Running(s) /\ tid' = tid
  /\ \E enforce \in BOOLEAN, pick \in Choices(s) :
       LET t == Traces[tid]
           S2 == Step(s, enforce, pick) IN
         IF PtOK(t, S2) /\ EndOK(t, S2)
         THEN /\ s' = S2
              /\ (~Running(S2)) => PrintT("ACC " \o ToJson([tid |-> tid, devs |-> S2.devs]))
         ELSE /\ PrintT("REJ " \o ToJson([tid |-> tid, np |-> S2.np, pt |-> S2.lastpt,
                                          ended |-> ~Running(S2),
                                          out |-> IF Running(S2) THEN <<>> ELSE S2.outs[Len(S2.outs)]]))
              /\ FALSE
TSpec == TInit /\ [][TNext]_tvars
=============================================================================
