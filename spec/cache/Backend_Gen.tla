----------------------------- MODULE Backend_Gen -----------------------------
(* Spec -> code: every state between two runs (recording run finished, crashed or failed; after
   an import; after each recovery run) prints its history and what the model allows there:
   "IDLE {inj, hist, outs, db, nseq, devs}".  The harness executes the same histories on the real
   backend (harness/dbfault.py) and looks its observations up in this table. *)
EXTENDS Backend, Json
Emit == (~Running(s)) =>
          PrintT("IDLE " \o ToJson([inj |-> s.inj, hist |-> s.hist, outs |-> s.outs, db |-> s.db,
                                    nseq |-> s.nseq, devs |-> s.devs, badhit |-> s.badhit,
                                    reg |-> s.reg, noprov |-> s.noprov]))
=============================================================================
