------------------------------- MODULE Cache -------------------------------
(***************************************************************************)
(* C02: a history of executions on one backend, interleaved with edits of  *)
(* task bodies / versions, of the root argument and of an input file,      *)
(* against "what an empty backend would return".                           *)
(*                                                                         *)
(* An execution is ONE action whose effect is computed by a recursive      *)
(* operator that threads the backend tables through the evaluation, the    *)
(* way Scheduler._get_cache / RedunBackendDb.check_cache / catch() use     *)
(* them:                                                                   *)
(*   evalTab   Evaluation table: key <<task, hash-relevant version, arg,   *)
(*             file hash>> -> the single reduction (an expression)         *)
(*   catchTab  what catch() stores under a key built from the *expression  *)
(*             hash* of its arguments (task names and argument hashes, NOT *)
(*             task hashes): the expression that succeeded (body or        *)
(*             recover call)                                               *)
(* Errors are never stored.  Values that contain a File are replayed only  *)
(* while the file's current hash equals the recorded one.                  *)
(*                                                                         *)
(* Deviation CatchReplayRecover (as built, open finding): after the        *)
(* guarded task was edited so that it no longer raises, catch() still      *)
(* finds its stored recover call and replays it.                           *)
(***************************************************************************)
EXTENDS Naturals, Integers, Sequences, FiniteSets, TLC, Json

CONSTANTS MaxSteps, UseCatchCache   \* UseCatchCache = TRUE: as built; FALSE: catch never replays

Err == -99
Tasks == {"main", "guard", "div", "rec", "twice", "cat", "vinc"}
Vers == 1..2

E(k, v, t, a, h) == [k |-> k, v |-> v, t |-> t, a |-> a, h |-> h]
Val(v) == E("val", v, "", 0, "")
Raise == E("raise", 0, "", 0, "")
Call(t, a) == E("call", 0, t, a, "")
CatchE(t, a, h) == E("catch", 0, t, a, h)          \* catch(t(a), Exception, h)
Plus(t1, a1, t2) == E("plus", 0, t1, a1, t2)       \* t1(a1) + t2(a1)   (lazy operator on two calls)

\* one reduction step of a call, under body versions bd and file version fv
Body(t, bd, a, fv) ==
  CASE t = "main"  -> IF bd[t] = 1 THEN Plus("guard", a, "cat") ELSE Call("twice", a)
    [] t = "guard" -> IF bd[t] = 1 THEN CatchE("div", a, "rec") ELSE Val(5)
    [] t = "div"   -> IF bd[t] = 1 THEN Raise ELSE Val(42 + a)
    [] t = "rec"   -> IF bd[t] = 1 THEN Val(-1) ELSE Val(-2)
    [] t = "twice" -> IF bd[t] = 1 THEN Call("div", a) ELSE Call("vinc", a + a)
    [] t = "cat"   -> Val(100 * fv)                 \* reads the input file
    [] t = "vinc"  -> IF bd[t] = 1 THEN Val(a + 1) ELSE Val(a + 2)

\* the cache key sees the file through its hash (content version), only for tasks that take it
KeyOf(t, bd, a, fv) == <<t, bd[t], a, IF t = "cat" THEN fv ELSE 0>>

VARIABLES body, fver, arg, evalTab, catchTab, last, fresh, dev, steps, hist
vars == <<body, fver, arg, evalTab, catchTab, last, fresh, dev, steps, hist>>

\* state threaded through evaluation: [r, et, ct, dv]
RECURSIVE Ev(_, _, _, _, _, _)
Ev(e, bd, fv, et, ct, useCache) ==
  CASE e.k = "val" -> [r |-> e.v, et |-> et, ct |-> ct, dv |-> FALSE]
    [] e.k = "raise" -> [r |-> Err, et |-> et, ct |-> ct, dv |-> FALSE]
    [] e.k = "call" ->
         LET key == KeyOf(e.t, bd, e.a, fv)
             red == IF useCache /\ key \in DOMAIN et THEN et[key] ELSE Body(e.t, bd, e.a, fv)
             et1 == IF red.k = "raise" THEN et ELSE (key :> red) @@ et      \* errors are not cached
         IN Ev(red, bd, fv, et1, ct, useCache)
    [] e.k = "plus" ->
         LET x == Ev(Call(e.t, e.a), bd, fv, et, ct, useCache)
             y == Ev(Call(e.h, e.a), bd, fv, x.et, x.ct, useCache)
         IN IF x.r = Err \/ y.r = Err THEN [y EXCEPT !.r = Err, !.dv = x.dv \/ y.dv]
            ELSE [y EXCEPT !.r = x.r + y.r, !.dv = x.dv \/ y.dv]
    [] e.k = "catch" ->
         \* the key hashes the guarded *expression* (task name + argument hashes, not the task hash)
         \* and the recover task as a value (its hash does contain its code)
         LET ck == <<"catch", e.t, e.a, e.h, bd[e.h]>>
         IN IF useCache /\ UseCatchCache /\ ck \in DOMAIN ct
            THEN LET c == Ev(ct[ck], bd, fv, et, ct, useCache) IN
                 IF c.r # Err THEN [c EXCEPT !.dv = c.dv \/ (ct[ck].t = e.h)]
                 ELSE LET h == Ev(Call(e.h, 0), bd, fv, c.et, c.ct, useCache) IN
                      IF h.r # Err THEN [h EXCEPT !.ct = (ck :> Call(e.h, 0)) @@ h.ct] ELSE h
            ELSE LET b == Ev(Call(e.t, e.a), bd, fv, et, ct, useCache) IN
                 IF b.r # Err THEN [b EXCEPT !.ct = (ck :> Call(e.t, e.a)) @@ b.ct]
                 ELSE LET h == Ev(Call(e.h, 0), bd, fv, b.et, b.ct, useCache) IN
                      IF h.r # Err THEN [h EXCEPT !.ct = (ck :> Call(e.h, 0)) @@ h.ct] ELSE h

Root == Call("main", arg)
Init == /\ body = [t \in Tasks |-> 1] /\ fver = 1 /\ arg = 0
        /\ evalTab = <<>> /\ catchTab = <<>>
        /\ last = 0 /\ fresh = 0 /\ dev = FALSE /\ steps = 0 /\ hist = <<>>

Edit(t) == /\ steps < MaxSteps
           /\ body' = [body EXCEPT ![t] = 3 - @]          \* edit; a second edit reverts
           /\ steps' = steps + 1 /\ hist' = Append(hist, [op |-> "edit", t |-> t, v |-> 3 - body[t]])
           /\ UNCHANGED <<fver, arg, evalTab, catchTab, last, fresh, dev>>
Rewrite == /\ steps < MaxSteps
           /\ fver' = 3 - fver
           /\ steps' = steps + 1 /\ hist' = Append(hist, [op |-> "rewrite", t |-> "", v |-> 3 - fver])
           /\ UNCHANGED <<body, arg, evalTab, catchTab, last, fresh, dev>>
ChangeArg == /\ steps < MaxSteps
             /\ arg' = IF arg = 0 THEN 3 ELSE 0
             /\ steps' = steps + 1 /\ hist' = Append(hist, [op |-> "arg", t |-> "", v |-> IF arg = 0 THEN 3 ELSE 0])
             /\ UNCHANGED <<body, fver, evalTab, catchTab, last, fresh, dev>>
Run == /\ steps < MaxSteps
       /\ LET c == Ev(Root, body, fver, evalTab, catchTab, TRUE)
              f == Ev(Root, body, fver, <<>>, <<>>, FALSE)
          IN /\ last' = c.r /\ fresh' = f.r /\ evalTab' = c.et /\ catchTab' = c.ct /\ dev' = c.dv
             /\ hist' = Append(hist, [op |-> "run", t |-> "", v |-> 0, cached |-> c.r, fresh |-> f.r, dev |-> c.dv])
       /\ steps' = steps + 1 /\ UNCHANGED <<body, fver, arg>>
Next == (\E t \in Tasks : Edit(t)) \/ Rewrite \/ ChangeArg \/ Run
Spec == Init /\ [][Next]_vars

\* C02
CachedEqFresh == last = fresh
\* the weaker invariant that holds as built: cached differs from fresh only through the deviation
OnlyViaDeviation == (last # fresh) => dev
View == <<body, fver, arg, evalTab, catchTab, last, fresh, dev, steps>>
\* behaviours for replay: every history of exactly MaxSteps steps that ends with a run
Emit == (steps = MaxSteps /\ hist[Len(hist)].op = "run") => PrintT("BEH " \o ToJson(hist))
=============================================================================
