--------------------------- MODULE Transfer_Trace ---------------------------
(* code -> spec: transfers performed by the real code (push/pull path = RedunClient._sync_records,
   export/import through JSON lines) between sqlite repositories written by real scheduler runs.
   One trace = one transfer and its repetition:
     src, d0, d1, d2   normalised row dumps (source; destination before / after / after repeating)
     roots             the root ids given to the transfer
     n1, n2            what put_records returned (records written) the first and the second time
     lookups           check_cache results observed on src, d0 and d1: [task, args, cur, shallow,
                       src, d0, d1]; for shallow = 1 the lookup ran with check_valid = SHALLOW and
                       1 means "served by the ULTIMATE lookup", for shallow = 0 it ran with
                       check_valid = FULL and 1 means "served by the SINGLE lookup"
   TLC evaluates the contract of Transfer.tla on the dumps and compares the destination with the
   as-built operator; one VERDICT record per trace.  Contract bits decide violations; the
   attribution bits say whether a failure is exactly what a named deviation predicts. *)
EXTENDS Transfer, Json, IOUtils

Traces == JsonDeserialize(IOEnv.TRACE_FILE)
ToSet(s) == {s[k] : k \in 1..Len(s)}
B(b) == IF b THEN 1 ELSE 0

Verdict(t) ==
  LET src == ToSet(t.src)
      d0 == ToSet(t.d0)
      d1 == ToSet(t.d1)
      d2 == ToSet(t.d2)
      roots == ToSet(t.roots)
      C == Closure(src, roots) \cap PK(src)
      staleOnly == \A x \in C : ({r \in T(src, "Job") : r[2] = x} # {r \in T(d1, "Job") : r[2] = x})
                                   => x \in PK(d0)
      look == ToSet(t.lookups)
      cacheBad == {l \in look : l.d1 = 1 /\ l.d0 = 0 /\ l.src = 0}
      subOnly == \A l \in cacheBad :
                   /\ l.shallow = 1
                   /\ \E c \in T(d1, "CallNode") : c[4] = l.task /\ c[5] = l.args /\ SubtreeOf(d1, c[2]) = {}
                                                    /\ SubtreeOf(src, c[2]) # {}
      modelOK == \A l \in look :
                   LET cur == ToSet(l.cur)
                       M(d) == IF l.shallow = 1 THEN ShallowHit(d, l.task, l.args, cur)
                               ELSE SingleHit(d, l.task, l.args) IN
                     /\ (l.src = 1) <=> M(src)
                     /\ (l.d0 = 1) <=> M(d0)
                     /\ (l.d1 = 1) <=> M(d1)
  IN [rows |-> B(RowsKept(src, d1, roots, OtherTables)),
      jobs |-> B(RowsKept(src, d1, roots, JobTables)),
      order |-> B(RowsKept(src, d1, roots, EdgeTables)),
      childsets |-> B(ChildSetsKept(src, d1, roots)),
      tags |-> B(TagStatusKept(src, d0, d1, roots)),
      mono |-> B(Monotone(src, d0, d1, roots)),
      idem |-> B(Idempotent(d1, d2, t.n2)),
      count |-> B(CountOK(src, d0, roots, t.n1)),
      asbuilt |-> B(SameUpToChildOrder(d1, XferAsBuilt(src, d0, roots), New(src, d0, roots))),
      cache |-> B(cacheBad = {}),
      stale_only |-> B(staleOnly), sub_only |-> B(subOnly), lookup_model |-> B(modelOK),
      nclosure |-> Cardinality(C), nnew |-> Cardinality(New(src, d0, roots))]

VARIABLE i
TInit == i = 1 /\ db = [R \in Repos |-> {}] /\ pend = {} /\ nexec = 0 /\ ntag = 0 /\ nx = 0 /\ last = NoLast
TNext == /\ i <= Len(Traces) /\ UNCHANGED vars
         /\ PrintT("VERDICT " \o ToJson(<<i, Verdict(Traces[i])>>))
         /\ i' = i + 1
TSpec == TInit /\ [][TNext]_<<i, vars>>
=============================================================================
