------------------------------- MODULE Backend -------------------------------
(***************************************************************************)
(* redun/backends/db/__init__.py at COMMIT granularity (C22, C03).          *)
(*                                                                         *)
(* Workload (fixed, the one harness/dbfault.py executes on the real code):  *)
(*   parent(1) -> child(1) -> grand(g)   parent has check_valid="shallow"   *)
(* three levels 1..3 = tasks P, C, G; every task has versions 1, 2 (an edit *)
(* toggles the version, hence the task hash).  child v1 calls grand("g1"),  *)
(* child v2 calls grand("g2"); grand(g, v) returns the final value r<g><v>. *)
(*                                                                         *)
(* Durable state `db` = the tables; `fl` = rows flushed (INSERT executed)   *)
(* but not committed, `pn` = rows added to the session and not yet flushed; *)
(* a query issued while pn # {} autoflushes (a FLUSH POINT), commit()     *)
(* persists fl \cup pn (a COMMIT POINT) -- of the whole session, so a     *)
(* nested record_value commit also persists the caller's staged rows.       *)
(* `mem` = in-memory, non-transactional effects (RedunBackendDb._executions)*)
(*                                                                         *)
(* Every backend operation is a frame [op, pc, a] on `stack`; all of them   *)
(* are wrapped by db_retry in the code.  One step of the run (`Step`) is    *)
(* one statement group of the code up to the next flush / commit point.     *)
(*   rv  record_value            Value | commit | Task companion | commit   *)
(*   rjs record_job_start        rv(task); pop pending execution (mem!);    *)
(*                               stage Execution, Job; commit               *)
(*   sec set_eval_cache          rv(result); stage Evaluation; commit       *)
(*   rcn record_call_node        early exit if node exists; stage node,     *)
(*                               [query children -> autoflush] edge;        *)
(*                               rv(argument) nested (its commit persists   *)
(*                               node + edge); stage Argument; commit;      *)
(*                               stage CallSubtreeTask rows; commit         *)
(*   rje record_job_end          update Job; commit                         *)
(* The scheduler part (`SchedStep`) is the cache lookup of check_cache /    *)
(* _get_call_node (ULTIMATE for the shallow task, else SINGLE through       *)
(* Evaluation) and the order in which Scheduler._exec_job /                 *)
(* _done_job_main_thread / _resolve_job_main_thread call the backend.       *)
(*                                                                         *)
(* Second workload variant (state field `noprov`, CONSTANT Variants): the   *)
(* child is declared prov=False, which the grandchild inherits.  Jobs       *)
(* without provenance never look anything up (cache_scope NONE), always     *)
(* execute and record nothing: no rjs / sec / rv / rcn / rje; their call     *)
(* hashes are computed in memory only.  When the parent's node is recorded   *)
(* its child node is therefore NOT in the CallNode table and                *)
(* record_call_node takes its other path: after the Argument commit it      *)
(* calls record_value(task) for EVERY subtree task (each a nested frame     *)
(* with its own db_retry and its own Value / Task commits of the shared     *)
(* session), and only then stages all CallSubtreeTask rows and commits      *)
(* them in ONE commit -- so the rows of a node appear atomically.  The      *)
(* subtree tasks are a Python set: the iteration order is a nondeterministic *)
(* choice (`pick`).                                                         *)
(*                                                                         *)
(* Environment: one injection per behaviour in run 1 (OperationalError at a *)
(* flush or commit point -> db_retry: rollback, re-enter the innermost      *)
(* frame from the top; or process death before / after a commit), then      *)
(* recovery runs with at most one edit, optionally after Import             *)
(* (put_records: no CallSubtreeTask rows, no Evaluation rows).              *)
(*                                                                         *)
(* Named deviations of the as-built code (ghost set `devs`); each has a     *)
(* repair switch (CONSTANT, FALSE = as built):                              *)
(*   TaskRowLost                  rv: "value already recorded" early exit   *)
(*                                does not re-check the Task companion row  *)
(*                                                    (FixCompanion)        *)
(*   PopBeforeCommit              rjs pops the pending execution before its *)
(*                                commit; the retry raises KeyError (FixPop)*)
(*   NodeExistsEarlyExit          rcn: "node exists" early exit skips the   *)
(*                                Argument / CallSubtreeTask rows that an   *)
(*                                interrupted attempt did not commit        *)
(*                                                    (FixNodeExit)         *)
(*   NestedRetryDropsOuterRows    the inner db_retry of a nested rv rolls   *)
(*                                back the rows staged by the enclosing rcn *)
(*                                and retries only the inner operation      *)
(*                                                    (FixNested)           *)
(*   ShallowAcceptsMissingSubtree _get_call_node: a node whose recorded     *)
(*                                subtree set is not its true one (empty    *)
(*                                after an interrupted recording or an      *)
(*                                import) passes the subset test            *)
(*                                                    (FixSubtree)          *)
(*   FKNotEnforced                sqlite only: with_defer_constraints turns *)
(*                                foreign_keys OFF on one pooled connection *)
(*                                and ON on the other, so a flush of rows   *)
(*                                with dangling references may or may not   *)
(*                                raise IntegrityError (nondeterministic    *)
(*                                here; never reached without one of the    *)
(*                                deviations above)                         *)
(***************************************************************************)
EXTENDS Naturals, Integers, Sequences, FiniteSets, TLC

CONSTANTS FixSubtree, FixCompanion, FixPop, FixNodeExit, FixNested,  \* BOOLEAN repair switches
          MaxRuns,     \* runs per behaviour (1 recording run + recovery runs)
          NPoints,     \* flush + commit points of the fault-free recording run (31), chain workload
          NPointsNP,   \* the same for the prov=False variant (15)
          Variants,    \* subset of BOOLEAN: FALSE = chain workload, TRUE = child/grandchild prov=False
          WithImport   \* BOOLEAN: Import action enabled

Lvl == 1..3
TaskAt == <<"P", "C", "G">>
VerStr(v) == IF v = 1 THEN "1" ELSE "2"
TH(l, v) == TaskAt[l] \o VerStr(v)
TaskHashes == {TH(l, v) : l \in Lvl, v \in 1..2}
RegHashes(reg) == {TH(l, reg[l]) : l \in Lvl}

Final(arg, v) == CASE arg = "g1" /\ v = 1 -> "r11"
                   [] arg = "g1" /\ v = 2 -> "r12"
                   [] arg = "g2" /\ v = 1 -> "r21"
                   [] OTHER -> "r22"
Body(l, v, arg) == CASE l = 1 -> "xC"
                     [] l = 2 -> (IF v = 1 THEN "xG1" ELSE "xG2")
                     [] OTHER -> Final(arg, v)
IsExpr(x) == x \in {"xC", "xG1", "xG2"}
ExprArg(x) == CASE x = "xG1" -> "g1" [] x = "xG2" -> "g2" [] OTHER -> "a1"
\* what a run on an empty backend returns
Fresh(reg) == Final(ExprArg(Body(2, reg[2], "a1")), reg[3])

(***************************************************************************)
(* Tables.  Row shapes:                                                    *)
(*  Value id | Task hash | Exec n | Job <<jid, th, ex>> | JobEnd <<jid,node>>*)
(*  Eval <<th, arg, val>> | Node id | Edge <<p, c>> | Arg <<node, val>>     *)
(*  Sub <<node, th>>.   A node id is the Merkle list <<th, arg, res>> \o kid *)
(***************************************************************************)
Tabs == {"Value", "Task", "Exec", "Job", "JobEnd", "Eval", "Node", "Edge", "Arg", "Sub"}
EmptyT == [t \in Tabs |-> {}]
TUnion(a, b) == [t \in Tabs |-> a[t] \cup b[t]]
TabsOf(a) == {t \in Tabs : a[t] # {}}
\* names as the harness sees them (the end of a job is an UPDATE of the job row)
Seen(ts) == {IF t = "JobEnd" THEN "Job" ELSE t : t \in ts}

NodeTasks(n) == {n[i] : i \in {j \in 1..Len(n) : j % 3 = 1}}

\* foreign keys of rows `new` against the visible rows `vis`
FKViol(new, vis) ==
  \/ \E e \in new.Eval : e[1] \notin vis.Task \/ e[3] \notin vis.Value
  \/ \E n \in new.Node : Len(n) >= 3 /\ (n[1] \notin vis.Task \/ n[3] \notin vis.Value)  \* (opaque ids: length 1)
  \/ \E e \in new.Edge : e[1] \notin vis.Node \/ e[2] \notin vis.Node
  \/ \E a \in new.Arg : a[1] \notin vis.Node \/ a[2] \notin vis.Value
  \/ \E x \in new.Sub : x[1] \notin vis.Node \/ x[2] \notin vis.Task
  \/ \E j \in new.Job : j[2] \notin vis.Task \/ j[3] \notin vis.Exec
  \/ \E j \in new.JobEnd : j[2] # <<>> /\ j[2] \notin vis.Node
FKClosed(db) == ~FKViol(db, db)

(***************************************************************************)
(* State                                                                   *)
(***************************************************************************)
NoJob == [th |-> "", arg |-> "", hit |-> "", res |-> "", call |-> <<>>, sub |-> {}, tsj |-> {}]
A0 == [v |-> "", th |-> "", arg |-> "", jid |-> "", ex |-> 0, root |-> FALSE, node |-> <<>>,
       kid |-> <<>>, sub |-> {}, todo |-> {}]
Frame(op, a) == [op |-> op, pc |-> 0, a |-> a]
NoPt == [k |-> "", op |-> "", tabs |-> {}]
NoInj == [kind |-> "none", at |-> 0, site |-> ""]

IdleRun == [no |-> 0, ph |-> "idle", lvl |-> 1, deep |-> 1, jobs |-> <<NoJob, NoJob, NoJob>>,
            fin |-> "", exe |-> {}]

State0(db, nseq, reg, inj, tsub) ==
  [db |-> db, nseq |-> nseq, pn |-> EmptyT, fl |-> EmptyT, mem |-> {}, reg |-> reg,
   stack |-> <<>>, run |-> IdleRun, outs |-> <<>>, inj |-> inj, injrun |-> 1, np |-> 0,
   injected |-> FALSE, devs |-> {}, tsub |-> tsub, badhit |-> FALSE, lastpt |-> NoPt,
   hist |-> <<>>, edits |-> 0, imported |-> FALSE, ffdb |-> EmptyT, noprov |-> FALSE]

Vis(S) == TUnion(TUnion(S.db, S.fl), S.pn)
Staged(S) == TUnion(S.fl, S.pn)
Top(S) == S.stack[Len(S.stack)]
SetPc(S, pc) == [S EXCEPT !.stack[Len(S.stack)].pc = pc]
Pop(S) == [S EXCEPT !.stack = SubSeq(@, 1, Len(@) - 1)]
Push(S, f) == [S EXCEPT !.stack = Append(@, f)]
Stage(S, tab, rows) == [S EXCEPT !.pn[tab] = @ \cup rows]
Dev(S, d) == [S EXCEPT !.devs = @ \cup {d}]
After(S, nxt) == IF nxt < 0 THEN Pop(S) ELSE SetPc(S, nxt)
RunNo(S) == S.run.no
Injecting(S) == ~S.injected /\ S.run.no = S.injrun /\ S.inj.at = S.np + 1

RECURSIVE SetToSeq(_)
SetToSeq(X) == IF X = {} THEN <<>> ELSE LET x == CHOOSE y \in X : TRUE IN <<x>> \o SetToSeq(X \ {x})

(***************************************************************************)
(* End of a run                                                            *)
(***************************************************************************)
EndRun(S, out) ==
  [S EXCEPT !.outs = Append(@, out), !.stack = <<>>, !.pn = EmptyT, !.fl = EmptyT, !.mem = {},
            !.run.ph = "idle"]
Abort(S, etype) == EndRun(S, <<"error", etype, S.run.exe>>)
Crash(S) == EndRun(S, <<"crashed", "", S.run.exe>>)

(***************************************************************************)
(* Points: autoflush and commit                                            *)
(***************************************************************************)
\* db_retry: rollback (drops every staged row of the session), re-enter the innermost frame
\* (as built) or the outermost one (FixNested) from the top; mem is kept
OuterStaged(S) == LET st == Staged(S) IN
  st.Node # {} \/ st.Edge # {} \/ st.Arg # {} \/ st.Sub # {} \/ st.Job # {} \/ st.Eval # {}
FaultAt(S) ==
  LET n == Len(S.stack)
      S1 == [S EXCEPT !.pn = EmptyT, !.fl = EmptyT, !.injected = TRUE]
  IN IF FixNested
     THEN [S1 EXCEPT !.stack = <<[S.stack[1] EXCEPT !.pc = 0]>>]
     ELSE LET S2 == [S1 EXCEPT !.stack[n].pc = 0]
          IN IF n > 1 /\ OuterStaged(S) THEN Dev(S2, "NestedRetryDropsOuterRows") ELSE S2

Pt(S, k, tabs) == [S EXCEPT !.np = @ + 1, !.lastpt = [k |-> k, op |-> Top(S).op, tabs |-> Seen(tabs)]]

\* autoflush of pn caused by a query; the frame's pc is unchanged (the query logic is the next step)
FlushPoint(S, enforce) ==
  LET S1 == Pt(S, "flush", TabsOf(S.pn))
  IN IF Injecting(S) /\ S.inj.kind = "fault" THEN FaultAt(S1)
     ELSE IF FKViol(S.pn, Vis(S))
          THEN IF enforce THEN Abort(S1, "IntegrityError")
               ELSE Dev([S1 EXCEPT !.fl = TUnion(S.fl, S.pn), !.pn = EmptyT], "FKNotEnforced")
          ELSE [S1 EXCEPT !.fl = TUnion(S.fl, S.pn), !.pn = EmptyT]

Committed(S) ==
  LET st == Staged(S)
      newnodes == st.Node \ S.db.Node
      keys == {<<e[1], e[2]>> : e \in st.Eval}
      d0 == [S.db EXCEPT !.Eval = {e \in @ : <<e[1], e[2]>> \notin keys}]
  IN [S EXCEPT !.db = TUnion(d0, st), !.nseq = @ \o SetToSeq(newnodes), !.pn = EmptyT, !.fl = EmptyT]

CommitPoint(S, nxt, enforce) ==
  LET S1 == Pt(S, "commit", TabsOf(Staged(S)))
      inj == Injecting(S)
  IN IF inj /\ S.inj.kind = "crash" /\ S.inj.site = "before" THEN Crash([S1 EXCEPT !.injected = TRUE])
     ELSE IF inj /\ S.inj.kind = "fault" THEN FaultAt(S1)
     ELSE IF FKViol(S.pn, Vis(S)) /\ enforce THEN Abort(S1, "IntegrityError")
     ELSE LET S2 == Committed(IF FKViol(S.pn, Vis(S)) THEN Dev(S1, "FKNotEnforced") ELSE S1)
          IN IF inj /\ S.inj.kind = "crash" /\ S.inj.site = "after"
             THEN Crash([S2 EXCEPT !.injected = TRUE])
             ELSE After(S2, nxt)

Pending(S) == TabsOf(S.pn) # {}

(***************************************************************************)
(* Backend operations                                                      *)
(***************************************************************************)
IsTaskVal(v) == v \in TaskHashes

StepRv(S, f, enforce) ==
  LET v == f.a.v vis == Vis(S) IN
  CASE f.pc = 0 ->
         IF Pending(S) THEN FlushPoint(S, enforce)                \* session.get autoflushes
         ELSE IF v \in vis.Value
              THEN IF IsTaskVal(v) /\ v \notin vis.Task
                   THEN IF FixCompanion THEN SetPc(S, 2) ELSE Pop(Dev(S, "TaskRowLost"))
                   ELSE Pop(S)
              ELSE SetPc(Stage(S, "Value", {v}), 1)
    [] f.pc = 1 -> CommitPoint(S, 2, enforce)
    [] f.pc = 2 -> IF IsTaskVal(v) /\ v \notin vis.Task THEN SetPc(Stage(S, "Task", {v}), 3) ELSE Pop(S)
    [] OTHER -> CommitPoint(S, -1, enforce)

StepRjs(S, f, enforce) ==
  LET a == f.a IN
  CASE f.pc = 0 -> Push(SetPc(S, 1), Frame("rv", [A0 EXCEPT !.v = a.th]))
    [] f.pc = 1 ->
         IF a.root
         THEN IF a.ex \in S.mem
              THEN LET S1 == Stage(Stage(S, "Exec", {a.ex}), "Job", {<<a.jid, a.th, a.ex>>})
                   IN SetPc([S1 EXCEPT !.mem = IF FixPop THEN @ ELSE @ \ {a.ex}], 2)
              ELSE Abort(Dev(S, "PopBeforeCommit"), "KeyError")
         ELSE SetPc(Stage(S, "Job", {<<a.jid, a.th, a.ex>>}), 2)
    [] f.pc = 2 -> CommitPoint(S, 3, enforce)
    [] OTHER -> Pop([S EXCEPT !.mem = @ \ {a.ex}])

StepSec(S, f, enforce) ==
  LET a == f.a vis == Vis(S) IN
  CASE f.pc = 0 -> Push(SetPc(S, 1), Frame("rv", [A0 EXCEPT !.v = a.v]))
    [] f.pc = 1 ->
         IF \E e \in vis.Eval : e = <<a.th, a.arg, a.v>> THEN Pop(S)
         ELSE SetPc(Stage(S, "Eval", {<<a.th, a.arg, a.v>>}), 2)
    [] OTHER -> CommitPoint(S, -1, enforce)

SubRows(node, sub) == {<<node, t>> : t \in sub}

\* "some child call nodes were not recorded" (recorded_child_hashes < set(child_call_hashes))
Unrec(a, vis) == a.kid # <<>> /\ a.kid \notin vis.Node

StepRcn(S, f, enforce, pick) ==
  LET a == f.a vis == Vis(S) IN
  CASE f.pc = 0 ->
         IF a.node \in vis.Node
         THEN \* repair: subtree rows are written last, so a node without any is incomplete
              IF FixNodeExit /\ ~\E x \in vis.Sub : x[1] = a.node THEN SetPc(S, 2)
              ELSE IF <<a.node, a.arg>> \notin vis.Arg \/ ~(SubRows(a.node, a.sub) \subseteq vis.Sub)
                   THEN Pop(Dev(S, "NodeExistsEarlyExit")) ELSE Pop(S)
         ELSE SetPc(Stage(S, "Node", {a.node}), 1)
    [] f.pc = 1 ->
         IF a.kid = <<>> THEN SetPc(S, 2)
         ELSE IF Pending(S) THEN FlushPoint(S, enforce)             \* query for recorded children
         ELSE SetPc(IF a.kid \in vis.Node THEN Stage(S, "Edge", {<<a.node, a.kid>>}) ELSE S, 2)
    [] f.pc = 2 -> Push(SetPc(S, 3), Frame("rv", [A0 EXCEPT !.v = a.arg]))
    [] f.pc = 3 ->
         IF <<a.node, a.arg>> \in vis.Arg
         THEN IF FixNodeExit THEN SetPc(S, 4) ELSE SetPc(S, 7)    \* as built: INSERT again
         ELSE SetPc(Stage(S, "Arg", {<<a.node, a.arg>>}), 4)
    [] f.pc = 4 -> CommitPoint(S, 5, enforce)
    [] f.pc = 7 ->  \* the Argument row exists (left dangling by an earlier run): UNIQUE fails in the flush
         Abort(Dev(Pt(S, "commit", TabsOf(Staged(S)) \cup {"Arg"}), "DuplicateArgument"), "IntegrityError")
    [] f.pc = 5 ->
         \* children without provenance: their tasks may not be recorded either -> record_value(task)
         \* for every subtree task first (pc 8), the rows afterwards
         IF Unrec(a, vis) THEN SetPc([S EXCEPT !.stack[Len(S.stack)].a.todo = a.sub], 8)
         ELSE SetPc(Stage(S, "Sub", SubRows(a.node, a.sub) \ vis.Sub), 6)
    [] f.pc = 8 ->
         IF a.todo = {} THEN SetPc(Stage(S, "Sub", SubRows(a.node, a.sub) \ vis.Sub), 6)
         ELSE LET t == IF pick \in a.todo THEN pick ELSE CHOOSE x \in a.todo : TRUE IN
              Push([S EXCEPT !.stack[Len(S.stack)].a.todo = @ \ {t}], Frame("rv", [A0 EXCEPT !.v = t]))
    [] OTHER -> CommitPoint(S, -1, enforce)

StepRje(S, f, enforce) ==
  LET a == f.a IN
  CASE f.pc = 0 -> SetPc(Stage(S, "JobEnd", {<<a.jid, a.node>>}), 1)
    [] OTHER -> CommitPoint(S, -1, enforce)

FrameStep(S, enforce, pick) ==
  LET f == Top(S) IN
  CASE f.op = "rv" -> StepRv(S, f, enforce)
    [] f.op = "rjs" -> StepRjs(S, f, enforce)
    [] f.op = "sec" -> StepSec(S, f, enforce)
    [] f.op = "rcn" -> StepRcn(S, f, enforce, pick)
    [] OTHER -> StepRje(S, f, enforce)

(***************************************************************************)
(* Lookups (check_cache, _get_call_node, get_subtree_tasks)                *)
(***************************************************************************)
RecSub(db, n) == {x[2] : x \in {y \in db.Sub : y[1] = n}}
TrueSub(S, n) == {x[2] : x \in {y \in S.tsub : y[1] = n}}
IndexOf(seq, x) == CHOOSE i \in 1..Len(seq) : seq[i] = x
\* newest node of (th, arg) whose RECORDED subtree set is a subset of the registry hashes
GetCallNode(S, th, arg) ==
  LET cands == {n \in S.db.Node : n[1] = th /\ n[2] = arg}
      cur == {n \in cands : /\ RecSub(S.db, n) \subseteq RegHashes(S.reg)
                            /\ (FixSubtree => RecSub(S.db, n) # {})}
  IN IF cur = {} THEN <<>>
     ELSE CHOOSE n \in cur : \A m \in cur : IndexOf(S.nseq, m) <= IndexOf(S.nseq, n)

(***************************************************************************)
(* Scheduler                                                               *)
(***************************************************************************)
JobId(S, l) == (CASE S.run.no = 1 -> "1" [] S.run.no = 2 -> "2" [] S.run.no = 3 -> "3" [] OTHER -> "4") \o TaskAt[l]

\* the job at level l runs without provenance (prov=False on the child, inherited below)
Quiet(S, l) == S.noprov /\ l >= 2

SchedStep(S) ==
  LET r == S.run  l == r.lvl  j == r.jobs[l]  th == TH(l, S.reg[l]) IN
  CASE r.ph = "lookup" /\ Quiet(S, l) ->      \* cache_scope NONE: no lookup, no record_job_start
         [S EXCEPT !.run.jobs[l] = [j EXCEPT !.th = th, !.hit = "miss"], !.run.ph = "started"]
    [] r.ph = "lookup" /\ ~Quiet(S, l) ->
         LET ult == IF l = 1 THEN GetCallNode(S, th, j.arg) ELSE <<>>
             ultok == ult # <<>> /\ ult[3] \in S.db.Value
             single == {e \in S.db.Eval : e[1] = th /\ e[2] = j.arg /\ e[3] \in S.db.Value}
             jb == IF ultok THEN [j EXCEPT !.th = th, !.hit = "ultimate", !.res = ult[3], !.call = ult]
                   ELSE IF single # {}
                        THEN [j EXCEPT !.th = th, !.hit = "single", !.res = (CHOOSE e \in single : TRUE)[3]]
                        ELSE [j EXCEPT !.th = th, !.hit = "miss"]
             S1 == [S EXCEPT !.run.jobs[l] = jb, !.run.ph = "start"]
             S2 == IF ultok /\ ~(TrueSub(S, ult) \subseteq RegHashes(S.reg)) THEN [S1 EXCEPT !.badhit = TRUE] ELSE S1
         IN IF ultok /\ RecSub(S.db, ult) # TrueSub(S, ult) THEN Dev(S2, "ShallowAcceptsMissingSubtree") ELSE S2
    [] r.ph = "start" ->
         Push([S EXCEPT !.run.ph = "started"],
              Frame("rjs", [A0 EXCEPT !.jid = JobId(S, l), !.th = th, !.ex = r.no, !.root = (l = 1)]))
    [] r.ph = "started" ->
         IF j.hit = "miss"
         THEN LET res == Body(l, S.reg[l], j.arg)
                  S1 == [S EXCEPT !.run.jobs[l].res = res, !.run.exe = @ \cup {TaskAt[l]}, !.run.ph = "descend"]
              IN IF Quiet(S, l) THEN S1      \* nothing is cached
                 ELSE Push(S1, Frame("sec", [A0 EXCEPT !.th = th, !.arg = j.arg, !.v = res]))
         ELSE IF j.hit = "single" THEN [S EXCEPT !.run.ph = "descend"]
         ELSE [S EXCEPT !.run.fin = j.res, !.run.ph = "ascend"]
    [] r.ph = "descend" ->
         IF IsExpr(j.res) /\ l < 3
         THEN [S EXCEPT !.run.lvl = l + 1, !.run.deep = l + 1, !.run.ph = "lookup",
                        !.run.jobs[l + 1] = [NoJob EXCEPT !.arg = ExprArg(j.res)]]
         ELSE [S EXCEPT !.run.fin = j.res, !.run.ph = "ascend"]
    [] r.ph = "ascend" /\ Quiet(S, l) ->
         \* the call hash is computed in memory (hash_call_node), nothing is recorded
         LET haskid == l < r.deep
             kid == IF haskid THEN r.jobs[l + 1].call ELSE <<>>
             node == <<th, j.arg, r.fin>> \o kid
         IN [S EXCEPT !.run.jobs[l].call = node,
                      !.run.jobs[l].sub = {th} \cup (IF haskid THEN r.jobs[l + 1].sub ELSE {}),
                      !.run.jobs[l].tsj = {th} \cup (IF haskid THEN r.jobs[l + 1].tsj ELSE {}),
                      !.run.lvl = l - 1, !.run.ph = "ascend"]
    [] r.ph = "ascend" /\ ~Quiet(S, l) ->
         IF j.hit = "ultimate"
         THEN [S EXCEPT !.run.jobs[l].sub = RecSub(S.db, j.call) \cap RegHashes(S.reg),
                        !.run.jobs[l].tsj = TrueSub(S, j.call), !.run.ph = "end"]
         ELSE Push([S EXCEPT !.run.ph = "callnode"], Frame("rv", [A0 EXCEPT !.v = r.fin]))
    [] r.ph = "callnode" ->
         LET haskid == l < r.deep
             kid == IF haskid THEN r.jobs[l + 1].call ELSE <<>>
             sub == {th} \cup (IF haskid THEN r.jobs[l + 1].sub ELSE {})
             tsj == {th} \cup (IF haskid THEN r.jobs[l + 1].tsj ELSE {})
             node == <<th, j.arg, r.fin>> \o kid
         IN Push([S EXCEPT !.run.jobs[l].call = node, !.run.jobs[l].sub = sub, !.run.jobs[l].tsj = tsj,
                           !.tsub = @ \cup {<<node, t>> : t \in tsj}, !.run.ph = "end"],
                 Frame("rcn", [A0 EXCEPT !.node = node, !.kid = kid, !.sub = sub, !.arg = j.arg,
                                          !.th = th, !.v = r.fin]))
    [] r.ph = "end" ->
         Push([S EXCEPT !.run.ph = "ended"], Frame("rje", [A0 EXCEPT !.jid = JobId(S, l), !.node = j.call]))
    [] OTHER ->  \* "ended"
         IF l = 1 THEN EndRun(S, <<"ok", r.fin, r.exe>>)
         ELSE [S EXCEPT !.run.lvl = l - 1, !.run.ph = "ascend"]

Running(S) == S.run.ph # "idle"
Step(S, enforce, pick) == IF S.stack # <<>> THEN FrameStep(S, enforce, pick) ELSE SchedStep(S)
\* the nondeterministic choices of a step: the next subtree task of the record_value(task) loop
Choices(S) == IF S.stack # <<>> /\ Top(S).op = "rcn" /\ Top(S).pc = 8 /\ Top(S).a.todo # {}
              THEN Top(S).a.todo ELSE {""}

(***************************************************************************)
(* Environment between runs                                                *)
(***************************************************************************)
Toggle(reg, e) == IF e = 0 THEN reg ELSE [reg EXCEPT ![e] = 3 - @]
StartRun(S, e) ==
  LET no == S.run.no + 1 IN
  [S EXCEPT !.reg = Toggle(S.reg, e), !.edits = @ + (IF e = 0 THEN 0 ELSE 1), !.np = 0,
            !.mem = {no}, !.lastpt = NoPt,            \* record_execution: nothing is written
            !.run = [IdleRun EXCEPT !.no = no, !.ph = "lookup", !.jobs[1] = [NoJob EXCEPT !.arg = "a1"]],
            !.hist = Append(@, <<"run", e>>)]

\* put_records of everything reachable from the executions: no CallSubtreeTask rows, no Evaluation
\* rows, only the tasks of transferred jobs and call nodes (a task recorded only for the subtree rows of
\* a node -- children without provenance -- is not reachable) and the values transferred records refer to
Imported(db) ==
  LET tasks == db.Task \cap ({j[2] : j \in db.Job} \cup {n[1] : n \in db.Node})
      vals == {n[3] : n \in db.Node} \cup {a[2] : a \in db.Arg} \cup tasks IN
  [db EXCEPT !.Sub = {}, !.Eval = {}, !.Task = tasks, !.Value = @ \cap vals]
Import(S) == [S EXCEPT !.db = Imported(S.db), !.imported = TRUE, !.hist = Append(@, <<"import", 0>>)]

(***************************************************************************)
(* Model-checking specification                                            *)
(***************************************************************************)
VARIABLE s

PointsOf(np) == IF np THEN NPointsNP ELSE NPoints
InjPlans(np) == {NoInj}
            \cup {[kind |-> "fault", at |-> k, site |-> ""] : k \in 1..PointsOf(np)}
            \cup {[kind |-> "crash", at |-> k, site |-> w] : k \in 1..PointsOf(np), w \in {"before", "after"}}

RECURSIVE RunToEnd(_, _)
RunToEnd(S, fuel) == IF ~Running(S) \/ fuel = 0 THEN S
                     ELSE RunToEnd(Step(S, TRUE, CHOOSE p \in Choices(S) : TRUE), fuel - 1)
Start0(np, inj) == StartRun([State0(EmptyT, <<>>, <<1, 1, 1>>, inj, {}) EXCEPT !.noprov = np], 0)
\* what the fault-free recording run leaves behind (the same for every order of the subtree tasks)
FaultFreeEnd(np) == RunToEnd(Start0(np, NoInj), 400)
FaultFreeDb(np) == FaultFreeEnd(np).db

Init == \E np \in Variants : \E inj \in InjPlans(np) :
          s = [Start0(np, inj) EXCEPT !.ffdb = FaultFreeDb(np)]

RunStep == Running(s) /\ \E enforce \in BOOLEAN, pick \in Choices(s) : s' = Step(s, enforce, pick)
\* a crash injection planned for a flush point never fires (crashes happen at commits): prune
NextRun == /\ ~Running(s) /\ Len(s.outs) < MaxRuns
           \* one edit, or an edit followed by its revert (registry history v1, v2, v1: an older current
           \* node beside a newer stale one)
           /\ \E e \in 0..3 : /\ (e # 0 => (s.edits = 0 \/ (s.edits = 1 /\ s.reg[e] = 2)))
                              /\ (Len(s.outs) >= 2 => e # 0)
                              /\ s' = StartRun(s, e)
DoImport == /\ WithImport /\ ~Running(s) /\ Len(s.outs) = 1 /\ ~s.imported /\ s.outs[1][1] = "ok"
            /\ s' = Import(s)
Next == RunStep \/ NextRun \/ DoImport
Spec == Init /\ [][Next]_s

(***************************************************************************)
(* Properties                                                              *)
(***************************************************************************)
TypeOK == /\ s.np <= PointsOf(s.noprov) + 6 /\ Len(s.stack) <= 3
          /\ Len(s.nseq) = Cardinality(s.db.Node) /\ \A i \in 1..Len(s.nseq) : s.nseq[i] \in s.db.Node
          /\ s.db.Task \subseteq TaskHashes

\* ghost = Merkle: what really ran beneath a node is what its id says
GhostMerkle == \A x \in s.tsub : x[2] \in NodeTasks(x[1])
               /\ \A n \in s.db.Node : TrueSub(s, n) = NodeTasks(n)

\* ---- strict contract (C22 / C03 as stated) ----
FKAlways == FKClosed(s.db)
\* recovery runs return what a run on an empty backend returns (reg does not change while a run
\* is in progress, so the check is made when the outcome is appended)
RecoveryFresh == (~Running(s) /\ Len(s.outs) >= 2) =>
                    LET o == s.outs[Len(s.outs)] IN o[1] = "ok" /\ o[2] = Fresh(s.reg)
RetrySurvives == (Len(s.outs) >= 1 /\ s.inj.kind # "crash") => (s.outs[1][1] = "ok" /\ s.outs[1][2] = "r11")
\* a run that completed despite the fault recorded exactly what the fault-free run records
RetryComplete == (Len(s.outs) = 1 /\ ~Running(s) /\ ~s.imported /\ s.inj.kind = "fault" /\ s.outs[1][1] = "ok")
                   => s.db = s.ffdb
C03Contract == ~s.badhit
Strict == FKAlways /\ RecoveryFresh /\ RetrySurvives /\ RetryComplete /\ C03Contract

\* ---- as-built: every failure goes through a named deviation ----
Has(D) == s.devs \cap D # {}
WeakFK == FKAlways \/ Has({"TaskRowLost", "NestedRetryDropsOuterRows"})
WeakFresh == RecoveryFresh \/ Has({"ShallowAcceptsMissingSubtree", "TaskRowLost", "NestedRetryDropsOuterRows"})
WeakSurvives == RetrySurvives \/ Has({"PopBeforeCommit", "TaskRowLost", "NestedRetryDropsOuterRows"})
WeakComplete == RetryComplete \/ Has({"NodeExistsEarlyExit", "NestedRetryDropsOuterRows", "TaskRowLost"})
WeakC03 == C03Contract \/ Has({"ShallowAcceptsMissingSubtree"})
\* stale results only ever come from the shallow lookup
StaleOnlyShallow ==
  (~Running(s) /\ Len(s.outs) >= 2 /\ s.outs[Len(s.outs)][1] = "ok" /\ s.outs[Len(s.outs)][2] # Fresh(s.reg))
     => s.badhit
FKDevOnlyAfterDev == ("FKNotEnforced" \in s.devs) => Has({"TaskRowLost", "NestedRetryDropsOuterRows"})

View == [s EXCEPT !.lastpt = NoPt]
=============================================================================
