------------------------------- MODULE Transfer -------------------------------
(***************************************************************************)
(* C23  Record transfer between repositories (push / pull / export /       *)
(* import) preserves the call graph.                                        *)
(*                                                                         *)
(* A repository is a SET OF ROWS; a row is a tuple of strings whose first  *)
(* element names the table (NULL is the string "~"):                       *)
(*   <<"Execution", id, args, job>>                                        *)
(*   <<"Job", id, start, end, task, cached, call, parent, execution>>      *)
(*   <<"CallNode", call, task_name, task, args_hash, value, timestamp>>    *)
(*   <<"CallEdge", parent, child, rank>>         rank "0","1",.. per parent*)
(*   <<"Argument", arg, call, value, position, key>>                       *)
(*   <<"ArgResult", arg, upstream_call>>                                   *)
(*   <<"Value", value, type, format, data_digest>>                         *)
(*   <<"Subvalue", parent, child>>   <<"File", value, path>>               *)
(*   <<"Task", value, name, namespace, source_digest>>                     *)
(*   <<"Tag", tag, entity_type, entity, key, value, is_current>>           *)
(*   <<"TagEdit", parent, child>>                                          *)
(*   <<"Subtree", call, task>>       CallSubtreeTask (shallow-cache guard) *)
(*   <<"Eval", eval, task, args_hash, value>>   Evaluation (single cache)  *)
(* The same representation is used for the small repositories TLC builds   *)
(* itself and for normalised dumps of real sqlite files (Transfer_Trace).  *)
(*                                                                         *)
(* Transcribed from redun/backends/db/__init__.py and serializers.py:      *)
(*   Children      the get_*_child_edges ownership functions               *)
(*   Closure       RedunBackendDb.iter_record_ids                          *)
(*   Owned         what RecordSerializer puts into one serialised record   *)
(*   Xfer          get_records |> put_records (records whose primary key   *)
(*                 already exists are skipped) |> _postprocess_new_records *)
(*   ShallowHit / SingleHit   check_cache's ULTIMATE and SINGLE lookups    *)
(*                                                                         *)
(* Named deviations (as built; each can be switched off = repaired):       *)
(*   ChildOrderUnspecified   CallNode.child_edges has no order_by; the     *)
(*        serialiser lists children in scan order and the deserialiser     *)
(*        renumbers call_order by that list: sibling order is not kept.    *)
(*   StaleJobRowKept         a Job row that already exists in the          *)
(*        destination (transferred while the job was running) is never     *)
(*        refreshed: end_time / cached / call_hash stay NULL there.        *)
(*   SubtreeRowsNotTransferred   CallSubtreeTask rows are not part of any  *)
(*        record: every transferred call node has an empty task set in the *)
(*        destination and passes the shallow validity check regardless of  *)
(*        the current task hashes (DESIGN C03, reported there).            *)
(***************************************************************************)
EXTENDS Naturals, Sequences, FiniteSets, TLC

NULL == "~"
PKTables == {"Execution", "Job", "CallNode", "Value", "Tag"}

T(db, n) == {r \in db : r[1] = n}
PK(db) == {r[2] : r \in {x \in db : x[1] \in PKTables}}
Has(db, n, x) == \E r \in T(db, n) : r[2] = x

(***************************************************************************)
(* Ownership edges.                                                        *)
(***************************************************************************)
Children(db, ids) ==
  LET args == {a \in T(db, "Argument") : a[3] \in ids} IN
    {r[4] : r \in {x \in T(db, "Execution") : x[2] \in ids}}                      \* Execution.job
    \cup {r[5] : r \in {x \in T(db, "Job") : x[2] \in ids}}                        \* Job.task
    \cup {r[7] : r \in {x \in T(db, "Job") : x[2] \in ids}}                        \* Job.call_hash
    \cup {r[2] : r \in {x \in T(db, "Job") : x[8] \in ids}}                        \* Job.child_job
    \cup {r[4] : r \in {x \in T(db, "CallNode") : x[2] \in ids}}                   \* CallNode.task
    \cup {r[6] : r \in {x \in T(db, "CallNode") : x[2] \in ids}}                   \* CallNode.result
    \cup {a[4] : a \in args}                                                       \* CallNode.arg
    \cup {u[3] : u \in {x \in T(db, "ArgResult") : \E a \in args : a[2] = x[2]}}   \* CallNode.upstream
    \cup {e[3] : e \in {x \in T(db, "CallEdge") : x[2] \in ids}}                   \* child call node
    \cup {s[3] : s \in {x \in T(db, "Subvalue") : x[2] \in ids}}                   \* Value.subvalue
    \cup {e[2] : e \in {x \in T(db, "TagEdit") : x[3] \in ids}}                    \* Tag.parent
    \cup {e[3] : e \in {x \in T(db, "TagEdit") : x[2] \in ids}}                    \* Tag.child
    \cup {t[2] : t \in {x \in T(db, "Tag") : x[4] \in ids}}                        \* Entity.tag

RECURSIVE Reach(_, _, _)
Reach(db, frontier, seen) ==
  IF frontier = {} THEN seen
  ELSE LET nxt == (Children(db, frontier) \ {NULL}) \ seen IN Reach(db, nxt, seen \cup nxt)

(* iter_record_ids: only root ids that name a record are walked *)
Closure(db, roots) == LET r0 == roots \cap PK(db) IN Reach(db, r0, r0)

(***************************************************************************)
(* One serialised record: the owner row and the rows deserialize() creates *)
(* from it.                                                                *)
(***************************************************************************)
Owned(db, x) ==
  {r \in db :
     \/ r[1] \in PKTables /\ r[2] = x
     \/ r[1] = "CallEdge" /\ r[2] = x /\ Has(db, "CallNode", x)
     \/ r[1] = "Argument" /\ r[3] = x /\ Has(db, "CallNode", x)
     \/ r[1] = "ArgResult" /\ Has(db, "CallNode", x) /\ \E a \in T(db, "Argument") : a[2] = r[2] /\ a[3] = x
     \/ r[1] \in {"Subvalue", "File", "Task"} /\ r[2] = x /\ Has(db, "Value", x)
     \/ r[1] = "TagEdit" /\ r[3] = x /\ Has(db, "Tag", x)}

(* is_current is not serialised: a new Tag row starts current *)
AsNew(r) == IF r[1] = "Tag" THEN <<r[1], r[2], r[3], r[4], r[5], r[6], "1">> ELSE r
NoCur(r) == IF r[1] = "Tag" THEN <<r[1], r[2], r[3], r[4], r[5], r[6]>> ELSE r
NoCurSet(S) == {NoCur(r) : r \in S}

(* _postprocess_new_records: a tag with a child edit is not current *)
Post(db) ==
  {IF r[1] = "Tag" /\ (\E e \in T(db, "TagEdit") : e[2] = r[2])
     THEN <<r[1], r[2], r[3], r[4], r[5], r[6], "0">> ELSE r : r \in db}

New(src, dst, roots) == (Closure(src, roots) \cap PK(src)) \ PK(dst)

(* the transfer with all three deviations repaired *)
XferIdeal(src, dst, roots) ==
  LET C == Closure(src, roots) \cap PK(src)
      kept == {r \in dst : ~(r[1] = "Job" /\ r[2] \in C)}            \* job rows are refreshed
      add == UNION {{AsNew(r) : r \in Owned(src, x)} : x \in New(src, dst, roots)}
      jobs == {r \in T(src, "Job") : r[2] \in C}
      sub == {r \in T(src, "Subtree") : r[2] \in C}
  IN Post(kept \cup add \cup jobs \cup sub)

(* as built, up to the order of children (any permutation; see ChildOrderOK) *)
XferAsBuilt(src, dst, roots) ==
  Post(dst \cup UNION {{AsNew(r) : r \in Owned(src, x)} : x \in New(src, dst, roots)})

(* two row sets are equal up to a renumbering of the child ranks of the call nodes in P *)
EdgesOf(db, p) == {e \in T(db, "CallEdge") : e[2] = p}
Ranks(n) == {ToString(i) : i \in 0..(n - 1)}
SameUpToChildOrder(d1, d2, P) ==
  /\ {r \in d1 : ~(r[1] = "CallEdge" /\ r[2] \in P)} = {r \in d2 : ~(r[1] = "CallEdge" /\ r[2] \in P)}
  /\ \A p \in P :
       LET e1 == EdgesOf(d1, p)
           e2 == EdgesOf(d2, p) IN
         /\ Cardinality(e1) = Cardinality(e2)
         /\ {e[4] : e \in e1} = Ranks(Cardinality(e1)) /\ {e[4] : e \in e2} = Ranks(Cardinality(e2))
         /\ \A c \in {e[3] : e \in e1 \cup e2} :
              Cardinality({e \in e1 : e[3] = c}) = Cardinality({e \in e2 : e[3] = c})

(***************************************************************************)
(* The contract (what C23 states), over (src, dst before, dst after, roots).*)
(***************************************************************************)
(* every record of the closure is in the destination with exactly the source's rows; split by
   table so that a failure can be attributed *)
RowsKept(src, d1, roots, tables) ==
  \A x \in Closure(src, roots) \cap PK(src) :
     {NoCur(r) : r \in {y \in Owned(src, x) : y[1] \in tables}}
       = {NoCur(r) : r \in {y \in Owned(d1, x) : y[1] \in tables}}
EdgeTables == {"CallEdge"}
JobTables == {"Job"}
OtherTables == {"Execution", "CallNode", "Value", "Tag", "Argument", "ArgResult", "Subvalue", "File",
                "Task", "TagEdit"}
(* same children with the same multiplicity, whatever the order *)
ChildSetsKept(src, d1, roots) ==
  SameUpToChildOrder({r \in src : r[1] = "CallEdge" /\ r[2] \in Closure(src, roots)},
                     {r \in d1 : r[1] = "CallEdge" /\ r[2] \in Closure(src, roots)},
                     Closure(src, roots) \cap {r[2] : r \in T(src, "CallNode")})

IsCur(db, t) == \E r \in T(db, "Tag") : r[2] = t /\ r[7] = "1"
EditKids(db, t) == {e[3] : e \in {x \in T(db, "TagEdit") : x[2] = t}}
(* a tag is current in the destination iff the destination knows no edit of it; and when the
   destination knew no edit the source does not know, it has the source's status *)
TagStatusKept(src, d0, d1, roots) ==
  \A t \in Closure(src, roots) \cap {r[2] : r \in T(src, "Tag")} :
     /\ IsCur(d1, t) <=> EditKids(d1, t) = {}
     /\ (EditKids(d0, t) \subseteq EditKids(src, t) /\ (IsCur(src, t) <=> EditKids(src, t) = {}))
          => (IsCur(d1, t) <=> IsCur(src, t))
(* nothing the destination had is lost (a tag may only turn non-current), nothing outside the
   closure appears *)
Monotone(src, d0, d1, roots) ==
  /\ NoCurSet(d0 \ T(d0, "Job")) \subseteq NoCurSet(d1)
  /\ \A r \in T(d0, "Tag") : r[7] = "0" => r \in d1
  /\ \A r \in T(d0, "Job") : r \in d1 \/ r[2] \in Closure(src, roots)
  /\ \A r \in d1 \ d0 : \/ \E x \in Closure(src, roots) : r \in {AsNew(y) : y \in Owned(src, x)} \/ r[2] = x
                        \/ r[1] = "Tag"        \* is_current flips
                        \/ r[1] = "Subtree" /\ r[2] \in Closure(src, roots)
Idempotent(d1, d2, n2) == d2 = d1 /\ n2 = 0
CountOK(src, d0, roots, n) == n = Cardinality(New(src, d0, roots))

(***************************************************************************)
(* Cache lookups (check_cache).  A lookup asks for (task, args_hash) with  *)
(* the set `cur` of task hashes currently defined.                         *)
(***************************************************************************)
SubtreeOf(db, c) == {s[3] : s \in {x \in T(db, "Subtree") : x[2] = c}}
(* ULTIMATE (check_valid = shallow): some call node of (task, args) whose recorded subtree tasks
   all still exist -- and whose result value is present *)
ShallowHit(db, task, args, cur) ==
  \E c \in T(db, "CallNode") : c[4] = task /\ c[5] = args /\ SubtreeOf(db, c[2]) \subseteq cur
                               /\ Has(db, "Value", c[6])
(* SINGLE: an Evaluation row for the eval hash (task, args) whose value is present *)
SingleHit(db, task, args) ==
  \E e \in T(db, "Eval") : e[3] = task /\ e[4] = args /\ Has(db, "Value", e[5])
Hit(db, task, args, cur, shallow) ==
  (shallow /\ ShallowHit(db, task, args, cur)) \/ SingleHit(db, task, args)
(* the destination serves nothing that neither it (before) nor the source would serve *)
CacheSafeAt(src, d0, d1, task, args, cur, shallow) ==
  Hit(d1, task, args, cur, shallow) => (Hit(d0, task, args, cur, shallow) \/ Hit(src, task, args, cur, shallow))
=============================================================================
