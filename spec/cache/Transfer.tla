------------------------------- MODULE Transfer -------------------------------
(***************************************************************************)
(* C23  Record transfer between repositories (push / pull / export /       *)
(* import) preserves the call graph.                                        *)
(*                                                                         *)
(* A repository is a SET OF ROWS; a row is a tuple of strings whose first  *)
(* element names the table (NULL is the string "~"):                       *)
(*   <<"Execution", id, args, job>>                                        *)
(*   <<"Job", id, start, end, task, cached, call, parent, execution>>      *)
(*   <<"CallNode", call, task_name, task, args_hash, value, timestamp>>    *)
(*   <<"CallEdge", parent, child, rank>>         rank "0","1",.. per parent*)
(*   <<"Argument", arg, call, value, position, key>>                       *)
(*   <<"ArgResult", arg, upstream_call>>                                   *)
(*   <<"Value", value, type, format, data_digest>>                         *)
(*   <<"Subvalue", parent, child>>   <<"File", value, path>>               *)
(*   <<"Task", value, name, namespace, source_digest>>                     *)
(*   <<"Tag", tag, entity_type, entity, key, value, is_current>>           *)
(*   <<"TagEdit", parent, child>>                                          *)
(*   <<"Subtree", call, task>>       CallSubtreeTask (shallow-cache guard) *)
(*   <<"Eval", eval, task, args_hash, value>>   Evaluation (single cache)  *)
(* The same representation is used for the small repositories TLC builds   *)
(* itself and for normalised dumps of real sqlite files (Transfer_Trace).  *)
(*                                                                         *)
(* Transcribed from redun/backends/db/__init__.py and serializers.py:      *)
(*   Children      the get_*_child_edges ownership functions               *)
(*   Closure       RedunBackendDb.iter_record_ids                          *)
(*   Owned         what RecordSerializer puts into one serialised record   *)
(*   Xfer          get_records |> put_records (records whose primary key   *)
(*                 already exists are skipped) |> _postprocess_new_records *)
(*   ShallowHit / SingleHit   check_cache's ULTIMATE and SINGLE lookups    *)
(*                                                                         *)
(* Named deviations (as built; each can be switched off = repaired):       *)
(*   ChildOrderUnspecified   CallNode.child_edges has no order_by; the     *)
(*        serialiser lists children in scan order and the deserialiser     *)
(*        renumbers call_order by that list: sibling order is not kept.    *)
(*   StaleJobRowKept         a Job row that already exists in the          *)
(*        destination (transferred while the job was running) is never     *)
(*        refreshed: end_time / cached / call_hash stay NULL there.        *)
(*   SubtreeRowsNotTransferred   CallSubtreeTask rows are not part of any  *)
(*        record: every transferred call node has an empty task set in the *)
(*        destination and passes the shallow validity check regardless of  *)
(*        the current task hashes (DESIGN C03, reported there).            *)
(*   EmptySubtreeAccepted    (repaired in redun by a1120b6) the ULTIMATE   *)
(*        lookup used a call node with no recorded subtree tasks; only with*)
(*        this on does SubtreeRowsNotTransferred make the cache unsafe.    *)
(*   The first and the last are repaired in /repo (ff56d8a, a1120b6): the  *)
(*   as-built configuration is {StaleJobRowKept, SubtreeRowsNotTransferred}*)
(***************************************************************************)
EXTENDS Naturals, Sequences, FiniteSets, TLC

CONSTANTS Deviations,   \* subset of {"ChildOrderUnspecified", "StaleJobRowKept", "SubtreeRowsNotTransferred",
                        \*            "EmptySubtreeAccepted"}
          MaxExec, MaxTagOps, MaxXfer
Dev(d) == d \in Deviations

NULL == "~"
PKTables == {"Execution", "Job", "CallNode", "Value", "Tag"}

T(db, n) == {r \in db : r[1] = n}
PK(db) == {r[2] : r \in {x \in db : x[1] \in PKTables}}
Has(db, n, x) == \E r \in T(db, n) : r[2] = x

(***************************************************************************)
(* Ownership edges.                                                        *)
(***************************************************************************)
ChildrenX(db, ids, taskEdge) ==
  LET args == {a \in T(db, "Argument") : a[3] \in ids} IN
    {r[4] : r \in {x \in T(db, "Execution") : x[2] \in ids}}                      \* Execution.job
    \cup {r[5] : r \in {x \in T(db, "Job") : x[2] \in ids}}                        \* Job.task
    \cup {r[7] : r \in {x \in T(db, "Job") : x[2] \in ids}}                        \* Job.call_hash
    \cup {r[2] : r \in {x \in T(db, "Job") : x[8] \in ids}}                        \* Job.child_job
    \cup (IF taskEdge THEN {r[4] : r \in {x \in T(db, "CallNode") : x[2] \in ids}} ELSE {})  \* CallNode.task
    \cup {r[6] : r \in {x \in T(db, "CallNode") : x[2] \in ids}}                   \* CallNode.result
    \cup {a[4] : a \in args}                                                       \* CallNode.arg
    \cup {u[3] : u \in {x \in T(db, "ArgResult") : \E a \in args : a[2] = x[2]}}   \* CallNode.upstream
    \cup {e[3] : e \in {x \in T(db, "CallEdge") : x[2] \in ids}}                   \* child call node
    \cup {s[3] : s \in {x \in T(db, "Subvalue") : x[2] \in ids}}                   \* Value.subvalue
    \cup {e[2] : e \in {x \in T(db, "TagEdit") : x[3] \in ids}}                    \* Tag.parent
    \cup {e[3] : e \in {x \in T(db, "TagEdit") : x[2] \in ids}}                    \* Tag.child
    \cup {t[2] : t \in {x \in T(db, "Tag") : x[4] \in ids}}                        \* Entity.tag

Children(db, ids) == ChildrenX(db, ids, TRUE)

RECURSIVE ReachX(_, _, _, _)
ReachX(db, frontier, seen, taskEdge) ==
  IF frontier = {} THEN seen
  ELSE LET nxt == (ChildrenX(db, frontier, taskEdge) \ {NULL}) \ seen IN ReachX(db, nxt, seen \cup nxt, taskEdge)

(* iter_record_ids: only root ids that name a record are walked *)
Closure(db, roots) == LET r0 == roots \cap PK(db) IN ReachX(db, r0, r0, TRUE)
(* the walk without the CallNode -> Task edge: looks redundant (every job names its task) until a
   call node is reachable through call edges only -- a subtree answered by ultimate reduction has
   a job for its top call and none below.  Used for the control TaskEdgeRedundant. *)
ClosureNoTaskEdge(db, roots) == LET r0 == roots \cap PK(db) IN ReachX(db, r0, r0, FALSE)

(***************************************************************************)
(* One serialised record: the owner row and the rows deserialize() creates *)
(* from it.                                                                *)
(***************************************************************************)
(* owner of a row (the record it is serialised with); rows of Subtree / Eval have none *)
IdsOf(db, n) == {r[2] : r \in T(db, n)}
OwnedBy(db, X) ==
  LET calls == IdsOf(db, "CallNode") \cap X
      vals == IdsOf(db, "Value") \cap X
      tags == IdsOf(db, "Tag") \cap X
      myargs == {a[2] : a \in {y \in T(db, "Argument") : y[3] \in calls}}
  IN {r \in db :
        \/ r[1] \in PKTables /\ r[2] \in X
        \/ r[1] = "CallEdge" /\ r[2] \in calls
        \/ r[1] = "Argument" /\ r[3] \in calls
        \/ r[1] = "ArgResult" /\ r[2] \in myargs
        \/ r[1] \in {"Subvalue", "File", "Task"} /\ r[2] \in vals
        \/ r[1] = "TagEdit" /\ r[3] \in tags}
Owned(db, x) == OwnedBy(db, {x})

(* is_current is not serialised: a new Tag row starts current *)
AsNew(r) == IF r[1] = "Tag" THEN <<r[1], r[2], r[3], r[4], r[5], r[6], "1">> ELSE r
(* columns that are local to a repository and therefore not part of the contract: Tag.is_current
   (recomputed from the edit graph) and CallNode.timestamp (when this repository first recorded the
   call node; a call node both repositories computed keeps the destination's own time) *)
NoCur(r) == IF r[1] = "Tag" THEN <<r[1], r[2], r[3], r[4], r[5], r[6]>>
            ELSE IF r[1] = "CallNode" THEN <<r[1], r[2], r[3], r[4], r[5], r[6]>> ELSE r
NoCurSet(S) == {NoCur(r) : r \in S}

(* _postprocess_new_records: a tag with a child edit is not current *)
Post(db) ==
  {IF r[1] = "Tag" /\ (\E e \in T(db, "TagEdit") : e[2] = r[2])
     THEN <<r[1], r[2], r[3], r[4], r[5], r[6], "0">> ELSE r : r \in db}

New(src, dst, roots) == (Closure(src, roots) \cap PK(src)) \ PK(dst)

(* the transfer with all three deviations repaired *)
XferIdeal(src, dst, roots) ==
  LET C == Closure(src, roots) \cap PK(src)
      kept == {r \in dst : ~(r[1] = "Job" /\ r[2] \in C)}            \* job rows are refreshed
      add == {AsNew(r) : r \in OwnedBy(src, New(src, dst, roots))}
      jobs == {r \in T(src, "Job") : r[2] \in C}
      sub == {r \in T(src, "Subtree") : r[2] \in C}
  IN Post(kept \cup add \cup jobs \cup sub)

(* as built, up to the order of children (any permutation; see ChildOrderOK) *)
XferAsBuilt(src, dst, roots) ==
  Post(dst \cup {AsNew(r) : r \in OwnedBy(src, New(src, dst, roots))})

(* two row sets are equal up to a renumbering of the child ranks of the call nodes in P *)
EdgesOf(db, p) == {e \in T(db, "CallEdge") : e[2] = p}
Ranks(n) == {ToString(i) : i \in 0..(n - 1)}
SameUpToChildOrder(d1, d2, P) ==
  /\ {r \in d1 : ~(r[1] = "CallEdge" /\ r[2] \in P)} = {r \in d2 : ~(r[1] = "CallEdge" /\ r[2] \in P)}
  /\ \A p \in P :
       LET e1 == EdgesOf(d1, p)
           e2 == EdgesOf(d2, p) IN
         /\ Cardinality(e1) = Cardinality(e2)
         /\ {e[4] : e \in e1} = Ranks(Cardinality(e1)) /\ {e[4] : e \in e2} = Ranks(Cardinality(e2))
         /\ \A c \in {e[3] : e \in e1 \cup e2} :
              Cardinality({e \in e1 : e[3] = c}) = Cardinality({e \in e2 : e[3] = c})

(***************************************************************************)
(* The contract (what C23 states), over (src, dst before, dst after, roots).*)
(***************************************************************************)
(* every record of the closure is in the destination with exactly the source's rows; split by
   table so that a failure can be attributed *)
RowsKept(src, d1, roots, tables) ==
  LET C == Closure(src, roots) \cap PK(src) IN
    {NoCur(r) : r \in {y \in OwnedBy(src, C) : y[1] \in tables}}
      = {NoCur(r) : r \in {y \in OwnedBy(d1, C) : y[1] \in tables}}
EdgeTables == {"CallEdge"}
JobTables == {"Job"}
OtherTables == {"Execution", "CallNode", "Value", "Tag", "Argument", "ArgResult", "Subvalue", "File",
                "Task", "TagEdit"}
(* same children with the same multiplicity, whatever the order *)
ChildSetsKept(src, d1, roots) ==
  LET C == Closure(src, roots) IN
    SameUpToChildOrder({r \in src : r[1] = "CallEdge" /\ r[2] \in C}, {r \in d1 : r[1] = "CallEdge" /\ r[2] \in C},
                       C \cap IdsOf(src, "CallNode"))

IsCur(db, t) == \E r \in T(db, "Tag") : r[2] = t /\ r[7] = "1"
EditKids(db, t) == {e[3] : e \in {x \in T(db, "TagEdit") : x[2] = t}}
(* a tag is current in the destination iff the destination knows no edit of it; and when the
   destination knew no edit the source does not know, it has the source's status *)
TagStatusKept(src, d0, d1, roots) ==
  \A t \in Closure(src, roots) \cap {r[2] : r \in T(src, "Tag")} :
     /\ IsCur(d1, t) <=> EditKids(d1, t) = {}
     /\ (EditKids(d0, t) \subseteq EditKids(src, t) /\ (IsCur(src, t) <=> EditKids(src, t) = {}))
          => (IsCur(d1, t) <=> IsCur(src, t))
(* nothing the destination had is lost (a tag may only turn non-current), nothing outside the
   closure appears *)
Monotone(src, d0, d1, roots) ==
  LET C == Closure(src, roots)
      sent == NoCurSet(OwnedBy(src, C))
      had == NoCurSet(d0) IN
  /\ NoCurSet(d0 \ T(d0, "Job")) \subseteq NoCurSet(d1)
  /\ \A r \in T(d0, "Tag") : r[7] = "0" => r \in d1
  /\ \A r \in T(d0, "Job") : r \in d1 \/ r[2] \in C
  /\ \A r \in d1 \ d0 :
       \/ r[1] = "Tag" /\ NoCur(r) \in had                      \* is_current flipped
       \/ NoCur(r) \in sent                                     \* a transferred row
       \/ r[1] = "CallEdge" /\ r[2] \in C                       \* (re-ranked)
       \/ r[1] = "Subtree" /\ r[2] \in C
Idempotent(d1, d2, n2) == d2 = d1 /\ n2 = 0
CountOK(src, d0, roots, n) == n = Cardinality(New(src, d0, roots))

(***************************************************************************)
(* Cache lookups (check_cache).  A lookup asks for (task, args_hash) with  *)
(* the set `cur` of task hashes currently defined.                         *)
(***************************************************************************)
SubtreeOf(db, c) == {s[3] : s \in {x \in T(db, "Subtree") : x[2] = c}}
(* ULTIMATE (check_valid = shallow): some call node of (task, args) whose recorded subtree tasks
   all still exist -- and whose result value is present *)
ShallowHit(db, task, args, cur) ==
  \E c \in T(db, "CallNode") : c[4] = task /\ c[5] = args /\ SubtreeOf(db, c[2]) \subseteq cur
                               /\ (Dev("EmptySubtreeAccepted") \/ SubtreeOf(db, c[2]) # {})
                               /\ Has(db, "Value", c[6])
(* SINGLE: an Evaluation row for the eval hash (task, args) whose value is present *)
SingleHit(db, task, args) ==
  \E e \in T(db, "Eval") : e[3] = task /\ e[4] = args /\ Has(db, "Value", e[5])
(* The two lookups return different things (the final value of the whole subtree vs. the task's
   own return value, whose expression is evaluated further), so they are compared separately: the
   destination serves nothing that neither it (before) nor the source would serve by that lookup *)
CacheSafeAt(src, d0, d1, task, args, cur, shallow) ==
  IF shallow
  THEN ShallowHit(d1, task, args, cur) => (ShallowHit(d0, task, args, cur) \/ ShallowHit(src, task, args, cur))
  ELSE SingleHit(d1, task, args) => (SingleHit(d0, task, args) \/ SingleHit(src, task, args))

(***************************************************************************)
(* A small world for TLC: two repositories, executions of two workflows   *)
(* (possibly cut while the root job runs, and finished later), tag edits,  *)
(* transfers of any non-empty set of executions in either direction.       *)
(*                                                                         *)
(*   w1: main1() -> f(v1) = File vf;  main1 returns [vf]   (Subvalue, File)*)
(*   w2: main2() -> f(v1), g(x = <result of f>) = v2       (two ordered    *)
(*       children, keyword argument, upstream link); g is declared         *)
(*       check_valid = shallow and calls h(v1): when g's call node is      *)
(*       already recorded, a later execution has a cached job for g and NO *)
(*       job for h (ultimate reduction)                                    *)
(* Call nodes, values, tasks and tags are content addressed (same ids in   *)
(* both repositories); executions and jobs get fresh ids.                  *)
(***************************************************************************)
Repos == {"A", "B"}
Other(R) == IF R = "A" THEN "B" ELSE "A"

ValueRows(v) == {<<"Value", v, "int", "pickle", "d_" \o v>>}
TaskRows(t) == {<<"Value", t, "redun.Task", "pickle", "d_" \o t>>, <<"Task", t, t, "ns", "s_" \o t>>}
FileRows(v) == {<<"Value", v, "redun.File", "pickle", "d_" \o v>>, <<"File", v, "/p/" \o v>>}
ListRows(v, subs) == {<<"Value", v, "list", "pickle", "d_" \o v>>} \cup {<<"Subvalue", v, u>> : u \in subs}

(* content-addressed part of a finished run of workflow w *)
Content(w, R) ==
  LET f == {<<"CallNode", "c_f", "f", "t_f", "a1", "vf", "ts" \o R>>,
            <<"Argument", "arg_f", "c_f", "v1", "0", NULL>>,
            <<"Subtree", "c_f", "t_f">>, <<"Eval", "ev_f", "t_f", "a1", "vf">>}
           \cup ValueRows("v1") \cup FileRows("vf") \cup TaskRows("t_f")
  IN IF w = "w1"
     THEN f \cup {<<"CallNode", "c_m1", "main1", "t_m1", "a0", "vl", "ts" \o R>>, <<"CallEdge", "c_m1", "c_f", "0">>,
                  <<"Subtree", "c_m1", "t_m1">>, <<"Subtree", "c_m1", "t_f">>,
                  <<"Eval", "ev_m1", "t_m1", "a0", "vl">>}
            \cup ListRows("vl", {"vf"}) \cup TaskRows("t_m1")
     ELSE f \cup {<<"CallNode", "c_m2", "main2", "t_m2", "a0", "v2", "ts" \o R>>,
                  <<"CallNode", "c_g", "g", "t_g", "a2", "v2", "ts" \o R>>,
                  <<"CallEdge", "c_m2", "c_f", "0">>, <<"CallEdge", "c_m2", "c_g", "1">>,
                  <<"Argument", "arg_g", "c_g", "vf", NULL, "x">>, <<"ArgResult", "arg_g", "c_f">>,
                  <<"Subtree", "c_m2", "t_m2">>, <<"Subtree", "c_m2", "t_f">>, <<"Subtree", "c_m2", "t_g">>,
                  <<"Subtree", "c_g", "t_g">>,
                  <<"Eval", "ev_m2", "t_m2", "a0", "v2">>, <<"Eval", "ev_g", "t_g", "a2", "v2">>,
                  \* g is a check_valid = shallow task that calls h(v1)
                  <<"CallNode", "c_h", "h", "t_h", "a3", "v2", "ts" \o R>>, <<"CallEdge", "c_g", "c_h", "0">>,
                  <<"Argument", "arg_h", "c_h", "v1", "0", NULL>>,
                  <<"Subtree", "c_h", "t_h">>, <<"Subtree", "c_g", "t_h">>, <<"Subtree", "c_m2", "t_h">>,
                  <<"Eval", "ev_h", "t_h", "a3", "v2">>}
            \cup ValueRows("v2") \cup TaskRows("t_m2") \cup TaskRows("t_g") \cup TaskRows("t_h")

(* what a run adds to a repository holding d: record_call_node / record_value write nothing for a
   call node or value that is already there (no edges, arguments or subtree rows either) *)
NewContent(d, w, R) ==
  LET cont == Content(w, R)
      fresh == PK(cont) \ PK(d) IN
    OwnedBy(cont, fresh) \cup {r \in T(cont, "Subtree") : r[2] \in fresh} \cup T(cont, "Eval")

RootCall(w) == IF w = "w1" THEN "c_m1" ELSE "c_m2"
RootTask(w) == IF w = "w1" THEN "t_m1" ELSE "t_m2"
Kids(w) == IF w = "w1" THEN <<<<"t_f", "c_f">>>> ELSE <<<<"t_f", "c_f">>, <<"t_g", "c_g">>>>
Bit(b) == IF b THEN "1" ELSE "0"
EId(n) == "e" \o ToString(n)
JId(n, k) == "j" \o ToString(n) \o "_" \o ToString(k)

(* job rows of execution n (workflow w) in a repository that held `before`; a job is recorded
   as cached when its call node was already there *)
JobRows(n, w, before, done) ==
  IF ~done THEN {<<"Job", JId(n, 0), "s", NULL, RootTask(w), "0", NULL, NULL, EId(n)>>}
  ELSE {<<"Job", JId(n, 0), "s", "t", RootTask(w), Bit(Has(before, "CallNode", RootCall(w))), RootCall(w),
          NULL, EId(n)>>}
       \cup {<<"Job", JId(n, k), "s", "t", Kids(w)[k][1], Bit(Has(before, "CallNode", Kids(w)[k][2])),
                Kids(w)[k][2], JId(n, 0), EId(n)>> : k \in 1..Len(Kids(w))}
       \cup (IF w = "w2" /\ ~Has(before, "CallNode", "c_g")       \* h runs only when g really runs
             THEN {<<"Job", JId(n, 3), "s", "t", "t_h", Bit(Has(before, "CallNode", "c_h")), "c_h", JId(n, 2), EId(n)>>}
             ELSE {})
ExecRow(n) == <<"Execution", EId(n), "args", JId(n, 0)>>

VARIABLES db,      \* [Repos -> set of rows]
          pend,    \* executions cut while running: [repo, n, w]
          nexec, ntag, nx,
          last     \* ghost: the transfer just performed
vars == <<db, pend, nexec, ntag, nx, last>>

NoLast == [on |-> FALSE, S |-> "A", D |-> "B", src |-> {}, d0 |-> {}, roots |-> {}]
Init == db = [R \in Repos |-> {}] /\ pend = {} /\ nexec = 0 /\ ntag = 0 /\ nx = 0 /\ last = NoLast

Run(R, w, cut) ==
  /\ nexec < MaxExec
  /\ LET n == nexec + 1 IN
       /\ db' = [db EXCEPT ![R] = @ \cup {ExecRow(n)} \cup JobRows(n, w, @, ~cut)
                                     \cup (IF cut THEN {} ELSE NewContent(@, w, R))]
       /\ pend' = IF cut THEN pend \cup {[repo |-> R, n |-> n, w |-> w]} ELSE pend
       /\ nexec' = n
  /\ last' = NoLast /\ UNCHANGED <<ntag, nx>>

(* the cut execution completes: record_job_end rewrites the root job row *)
Finish(p) ==
  /\ p \in pend
  /\ db' = [db EXCEPT ![p.repo] = (@ \ JobRows(p.n, p.w, {}, FALSE)) \cup JobRows(p.n, p.w, @, TRUE)
                                       \cup NewContent(@, p.w, p.repo)]
  /\ pend' = pend \ {p}
  /\ last' = NoLast /\ UNCHANGED <<nexec, ntag, nx>>

ExecIds(d) == {r[2] : r \in T(d, "Execution")}
Entities(d) == ExecIds(d) \cup ({"v1"} \cap PK(d))
EType(x) == IF x = "v1" THEN "Value" ELSE "Execution"
TagId(e, k, v, ps) == ToString(<<e, k, v, ps>>)
CurTags(d, e) == {r[2] : r \in {x \in T(d, "Tag") : x[4] = e /\ x[5] = "k" /\ x[7] = "1"}}
Supersede(d, ps) == {IF r[1] = "Tag" /\ r[2] \in ps THEN <<r[1], r[2], r[3], r[4], r[5], r[6], "0">> ELSE r : r \in d}

(* record_tags: a new current tag (re-recording an existing tag changes nothing) *)
TagAdd(R, e, v) ==
  /\ ntag < MaxTagOps /\ e \in Entities(db[R])
  /\ LET id == TagId(e, "k", v, {}) IN
       /\ ~Has(db[R], "Tag", id)
       /\ db' = [db EXCEPT ![R] = @ \cup {<<"Tag", id, EType(e), e, "k", v, "1">>}]
  /\ ntag' = ntag + 1 /\ last' = NoLast /\ UNCHANGED <<pend, nexec, nx>>
(* update_tags / record_tags(update=True): the current tags of the key become parents *)
TagUpdate(R, e, v) ==
  /\ ntag < MaxTagOps /\ e \in Entities(db[R])
  /\ LET ps == CurTags(db[R], e)
         id == TagId(e, "k", v, ps) IN
       /\ ps # {} /\ ~Has(db[R], "Tag", id)
       /\ db' = [db EXCEPT ![R] = Supersede(@, ps) \cup {<<"Tag", id, EType(e), e, "k", v, "1">>}
                                     \cup {<<"TagEdit", q, id>> : q \in ps}]
  /\ ntag' = ntag + 1 /\ last' = NoLast /\ UNCHANGED <<pend, nexec, nx>>
(* delete_tags: a Null tag supersedes the current ones *)
TagDelete(R, e) ==
  /\ ntag < MaxTagOps /\ e \in Entities(db[R])
  /\ LET ps == CurTags(db[R], e)
         id == TagId("", "", "null", ps) IN
       /\ ps # {} /\ ~Has(db[R], "Tag", id)
       /\ db' = [db EXCEPT ![R] = Supersede(@, ps) \cup {<<"Tag", id, "Null", "", "", "null", "1">>}
                                     \cup {<<"TagEdit", q, id>> : q \in ps}]
  /\ ntag' = ntag + 1 /\ last' = NoLast /\ UNCHANGED <<pend, nexec, nx>>

Reverse(d, P) ==    \* one member of the permutation family: reverse the children of the nodes in P
  {IF r[1] = "CallEdge" /\ r[2] \in P
     THEN <<r[1], r[2], r[3], ToString(Cardinality(EdgesOf(d, r[2])) - 1 - (CHOOSE i \in 0..9 : ToString(i) = r[4]))>>
     ELSE r : r \in d}
XferModel(src, dst, roots, flip) ==
  LET C == Closure(src, roots) \cap PK(src)
      newcalls == New(src, dst, roots) \cap {r[2] : r \in T(src, "CallNode")}
      d1 == XferAsBuilt(src, dst, roots)
      d2 == IF Dev("ChildOrderUnspecified") /\ flip THEN Reverse(d1, newcalls) ELSE d1
      d3 == IF Dev("StaleJobRowKept") THEN d2
            ELSE {r \in d2 : ~(r[1] = "Job" /\ r[2] \in C)} \cup {r \in T(src, "Job") : r[2] \in C}
  IN IF Dev("SubtreeRowsNotTransferred") THEN d3 ELSE d3 \cup {r \in T(src, "Subtree") : r[2] \in C}

Transfer(S, roots, flip) ==
  /\ nx < MaxXfer /\ roots # {} /\ roots \subseteq ExecIds(db[S])
  /\ (flip => Dev("ChildOrderUnspecified"))
  /\ LET D == Other(S) IN
       /\ db' = [db EXCEPT ![D] = XferModel(db[S], db[D], roots, flip)]
       /\ last' = [on |-> TRUE, S |-> S, D |-> D, src |-> db[S], d0 |-> db[D], roots |-> roots]
  /\ nx' = nx + 1 /\ UNCHANGED <<pend, nexec, ntag>>

Next ==
  \/ \E R \in Repos, w \in {"w1", "w2"}, cut \in BOOLEAN : Run(R, w, cut)
  \/ \E p \in pend : Finish(p)
  \/ \E R \in Repos : \E e \in Entities(db[R]) : \E v \in {"a", "b"} : TagAdd(R, e, v) \/ TagUpdate(R, e, v)
  \/ \E R \in Repos : \E e \in Entities(db[R]) : TagDelete(R, e)
  \/ \E S \in Repos : \E roots \in SUBSET ExecIds(db[S]) : \E flip \in BOOLEAN : Transfer(S, roots, flip)
Spec == Init /\ [][Next]_vars

(***************************************************************************)
(* Properties: checked on the state right after a transfer.                *)
(***************************************************************************)
After == db[last.D]
RowsFaithful == last.on => RowsKept(last.src, After, last.roots, OtherTables)
JobsFaithful == last.on => RowsKept(last.src, After, last.roots, JobTables)
ChildOrderFaithful == last.on => RowsKept(last.src, After, last.roots, EdgeTables)
ChildSetsFaithful == last.on => ChildSetsKept(last.src, After, last.roots)
TagsFaithful == last.on => TagStatusKept(last.src, last.d0, After, last.roots)
NothingLost == last.on => Monotone(last.src, last.d0, After, last.roots)
(* repeating the transfer adds nothing (whatever order the serialiser picks) *)
TwiceAddsNothing ==
  last.on => /\ New(last.src, After, last.roots) = {}
             /\ \A flip \in BOOLEAN : XferModel(last.src, After, last.roots, flip) = After
AllTasks == {"t_f", "t_g", "t_h", "t_m1", "t_m2"}
Calls(d) == {<<c[4], c[5]>> : c \in T(d, "CallNode")}
CacheSafe ==
  last.on => \A q \in Calls(last.src) \cup Calls(last.d0), cur \in SUBSET AllTasks, sh \in BOOLEAN :
                CacheSafeAt(last.src, last.d0, After, q[1], q[2], cur, sh)
(* the as-built operator is what the machine does, up to child order *)
AsBuiltAgrees ==
  (last.on /\ {"StaleJobRowKept", "SubtreeRowsNotTransferred"} \subseteq Deviations) =>
     SameUpToChildOrder(After, XferAsBuilt(last.src, last.d0, last.roots),
                        New(last.src, last.d0, last.roots))
IdealAgrees == (last.on /\ Deviations = {}) => After = XferIdeal(last.src, last.d0, last.roots)
(* model-level control (expected to be VIOLATED): the CallNode -> Task edge is not redundant *)
TaskEdgeRedundant == last.on => Closure(last.src, last.roots) = ClosureNoTaskEdge(last.src, last.roots)
TypeOK == \A R \in Repos : \A r \in db[R] : r[1] \in PKTables \cup {"CallEdge", "Argument", "ArgResult",
             "Subvalue", "File", "Task", "TagEdit", "Subtree", "Eval"}
(* tags: is_current <=> no child edit, in every repository at every time (what Post re-establishes) *)
TagLeafInv == \A R \in Repos : \A t \in T(db[R], "Tag") : (t[7] = "1") <=> EditKids(db[R], t[2]) = {}
=============================================================================
