---- MODULE Transfer_TTrace_1790043426 ----
EXTENDS Sequences, TLCExt, Toolbox, Transfer, Naturals, TLC

_expression ==
    LET Transfer_TEExpression == INSTANCE Transfer_TEExpression
    IN Transfer_TEExpression!expression
----

_trace ==
    LET Transfer_TETrace == INSTANCE Transfer_TETrace
    IN Transfer_TETrace!trace
----

_inv ==
    ~(
        TLCGet("level") = Len(_TETrace)
        /\
        nexec = (2)
        /\
        last = ([roots |-> {"e1"}, S |-> "A", src |-> {<<"ArgResult", "arg_g", "c_f">>, <<"File", "vf", "/p/vf">>, <<"Subtree", "c_f", "t_f">>, <<"Subtree", "c_m2", "t_f">>, <<"Subtree", "c_m2", "t_m2">>, <<"Subtree", "c_m2", "t_g">>, <<"Subtree", "c_g", "t_g">>, <<"Execution", "e1", "args", "j1_0">>, <<"CallEdge", "c_m2", "c_f", "0">>, <<"CallEdge", "c_m2", "c_g", "1">>, <<"Value", "t_f", "redun.Task", "pickle", "d_t_f">>, <<"Value", "vf", "redun.File", "pickle", "d_vf">>, <<"Value", "v1", "int", "pickle", "d_v1">>, <<"Value", "t_m2", "redun.Task", "pickle", "d_t_m2">>, <<"Value", "v2", "int", "pickle", "d_v2">>, <<"Value", "t_g", "redun.Task", "pickle", "d_t_g">>, <<"Task", "t_f", "t_f", "ns", "s_t_f">>, <<"Task", "t_m2", "t_m2", "ns", "s_t_m2">>, <<"Task", "t_g", "t_g", "ns", "s_t_g">>, <<"Eval", "ev_f", "t_f", "a1", "vf">>, <<"Eval", "ev_m2", "t_m2", "a0", "v2">>, <<"Eval", "ev_g", "t_g", "a2", "v2">>, <<"Argument", "arg_f", "c_f", "v1", "0", "~">>, <<"Argument", "arg_g", "c_g", "vf", "~", "x">>, <<"CallNode", "c_f", "f", "t_f", "a1", "vf", "tsA">>, <<"CallNode", "c_m2", "main2", "t_m2", "a0", "v2", "tsA">>, <<"CallNode", "c_g", "g", "t_g", "a2", "v2", "tsA">>, <<"Job", "j1_0", "s", "t", "t_m2", "0", "c_m2", "~", "e1">>, <<"Job", "j1_1", "s", "t", "t_f", "0", "c_f", "j1_0", "e1">>, <<"Job", "j1_2", "s", "t", "t_g", "0", "c_g", "j1_0", "e1">>}, d0 |-> {<<"ArgResult", "arg_g", "c_f">>, <<"File", "vf", "/p/vf">>, <<"Subtree", "c_f", "t_f">>, <<"Subtree", "c_m2", "t_f">>, <<"Subtree", "c_m2", "t_m2">>, <<"Subtree", "c_m2", "t_g">>, <<"Subtree", "c_g", "t_g">>, <<"Execution", "e1", "args", "j1_0">>, <<"Execution", "e2", "args", "j2_0">>, <<"CallEdge", "c_m2", "c_f", "1">>, <<"CallEdge", "c_m2", "c_f", "0">>, <<"CallEdge", "c_m2", "c_g", "1">>, <<"CallEdge", "c_m2", "c_g", "0">>, <<"Value", "t_f", "redun.Task", "pickle", "d_t_f">>, <<"Value", "vf", "redun.File", "pickle", "d_vf">>, <<"Value", "v1", "int", "pickle", "d_v1">>, <<"Value", "t_m2", "redun.Task", "pickle", "d_t_m2">>, <<"Value", "v2", "int", "pickle", "d_v2">>, <<"Value", "t_g", "redun.Task", "pickle", "d_t_g">>, <<"Task", "t_f", "t_f", "ns", "s_t_f">>, <<"Task", "t_m2", "t_m2", "ns", "s_t_m2">>, <<"Task", "t_g", "t_g", "ns", "s_t_g">>, <<"Eval", "ev_f", "t_f", "a1", "vf">>, <<"Eval", "ev_m2", "t_m2", "a0", "v2">>, <<"Eval", "ev_g", "t_g", "a2", "v2">>, <<"Argument", "arg_f", "c_f", "v1", "0", "~">>, <<"Argument", "arg_g", "c_g", "vf", "~", "x">>, <<"CallNode", "c_f", "f", "t_f", "a1", "vf", "tsA">>, <<"CallNode", "c_m2", "main2", "t_m2", "a0", "v2", "tsA">>, <<"CallNode", "c_g", "g", "t_g", "a2", "v2", "tsA">>, <<"Job", "j1_0", "s", "t", "t_m2", "0", "c_m2", "~", "e1">>, <<"Job", "j1_1", "s", "t", "t_f", "0", "c_f", "j1_0", "e1">>, <<"Job", "j2_0", "s", "t", "t_m2", "1", "c_m2", "~", "e2">>, <<"Job", "j2_1", "s", "t", "t_f", "1", "c_f", "j2_0", "e2">>, <<"Job", "j1_2", "s", "t", "t_g", "0", "c_g", "j1_0", "e1">>, <<"Job", "j2_2", "s", "t", "t_g", "1", "c_g", "j2_0", "e2">>}, on |-> TRUE, D |-> "B"])
        /\
        nx = (2)
        /\
        db = ([A |-> {<<"ArgResult", "arg_g", "c_f">>, <<"File", "vf", "/p/vf">>, <<"Subtree", "c_f", "t_f">>, <<"Subtree", "c_m2", "t_f">>, <<"Subtree", "c_m2", "t_m2">>, <<"Subtree", "c_m2", "t_g">>, <<"Subtree", "c_g", "t_g">>, <<"Execution", "e1", "args", "j1_0">>, <<"CallEdge", "c_m2", "c_f", "0">>, <<"CallEdge", "c_m2", "c_g", "1">>, <<"Value", "t_f", "redun.Task", "pickle", "d_t_f">>, <<"Value", "vf", "redun.File", "pickle", "d_vf">>, <<"Value", "v1", "int", "pickle", "d_v1">>, <<"Value", "t_m2", "redun.Task", "pickle", "d_t_m2">>, <<"Value", "v2", "int", "pickle", "d_v2">>, <<"Value", "t_g", "redun.Task", "pickle", "d_t_g">>, <<"Task", "t_f", "t_f", "ns", "s_t_f">>, <<"Task", "t_m2", "t_m2", "ns", "s_t_m2">>, <<"Task", "t_g", "t_g", "ns", "s_t_g">>, <<"Eval", "ev_f", "t_f", "a1", "vf">>, <<"Eval", "ev_m2", "t_m2", "a0", "v2">>, <<"Eval", "ev_g", "t_g", "a2", "v2">>, <<"Argument", "arg_f", "c_f", "v1", "0", "~">>, <<"Argument", "arg_g", "c_g", "vf", "~", "x">>, <<"CallNode", "c_f", "f", "t_f", "a1", "vf", "tsA">>, <<"CallNode", "c_m2", "main2", "t_m2", "a0", "v2", "tsA">>, <<"CallNode", "c_g", "g", "t_g", "a2", "v2", "tsA">>, <<"Job", "j1_0", "s", "t", "t_m2", "0", "c_m2", "~", "e1">>, <<"Job", "j1_1", "s", "t", "t_f", "0", "c_f", "j1_0", "e1">>, <<"Job", "j1_2", "s", "t", "t_g", "0", "c_g", "j1_0", "e1">>}, B |-> {<<"ArgResult", "arg_g", "c_f">>, <<"File", "vf", "/p/vf">>, <<"Subtree", "c_f", "t_f">>, <<"Subtree", "c_m2", "t_f">>, <<"Subtree", "c_m2", "t_m2">>, <<"Subtree", "c_m2", "t_g">>, <<"Subtree", "c_g", "t_g">>, <<"Execution", "e1", "args", "j1_0">>, <<"Execution", "e2", "args", "j2_0">>, <<"CallEdge", "c_m2", "c_f", "1">>, <<"CallEdge", "c_m2", "c_f", "0">>, <<"CallEdge", "c_m2", "c_g", "1">>, <<"CallEdge", "c_m2", "c_g", "0">>, <<"Value", "t_f", "redun.Task", "pickle", "d_t_f">>, <<"Value", "vf", "redun.File", "pickle", "d_vf">>, <<"Value", "v1", "int", "pickle", "d_v1">>, <<"Value", "t_m2", "redun.Task", "pickle", "d_t_m2">>, <<"Value", "v2", "int", "pickle", "d_v2">>, <<"Value", "t_g", "redun.Task", "pickle", "d_t_g">>, <<"Task", "t_f", "t_f", "ns", "s_t_f">>, <<"Task", "t_m2", "t_m2", "ns", "s_t_m2">>, <<"Task", "t_g", "t_g", "ns", "s_t_g">>, <<"Eval", "ev_f", "t_f", "a1", "vf">>, <<"Eval", "ev_m2", "t_m2", "a0", "v2">>, <<"Eval", "ev_g", "t_g", "a2", "v2">>, <<"Argument", "arg_f", "c_f", "v1", "0", "~">>, <<"Argument", "arg_g", "c_g", "vf", "~", "x">>, <<"CallNode", "c_f", "f", "t_f", "a1", "vf", "tsA">>, <<"CallNode", "c_m2", "main2", "t_m2", "a0", "v2", "tsA">>, <<"CallNode", "c_g", "g", "t_g", "a2", "v2", "tsA">>, <<"Job", "j1_0", "s", "t", "t_m2", "0", "c_m2", "~", "e1">>, <<"Job", "j1_1", "s", "t", "t_f", "0", "c_f", "j1_0", "e1">>, <<"Job", "j2_0", "s", "t", "t_m2", "1", "c_m2", "~", "e2">>, <<"Job", "j2_1", "s", "t", "t_f", "1", "c_f", "j2_0", "e2">>, <<"Job", "j1_2", "s", "t", "t_g", "0", "c_g", "j1_0", "e1">>, <<"Job", "j2_2", "s", "t", "t_g", "1", "c_g", "j2_0", "e2">>}])
        /\
        pend = ({})
        /\
        ntag = (0)
    )
----

_init ==
    /\ nx = _TETrace[1].nx
    /\ pend = _TETrace[1].pend
    /\ ntag = _TETrace[1].ntag
    /\ db = _TETrace[1].db
    /\ last = _TETrace[1].last
    /\ nexec = _TETrace[1].nexec
----

_next ==
    /\ \E i,j \in DOMAIN _TETrace:
        /\ \/ /\ j = i + 1
              /\ i = TLCGet("level")
        /\ nx  = _TETrace[i].nx
        /\ nx' = _TETrace[j].nx
        /\ pend  = _TETrace[i].pend
        /\ pend' = _TETrace[j].pend
        /\ ntag  = _TETrace[i].ntag
        /\ ntag' = _TETrace[j].ntag
        /\ db  = _TETrace[i].db
        /\ db' = _TETrace[j].db
        /\ last  = _TETrace[i].last
        /\ last' = _TETrace[j].last
        /\ nexec  = _TETrace[i].nexec
        /\ nexec' = _TETrace[j].nexec

\* Uncomment the ASSUME below to write the states of the error trace
\* to the given file in Json format. Note that you can pass any tuple
\* to `JsonSerialize`. For example, a sub-sequence of _TETrace.
    \* ASSUME
    \*     LET J == INSTANCE Json
    \*         IN J!JsonSerialize("Transfer_TTrace_1790043426.json", _TETrace)

=============================================================================

 Note that you can extract this module `Transfer_TEExpression`
  to a dedicated file to reuse `expression` (the module in the 
  dedicated `Transfer_TEExpression.tla` file takes precedence 
  over the module `Transfer_TEExpression` below).

---- MODULE Transfer_TEExpression ----
EXTENDS Sequences, TLCExt, Toolbox, Transfer, Naturals, TLC

expression == 
    [
        \* To hide variables of the `Transfer` spec from the error trace,
        \* remove the variables below.  The trace will be written in the order
        \* of the fields of this record.
        nx |-> nx
        ,pend |-> pend
        ,ntag |-> ntag
        ,db |-> db
        ,last |-> last
        ,nexec |-> nexec
        
        \* Put additional constant-, state-, and action-level expressions here:
        \* ,_stateNumber |-> _TEPosition
        \* ,_nxUnchanged |-> nx = nx'
        
        \* Format the `nx` variable as Json value.
        \* ,_nxJson |->
        \*     LET J == INSTANCE Json
        \*     IN J!ToJson(nx)
        
        \* Lastly, you may build expressions over arbitrary sets of states by
        \* leveraging the _TETrace operator.  For example, this is how to
        \* count the number of times a spec variable changed up to the current
        \* state in the trace.
        \* ,_nxModCount |->
        \*     LET F[s \in DOMAIN _TETrace] ==
        \*         IF s = 1 THEN 0
        \*         ELSE IF _TETrace[s].nx # _TETrace[s-1].nx
        \*             THEN 1 + F[s-1] ELSE F[s-1]
        \*     IN F[_TEPosition - 1]
    ]

=============================================================================



Parsing and semantic processing can take forever if the trace below is long.
 In this case, it is advised to uncomment the module below to deserialize the
 trace from a generated binary file.

\*
\*---- MODULE Transfer_TETrace ----
\*EXTENDS IOUtils, Transfer, TLC
\*
\*trace == IODeserialize("Transfer_TTrace_1790043426.bin", TRUE)
\*
\*=============================================================================
\*

---- MODULE Transfer_TETrace ----
EXTENDS Transfer, TLC

trace == 
    <<
    ([nexec |-> 0,last |-> [roots |-> {}, S |-> "A", src |-> {}, d0 |-> {}, on |-> FALSE, D |-> "B"],nx |-> 0,db |-> [A |-> {}, B |-> {}],pend |-> {},ntag |-> 0]),
    ([nexec |-> 1,last |-> [roots |-> {}, S |-> "A", src |-> {}, d0 |-> {}, on |-> FALSE, D |-> "B"],nx |-> 0,db |-> [A |-> {<<"ArgResult", "arg_g", "c_f">>, <<"File", "vf", "/p/vf">>, <<"Subtree", "c_f", "t_f">>, <<"Subtree", "c_m2", "t_f">>, <<"Subtree", "c_m2", "t_m2">>, <<"Subtree", "c_m2", "t_g">>, <<"Subtree", "c_g", "t_g">>, <<"Execution", "e1", "args", "j1_0">>, <<"CallEdge", "c_m2", "c_f", "0">>, <<"CallEdge", "c_m2", "c_g", "1">>, <<"Value", "t_f", "redun.Task", "pickle", "d_t_f">>, <<"Value", "vf", "redun.File", "pickle", "d_vf">>, <<"Value", "v1", "int", "pickle", "d_v1">>, <<"Value", "t_m2", "redun.Task", "pickle", "d_t_m2">>, <<"Value", "v2", "int", "pickle", "d_v2">>, <<"Value", "t_g", "redun.Task", "pickle", "d_t_g">>, <<"Task", "t_f", "t_f", "ns", "s_t_f">>, <<"Task", "t_m2", "t_m2", "ns", "s_t_m2">>, <<"Task", "t_g", "t_g", "ns", "s_t_g">>, <<"Eval", "ev_f", "t_f", "a1", "vf">>, <<"Eval", "ev_m2", "t_m2", "a0", "v2">>, <<"Eval", "ev_g", "t_g", "a2", "v2">>, <<"Argument", "arg_f", "c_f", "v1", "0", "~">>, <<"Argument", "arg_g", "c_g", "vf", "~", "x">>, <<"CallNode", "c_f", "f", "t_f", "a1", "vf", "tsA">>, <<"CallNode", "c_m2", "main2", "t_m2", "a0", "v2", "tsA">>, <<"CallNode", "c_g", "g", "t_g", "a2", "v2", "tsA">>, <<"Job", "j1_0", "s", "t", "t_m2", "0", "c_m2", "~", "e1">>, <<"Job", "j1_1", "s", "t", "t_f", "0", "c_f", "j1_0", "e1">>, <<"Job", "j1_2", "s", "t", "t_g", "0", "c_g", "j1_0", "e1">>}, B |-> {}],pend |-> {},ntag |-> 0]),
    ([nexec |-> 1,last |-> [roots |-> {"e1"}, S |-> "A", src |-> {<<"ArgResult", "arg_g", "c_f">>, <<"File", "vf", "/p/vf">>, <<"Subtree", "c_f", "t_f">>, <<"Subtree", "c_m2", "t_f">>, <<"Subtree", "c_m2", "t_m2">>, <<"Subtree", "c_m2", "t_g">>, <<"Subtree", "c_g", "t_g">>, <<"Execution", "e1", "args", "j1_0">>, <<"CallEdge", "c_m2", "c_f", "0">>, <<"CallEdge", "c_m2", "c_g", "1">>, <<"Value", "t_f", "redun.Task", "pickle", "d_t_f">>, <<"Value", "vf", "redun.File", "pickle", "d_vf">>, <<"Value", "v1", "int", "pickle", "d_v1">>, <<"Value", "t_m2", "redun.Task", "pickle", "d_t_m2">>, <<"Value", "v2", "int", "pickle", "d_v2">>, <<"Value", "t_g", "redun.Task", "pickle", "d_t_g">>, <<"Task", "t_f", "t_f", "ns", "s_t_f">>, <<"Task", "t_m2", "t_m2", "ns", "s_t_m2">>, <<"Task", "t_g", "t_g", "ns", "s_t_g">>, <<"Eval", "ev_f", "t_f", "a1", "vf">>, <<"Eval", "ev_m2", "t_m2", "a0", "v2">>, <<"Eval", "ev_g", "t_g", "a2", "v2">>, <<"Argument", "arg_f", "c_f", "v1", "0", "~">>, <<"Argument", "arg_g", "c_g", "vf", "~", "x">>, <<"CallNode", "c_f", "f", "t_f", "a1", "vf", "tsA">>, <<"CallNode", "c_m2", "main2", "t_m2", "a0", "v2", "tsA">>, <<"CallNode", "c_g", "g", "t_g", "a2", "v2", "tsA">>, <<"Job", "j1_0", "s", "t", "t_m2", "0", "c_m2", "~", "e1">>, <<"Job", "j1_1", "s", "t", "t_f", "0", "c_f", "j1_0", "e1">>, <<"Job", "j1_2", "s", "t", "t_g", "0", "c_g", "j1_0", "e1">>}, d0 |-> {}, on |-> TRUE, D |-> "B"],nx |-> 1,db |-> [A |-> {<<"ArgResult", "arg_g", "c_f">>, <<"File", "vf", "/p/vf">>, <<"Subtree", "c_f", "t_f">>, <<"Subtree", "c_m2", "t_f">>, <<"Subtree", "c_m2", "t_m2">>, <<"Subtree", "c_m2", "t_g">>, <<"Subtree", "c_g", "t_g">>, <<"Execution", "e1", "args", "j1_0">>, <<"CallEdge", "c_m2", "c_f", "0">>, <<"CallEdge", "c_m2", "c_g", "1">>, <<"Value", "t_f", "redun.Task", "pickle", "d_t_f">>, <<"Value", "vf", "redun.File", "pickle", "d_vf">>, <<"Value", "v1", "int", "pickle", "d_v1">>, <<"Value", "t_m2", "redun.Task", "pickle", "d_t_m2">>, <<"Value", "v2", "int", "pickle", "d_v2">>, <<"Value", "t_g", "redun.Task", "pickle", "d_t_g">>, <<"Task", "t_f", "t_f", "ns", "s_t_f">>, <<"Task", "t_m2", "t_m2", "ns", "s_t_m2">>, <<"Task", "t_g", "t_g", "ns", "s_t_g">>, <<"Eval", "ev_f", "t_f", "a1", "vf">>, <<"Eval", "ev_m2", "t_m2", "a0", "v2">>, <<"Eval", "ev_g", "t_g", "a2", "v2">>, <<"Argument", "arg_f", "c_f", "v1", "0", "~">>, <<"Argument", "arg_g", "c_g", "vf", "~", "x">>, <<"CallNode", "c_f", "f", "t_f", "a1", "vf", "tsA">>, <<"CallNode", "c_m2", "main2", "t_m2", "a0", "v2", "tsA">>, <<"CallNode", "c_g", "g", "t_g", "a2", "v2", "tsA">>, <<"Job", "j1_0", "s", "t", "t_m2", "0", "c_m2", "~", "e1">>, <<"Job", "j1_1", "s", "t", "t_f", "0", "c_f", "j1_0", "e1">>, <<"Job", "j1_2", "s", "t", "t_g", "0", "c_g", "j1_0", "e1">>}, B |-> {<<"ArgResult", "arg_g", "c_f">>, <<"File", "vf", "/p/vf">>, <<"Execution", "e1", "args", "j1_0">>, <<"CallEdge", "c_m2", "c_f", "1">>, <<"CallEdge", "c_m2", "c_g", "0">>, <<"Value", "t_f", "redun.Task", "pickle", "d_t_f">>, <<"Value", "vf", "redun.File", "pickle", "d_vf">>, <<"Value", "v1", "int", "pickle", "d_v1">>, <<"Value", "t_m2", "redun.Task", "pickle", "d_t_m2">>, <<"Value", "v2", "int", "pickle", "d_v2">>, <<"Value", "t_g", "redun.Task", "pickle", "d_t_g">>, <<"Task", "t_f", "t_f", "ns", "s_t_f">>, <<"Task", "t_m2", "t_m2", "ns", "s_t_m2">>, <<"Task", "t_g", "t_g", "ns", "s_t_g">>, <<"Argument", "arg_f", "c_f", "v1", "0", "~">>, <<"Argument", "arg_g", "c_g", "vf", "~", "x">>, <<"CallNode", "c_f", "f", "t_f", "a1", "vf", "tsA">>, <<"CallNode", "c_m2", "main2", "t_m2", "a0", "v2", "tsA">>, <<"CallNode", "c_g", "g", "t_g", "a2", "v2", "tsA">>, <<"Job", "j1_0", "s", "t", "t_m2", "0", "c_m2", "~", "e1">>, <<"Job", "j1_1", "s", "t", "t_f", "0", "c_f", "j1_0", "e1">>, <<"Job", "j1_2", "s", "t", "t_g", "0", "c_g", "j1_0", "e1">>}],pend |-> {},ntag |-> 0]),
    ([nexec |-> 2,last |-> [roots |-> {}, S |-> "A", src |-> {}, d0 |-> {}, on |-> FALSE, D |-> "B"],nx |-> 1,db |-> [A |-> {<<"ArgResult", "arg_g", "c_f">>, <<"File", "vf", "/p/vf">>, <<"Subtree", "c_f", "t_f">>, <<"Subtree", "c_m2", "t_f">>, <<"Subtree", "c_m2", "t_m2">>, <<"Subtree", "c_m2", "t_g">>, <<"Subtree", "c_g", "t_g">>, <<"Execution", "e1", "args", "j1_0">>, <<"CallEdge", "c_m2", "c_f", "0">>, <<"CallEdge", "c_m2", "c_g", "1">>, <<"Value", "t_f", "redun.Task", "pickle", "d_t_f">>, <<"Value", "vf", "redun.File", "pickle", "d_vf">>, <<"Value", "v1", "int", "pickle", "d_v1">>, <<"Value", "t_m2", "redun.Task", "pickle", "d_t_m2">>, <<"Value", "v2", "int", "pickle", "d_v2">>, <<"Value", "t_g", "redun.Task", "pickle", "d_t_g">>, <<"Task", "t_f", "t_f", "ns", "s_t_f">>, <<"Task", "t_m2", "t_m2", "ns", "s_t_m2">>, <<"Task", "t_g", "t_g", "ns", "s_t_g">>, <<"Eval", "ev_f", "t_f", "a1", "vf">>, <<"Eval", "ev_m2", "t_m2", "a0", "v2">>, <<"Eval", "ev_g", "t_g", "a2", "v2">>, <<"Argument", "arg_f", "c_f", "v1", "0", "~">>, <<"Argument", "arg_g", "c_g", "vf", "~", "x">>, <<"CallNode", "c_f", "f", "t_f", "a1", "vf", "tsA">>, <<"CallNode", "c_m2", "main2", "t_m2", "a0", "v2", "tsA">>, <<"CallNode", "c_g", "g", "t_g", "a2", "v2", "tsA">>, <<"Job", "j1_0", "s", "t", "t_m2", "0", "c_m2", "~", "e1">>, <<"Job", "j1_1", "s", "t", "t_f", "0", "c_f", "j1_0", "e1">>, <<"Job", "j1_2", "s", "t", "t_g", "0", "c_g", "j1_0", "e1">>}, B |-> {<<"ArgResult", "arg_g", "c_f">>, <<"File", "vf", "/p/vf">>, <<"Subtree", "c_f", "t_f">>, <<"Subtree", "c_m2", "t_f">>, <<"Subtree", "c_m2", "t_m2">>, <<"Subtree", "c_m2", "t_g">>, <<"Subtree", "c_g", "t_g">>, <<"Execution", "e1", "args", "j1_0">>, <<"Execution", "e2", "args", "j2_0">>, <<"CallEdge", "c_m2", "c_f", "1">>, <<"CallEdge", "c_m2", "c_f", "0">>, <<"CallEdge", "c_m2", "c_g", "1">>, <<"CallEdge", "c_m2", "c_g", "0">>, <<"Value", "t_f", "redun.Task", "pickle", "d_t_f">>, <<"Value", "vf", "redun.File", "pickle", "d_vf">>, <<"Value", "v1", "int", "pickle", "d_v1">>, <<"Value", "t_m2", "redun.Task", "pickle", "d_t_m2">>, <<"Value", "v2", "int", "pickle", "d_v2">>, <<"Value", "t_g", "redun.Task", "pickle", "d_t_g">>, <<"Task", "t_f", "t_f", "ns", "s_t_f">>, <<"Task", "t_m2", "t_m2", "ns", "s_t_m2">>, <<"Task", "t_g", "t_g", "ns", "s_t_g">>, <<"Eval", "ev_f", "t_f", "a1", "vf">>, <<"Eval", "ev_m2", "t_m2", "a0", "v2">>, <<"Eval", "ev_g", "t_g", "a2", "v2">>, <<"Argument", "arg_f", "c_f", "v1", "0", "~">>, <<"Argument", "arg_g", "c_g", "vf", "~", "x">>, <<"CallNode", "c_f", "f", "t_f", "a1", "vf", "tsA">>, <<"CallNode", "c_m2", "main2", "t_m2", "a0", "v2", "tsA">>, <<"CallNode", "c_g", "g", "t_g", "a2", "v2", "tsA">>, <<"Job", "j1_0", "s", "t", "t_m2", "0", "c_m2", "~", "e1">>, <<"Job", "j1_1", "s", "t", "t_f", "0", "c_f", "j1_0", "e1">>, <<"Job", "j2_0", "s", "t", "t_m2", "1", "c_m2", "~", "e2">>, <<"Job", "j2_1", "s", "t", "t_f", "1", "c_f", "j2_0", "e2">>, <<"Job", "j1_2", "s", "t", "t_g", "0", "c_g", "j1_0", "e1">>, <<"Job", "j2_2", "s", "t", "t_g", "1", "c_g", "j2_0", "e2">>}],pend |-> {},ntag |-> 0]),
    ([nexec |-> 2,last |-> [roots |-> {"e1"}, S |-> "A", src |-> {<<"ArgResult", "arg_g", "c_f">>, <<"File", "vf", "/p/vf">>, <<"Subtree", "c_f", "t_f">>, <<"Subtree", "c_m2", "t_f">>, <<"Subtree", "c_m2", "t_m2">>, <<"Subtree", "c_m2", "t_g">>, <<"Subtree", "c_g", "t_g">>, <<"Execution", "e1", "args", "j1_0">>, <<"CallEdge", "c_m2", "c_f", "0">>, <<"CallEdge", "c_m2", "c_g", "1">>, <<"Value", "t_f", "redun.Task", "pickle", "d_t_f">>, <<"Value", "vf", "redun.File", "pickle", "d_vf">>, <<"Value", "v1", "int", "pickle", "d_v1">>, <<"Value", "t_m2", "redun.Task", "pickle", "d_t_m2">>, <<"Value", "v2", "int", "pickle", "d_v2">>, <<"Value", "t_g", "redun.Task", "pickle", "d_t_g">>, <<"Task", "t_f", "t_f", "ns", "s_t_f">>, <<"Task", "t_m2", "t_m2", "ns", "s_t_m2">>, <<"Task", "t_g", "t_g", "ns", "s_t_g">>, <<"Eval", "ev_f", "t_f", "a1", "vf">>, <<"Eval", "ev_m2", "t_m2", "a0", "v2">>, <<"Eval", "ev_g", "t_g", "a2", "v2">>, <<"Argument", "arg_f", "c_f", "v1", "0", "~">>, <<"Argument", "arg_g", "c_g", "vf", "~", "x">>, <<"CallNode", "c_f", "f", "t_f", "a1", "vf", "tsA">>, <<"CallNode", "c_m2", "main2", "t_m2", "a0", "v2", "tsA">>, <<"CallNode", "c_g", "g", "t_g", "a2", "v2", "tsA">>, <<"Job", "j1_0", "s", "t", "t_m2", "0", "c_m2", "~", "e1">>, <<"Job", "j1_1", "s", "t", "t_f", "0", "c_f", "j1_0", "e1">>, <<"Job", "j1_2", "s", "t", "t_g", "0", "c_g", "j1_0", "e1">>}, d0 |-> {<<"ArgResult", "arg_g", "c_f">>, <<"File", "vf", "/p/vf">>, <<"Subtree", "c_f", "t_f">>, <<"Subtree", "c_m2", "t_f">>, <<"Subtree", "c_m2", "t_m2">>, <<"Subtree", "c_m2", "t_g">>, <<"Subtree", "c_g", "t_g">>, <<"Execution", "e1", "args", "j1_0">>, <<"Execution", "e2", "args", "j2_0">>, <<"CallEdge", "c_m2", "c_f", "1">>, <<"CallEdge", "c_m2", "c_f", "0">>, <<"CallEdge", "c_m2", "c_g", "1">>, <<"CallEdge", "c_m2", "c_g", "0">>, <<"Value", "t_f", "redun.Task", "pickle", "d_t_f">>, <<"Value", "vf", "redun.File", "pickle", "d_vf">>, <<"Value", "v1", "int", "pickle", "d_v1">>, <<"Value", "t_m2", "redun.Task", "pickle", "d_t_m2">>, <<"Value", "v2", "int", "pickle", "d_v2">>, <<"Value", "t_g", "redun.Task", "pickle", "d_t_g">>, <<"Task", "t_f", "t_f", "ns", "s_t_f">>, <<"Task", "t_m2", "t_m2", "ns", "s_t_m2">>, <<"Task", "t_g", "t_g", "ns", "s_t_g">>, <<"Eval", "ev_f", "t_f", "a1", "vf">>, <<"Eval", "ev_m2", "t_m2", "a0", "v2">>, <<"Eval", "ev_g", "t_g", "a2", "v2">>, <<"Argument", "arg_f", "c_f", "v1", "0", "~">>, <<"Argument", "arg_g", "c_g", "vf", "~", "x">>, <<"CallNode", "c_f", "f", "t_f", "a1", "vf", "tsA">>, <<"CallNode", "c_m2", "main2", "t_m2", "a0", "v2", "tsA">>, <<"CallNode", "c_g", "g", "t_g", "a2", "v2", "tsA">>, <<"Job", "j1_0", "s", "t", "t_m2", "0", "c_m2", "~", "e1">>, <<"Job", "j1_1", "s", "t", "t_f", "0", "c_f", "j1_0", "e1">>, <<"Job", "j2_0", "s", "t", "t_m2", "1", "c_m2", "~", "e2">>, <<"Job", "j2_1", "s", "t", "t_f", "1", "c_f", "j2_0", "e2">>, <<"Job", "j1_2", "s", "t", "t_g", "0", "c_g", "j1_0", "e1">>, <<"Job", "j2_2", "s", "t", "t_g", "1", "c_g", "j2_0", "e2">>}, on |-> TRUE, D |-> "B"],nx |-> 2,db |-> [A |-> {<<"ArgResult", "arg_g", "c_f">>, <<"File", "vf", "/p/vf">>, <<"Subtree", "c_f", "t_f">>, <<"Subtree", "c_m2", "t_f">>, <<"Subtree", "c_m2", "t_m2">>, <<"Subtree", "c_m2", "t_g">>, <<"Subtree", "c_g", "t_g">>, <<"Execution", "e1", "args", "j1_0">>, <<"CallEdge", "c_m2", "c_f", "0">>, <<"CallEdge", "c_m2", "c_g", "1">>, <<"Value", "t_f", "redun.Task", "pickle", "d_t_f">>, <<"Value", "vf", "redun.File", "pickle", "d_vf">>, <<"Value", "v1", "int", "pickle", "d_v1">>, <<"Value", "t_m2", "redun.Task", "pickle", "d_t_m2">>, <<"Value", "v2", "int", "pickle", "d_v2">>, <<"Value", "t_g", "redun.Task", "pickle", "d_t_g">>, <<"Task", "t_f", "t_f", "ns", "s_t_f">>, <<"Task", "t_m2", "t_m2", "ns", "s_t_m2">>, <<"Task", "t_g", "t_g", "ns", "s_t_g">>, <<"Eval", "ev_f", "t_f", "a1", "vf">>, <<"Eval", "ev_m2", "t_m2", "a0", "v2">>, <<"Eval", "ev_g", "t_g", "a2", "v2">>, <<"Argument", "arg_f", "c_f", "v1", "0", "~">>, <<"Argument", "arg_g", "c_g", "vf", "~", "x">>, <<"CallNode", "c_f", "f", "t_f", "a1", "vf", "tsA">>, <<"CallNode", "c_m2", "main2", "t_m2", "a0", "v2", "tsA">>, <<"CallNode", "c_g", "g", "t_g", "a2", "v2", "tsA">>, <<"Job", "j1_0", "s", "t", "t_m2", "0", "c_m2", "~", "e1">>, <<"Job", "j1_1", "s", "t", "t_f", "0", "c_f", "j1_0", "e1">>, <<"Job", "j1_2", "s", "t", "t_g", "0", "c_g", "j1_0", "e1">>}, B |-> {<<"ArgResult", "arg_g", "c_f">>, <<"File", "vf", "/p/vf">>, <<"Subtree", "c_f", "t_f">>, <<"Subtree", "c_m2", "t_f">>, <<"Subtree", "c_m2", "t_m2">>, <<"Subtree", "c_m2", "t_g">>, <<"Subtree", "c_g", "t_g">>, <<"Execution", "e1", "args", "j1_0">>, <<"Execution", "e2", "args", "j2_0">>, <<"CallEdge", "c_m2", "c_f", "1">>, <<"CallEdge", "c_m2", "c_f", "0">>, <<"CallEdge", "c_m2", "c_g", "1">>, <<"CallEdge", "c_m2", "c_g", "0">>, <<"Value", "t_f", "redun.Task", "pickle", "d_t_f">>, <<"Value", "vf", "redun.File", "pickle", "d_vf">>, <<"Value", "v1", "int", "pickle", "d_v1">>, <<"Value", "t_m2", "redun.Task", "pickle", "d_t_m2">>, <<"Value", "v2", "int", "pickle", "d_v2">>, <<"Value", "t_g", "redun.Task", "pickle", "d_t_g">>, <<"Task", "t_f", "t_f", "ns", "s_t_f">>, <<"Task", "t_m2", "t_m2", "ns", "s_t_m2">>, <<"Task", "t_g", "t_g", "ns", "s_t_g">>, <<"Eval", "ev_f", "t_f", "a1", "vf">>, <<"Eval", "ev_m2", "t_m2", "a0", "v2">>, <<"Eval", "ev_g", "t_g", "a2", "v2">>, <<"Argument", "arg_f", "c_f", "v1", "0", "~">>, <<"Argument", "arg_g", "c_g", "vf", "~", "x">>, <<"CallNode", "c_f", "f", "t_f", "a1", "vf", "tsA">>, <<"CallNode", "c_m2", "main2", "t_m2", "a0", "v2", "tsA">>, <<"CallNode", "c_g", "g", "t_g", "a2", "v2", "tsA">>, <<"Job", "j1_0", "s", "t", "t_m2", "0", "c_m2", "~", "e1">>, <<"Job", "j1_1", "s", "t", "t_f", "0", "c_f", "j1_0", "e1">>, <<"Job", "j2_0", "s", "t", "t_m2", "1", "c_m2", "~", "e2">>, <<"Job", "j2_1", "s", "t", "t_f", "1", "c_f", "j2_0", "e2">>, <<"Job", "j1_2", "s", "t", "t_g", "0", "c_g", "j1_0", "e1">>, <<"Job", "j2_2", "s", "t", "t_g", "1", "c_g", "j2_0", "e2">>}],pend |-> {},ntag |-> 0])
    >>
----


=============================================================================

---- CONFIG Transfer_TTrace_1790043426 ----
CONSTANTS
    Deviations = { "ChildOrderUnspecified" , "StaleJobRowKept" , "SubtreeRowsNotTransferred" }
    MaxExec = 2
    MaxTagOps = 1
    MaxXfer = 2

INVARIANT
    _inv

CHECK_DEADLOCK
    \* CHECK_DEADLOCK off because of PROPERTY or INVARIANT above.
    FALSE

INIT
    _init

NEXT
    _next

CONSTANT
    _TETrace <- _trace

ALIAS
    _expression
=============================================================================
\* Generated on Tue Sep 22 02:17:24 UTC 2026