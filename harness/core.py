"""
Core of the verification harness: run context, evidence, verdicts, known findings.

Every property check is a module `harness/props/cNN.py` exposing

    META = {...}            # manifest entry (see tools/gen_manifest.py)
    def run(ctx): ...       # performs the check, using ctx.* below

Exit codes of `./check`: 0 property held on everything explored (known findings printed),
1 violation (a line `VIOLATION property=<id> replay=<path>` was printed), 2 machinery failure.
"""

from __future__ import annotations

import hashlib
import json
import os
import random
import shutil
import sys
import tempfile
import time
import traceback
from pathlib import Path
from typing import Any, Optional

VERIF = Path(__file__).resolve().parent.parent
REPO = Path(os.environ.get("VERIF_REPO", "/repo"))
SPEC = VERIF / "spec"
OUT = VERIF / "out"
# evidence of runs against deliberately modified code (seeded changes) is redirected, so that the
# committed evidence always describes /repo itself
EVIDENCE = Path(os.environ["VERIF_EVIDENCE_DIR"]) if os.environ.get("VERIF_EVIDENCE_DIR") else VERIF / "evidence"
KNOWN_FILE = VERIF / "known_findings.json"


class MachineryError(Exception):
    """The checking machinery itself failed (TLC crash, negative control accepted, ...)."""


def jdump(obj: Any) -> str:
    return json.dumps(obj, sort_keys=True, default=str)


def short_hash(obj: Any) -> str:
    return hashlib.sha1(jdump(obj).encode()).hexdigest()[:12]


class Ctx:
    def __init__(self, prop: str, tier: str, seed: int, replay: Optional[str] = None):
        self.prop = prop
        self.tier = tier
        self.seed = seed
        self.replay = replay
        self.rng = random.Random(seed)
        self.t0 = time.time()
        self.scratch = Path(tempfile.mkdtemp(prefix=f"verif_{prop}_"))
        self.violations: list[dict] = []
        self.known_hits: list[dict] = []
        self.cov: dict[str, Any] = {
            "states": 0,
            "transitions": 0,
            "traces_validated_against_impl": 0,
            "evaluations": 0,
            "samples": [],
        }
        self._distinct: set[str] = set()
        self.assumptions: list[str] = []
        self.notes: dict[str, Any] = {}
        self._known = self._load_known()
        self._nviol_files = 0

    # ------------------------------------------------------------------ tiers
    @property
    def quick(self) -> bool:
        return self.tier == "quick"

    def pick(self, quick: Any, thorough: Any) -> Any:
        return quick if self.quick else thorough

    def elapsed(self) -> float:
        return time.time() - self.t0

    # ------------------------------------------------------------------ scratch
    def tmp(self, name: str) -> Path:
        p = self.scratch / name
        p.parent.mkdir(parents=True, exist_ok=True)
        return p

    def cleanup(self) -> None:
        shutil.rmtree(self.scratch, ignore_errors=True)

    # ------------------------------------------------------------------ evidence
    def add_tlc(self, res: "Any") -> None:
        self.cov["states"] += int(res.distinct)
        self.cov["transitions"] += int(res.generated)
        cmds = self.cov.setdefault("checker_cmds", [])
        if len(cmds) < 6:
            cmds.append(res.cmdline)

    def count_eval(self, n: int = 1) -> None:
        self.cov["evaluations"] += n

    def count_impl_trace(self, n: int = 1) -> None:
        self.cov["traces_validated_against_impl"] += n

    def distinct(self, case: Any) -> None:
        """Register a distinct non-trivial case (by the rule stated in evidence)."""
        self._distinct.add(short_hash(case))

    def sample(self, case: Any, limit: int = 4) -> None:
        if len(self.cov["samples"]) < limit:
            self.cov["samples"].append(case)

    def note(self, key: str, value: Any) -> None:
        self.cov[key] = value

    def assume(self, *texts: str) -> None:
        for t in texts:
            if t not in self.assumptions:
                self.assumptions.append(t)

    # ------------------------------------------------------------------ known findings
    def _load_known(self) -> list[dict]:
        if KNOWN_FILE.exists():
            data = json.loads(KNOWN_FILE.read_text())
            return [f for f in data.get("findings", []) if f.get("property") == self.prop]
        return []

    def known_entry(self, key: str) -> Optional[dict]:
        for f in self._known:
            if f.get("key") == key and f.get("status", "open") == "open":
                return f
        return None

    # ------------------------------------------------------------------ verdicts
    def violation(self, what: str, replay: Any, key: Optional[str] = None) -> None:
        """
        Report a failure of the property's predicate on the real code.

        `key` identifies the specific failing input / call site / history class.  If an *open*
        entry with that key is listed in known_findings.json the failure is reported as
        KNOWN-FINDING (once per key) and does not fail the check; anything else is a VIOLATION.
        """
        if key is not None:
            ent = self.known_entry(key)
            if ent is not None:
                if not any(k["key"] == key for k in self.known_hits):
                    self.known_hits.append({"key": key, "what": what})
                    print(f"KNOWN-FINDING: property={self.prop} {ent.get('what', what)} [{key}]")
                    sys.stdout.flush()
                return
        d = OUT / "replays" / self.prop
        d.mkdir(parents=True, exist_ok=True)
        self._nviol_files += 1
        path = d / f"{self.tier}_{self.seed}_{self._nviol_files}.json"
        rec = {"property": self.prop, "what": what, "key": key, "tier": self.tier,
               "seed": self.seed, "replay": replay}
        path.write_text(json.dumps(rec, indent=1, default=str))
        self.violations.append({"what": what, "key": key, "path": str(path)})
        if len(self.violations) <= 10:
            print(f"VIOLATION property={self.prop} replay={path}")
            print(f"  what: {what}")
            sys.stdout.flush()

    def negative_control(self, rejected: bool, what: str) -> None:
        """A deliberately corrupted case must be rejected; otherwise the machinery is blind."""
        ctl = self.cov.setdefault("negative_controls", [])
        ctl.append({"what": what, "rejected": bool(rejected)})
        if not rejected:
            raise MachineryError(f"negative control accepted: {what}")

    def require(self, cond: bool, what: str) -> None:
        if not cond:
            raise MachineryError(what)

    # ------------------------------------------------------------------ finish
    def write_evidence(self, level: str, rule: str) -> None:
        cov = dict(self.cov)
        cov["distinct_nontrivial"] = len(self._distinct)
        cov["rule"] = rule
        if not cov["samples"]:
            cov["samples"] = ["(no sample recorded)"]
        cov["known_findings_reproduced"] = [k["key"] for k in self.known_hits]
        ev = {
            "property_id": self.prop,
            "tier": self.tier,
            "seed": self.seed,
            "level": level,
            "coverage": cov,
            "assumptions": self.assumptions,
            "wall_s": round(self.elapsed(), 2),
            "violations": len(self.violations),
        }
        EVIDENCE.mkdir(exist_ok=True)
        (EVIDENCE / f"{self.prop}.json").write_text(json.dumps(ev, indent=1, default=str) + "\n")


def main_run(prop: str, tier: str, seed: int, replay: Optional[str]) -> int:
    import importlib

    mod = importlib.import_module(f"harness.props.{prop.lower()}")
    ctx = Ctx(prop, tier, seed, replay)
    code = 0
    try:
        if replay:
            rec = json.loads(Path(replay).read_text())
            if not hasattr(mod, "replay"):
                raise MachineryError(f"{prop} has no replay support")
            mod.replay(ctx, rec)
            ctx.cleanup()
            print(f"[{prop}] replay {'VIOLATION' if ctx.violations else 'OK'}")
            return 1 if ctx.violations else 0
        mod.run(ctx)
        ctx.write_evidence(mod.META.get("level", "model_checking"), mod.META.get("rule", ""))
        if ctx.violations:
            code = 1
    except MachineryError as e:
        print(f"MACHINERY-FAILURE property={prop}: {e}")
        traceback.print_exc()
        code = 2
    except Exception as e:  # noqa
        print(f"MACHINERY-FAILURE property={prop}: unexpected {type(e).__name__}: {e}")
        traceback.print_exc()
        code = 2
    finally:
        if os.environ.get("VERIF_KEEP_SCRATCH"):
            print(f"scratch kept: {ctx.scratch}")
        else:
            ctx.cleanup()
    status = {0: "OK", 1: "VIOLATION", 2: "MACHINERY-FAILURE"}[code]
    print(f"[{prop}] {status} tier={tier} seed={seed} wall={ctx.elapsed():.1f}s "
          f"states={ctx.cov['states']} impl_traces={ctx.cov['traces_validated_against_impl']} "
          f"evals={ctx.cov['evaluations']} known={len(ctx.known_hits)} viol={len(ctx.violations)}")
    return code
