"""
Shared machinery of the hashing checks C15 / C17 / C18 (spec/common/Hashing.tla).

* `GenModules`   writes real Python modules of @task functions into the scratch directory and
                 imports them under unique module names (so inspect.getsource works).
* `TagSpy`       records the leading type tag of every structure passed to hash_struct.
* `Case`, `judge` verdict discipline.  TLC decides, per case, what the property demands
                 (`law`: "s" same / "d" different / "u" unspecified) and what the as-built model
                 predicts under every subset of the named deviations (`vstr`, one character per
                 subset, index = bitmask).  The driver only observes the real verdict `real`.
                 A case violates the property iff law != "u" and real != law.  The violating
                 cases are then explained by the smallest deviation subset S whose prediction
                 equals the real verdict on all of them: every member of S is reported under its
                 stable key (-> KNOWN-FINDING once listed); a violating case that no deviation
                 subset explains is a plain VIOLATION.  A repaired deviation (real == law although
                 the as-built model predicts otherwise) is quiet.
* `classes`      equality classes of a list of hashes (code -> spec recordings).
"""

from __future__ import annotations

import contextlib
import importlib
import itertools
import json
import sys
from dataclasses import dataclass, field
from pathlib import Path
from typing import Any, Callable, Optional

from .core import Ctx, MachineryError, jdump

_counter = itertools.count()


class GenModules:
    """Generated source modules, imported for real."""

    def __init__(self, ctx: Ctx, prefix: str):
        self.dir = ctx.tmp(f"gen_{prefix}") / "x"
        self.dir = self.dir.parent
        self.dir.mkdir(parents=True, exist_ok=True)
        if str(self.dir) not in sys.path:
            sys.path.insert(0, str(self.dir))
        self.prefix = f"vg_{prefix}_{ctx.seed}_{next(_counter)}"
        self.n = 0

    def load(self, source: str):
        self.n += 1
        name = f"{self.prefix}_{self.n}"
        path = self.dir / f"{name}.py"
        path.write_text(source)
        importlib.invalidate_caches()
        try:
            return importlib.import_module(name)
        except Exception as e:  # generated code must import: otherwise the generator is wrong
            raise MachineryError(f"generated module {path} failed to import: {type(e).__name__}: {e}\n"
                                 + source[:3000])


class TagSpy:
    """Wraps hash_struct wherever redun imported it and records result-hash -> leading tag."""

    MODULES = ("redun.hashing", "redun.task", "redun.expression")

    def __init__(self):
        self.tag_of: dict[str, Any] = {}
        self.calls = 0
        self._saved: list = []

    def __enter__(self):
        for mn in self.MODULES:
            mod = importlib.import_module(mn)
            orig = getattr(mod, "hash_struct", None)
            if orig is None:
                continue

            def spy(struct, _orig=orig):
                h = _orig(struct)
                self.calls += 1
                lead = struct[0] if isinstance(struct, (list, tuple)) and struct else None
                self.tag_of[h] = lead
                return h

            self._saved.append((mod, orig))
            setattr(mod, "hash_struct", spy)
        return self

    def __exit__(self, *exc):
        for mod, orig in self._saved:
            setattr(mod, "hash_struct", orig)
        return False


def classes(hashes: list) -> list[int]:
    """Equality classes (1-based ids in order of first occurrence)."""
    ids: dict[Any, int] = {}
    return [ids.setdefault(h, len(ids) + 1) for h in hashes]


@dataclass
class Case:
    law: str            # "s" | "d" | "u"  (TLC)
    vstr: str           # verdict per deviation subset (TLC); vstr[0] = no deviation
    real: str           # "s" | "d"        (observed on the real code)
    info: Any = None    # replayable description
    source: str = ""

    @property
    def violates(self) -> bool:
        return self.law != "u" and self.real != self.law


@dataclass
class Judgement:
    n: int = 0
    violating: int = 0
    explained_by: list[str] = field(default_factory=list)
    unexplained: int = 0
    drift: int = 0      # cases where the real verdict differs from the full as-built model


def _prefer(c: Case):
    # witnesses: collisions (hash equal although it must differ: the unsound direction) first, then short
    return (0 if c.law == "d" else 1, len(jdump(c.info)))


def judge(ctx: Ctx, cases: list[Case], devs: list[str], keys: dict[str, str],
          describe: Callable[[Case], str], max_plain: int = 5, prefer: Optional[Callable] = None) -> Judgement:
    """
    devs: deviation names in the order of the spec's `Devs` sequence (bit i of the subset mask).
    keys: deviation name -> stable finding key.
    """
    nsub = 1 << len(devs)
    j = Judgement(n=len(cases))
    for c in cases:
        if len(c.vstr) != nsub or c.law not in "sdu" or c.real not in "sd":
            raise MachineryError(f"malformed case {c}")
        # the deviation-free model must itself satisfy the law (checked by TLC as LawIdeal; here
        # as a guard against mixing up records)
        if c.law != "u" and c.vstr[0] != c.law:
            raise MachineryError(f"deviation-free model contradicts the law in {c}")
    bad = [c for c in cases if c.violates]
    j.violating = len(bad)
    # as-built drift (DESIGN 2.5): the code no longer behaves like the as-built model.  Not a
    # violation by itself (a repaired deviation drifts towards the law); evidence only.
    j.drift = sum(1 for c in cases if c.real != c.vstr[-1])
    if not bad:
        return j
    # smallest subset explaining all violating cases; else the one explaining most
    best, best_key = 0, None
    for m in range(nsub):
        expl = sum(1 for c in bad if c.vstr[m] == c.real)
        k = (-expl, bin(m).count("1"), m)
        if best_key is None or k < best_key:
            best, best_key = m, k
    members = [d for i, d in enumerate(devs) if best >> i & 1]
    j.explained_by = members
    plain = [c for c in bad if c.vstr[best] != c.real]
    j.unexplained = len(plain)
    for c in sorted(plain, key=prefer or _prefer)[:max_plain]:
        ctx.violation(describe(c), {"case": c.info, "law": c.law, "real": c.real, "model": c.vstr,
                                    "source": c.source})
    if len(plain) > max_plain:
        ctx.note("further_unexplained_violations", len(plain) - max_plain)
    for i, d in enumerate(devs):
        if not best >> i & 1:
            continue
        m = 1 << i
        expl = [c for c in bad if c.vstr[best] == c.real]
        # prefer a witness that this deviation alone produces
        pure = [c for c in expl if c.vstr[m] == c.real]
        needs = [c for c in expl if c.vstr[best & ~m] != c.real]
        wit = (pure or needs or expl)
        if not wit:
            continue
        c = min(wit, key=prefer or _prefer)
        ctx.violation(describe(c), {"case": c.info, "law": c.law, "real": c.real, "model": c.vstr,
                                    "source": c.source, "deviation": d}, key=keys[d])
    return j


def note_judgement(ctx: Ctx, name: str, j: Judgement) -> None:
    ctx.note(name, {"cases": j.n, "violating_the_law": j.violating, "explained_by_deviations": j.explained_by,
                    "unexplained": j.unexplained, "asbuilt_drift": j.drift})


@contextlib.contextmanager
def timed(ctx: Ctx, name: str):
    """Wall time per phase, written to the evidence (`phase_s`)."""
    import time

    t0 = time.time()
    try:
        yield
    finally:
        d = ctx.cov.setdefault("phase_s", {})
        d[name] = round(d.get(name, 0.0) + time.time() - t0, 2)


def tlc(ctx: Ctx, what: str, module: str, cfg: str, long_run: bool = False, **kw):
    """run_tlc + evidence bookkeeping (states, wall time per run).

    The runs here are short (seconds): JIT warm-up and a dozen GC threads cost more than they
    give, especially on a busy machine, so the JVM is told to stay small (measured: 2x faster).
    """
    from .tlc import run_tlc

    kw.setdefault("workers", WORKERS)
    env = dict(kw.pop("env", None) or {})
    env.setdefault("JAVA_TOOL_OPTIONS", "-XX:ParallelGCThreads=4" if long_run else
                   "-XX:ParallelGCThreads=2 -XX:TieredStopAtLevel=1 -XX:CICompilerCount=1")
    res = run_tlc(module, cfg, ctx.scratch, env=env, **kw)
    ctx.cov.setdefault("tlc_runs", []).append(
        {"what": what, "wall_s": round(res.wall_s, 1), "states": res.distinct, "workers": kw["workers"]})
    return res


# TLC workers for the exhaustive runs.  The state graphs here are shallow and wide (one state per
# case); more than a handful of workers only adds contention.
WORKERS = 6


def write_json(path: Path, obj: Any) -> Path:
    path.write_text(json.dumps(obj))
    return path


@contextlib.contextmanager
def fresh_scheduler():
    """A real scheduler on an in-memory database."""
    from redun import Scheduler
    from redun.backends.db import RedunBackendDb

    s = Scheduler(backend=RedunBackendDb(db_uri="sqlite:///:memory:"))
    s.load()
    yield s
