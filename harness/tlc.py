"""
TLC runner and output parsers.

`run_tlc` runs TLC on a module with a config (given as text or path), parses the summary
(states generated / distinct), violated properties, printed records (`PrintT("TAG " \\o ToJson(x))`)
and -coverage output.
"""

from __future__ import annotations

import json
import os
import re
import subprocess
import time
from dataclasses import dataclass, field
from pathlib import Path
from typing import Any, Optional

from .core import SPEC, MachineryError

JAVA_CP = "/opt/veriftools/tla/tla2tools.jar:/opt/veriftools/tla/CommunityModules-deps.jar"


@dataclass
class TLCResult:
    rc: int
    out: str
    cmdline: str
    generated: int = 0
    distinct: int = 0
    depth: int = 0
    wall_s: float = 0.0
    violated: list[str] = field(default_factory=list)  # invariants / properties violated
    deadlock: bool = False
    error: Optional[str] = None  # TLC-level error text (parse error, evaluation error...)
    records: dict[str, list[Any]] = field(default_factory=dict)  # tag -> list of JSON values
    coverage: dict[str, int] = field(default_factory=dict)  # action name -> count of states

    @property
    def ok(self) -> bool:
        return not self.violated and not self.deadlock and self.error is None

    def recs(self, tag: str) -> list[Any]:
        return self.records.get(tag, [])


_SUMMARY = re.compile(r"(\d+) states generated, (\d+) distinct states found")
_SIMSUM = re.compile(r"The number of states generated: (\d+)")
_DEPTH = re.compile(r"The depth of the complete state graph search is (\d+)")
_INV = re.compile(r"Error: Invariant (\S+) is violated")
_PROP = re.compile(r"Error: (?:Temporal properties were violated|Action property (\S+) is violated)")
_COV = re.compile(r"^<(\w+) line \d+, col \d+ to line \d+, col \d+ of module (\w+)>: (\d+):(\d+)")


def parse_output(out: str, res: TLCResult) -> None:
    seen: dict[str, set] = {}
    for line in out.splitlines():
        s = line.strip()
        if s.startswith('"') and s.endswith('"') and len(s) > 2:
            try:
                txt = json.loads(s)
            except Exception:
                continue
            if not isinstance(txt, str) or " " not in txt:
                continue
            tag, _, body = txt.partition(" ")
            if not tag.isupper():
                continue
            try:
                val = json.loads(body)
            except Exception:
                val = body
            key = body
            if key in seen.setdefault(tag, set()):
                continue
            seen[tag].add(key)
            res.records.setdefault(tag, []).append(val)
            continue
        m = _SUMMARY.search(s)
        if m:
            res.generated, res.distinct = int(m.group(1)), int(m.group(2))
            continue
        m = _SIMSUM.search(s)
        if m:
            res.generated = res.distinct = int(m.group(1))
            continue
        m = _DEPTH.search(s)
        if m:
            res.depth = int(m.group(1))
            continue
        m = _INV.search(s)
        if m:
            res.violated.append(m.group(1))
            continue
        m = _PROP.search(s)
        if m:
            res.violated.append(m.group(1) or "TemporalProperty")
            continue
        if s.startswith("Error: Deadlock reached"):
            res.deadlock = True
            continue
        m = _COV.match(s)
        if m:
            name = m.group(1)
            res.coverage[name] = res.coverage.get(name, 0) + int(m.group(3))
            continue
        if s.startswith("Error:") and res.error is None:
            if "The behavior up to this point" in s or "The following behavior" in s:
                continue
            res.error = s
    if res.violated or res.deadlock:
        # an invariant violation is not a TLC-level error
        if res.error and ("Invariant" in res.error or "Deadlock" in res.error
                          or "Temporal" in res.error or "Action property" in res.error):
            res.error = None


def run_tlc(
    module: str | Path,
    cfg: str | Path,
    scratch: Path,
    workers: int | str = "auto",
    env: Optional[dict[str, str]] = None,
    simulate: Optional[str] = None,
    depth: Optional[int] = None,
    deadlock: bool = True,
    coverage: bool = False,
    timeout: int = 1200,
    seed: Optional[int] = None,
    dfs_queue: bool = False,
    extra: Optional[list[str]] = None,
    heap: str = "4g",
    libs: Optional[list[Path]] = None,
) -> TLCResult:
    """
    module: path to .tla (absolute or relative to /verif/spec).  cfg: path, or the config text.
    deadlock=True means deadlock is *checked* (TLC default); pass False to add -deadlock.
    """
    mpath = Path(module)
    if not mpath.is_absolute():
        mpath = SPEC / mpath
    if not mpath.exists():
        raise MachineryError(f"spec module missing: {mpath}")
    scratch.mkdir(parents=True, exist_ok=True)
    tag = f"{mpath.stem}_{int(time.time() * 1000) % 10**9}"
    if isinstance(cfg, Path) or (isinstance(cfg, str) and "\n" not in cfg and cfg.endswith(".cfg")):
        cpath = Path(cfg)
        if not cpath.is_absolute():
            cpath = mpath.parent / cpath
    else:
        cpath = scratch / f"{tag}.cfg"
        cpath.write_text(cfg)
    meta = scratch / f"meta_{tag}"
    if workers == "auto":
        workers = min(16, os.cpu_count() or 4)
    libdirs = [str(mpath.parent), str(SPEC / "common")] + [str(p) for p in (libs or [])]
    cmd = ["java", "-XX:+UseParallelGC", f"-Xmx{heap}", f"-DTLA-Library={os.pathsep.join(libdirs)}"]
    if dfs_queue:
        cmd.append("-Dtlc2.tool.queue.IStateQueue=StateDeque")
    cmd += ["-cp", JAVA_CP, "tlc2.TLC", "-workers", str(workers), "-metadir", str(meta),
            "-noGenerateSpecTE", "-config", str(cpath)]
    if not deadlock:
        cmd.append("-deadlock")
    if coverage:
        cmd += ["-coverage", "1"]
    if simulate is not None:
        cmd += ["-simulate", simulate] if simulate else ["-simulate"]
    if depth is not None:
        cmd += ["-depth", str(depth)]
    if seed is not None:
        cmd += ["-seed", str(seed)]
    if extra:
        cmd += extra
    cmd.append(mpath.name)
    e = dict(os.environ)
    if env:
        e.update({k: str(v) for k, v in env.items()})
    t0 = time.time()
    try:
        p = subprocess.run(cmd, cwd=str(mpath.parent), env=e, capture_output=True, text=True,
                           timeout=timeout)
        out, rc = p.stdout + p.stderr, p.returncode
    except subprocess.TimeoutExpired as ex:
        out = (ex.stdout or b"").decode() if isinstance(ex.stdout, bytes) else (ex.stdout or "")
        rc = 124
    res = TLCResult(rc=rc, out=out, cmdline=" ".join(cmd[cmd.index("tlc2.TLC"):]))
    res.wall_s = time.time() - t0
    parse_output(out, res)
    if rc == 124:
        res.error = res.error or f"TLC timed out after {timeout}s"
    import shutil

    shutil.rmtree(meta, ignore_errors=True)
    if os.environ.get("VERIF_TLC_LOG"):
        (scratch / f"{tag}.log").write_text(out)
    return res


def expect_clean(res: TLCResult, what: str) -> TLCResult:
    """The model-level check must pass; otherwise the *specification* is wrong: machinery failure."""
    if res.error:
        raise MachineryError(f"TLC error in {what}: {res.error}\n{res.out[-3000:]}")
    if res.violated or res.deadlock:
        raise MachineryError(
            f"TLC found a model-level violation in {what}: {res.violated} deadlock={res.deadlock}\n"
            + res.out[-3000:]
        )
    if res.distinct < 1:
        raise MachineryError(f"TLC explored no state in {what}\n{res.out[-2000:]}")
    return res


def expect_violation(res: TLCResult, name: str, what: str) -> TLCResult:
    """Negative model control: the named invariant/property must be violated."""
    if res.error:
        raise MachineryError(f"TLC error in {what}: {res.error}\n{res.out[-3000:]}")
    if name not in res.violated and not (name == "Deadlock" and res.deadlock):
        raise MachineryError(f"expected {name} to be violated in {what}; got {res.violated}")
    return res


def sany(module: Path) -> tuple[bool, str]:
    cmd = ["java", f"-DTLA-Library={module.parent}{os.pathsep}{SPEC / 'common'}", "-cp", JAVA_CP,
           "tla2sany.SANY", module.name]
    p = subprocess.run(cmd, cwd=str(module.parent), capture_output=True, text=True)
    out = p.stdout + p.stderr
    ok = p.returncode == 0 and "Semantic error" not in out and "Parse Error" not in out \
        and "Fatal errors" not in out and "*** Errors" not in out
    return ok, out
