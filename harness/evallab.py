"""
Evaluation lab (C01, C26, C27): program documents <-> real redun expressions, outcome
normalisation, runners (controlled loop and real LocalExecutor pools), TLC oracle calls.

Program expression JSON (shared with spec/eval/Eval.tla):
  {"k":"val","v":VALUE} | {"k":"call","t":task,"args":[E],"kw":[[name,E]],"opts":[[E,E]],"ctx":VALUE,"exp":[names]}
  | {"k":"op","op":..,"args":[E]} | {"k":"list"|"tuple","items":[E]} | {"k":"dict","items":[[E,E]]}
  | {"k":"cond","clauses":[[E,E]],"else":E} | {"k":"seq","items":[E]}
  | {"k":"catch","body":E,"handlers":[[[cls],task]]} | {"k":"catch_all","items":[E],"cls":[cls],"recover":task|""}
  | {"k":"map","t":task,"xs":E} | {"k":"partial","t":task,"args":[E]} | {"k":"callp","p":E,"args":[E]}
  | {"k":"getctx","path":[seg],"default":VALUE} | {"k":"tags","e":E,...}
VALUE = {"t": int|str|bool|none|list|tuple|dict|err, "v": ...}
"""

from __future__ import annotations

import json
import operator
from typing import Any, Optional

from .core import Ctx, MachineryError
from .tlc import run_tlc

EXC = {"ValueError": ValueError, "KeyError": KeyError, "TypeError": TypeError,
       "IndexError": IndexError, "Exception": Exception, "ZeroDivisionError": ZeroDivisionError,
       "AttributeError": AttributeError}


# ------------------------------------------------------------------------------------------------
# values
# ------------------------------------------------------------------------------------------------
def to_value(x: Any) -> dict:
    if isinstance(x, bool):
        return {"t": "bool", "v": 1 if x else 0}
    if isinstance(x, int):
        return {"t": "int", "v": x}
    if isinstance(x, str):
        return {"t": "str", "v": x}
    if x is None:
        return {"t": "none", "v": 0}
    if isinstance(x, list):
        return {"t": "list", "v": [to_value(i) for i in x]}
    if isinstance(x, tuple):
        return {"t": "tuple", "v": [to_value(i) for i in x]}
    if isinstance(x, dict):
        return {"t": "dict", "v": [[to_value(k), to_value(v)] for k, v in x.items()]}
    if isinstance(x, BaseException):
        return {"t": "err", "v": [type(x).__name__, _msg(x)]}
    return {"t": "other", "v": repr(x)}


def _msg(e: BaseException) -> str:
    if isinstance(e, KeyError) and e.args:
        return str(e.args[0])
    return str(e)


def from_value(v: dict) -> Any:
    t = v["t"]
    if t in ("int", "str"):
        return v["v"]
    if t == "bool":
        return bool(v["v"])
    if t == "none":
        return None
    if t == "list":
        return [from_value(i) for i in v["v"]]
    if t == "tuple":
        return tuple(from_value(i) for i in v["v"])
    if t == "dict":
        return {from_value(k): from_value(x) for k, x in v["v"]}
    raise ValueError(t)


def raised(e: BaseException) -> dict:
    return {"t": "raise", "v": [type(e).__name__, _msg(e)]}


# ------------------------------------------------------------------------------------------------
# expressions
# ------------------------------------------------------------------------------------------------
_sim_scratch = None
SUBRUN_CONFIG = None   # two-level config dict handed to sub-schedulers (set by the C38 driver per run)

OPS = {"add": operator.add, "sub": operator.sub, "mul": operator.mul, "lt": operator.lt,
       "eq": operator.eq, "getitem": operator.getitem}


def build(e: dict):
    """JSON program -> real redun expression (or concrete value)."""
    from redun import Scheduler  # noqa: F401  (ensures redun is importable)
    from redun.expression import Expression
    from redun.functools import map_, seq
    from redun.scheduler import apply_tags, catch, catch_all, cond
    from redun.context import get_context

    from . import evallib as L

    k = e["k"]
    if k == "val":
        return from_value(e["v"])
    if k == "call":
        t = getattr(L, e["t"])
        if e.get("opts"):
            t = t.options(**{from_value_expr(kk): build(vv) for kk, vv in e["opts"]})
        if e.get("exp"):
            # exported options: names listed in exp must be among opts
            cur = {from_value_expr(kk): build(vv) for kk, vv in e.get("opts") or []}
            base = getattr(L, e["t"])
            rest = {kk: vv for kk, vv in cur.items() if kk not in e["exp"]}
            t = base.options(**rest) if rest else base
            t = t.export_options(**{kk: cur[kk] for kk in e["exp"]})
        if e.get("ctx") and e["ctx"]["t"] == "dict":
            t = t.update_context(from_value(e["ctx"]))
        return t(*[build(a) for a in e["args"]], **{n: build(a) for n, a in e.get("kw") or []})
    if k == "op":
        args = [build(a) for a in e["args"]]
        if not isinstance(args[0], Expression):
            # a lazy operator needs a lazy left operand
            from redun.expression import ValueExpression

            args[0] = ValueExpression(args[0])
        return OPS[e["op"]](*args)
    if k == "list":
        return [build(a) for a in e["items"]]
    if k == "tuple":
        return tuple(build(a) for a in e["items"])
    if k == "dict":
        return {_hashable(build(kk)): build(vv) for kk, vv in e["items"]}
    if k == "cond":
        flat: list = []
        for c, b in e["clauses"]:
            flat += [build(c), build(b)]
        return cond(*flat, build(e["else"]))
    if k == "seq":
        return seq([build(a) for a in e["items"]])
    if k == "catch":
        flat = []
        for classes, rec in e["handlers"]:
            cl = tuple(EXC[c] for c in classes)
            flat += [cl if len(cl) > 1 else cl[0], getattr(L, rec)]
        return catch(build(e["body"]), *flat)
    if k == "catch_all":
        cl = tuple(EXC[c] for c in e["cls"])
        if e["recover"]:
            return catch_all([build(a) for a in e["items"]], cl, getattr(L, e["recover"]))
        return catch_all([build(a) for a in e["items"]])
    if k == "map":
        return map_(getattr(L, e["t"]), build(e["xs"]))
    if k == "partial":
        return getattr(L, e["t"]).partial(*[build(a) for a in e["args"]])
    if k == "callp":
        p = build(e["p"])
        return p(*[build(a) for a in e["args"]])
    if k == "getctx":
        return get_context(".".join(e["path"]), from_value(e["default"]))
    if k == "subrun":
        from redun.scheduler import subrun

        if SUBRUN_CONFIG is None:
            raise RuntimeError("SUBRUN_CONFIG not set")
        return subrun(build(e["e"]), executor="default", config=SUBRUN_CONFIG,
                      new_execution=bool(e.get("newexec")), load_modules=["harness.evallib"])
    if k == "tags":
        return apply_tags(build(e["e"]), [(t[0], t[1]) for t in e.get("tags", [])])
    raise ValueError(k)


def expressible(e) -> bool:
    """False for programs no user code can denote: a lazy operator whose LEFT operand is a container literal with
    calls inside (Python would apply the operator to the container at once; the harness can only stand in for the
    lazy operand with a ValueExpression, which does not evaluate what the container holds)."""
    if isinstance(e, list):
        return all(expressible(x) for x in e)
    if not isinstance(e, dict):
        return True
    if e.get("k") == "op" and e["args"] and e["args"][0].get("k") in ("list", "tuple", "dict"):
        if '"k": "call"' in json.dumps(e["args"][0]) or '"k": "op"' in json.dumps(e["args"][0]) \
                or '"k": "map"' in json.dumps(e["args"][0]):
            return False
    return all(expressible(v) for v in e.values() if isinstance(v, (dict, list)))


def from_value_expr(kk: dict):
    assert kk["k"] == "val"
    return from_value(kk["v"])


def _hashable(x):
    return x


# ------------------------------------------------------------------------------------------------
# running
# ------------------------------------------------------------------------------------------------
def run_sim(expr, rng, context: Optional[dict] = None, p_finish: float = 0.5, config_ctx=None) -> dict:
    """One controlled execution with a seeded random schedule; in-memory backend."""
    import os

    from . import simloop

    dbp = simloop.clone_db(_scratch(), f"ev_{os.getpid()}_{rng.random()}.db")
    b = simloop.open_backend(dbp)
    s, d = simloop.make_scheduler(b, limits={}, chooser=simloop.RandomChooser(rng, p_finish),
                                  executors=("default", "process"), context=config_ctx)
    kw = {"context": context} if context is not None else {}
    out = simloop.run_controlled(s, d, expr, **kw)
    simloop.close_backend(b)
    try:
        os.unlink(dbp)
    except OSError:
        pass
    return outcome_of(out)


def run_sim_seq(runs: list, rng, config_ctx=None, p_finish: float = 0.5) -> list:
    """Several executions, one after the other, on ONE Scheduler object and backend: runs = [(expr, run context or
    None)].  The context given to one run() must not leak into the next."""
    import os

    from . import simloop

    dbp = simloop.clone_db(_scratch(), f"evs_{os.getpid()}_{rng.random()}.db")
    b = simloop.open_backend(dbp)
    outs = []
    try:
        s, d = simloop.make_scheduler(b, limits={}, chooser=simloop.RandomChooser(rng, p_finish),
                                      executors=("default", "process"), context=config_ctx)
        for expr, context in runs:
            d.events, d.submitted, d.nsteps, d.njobs, d.last_choice = [], [], 0, 0, None
            kw = {"context": context} if context is not None else {}
            outs.append(outcome_of(simloop.run_controlled(s, d, expr, **kw)))
    finally:
        simloop.close_backend(b)
        try:
            os.unlink(dbp)
        except OSError:
            pass
    return outs


def _scratch():
    global _sim_scratch
    if _sim_scratch is None:
        import atexit
        import shutil
        import tempfile
        from pathlib import Path

        _sim_scratch = Path(tempfile.mkdtemp(prefix="verif_evallab_"))
        atexit.register(shutil.rmtree, _sim_scratch, True)
    return _sim_scratch


def run_real(expr, context: Optional[dict] = None, config_ctx=None, timeout: float = 60.0) -> dict:
    """The real thing: default Scheduler with LocalExecutor thread / process pools and async loop,
    on a file-backed sqlite database (an in-memory one is private to the creating thread)."""
    import os
    import threading

    from redun import Scheduler
    from redun.config import Config

    from . import simloop

    simloop.quiet_logs()
    dbp = simloop.clone_db(_scratch(), f"real_{os.getpid()}_{id(expr)}.db")
    cfg: dict = {"backend": {"db_uri": f"sqlite:///{dbp}"}}
    if config_ctx is not None:
        cfg["scheduler"] = {"context": json.dumps(config_ctx)}
    res: dict = {}

    def go():
        s = None
        try:
            s = Scheduler(config=Config(config_dict=cfg))
            s.load(migrate=False)
            kw = {"context": context} if context is not None else {}
            res["out"] = {"outcome": "value", "value": s.run(expr, **kw)}
        except Exception as e:  # noqa
            res["out"] = {"outcome": "error", "exc": e}
        finally:
            if s is not None:
                simloop.close_backend(s.backend)

    th = threading.Thread(target=go, daemon=True)
    th.start()
    th.join(timeout)
    try:
        os.unlink(dbp)
    except OSError:
        pass
    if th.is_alive():
        return {"t": "hang", "v": 0}
    return outcome_of(res["out"])


def outcome_of(out: dict) -> dict:
    if out["outcome"] == "value":
        return to_value(out["value"])
    if out["outcome"] == "error":
        return raised(out["exc"])
    return {"t": out["outcome"], "v": 0}


# ------------------------------------------------------------------------------------------------
# TLC
# ------------------------------------------------------------------------------------------------
def enumerate_programs(ctx: Ctx, deep: bool, stride: int = 1, offset: int = 1) -> list[dict]:
    cfg = (f"SPECIFICATION Spec\nCONSTANT Deep = {'TRUE' if deep else 'FALSE'}\nCONSTANT Stride = {stride}\n"
           f"CONSTANT Offset = {offset}\nCHECK_DEADLOCK FALSE\n")
    res = run_tlc("eval/Eval_Gen.tla", cfg, ctx.scratch, workers=1, timeout=1500, heap="6g")
    if res.error:
        raise MachineryError(f"Eval_Gen failed: {res.error}\n{res.out[-2000:]}")
    ctx.add_tlc(res)
    return res.recs("PROG")


def judge(ctx: Ctx, cases: list[dict], what: str) -> dict[int, tuple]:
    """cases: [{id, e, ctx (VALUE dict), obs (VALUE or raise)}] -> {id: (accepted, n_outs, expected?)}"""
    f = ctx.tmp(f"cases_{what}.json")
    f.write_text(json.dumps(cases))
    res = run_tlc("eval/Eval_Oracle.tla", "SPECIFICATION Spec\nCHECK_DEADLOCK FALSE\n", ctx.scratch,
                  workers=1, env={"CASES_FILE": str(f)}, timeout=1500, heap="6g")
    if res.error:
        raise MachineryError(f"Eval_Oracle failed ({what}): {res.error}\n{res.out[-2500:]}")
    ctx.add_tlc(res)
    exp = {r[0]: r[1] for r in res.recs("EXPECT")}
    out = {}
    for cid, acc, n in res.recs("VERDICT"):
        out[cid] = (bool(acc), n, exp.get(cid))
    if len(out) != len(cases):
        raise MachineryError(f"oracle returned {len(out)} verdicts for {len(cases)} cases\n{res.out[-1500:]}")
    return out


# ------------------------------------------------------------------------------------------------
# seeded random programs (deeper than the enumerated grammar)
# ------------------------------------------------------------------------------------------------
def V(x) -> dict:
    return {"k": "val", "v": to_value(x)}


def call(t, *args, kw=None, opts=None, ctx=None, exp=None) -> dict:
    return {"k": "call", "t": t, "args": list(args), "kw": kw or [], "opts": opts or [],
            "ctx": to_value(ctx) if ctx is not None else to_value(None), "exp": exp or []}


def random_expr(rng, depth: int, allow_fail: bool = True, int_only: bool = False) -> dict:
    """Mostly int-valued expressions (so that operators type-check), some containers."""
    if depth <= 0 or rng.random() < 0.15:
        r = rng.random()
        if allow_fail and r < 0.12:
            return call(rng.choice(["boom", "kboom"]), V(rng.randint(0, 3)))
        return V(rng.randint(0, 4))
    sub = lambda af=allow_fail: random_expr(rng, depth - 1, af, True)  # noqa: E731
    r = rng.random()
    if r < 0.30:
        t = rng.choice(["inc", "inc", "twice", "ident", "neg", "ainc", "pinc", "withdef", "chooser", "deep",
                        "safe", "aslow"])
        if t == "deep":
            return call("deep", V(rng.randint(0, 3)))
        return call(t, sub())
    if r < 0.42:
        return {"k": "op", "op": rng.choice(["add", "sub", "mul"]), "args": [sub(), sub()]}
    if r < 0.50:
        return call(rng.choice(["add", "padd"]), sub(), sub())
    if r < 0.58:
        return {"k": "cond", "clauses": [[{"k": "op", "op": "lt", "args": [sub(), V(3)]}, sub()]],
                "else": sub()}
    if r < 0.66:
        hs = [[["ValueError"], "recover"]] if rng.random() < 0.6 else [[["KeyError"], "recover2"],
                                                                       [["ValueError", "KeyError"], "recover"]]
        return {"k": "catch", "body": sub(), "handlers": hs}
    if r < 0.72:
        items = [sub(False) if rng.random() < 0.6 else sub() for _ in range(rng.randint(1, 3))]
        # catch_all: keep the failing parts deterministic (one failing leaf each)
        return call("recover_all" if False else "sumall",
                    {"k": "catch_all", "items": [random_expr(rng, depth - 1, False, True) for _ in items],
                     "cls": ["ValueError"], "recover": ""})
    if r < 0.78:
        return call("sumall", {"k": "map", "t": rng.choice(["inc", "twice", "ainc"]),
                               "xs": {"k": "list", "items": [sub() for _ in range(rng.randint(0, 3))]}})
    if r < 0.84:
        return call("sumall", {"k": "seq", "items": [sub() for _ in range(rng.randint(1, 3))]})
    if r < 0.89:
        return call("kw", sub(), kw=[[rng.choice(["b", "c"]), sub()]])
    if r < 0.93:
        return {"k": "callp", "p": {"k": "partial", "t": "add", "args": [sub()]}, "args": [sub()]}
    if r < 0.96:
        return call("jointh", call("mkthread", sub()))
    return call("sumall", call("fan", V(rng.randint(0, 3))))


def wrap_container(rng, e: dict) -> dict:
    r = rng.random()
    if r < 0.3:
        return {"k": "list", "items": [e, V(1)]}
    if r < 0.5:
        return {"k": "dict", "items": [[V("a"), e], [V(2), V(3)]]}
    if r < 0.6:
        return {"k": "tuple", "items": [V(0), e]}
    return e


def shared_expr_program(rng) -> dict:
    """A parent whose result uses one call x several times: as an operand next to a slower sibling, as
    condition AND branch of a cond, inside containers.  Equal expressions under one parent share one
    evaluation (and its promise), so later uses register on a promise that may be notifying."""
    k = rng.randint(0, 3)
    x = call(rng.choice(["inc", "twice", "ainc", "ident"]), V(k))
    slow = call(rng.choice(["deep", "twice", "aslow"]), V(rng.randint(1, 3)))
    uses = [
        lambda: call("add", x, slow),
        lambda: {"k": "op", "op": "add", "args": [x, slow]},
        lambda: {"k": "cond", "clauses": [[x, x]], "else": V(0)},
        lambda: {"k": "cond", "clauses": [[{"k": "op", "op": "lt", "args": [x, V(2)]}, x]], "else": x},
        lambda: {"k": "list", "items": [x, x]},
        lambda: call("add", x, x),
        lambda: call("sumall", {"k": "seq", "items": [x, slow, x]}),
        lambda: {"k": "catch", "body": x, "handlers": [[["ValueError"], "recover"]]},
        lambda: call("inc", x),
    ]
    if rng.random() < 0.35:
        # the shared call FAILS: one use absorbs the failure first (catch, catch_all, a caught element of seq, the
        # guard of a cond), another use of the same expression must still see the error, not a value
        x = call(rng.choice(["boom", "kboom"]), V(k))
        caught = {"k": "catch", "body": x, "handlers": [[["Exception"], "recover"]]}
        fuses = [
            lambda: {"k": "seq", "items": [caught, x]},
            lambda: {"k": "seq", "items": [caught, slow, call("inc", x)]},
            lambda: {"k": "cond", "clauses": [[{"k": "op", "op": "lt", "args": [caught, V(0)]}, x]], "else": V(5)},
            lambda: {"k": "catch_all", "items": [x, call("inc", x)], "cls": ["ValueError", "KeyError"], "recover": "recover_all"},
            lambda: {"k": "list", "items": [caught, {"k": "catch", "body": call("inc", x), "handlers": [[["Exception"], "recover2"]]}]},
            lambda: {"k": "seq", "items": [caught, {"k": "catch", "body": x, "handlers": [[["Exception"], "recover2"]]}]},
            lambda: caught,
        ]
        items = [rng.choice(fuses)() for _ in range(rng.randint(1, 3))]
        return {"k": rng.choice(["list", "tuple"]), "items": items}
    n = rng.randint(2, 4)
    items = [rng.choice(uses)() for _ in range(n)]
    return {"k": rng.choice(["list", "tuple"]), "items": items}
