"""
Shared binding code for spec/seq/FileValues.tla (C30: file value hashes track the file system,
C04: cached results with external values are replayed only while valid).

The model's operations are interpreted on real redun.file objects in a scratch directory.  Time is
controlled explicitly, never slept on:
  * writes through File.open():   inside the `with` block the data is flushed and the mtime is set
    with os.utime before the stream closes, so the close hook hashes a file whose mtime is the
    model's;
  * copies (File.copy_to and everything built on it): a FileSystem registered through the public
    extension point `register_filesystem` subclasses LocalFileSystem and stamps the destination
    with the model's mtime right after the inherited copy (before copy_to re-hashes);
  * environment changes: plain os calls + os.utime.
Hashes are compared up to renaming (a bijection between the model's hash records and the 40-digit
hashes observed in one behaviour), so the concrete hash construction may change freely.
"""

from __future__ import annotations

import importlib.util
import json
import logging
import os
import pickle
import shutil
import sys
from pathlib import Path
from typing import Any, Optional

from .core import Ctx, MachineryError

CONTENT = {1: "", 2: "x", 3: "y", 4: "xy"}
CONTENT_ID = {v: k for k, v in CONTENT.items()}
APPEND_PAIRS = {(0, 2), (0, 3), (1, 2), (1, 3), (2, 4)}
T0 = 1_000_000
RAISE = "<raise>"

FILE_CLS = ("File", "IFile", "ContentFile")
DIR_CLS = ("Dir", "IDir", "ContentDir")
SET_CLS = ("FileSet", "IFileSet", "ContentFileSet")
ALL_CLS = FILE_CLS + DIR_CLS + SET_CLS
IMMUTABLE = ("IFile", "IDir", "IFileSet")
FAMILIES = {
    "plain": ("File", "Dir", "FileSet"),
    "imm": ("IFile", "IDir", "IFileSet"),
    "content": ("ContentFile", "ContentDir", "ContentFileSet"),
}

KEY_CM = "contentfile-missing-raises"
KEY_DC = "dir-copy-to-stale-hash"
KEY_RUN = "contentfile-deleted-run-raises"
WHAT = {
    KEY_CM: "hashing, update_hash and is_valid of a ContentFile whose path does not exist raise "
            "RedunFileNotFoundError (ContentFile._calc_hash opens the file) instead of yielding a "
            "deterministic hash / False like File does",
    KEY_DC: "Dir.copy_to (hence StagingDir.stage / unstage) copies the member files but never "
            "refreshes the destination Dir object: a destination whose hash was already computed "
            "keeps the stale hash and is_valid() is False right after the copy",
    KEY_RUN: "Scheduler.run raises RedunFileNotFoundError instead of re-executing the task when the "
             "cached result holds a ContentFile whose file was deleted (the validity check opens "
             "the missing file)",
}


MT_STEP = 0.25   # model mtimes are a quarter of a second apart: all inside one or two wall-clock seconds, so
                 # a hash that rounds or truncates the mtime cannot tell them apart (exact in binary floating point)


def mt(m: int) -> float:
    return T0 + MT_STEP * m


def tla_set(xs) -> str:
    return "{" + ", ".join(json.dumps(x) if isinstance(x, str) else str(x) for x in xs) + "}"


def cfg_text(spec: str, *, dirs, names, bytes_, mtimes, classes, max_objs, max_ops, shapes=("bare",),
             dev_cm: bool, dev_dc: bool, invariants=(), properties=(), view=True) -> str:
    t = (f"SPECIFICATION {spec}\nCONSTANTS\n Dirs = {tla_set(dirs)}\n Names = {tla_set(names)}\n"
         f" Bytes = {tla_set(bytes_)}\n MTimes = {tla_set(mtimes)}\n Classes = {tla_set(classes)}\n"
         f" MaxObjs = {max_objs}\n MaxOps = {max_ops}\n Shapes = {tla_set(shapes)}\n"
         f" DevContentMissing = {'TRUE' if dev_cm else 'FALSE'}\n"
         f" DevDirCopyStale = {'TRUE' if dev_dc else 'FALSE'}\n")
    if view:
        t += "VIEW View\n"
    for i in invariants:
        t += f"INVARIANT {i}\n"
    for p in properties:
        t += f"PROPERTY {p}\n"
    return t + "CHECK_DEADLOCK FALSE\n"


# ------------------------------------------------------------------------------------------------
# time-controlled local file system (public extension point: register_filesystem)
# ------------------------------------------------------------------------------------------------
_CTL: dict[str, Any] = {"copy_mtime": None, "copies": 0}
VFS_PREFIX = "vfs://"
_WORLDS = [0]


def lp(path: str) -> str:
    """Local path behind a (possibly vfs://) redun path."""
    return path[len(VFS_PREFIX):] if path.startswith(VFS_PREFIX) else path


def install_controlled_fs() -> None:
    import redun.file as rf

    cur = rf.get_filesystem_class(proto="local")
    if getattr(cur, "_verif_controlled", False):
        return

    class ControlledLocalFileSystem(cur):  # type: ignore[misc, valid-type]
        name = "local"
        _verif_controlled = True

        def copy(self, src_path: str, dest_path: str) -> None:
            super().copy(src_path, dest_path)
            m = _CTL["copy_mtime"]
            if m is not None:
                os.utime(dest_path, (m, m))
                _CTL["copies"] += 1

    rf.register_filesystem(ControlledLocalFileSystem)
    if not getattr(type(rf.File("/tmp/x").filesystem), "_verif_controlled", False):
        raise MachineryError("register_filesystem no longer routes local paths to the registered class")

    class VirtualRemoteFileSystem(ControlledLocalFileSystem):
        """A second, non-local file system (vfs://<absolute local path>) over the same disk: copies between the two
        take the upload / download branches of File.copy_to and of the staging classes.  The model does not
        know where a directory lives; hashes are taken of the local path, so they agree with the model's."""
        name = "vfs"

        def _ensure_dir(self, path):
            return super()._ensure_dir(lp(path))

        def _open(self, path, mode, **kw):
            return super()._open(lp(path), mode, **kw)

        def exists(self, path):
            return super().exists(lp(path))

        def remove(self, path):
            return super().remove(lp(path))

        def touch(self, path, time=None):
            return super().touch(lp(path), time)

        def mkdir(self, path):
            return super().mkdir(lp(path))

        def rmdir(self, path, recursive=False):
            return super().rmdir(lp(path), recursive)

        def get_hash(self, path):
            return super().get_hash(lp(path))

        def copy(self, src_path, dest_path):
            return super().copy(lp(src_path), lp(dest_path))

        def glob(self, pattern):
            return [VFS_PREFIX + x for x in super().glob(lp(pattern))]

        def isfile(self, path):
            return super().isfile(lp(path))

        def isdir(self, path):
            return super().isdir(lp(path))

        def filesize(self, path):
            return super().filesize(lp(path))

    rf.register_filesystem(VirtualRemoteFileSystem)
    if rf.File(VFS_PREFIX + "/tmp/x").filesystem.name != "vfs":
        raise MachineryError("register_filesystem no longer routes vfs:// paths to the registered class")


def quiet_redun() -> None:
    logging.getLogger("redun").setLevel(logging.ERROR)


# ------------------------------------------------------------------------------------------------
# interpreting operations on the real classes
# ------------------------------------------------------------------------------------------------
class World:
    def __init__(self, root: Path):
        import redun.file as rf

        self.rf = rf
        self.root = Path(root)
        self.root.mkdir(parents=True, exist_ok=True)
        self.objs: list = []
        self.meta: list[tuple[str, list]] = []  # (cls, t)
        # which directories live on the second (non-local) file system: changes from world to world
        _WORLDS[0] += 1
        self.widx = _WORLDS[0]
        self.all_local = False

    # paths ------------------------------------------------------------------------------------
    def remote(self, d: str) -> bool:
        import hashlib

        return not self.all_local and hashlib.md5(f"{d}|{self.widx}".encode()).digest()[0] & 1 == 0

    def lpath(self, t) -> str:
        """The local path (for what the harness does to the disk itself)."""
        return str(self.root / t[0] / t[1])

    def fpath(self, t) -> str:
        """The path handed to redun."""
        return (VFS_PREFIX if self.remote(t[0]) else "") + self.lpath(t)

    def arg(self, cls: str, t) -> str:
        pre = VFS_PREFIX if self.remote(t[0]) else ""
        if cls in FILE_CLS:
            return self.fpath(t)
        if cls in DIR_CLS:
            return pre + str(self.root / t[0])
        return pre + str(self.root / t[0] / "*")

    def make(self, cls: str, t):
        return getattr(self.rf, cls)(self.arg(cls, t))

    # file system ------------------------------------------------------------------------------
    def fstate(self, t) -> dict:
        p = self.lpath(t)
        if not os.path.isfile(p):
            return {"ex": False, "bytes": 0, "mtime": -1}
        data = open(p).read()
        st = os.stat(p)
        m = (st.st_mtime - T0) / MT_STEP
        return {"ex": True, "bytes": CONTENT_ID.get(data, -9), "mtime": int(m) if m == int(m) else m}

    def env_set(self, t, b: int, m: int) -> None:
        p = self.lpath(t)
        os.makedirs(os.path.dirname(p), exist_ok=True)
        with open(p, "w") as f:
            f.write(CONTENT[b])
        os.utime(p, (mt(m), mt(m)))

    def env_del(self, t) -> None:
        os.remove(self.lpath(t))

    # operations -------------------------------------------------------------------------------
    def _write(self, obj, mode: str, data: str, m: int) -> None:
        with obj.open(mode) as fh:
            fh.write(data)
            fh.flush()
            os.utime(lp(obj.path), (mt(m), mt(m)))

    def apply(self, op: dict) -> Optional[str]:
        """Executes one model operation; returns the exception type name if the call raised."""
        n, i, j = op["n"], op["i"], op["j"]
        oi = self.objs[i - 1] if i else None
        oj = self.objs[j - 1] if j else None
        _CTL["copy_mtime"] = mt(op["m"]) if op["m"] else None
        copies0 = _CTL["copies"]
        dests: list[str] = []
        try:
            if n == "new":
                self.objs.append(self.make(op["c"], op["t"]))
                self.meta.append((op["c"], op["t"]))
            elif n == "write":
                self._write(oi, "w", CONTENT[op["b"]], op["m"])
            elif n == "append":
                cur = self.fstate(self.meta[i - 1][1])
                old = CONTENT[cur["bytes"]] if cur["ex"] else ""
                self._write(oi, "a", CONTENT[op["b"]][len(old):], op["m"])
            elif n == "copy":
                if j == 0:
                    oj = self.make(op["c"], op["t"])
                    self.objs.append(oj)
                    self.meta.append((op["c"], op["t"]))
                skipped = bool(op["k"]) and os.path.exists(lp(oj.path))
                oi.copy_to(oj, skip_if_exists=bool(op["k"]))
                if not skipped:
                    dests.append(lp(oj.path))
            elif n in ("stage", "unstage"):
                st = oj.classes.StagingFile(oi, oj)  # local = i, remote = j
                if lp(oi.path) != lp(oj.path):
                    dests.append(lp(oi.path if n == "stage" else oj.path))
                st.stage() if n == "stage" else st.unstage()
            elif n == "dcopy":
                if j == 0:
                    oj = self.make(op["c"], op["t"])
                    self.objs.append(oj)
                    self.meta.append((op["c"], op["t"]))
                src_members = sorted(os.listdir(lp(oi.path))) if os.path.isdir(lp(oi.path)) else []
                oi.copy_to(oj)
                dests += [os.path.join(lp(oj.path), x) for x in src_members]
            elif n in ("dstage", "dunstage"):
                st = oj.classes.StagingDir(oi, oj)
                src, dst = (oj, oi) if n == "dstage" else (oi, oj)
                if lp(src.path) != lp(dst.path):
                    src_members = sorted(os.listdir(lp(src.path))) if os.path.isdir(lp(src.path)) else []
                    dests += [os.path.join(lp(dst.path), x) for x in src_members]
                st.stage() if n == "dstage" else st.unstage()
            elif n == "mkdir":
                oi.mkdir()
            elif n == "rmdir":
                oi.rmdir(recursive=True)
            elif n == "remove":
                oi.remove()
            elif n == "touch":
                oi.touch((mt(op["m"]), mt(op["m"])))
            elif n == "update":
                oi.update_hash()
            elif n == "reload":
                self.objs[i - 1] = pickle.loads(pickle.dumps(oi))
            elif n == "eset":
                self.env_set(op["t"], op["b"], op["m"])
            elif n == "edel":
                self.env_del(op["t"])
            else:
                raise MachineryError(f"unknown operation {n}")
        except MachineryError:
            raise
        except Exception as e:  # noqa
            return type(e).__name__
        finally:
            _CTL["copy_mtime"] = None
        # the time seam: every copied file must carry the model's mtime
        for d in dests:
            if not os.path.isfile(d) or os.stat(d).st_mtime != mt(op["m"]):
                raise MachineryError(
                    f"mtime control lost: {d} was not stamped by the registered FileSystem.copy "
                    f"(copies seen {_CTL['copies'] - copies0}); the copy path no longer goes through "
                    "FileSystem.copy")
        return None

    def observe(self) -> list[dict]:
        out = []
        for obj, (cls, t) in zip(self.objs, self.meta):
            try:
                h = obj.hash
            except Exception:  # noqa
                h = RAISE
            try:
                v = "T" if obj.is_valid() else "F"
            except Exception:  # noqa
                v = "R"
            try:
                f = self.make(cls, t).hash
            except Exception:  # noqa
                f = RAISE
            out.append({"h": h, "v": v, "f": f})
        return out

    def fs_obs(self, dirs, names) -> dict:
        return {d: {n: self.fstate([d, n]) for n in names} for d in dirs}


def canon(h: dict) -> str:
    """Canonical text of a model hash record."""
    if h["c"] == "raise":
        return RAISE
    ms = sorted(canon(x) for x in h["ms"])
    return json.dumps([h["c"], h["p"], h["s"], h["m"], h["b"], ms])


class Bijection:
    """model hash record <-> observed 40-digit hash, per behaviour."""

    def __init__(self):
        self.m2c: dict[str, str] = {RAISE: RAISE}
        self.c2m: dict[str, str] = {RAISE: RAISE}

    def add(self, model: str, conc: str) -> Optional[str]:
        a, b = self.m2c.get(model), self.c2m.get(conc)
        if a is None and b is None:
            self.m2c[model], self.c2m[conc] = conc, model
            return None
        if a == conc and b == model:
            return None
        if a is not None and a != conc:
            return (f"the model hash {model} was observed as {a[:10]} before and as {conc[:10]} now "
                    "(the real hash depends on something the specified pre-image does not contain)")
        return (f"the observed hash {conc[:10]} stands for {b} and for {model} "
                "(the real hash ignores something the specified pre-image contains)")


def model_fs_view(mfs: dict) -> dict:
    return {d: {n: {"ex": f["ex"], "bytes": f["bytes"], "mtime": f["mtime"]} for n, f in ns.items()}
            for d, ns in mfs.items()}


def probe_deviations(scratch: Path) -> dict[str, bool]:
    """Runs the two witnesses on the real code: which named deviations does this tree have?"""
    install_controlled_fs()
    w = World(scratch / "probe")
    w.apply(op_rec("new", c="ContentFile", t=["d", "a"]))
    cm = w.observe()[0]["h"] == RAISE
    w2 = World(scratch / "probe2")
    for op in (op_rec("new", c="Dir", t=["d", ""]), op_rec("new", c="Dir", t=["e", ""])):
        w2.apply(op)
    w2.observe()
    w2.apply(op_rec("eset", t=["d", "a"], b=2, m=1))
    w2.apply(op_rec("dcopy", i=1, j=2, m=1))
    o = w2.observe()[1]
    dc = o["h"] != o["f"]
    return {"cm": cm, "dc": dc}


def op_rec(n, i=0, j=0, c="", t=None, b=0, m=0, k=0) -> dict:
    return {"n": n, "i": i, "j": j, "c": c, "t": t if t is not None else ["", ""], "b": b, "m": m, "k": k}


# ------------------------------------------------------------------------------------------------
# C30: replay of a model behaviour (spec -> code)
# ------------------------------------------------------------------------------------------------
class Reporter:
    """Reports each keyed finding once per run (with its first witness), everything else always."""

    MAX_UNKEYED = 25   # replay files written per run; further failures are only counted

    def __init__(self, ctx: Ctx):
        self.ctx = ctx
        self.keyed: dict[str, int] = {}
        self.unkeyed = 0

    def report(self, what: str, replay: Any, key: Optional[str]) -> None:
        if key is not None:
            self.keyed[key] = self.keyed.get(key, 0) + 1
            if self.keyed[key] > 1:
                return
            what = f"{WHAT[key]} -- witness: {what}"
        else:
            self.unkeyed += 1
            self.ctx.note("unkeyed_failures", self.unkeyed)
            if self.unkeyed > self.MAX_UNKEYED:
                return
        self.ctx.violation(what, replay, key=key)


def missing_contentfile(world: World, k: int) -> bool:
    cls, t = world.meta[k]
    return cls == "ContentFile" and not os.path.exists(world.lpath(t))


def replay_ops_behaviour(rep: Reporter, beh: dict, root: Path, dirs, names, source: str) -> dict:
    """Replays one C30 behaviour; returns flags {viol, oblig, invalid, dev}."""
    ctx = rep.ctx
    w = World(root)
    bij = Bijection()
    info = {"viol": False, "oblig": 0, "invalid": 0, "dev": set()}
    steps = beh["steps"]
    for idx, step in enumerate(steps):
        op, mobs = step["op"], step["obs"]
        rp = {"kind": "ops", "source": source, "behaviour": beh, "at": idx, "dirs": list(dirs),
              "names": list(names)}
        exc = w.apply(op)
        obs = w.observe()
        # ---- the property's own predicates on the real objects --------------------------------
        if exc is not None:
            k = op["i"] - 1
            key = KEY_CM if (op["n"] == "update" and missing_contentfile(w, k)) else None
            rep.report(f"{op['n']} raised {exc} at step {idx + 1} ({w.meta[k][0] if k >= 0 else ''})", rp, key)
            info["viol"] = info["viol"] or key is None
            if key:
                info["dev"].add(key)
        for k, o in enumerate(obs):
            cls = w.meta[k][0]
            if RAISE in (o["h"], o["f"]) or o["v"] == "R":
                key = KEY_CM if missing_contentfile(w, k) else None
                rep.report(f"hash / is_valid of {cls} object {k + 1} raised after step {idx + 1} "
                           f"({op['n']}): hash={o['h'][:8]} valid={o['v']} fresh={o['f'][:8]}", rp, key)
                info["viol"] = info["viol"] or key is None
                if key:
                    info["dev"].add(key)
                continue
            if (o["v"] == "T") != (o["h"] == o["f"]) or (cls in IMMUTABLE and o["v"] != "T"):
                rep.report(f"{cls} object {k + 1} after step {idx + 1}: is_valid={o['v']} but recorded "
                           f"hash {'=' if o['h'] == o['f'] else '!='} fresh hash", rp, None)
                info["viol"] = True
            if o["v"] == "F":
                info["invalid"] += 1
        if mobs["ob"]:
            info["oblig"] += 1
            o = obs[mobs["ob"] - 1]
            if o["h"] != o["f"] and RAISE not in (o["h"], o["f"]):
                key = KEY_DC if op["n"] in ("dcopy", "dstage", "dunstage") else None
                rep.report(f"after {op['n']} (step {idx + 1}) the {w.meta[mobs['ob'] - 1][0]} object's hash "
                           f"{o['h'][:8]} is not the fresh hash {o['f'][:8]}", rp, key)
                info["viol"] = info["viol"] or key is None
                if key:
                    info["dev"].add(key)
        # ---- conformance with the model ----------------------------------------------------------
        if w.fs_obs(dirs, names) != model_fs_view(mobs["fs"]):
            raise MachineryError(f"file system after {op} differs from the model: "
                                 f"{w.fs_obs(dirs, names)} vs {model_fs_view(mobs['fs'])} ({source})")
        diff = None
        if (exc is not None) != bool(mobs["raised"]):
            diff = f"call raised={exc} model raised={mobs['raised']}"
        elif len(obs) != len(mobs["objs"]):
            raise MachineryError("object count differs from the model")
        else:
            for k, (o, mo) in enumerate(zip(obs, mobs["objs"])):
                if o["v"] != mo["v"]:
                    diff = f"object {k + 1} ({w.meta[k][0]}): is_valid {o['v']}, model {mo['v']}"
                    break
                for fld in ("h", "f"):
                    e = bij.add(canon(mo[fld]), o[fld])
                    if e:
                        diff = f"object {k + 1} ({w.meta[k][0]}) {'recorded' if fld == 'h' else 'fresh'} hash: {e}"
                        break
                if diff:
                    break
        if diff:
            rep.report(f"observation after step {idx + 1} ({op['n']}) differs from FileValues.tla: {diff}",
                       dict(rp, impl_obs=obs), None)
            info["viol"] = True
            return info
    return info


# ------------------------------------------------------------------------------------------------
# C30: random executions of the real code (code -> spec)
# ------------------------------------------------------------------------------------------------
def enabled_ops(w: World, dirs, names, bytes_, mtimes, classes, max_objs, last_obs=()) -> list[tuple[float, dict]]:
    """Weighted candidate operations satisfying Pre of FileValues.tla in the world's current state."""
    out: list[tuple[float, dict]] = []
    paths = [[d, n] for d in dirs for n in names]
    fst = {tuple(p): w.fstate(p) for p in paths}
    fobjs = [k + 1 for k, (c, _) in enumerate(w.meta) if c in FILE_CLS]
    dobjs = [k + 1 for k, (c, _) in enumerate(w.meta) if c in DIR_CLS]
    room = len(w.objs) < max_objs

    def targets(c):
        return paths if c in FILE_CLS else [[d, ""] for d in dirs]

    if room:
        for c in classes:
            for t in targets(c):
                out.append((3.0 / len(targets(c)), op_rec("new", c=c, t=t)))
    for p in paths:
        for b in bytes_:
            for m in mtimes:
                out.append((0.25, op_rec("eset", t=p, b=b, m=m)))
        if fst[tuple(p)]["ex"]:
            out.append((1.0, op_rec("edel", t=p)))
    for i in range(1, len(w.objs) + 1):
        out.append((0.3, op_rec("update", i=i)))
        if i <= len(last_obs) and last_obs[i - 1]["h"] != RAISE:   # pickling reads .hash
            out.append((0.3, op_rec("reload", i=i)))
    for i in fobjs:
        ti = w.meta[i - 1][1]
        cur = fst[tuple(ti)]
        out.append((0.5, op_rec("remove", i=i)))
        for m in mtimes:
            for b in bytes_:
                out.append((0.5, op_rec("write", i=i, b=b, m=m)))
                if ((cur["bytes"] if cur["ex"] else 0), b) in APPEND_PAIRS:
                    out.append((1.0, op_rec("append", i=i, b=b, m=m)))
            if cur["ex"]:
                out.append((0.5, op_rec("touch", i=i, m=m)))
            for j in fobjs:
                if j == i:
                    continue
                tj = w.meta[j - 1][1]
                if cur["ex"] and tj != ti:
                    out.append((1.0, op_rec("copy", i=i, j=j, m=m, k=0)))
                    out.append((0.3, op_rec("copy", i=i, j=j, m=m, k=1)))
                if fst[tuple(tj)]["ex"] or ti == tj:
                    out.append((0.7, op_rec("stage", i=i, j=j, m=m)))
                if cur["ex"] or ti == tj:
                    out.append((0.7, op_rec("unstage", i=i, j=j, m=m)))
            if room and cur["ex"]:
                for c in classes:
                    if c in FILE_CLS:
                        for t in paths:
                            if t != ti:
                                out.append((0.3, op_rec("copy", i=i, c=c, t=t, m=m)))
    for i in dobjs:
        ti = w.meta[i - 1][1]
        out.append((0.3, op_rec("mkdir", i=i)))
        out.append((0.5, op_rec("rmdir", i=i)))
        for m in mtimes:
            for j in dobjs:
                if j == i:
                    continue
                if w.meta[j - 1][1] != ti:
                    out.append((2.0, op_rec("dcopy", i=i, j=j, m=m)))
                out.append((0.7, op_rec("dstage", i=i, j=j, m=m)))
                out.append((0.7, op_rec("dunstage", i=i, j=j, m=m)))
            if room:
                for c in classes:
                    if c in DIR_CLS:
                        for t in targets(c):
                            if t != ti:
                                out.append((0.5, op_rec("dcopy", i=i, c=c, t=t, m=m)))
    return out


class Interner:
    def __init__(self):
        self.ids: dict[str, int] = {RAISE: 0}

    def __call__(self, h: str) -> int:
        if h not in self.ids:
            self.ids[h] = len(self.ids)
        return self.ids[h]


def record_ops_trace(rng, root: Path, n_ops: int, dirs, names, bytes_, mtimes, classes, max_objs) -> dict:
    w = World(root)
    tok = Interner()
    steps = []
    obs: list = []
    for _ in range(n_ops):
        cands = enabled_ops(w, dirs, names, bytes_, mtimes, classes, max_objs, obs)
        op = rng.choices([c[1] for c in cands], weights=[c[0] for c in cands])[0]
        exc = w.apply(op)
        obs = w.observe()
        steps.append({"op": op, "obs": {
            "objs": [{"h": tok(o["h"]), "v": o["v"], "f": tok(o["f"])} for o in obs],
            "raised": 1 if exc else 0, "kind": "env", "count": 0, "res": []}})
    return {"wf": {"shape": "none", "items": []}, "steps": steps, "classes": [m[0] for m in w.meta]}


# ------------------------------------------------------------------------------------------------
# C04: a generated task module run through a real Scheduler
# ------------------------------------------------------------------------------------------------
TASK_SRC = '''
import os
from redun import task
import redun.file as rf

CTL = {"count": 0, "mtime": None}


def _write(f, path):
    with f.open("w") as fh:
        fh.write("x")
        fh.flush()
        os.utime(path, (CTL["mtime"], CTL["mtime"]))


@task(namespace="__NS__")
def keep(*objs):
    return len(objs)


@task(namespace="__NS__")
def make(hid: int, shape: str, items: list, root: str):
    """Writes every output through File.open and returns the external values in the given shape."""
    CTL["count"] += 1
    objs = []
    for cls, d, n in items:
        C = getattr(rf, cls)
        if n:
            path = os.path.join(root, d, n)
            f = C(path)
            _write(f, path)
            objs.append(f)
        else:
            member = os.path.join(root, d, "a")
            _write(C.classes.File(member), member)
            objs.append(C(os.path.join(root, d) if cls.endswith("Dir") else os.path.join(root, d, "*")))
    if shape == "bare":
        return objs[0]
    if shape == "list":
        return [7] + objs
    if shape == "partial":
        # the external values travel inside a partially applied task (a Value that holds other values)
        return keep.partial(*objs)
    return dict([("n", 7)] + [("k%d" % i, o) for i, o in enumerate(objs)])
'''


class SchedLab:
    """One in-memory backend + one generated task module per check run; a fresh Scheduler per run."""

    def __init__(self, ctx: Ctx):
        from redun import Scheduler
        from redun.backends.db import RedunBackendDb

        quiet_redun()
        install_controlled_fs()
        uid = f"{os.getpid()}_{ctx.seed}_{abs(hash(str(ctx.scratch))) % 10**6}"
        self.ns = f"verif_fv_{uid}"
        path = ctx.tmp(f"fv_tasks_{uid}.py")
        path.write_text(TASK_SRC.replace("__NS__", self.ns))
        spec = importlib.util.spec_from_file_location(f"fv_tasks_{uid}", path)
        mod = importlib.util.module_from_spec(spec)
        sys.modules[spec.name] = mod
        spec.loader.exec_module(mod)
        self.mod = mod
        self.Scheduler = Scheduler
        self.backend = RedunBackendDb(db_uri="sqlite:///:memory:")
        Scheduler(backend=self.backend).load()
        self.hid = 0

    def next_hid(self) -> int:
        self.hid += 1
        return self.hid


def flatten(shape: str, result, nitems: int) -> list:
    if shape == "bare":
        return [result]
    if shape == "list":
        return list(result[1:])
    if shape == "partial":
        return list(result.args)
    return [result["k%d" % i] for i in range(nitems)]


class RunWorld(World):
    def __init__(self, lab: SchedLab, root: Path, wf: dict, shape: Optional[str] = None):
        super().__init__(root)
        self.all_local = True   # the generated task builds its own (local) paths
        self.lab = lab
        self.wf = wf
        self.shape = shape or wf["shape"]
        self.hid = lab.next_hid()
        self.items = [[it["cls"], it["t"][0], it["t"][1]] for it in wf["items"]]
        self.count = 0
        self.result: Optional[list] = None

    def run(self, m: int) -> tuple[str, Optional[str]]:
        """One Scheduler.run of the workflow at model time m: ('exec' | 'replay' | 'raise', exception)."""
        ctl = self.lab.mod.CTL
        ctl["mtime"] = mt(m)
        c0 = ctl["count"]
        sched = self.lab.Scheduler(backend=self.lab.backend)
        try:
            res = sched.run(self.lab.mod.make(self.hid, self.shape, self.items, str(self.root)))
        except Exception as e:  # noqa
            if ctl["count"] != c0:
                return "raise-after-exec", f"{type(e).__name__}: {e}"
            return "raise", f"{type(e).__name__}: {e}"
        d = ctl["count"] - c0
        self.count += d
        self.result = flatten(self.shape, res, len(self.items))
        return ("exec" if d == 1 else "replay" if d == 0 else f"exec*{d}"), None

    def res_obs(self) -> list[dict]:
        out = []
        for obj, it in zip(self.result or [], self.wf["items"]):
            try:
                h = obj.hash
            except Exception:  # noqa
                h = RAISE
            try:
                f = self.make(it["cls"], it["t"]).hash
            except Exception:  # noqa
                f = RAISE
            out.append({"h": h, "f": f})
        return out

    def cached_missing_contentfile(self) -> bool:
        return any(it["cls"] == "ContentFile" and not os.path.exists(self.lpath(it["t"]))
                   for it in self.wf["items"])


def replay_runs_behaviour(rep: Reporter, lab: SchedLab, beh: dict, root: Path, dirs, names, source: str,
                          shape: Optional[str] = None) -> dict:
    """Replays one C04 history through a real Scheduler; returns flags."""
    w = RunWorld(lab, root, beh["wf"], shape)
    bij = Bijection()
    info = {"viol": False, "runs": 0, "exec": 0, "replay": 0, "raise": 0, "reexec": 0, "diverged": False,
            "dev": set()}
    had = False
    for idx, step in enumerate(beh["steps"]):
        op, mobs = step["op"], step["obs"]
        rp = {"kind": "runs", "source": source, "behaviour": beh, "at": idx, "dirs": list(dirs),
              "names": list(names), "shape": w.shape}
        if op["n"] != "run":
            w.apply(op)
            continue
        # the property's own predicate, from what the previous run returned
        prev = w.res_obs() if had else []
        all_valid = had and all(
            it["cls"] in IMMUTABLE or (o["h"] == o["f"] and o["h"] != RAISE)
            for o, it in zip(prev, w.wf["items"]))
        kind, exc = w.run(op["m"])
        info["runs"] += 1
        if kind in info:
            info[kind] += 1
        if kind == "raise":
            key = KEY_RUN if w.cached_missing_contentfile() else None
            rep.report(f"Scheduler.run raised {exc} at step {idx + 1} of a {w.shape} result "
                       f"{[it['cls'] for it in w.wf['items']]} instead of re-executing", rp, key)
            info["viol"] = info["viol"] or key is None
            if key:
                info["dev"].add(key)
        elif kind not in ("exec", "replay"):
            rep.report(f"run at step {idx + 1}: {kind} {exc or ''}", rp, None)
            info["viol"] = True
            return info
        else:
            if (kind == "replay") != bool(all_valid):
                rep.report(f"run at step {idx + 1} of a {w.shape} result {[it['cls'] for it in w.wf['items']]}: "
                           f"{'replayed' if kind == 'replay' else 're-executed'} although the stored result "
                           f"{'was not' if kind == 'replay' else 'was'} valid (had result={had}, "
                           f"recorded/fresh={[(o['h'][:6], o['f'][:6]) for o in prev]})", rp, None)
                info["viol"] = True
            if kind == "exec" and had:
                info["reexec"] += 1
            had = True
            now = w.res_obs()
            for k, (o, it) in enumerate(zip(now, w.wf["items"])):
                if o["h"] != o["f"] or o["h"] == RAISE:
                    rep.report(f"after the run at step {idx + 1} ({kind}) the {it['cls']} in the result has "
                               f"hash {o['h'][:8]}, the current state hashes to {o['f'][:8]}", rp, None)
                    info["viol"] = True
        # ---- conformance with the model -------------------------------------------------------
        if kind != op["c"]:
            if kind in step["alt"]:
                info["diverged"] = True    # order-dependent outcome, both admitted by the model
                return info
            rep.report(f"run at step {idx + 1}: the code did '{kind}', FileValues.tla admits {step['alt']} "
                       f"(result {w.shape} {[it['cls'] for it in w.wf['items']]})", rp, None)
            info["viol"] = True
            return info
        if w.fs_obs(dirs, names) != model_fs_view(mobs["fs"]):
            raise MachineryError(f"file system after run differs from the model: {w.fs_obs(dirs, names)} vs "
                                 f"{model_fs_view(mobs['fs'])} ({source})")
        if w.count != mobs["count"]:
            rep.report(f"execution count {w.count}, model {mobs['count']} at step {idx + 1}", rp, None)
            info["viol"] = True
            return info
        if kind != "raise":
            for k, (o, mo) in enumerate(zip(w.res_obs(), mobs["res"])):
                for fld in ("h", "f"):
                    e = bij.add(canon(mo[fld]), o[fld])
                    if e:
                        rep.report(f"result value {k + 1} after the run at step {idx + 1}: {e}", rp, None)
                        info["viol"] = True
                        return info
    return info


def record_runs_trace(rng, lab: SchedLab, root: Path, n_ops: int, dirs, names, bytes_, mtimes, classes,
                      shapes) -> dict:
    """Seeded random history of runs and environment changes on the real scheduler, recorded."""
    items_all = [{"cls": c, "t": t} for c in classes
                 for t in ([[d, n] for d in dirs for n in names] if c in FILE_CLS else [[d, ""] for d in dirs])]
    shape = rng.choice(list(shapes))
    items = [rng.choice(items_all)] if shape == "bare" else [rng.choice(items_all), rng.choice(items_all)]
    wf = {"shape": shape, "items": items}
    w = RunWorld(lab, root, wf)
    tok = Interner()
    paths = [[d, n] for d in dirs for n in names]
    steps = []
    targets = [it["t"] if it["cls"] in FILE_CLS else [it["t"][0], "a"] for it in items]
    for k in range(n_ops):
        r = rng.random()
        if k == 0 or r < 0.4:
            op = op_rec("run", m=rng.choice(list(mtimes)))
            kind, _ = w.run(op["m"])
            op["c"] = kind
        else:
            # prefer the paths the result depends on
            p = rng.choice(targets) if rng.random() < 0.6 else rng.choice(paths)
            if w.fstate(p)["ex"] and rng.random() < 0.35:
                op = op_rec("edel", t=p)
            else:
                op = op_rec("eset", t=p, b=rng.choice(list(bytes_)), m=rng.choice(list(mtimes)))
            w.apply(op)
            kind = "env"
        steps.append({"op": op, "obs": {
            "objs": [], "raised": 1 if kind == "raise" else 0, "kind": kind, "count": w.count,
            "res": [{"h": tok(o["h"]), "f": tok(o["f"])} for o in (w.res_obs() if w.result else [])]}})
    return {"wf": wf, "steps": steps}


# ------------------------------------------------------------------------------------------------
# trace validation by TLC
# ------------------------------------------------------------------------------------------------
def validate_traces(ctx: Ctx, traces: list, what: str, *, dirs, names, bytes_, mtimes, max_objs,
                    dev_cm: bool, dev_dc: bool, invariants, properties):
    from .tlc import run_tlc

    f = ctx.tmp(f"fv_traces_{what}.json")
    f.write_text(json.dumps([{"wf": t["wf"], "steps": t["steps"]} for t in traces]))
    cfg = cfg_text("TSpec", dirs=dirs, names=names, bytes_=bytes_, mtimes=mtimes, classes=ALL_CLS,
                   max_objs=max_objs, max_ops=100000, shapes=("bare", "list", "dict"), dev_cm=dev_cm,
                   dev_dc=dev_dc, invariants=invariants, properties=properties, view=False)
    res = run_tlc("seq/FileValues_Trace.tla", cfg, ctx.scratch, workers=1, env={"TRACE_FILE": str(f)},
                  timeout=900)
    if res.error:
        raise MachineryError(f"TLC failed on trace validation ({what}): {res.error}\n{res.out[-2500:]}")
    ctx.add_tlc(res)
    verdicts = {}
    for tid, code, pos in res.recs("VERDICT"):
        verdicts[tid] = (code, pos)
    return verdicts, res


def judge_controls(ctx: Ctx, verdicts: dict, controls: list, what: str) -> None:
    """
    controls: (tid of the original trace, tid of its corrupted copy, expected verdict of the copy).
    A control counts only if its original was accepted (on a broken tree the original may already
    be rejected earlier, which says nothing about the machinery).
    """
    usable = [(o, c, e) for o, c, e in controls if verdicts[o][0] == 1]
    if not usable:
        # nothing accepted to corrupt: legitimate only when the run is failing anyway
        ctx.require(bool(ctx.violations), f"no accepted recorded execution to build the control from: {what}")
        ctx.cov.setdefault("negative_controls", []).append(
            {"what": what, "rejected": None, "skipped": "no recorded execution was accepted (violations reported)"})
        return
    ctx.negative_control(all(tuple(verdicts[c]) == tuple(e) for _, c, e in usable),
                         f"{what} ({len(usable)} corrupted copies)")


def cleanup_root(root: Path) -> None:
    shutil.rmtree(root, ignore_errors=True)
