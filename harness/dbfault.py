"""
Commit interposition, crash and fault injection for the database backend (DESIGN 2.3c).

Everything is on the harness side, nothing in redun is changed:

* `Recorder` registers SQLAlchemy *session* events (before_flush / before_commit / after_commit /
  after_soft_rollback) and an *engine* event (after_cursor_execute) on a live RedunBackendDb and
  numbers the **points** of a run: every autoflush that writes staged rows (a query issued while
  rows are pending) and every commit.  For each point it records the innermost *public* backend
  operation that was executing (public methods are shadowed on the instance) and the tables that
  were written.  This list is the "commit sequence" that TLC validates against spec/cache/Backend.tla.
* injection at point k:
    crash  before | after    os._exit in before_commit / after_commit of commit point k
    fault  commit | cflush | flush
                             sqlalchemy.exc.OperationalError raised once, in before_commit of commit
                             point k, in the flush that belongs to that commit, or in the autoflush
                             of flush point k.  This is what drives db_retry.
* every run works on its own file-based sqlite database (under /dev/shm when available).  Crash
  runs execute in a forked child process that really dies (os._exit inside the commit; up to 8
  children at a time); fault and recovery runs execute in the harness process, each with a fresh
  module, backend and Scheduler.  After every run the file is reopened with the sqlite3 module
  (which rolls back a hot journal), PRAGMA foreign_key_check is run and the tables are projected
  to the abstract state of Backend.tla using redun's own hash functions to name the rows
  (DESIGN 2.5).

The workload is the one Backend.tla models: parent(1) -> child(1) -> grand(11 | 111), parent has
check_valid="shallow"; every task has two versions (an edit), chosen so that every edit of child
or grand changes the final value.  Variant 1 declares child prov=False (inherited by grand): the two
lower jobs record nothing and record_call_node(parent) takes its "children not recorded" path.
"""

from __future__ import annotations

import gc
import importlib.util
import itertools
import json
import linecache
import os
import pickle
import re
import shutil
import sqlite3
import sys
import traceback
from pathlib import Path
from typing import Any, Optional

from . import simloop

TASKS = ("P", "C", "G")
TNAME = {"P": "parent", "C": "child", "G": "grand"}
ARGS = {1: "a1", 11: "g1", 111: "g2"}
FINALS = {12: "r11", 1012: "r12", 112: "r21", 1112: "r22"}
CRASH_EXIT = 17

SRC = '''from redun import task


@task(namespace="{ns}", check_valid="shallow")
def parent(x):
    # version {vP}
    return child(x)


@task(namespace="{ns}"{copt})
def child(x):
    # version {vC}
    return grand(x + {cadd})


@task(namespace="{ns}")
def grand(x):
    # version {vG}
    return x + {gadd}
'''


def fresh_value(vers: dict) -> str:
    """The semantic function of the workload (what Backend.tla calls Fresh)."""
    return f"r{vers['C']}{vers['G']}"


# ------------------------------------------------------------------------------------------------
# workload module and vocabulary
# ------------------------------------------------------------------------------------------------
# workload variants: 0 = the chain as above; 1 = child declared prov=False (inherited by grand): the
# two lower jobs record nothing and record_call_node(parent) records the subtree tasks itself
VARIANTS = (0, 1)
VAR_NS = {0: "bkw", 1: "bkn"}
VAR_TEXT = {0: "chain", 1: "child+grandchild prov=False"}


class Workload:
    def __init__(self, moddir: Path, var: int = 0):
        self.var = var
        ns = VAR_NS[var]
        self.ns = ns
        self.modname = f"vwl_{ns}"
        self.dir = Path(moddir)
        self.dir.mkdir(parents=True, exist_ok=True)
        self.path = self.dir / f"{self.modname}.py"
        self.mod: Any = None
        self._vocab: Optional[dict] = None

    def load(self, vers: dict):
        src = SRC.format(ns=self.ns, copt=", prov=False" if self.var == 1 else "",
                         vP=vers["P"], vC=vers["C"], vG=vers["G"],
                         cadd=10 + (vers["C"] - 1) * 100, gadd=1 + (vers["G"] - 1) * 1000)
        self.path.write_text(src)
        linecache.checkcache(str(self.path))
        spec = importlib.util.spec_from_file_location(self.modname, self.path)
        mod = importlib.util.module_from_spec(spec)
        sys.modules[self.modname] = mod
        spec.loader.exec_module(mod)
        self.mod = mod
        return mod

    def vocab(self) -> dict:
        """concrete hash -> abstract id, for everything the workload can ever record."""
        if self._vocab is not None:
            return self._vocab
        from redun.hashing import hash_arguments, hash_call_node
        from redun.value import get_type_registry

        reg = get_type_registry()
        voc: dict = {"task": {}, "value": {}, "args": {}, "node": {}}
        th: dict = {}
        for v in (1, 2):
            mod = self.load({"P": v, "C": v, "G": v})
            for t in TASKS:
                h = getattr(mod, TNAME[t]).hash
                th[f"{t}{v}"] = h
                voc["task"][h] = f"{t}{v}"
                voc["value"][reg.get_hash(getattr(mod, TNAME[t]))] = f"{t}{v}"
            voc["value"][reg.get_hash(mod.child(1))] = "xC"
            voc["value"][reg.get_hash(mod.grand(11))] = "xG1"
            voc["value"][reg.get_hash(mod.grand(111))] = "xG2"
        if len(voc["task"]) != 6:
            raise RuntimeError("task hashes of the two versions collide")
        vh: dict = {}
        for n, a in list(ARGS.items()) + list(FINALS.items()):
            vh[a] = reg.get_hash(n)
            voc["value"][vh[a]] = a
        ah = {a: hash_arguments(reg, (n,), {}) for n, a in ARGS.items()}
        for a, h in ah.items():
            voc["args"][h] = a
        # every call node the workload can produce (Merkle: id lists task, args, result, child)
        for vg, garg in itertools.product((1, 2), ("g1", "g2")):
            res = f"r{garg[1]}{vg}"
            gnode = [f"G{vg}", garg, res]
            gh = hash_call_node(th[f"G{vg}"], ah[garg], vh[res], [])
            voc["node"][gh] = gnode
            vc = int(garg[1])
            cnode = [f"C{vc}", "a1", res] + gnode
            ch = hash_call_node(th[f"C{vc}"], ah["a1"], vh[res], [gh])
            voc["node"][ch] = cnode
            for vp in (1, 2):
                ph = hash_call_node(th[f"P{vp}"], ah["a1"], vh[res], [ch])
                voc["node"][ph] = [f"P{vp}", "a1", res] + cnode
        self._vocab = voc
        return voc


# ------------------------------------------------------------------------------------------------
# projection of the sqlite file to the abstract state
# ------------------------------------------------------------------------------------------------
def project(dbpath: Path, voc: dict) -> dict:
    """Tables -> abstract rows (sorted lists).  Unknown hashes become opaque '?<hash>' tokens."""
    con = sqlite3.connect(f"file:{dbpath}?mode=ro", uri=True)
    try:
        def q(sql):
            return con.execute(sql).fetchall()

        def A(kind, h):
            if h is None:
                return None
            x = voc[kind].get(h)
            return x if x is not None else (["?" + h[:10]] if kind == "node" else "?" + h[:10])

        def ex(e):
            m = re.fullmatch(r"r(\d+)", e or "")
            return int(m.group(1)) if m else -1

        tname2letter = {v: k for k, v in TNAME.items()}
        jobs = q("select id, task_hash, execution_id, call_hash, end_time from job order by start_time")
        jid = {}
        for (i, th, e, _c, _end) in jobs:
            t = voc["task"].get(th, "?")
            jid[i] = f"{ex(e)}{t[0]}"
        db = {
            "Value": sorted(A("value", h) for (h,) in q("select value_hash from value")),
            "Task": sorted(A("task", h) for (h,) in q("select hash from task")),
            "Exec": sorted(ex(e) for (e,) in q("select id from execution")),
            "ExecJob": sorted([ex(e), jid.get(j, "?")] for (e, j) in q("select id, job_id from execution")),
            "Job": sorted([jid[i], A("task", th), ex(e)] for (i, th, e, _c, _end) in jobs),
            "JobEnd": sorted([jid[i], A("node", c) or []] for (i, _th, _e, c, end) in jobs
                             if end is not None),
            "Eval": sorted([A("task", t), A("args", a), A("value", v)] for (t, a, v) in
                           q("select task_hash, args_hash, value_hash from evaluation")),
            "NodeSeq": [A("node", h) for (h,) in q("select call_hash from call_node order by timestamp, call_hash")],
            "Edge": sorted([A("node", p), A("node", c)] for (p, c) in
                           q("select parent_id, child_id from call_edge")),
            "Arg": sorted([A("node", c), A("value", v)] for (c, v) in
                          q("select call_hash, value_hash from argument")),
            "Sub": sorted([A("node", c), A("task", t)] for (c, t) in
                          q("select call_hash, task_hash from call_subtree_task")),
        }
        # consistency of the denormalised columns of call_node with the Merkle id
        for (h, th, ah, vh, name) in q("select call_hash, task_hash, args_hash, value_hash, task_name from call_node"):
            n = voc["node"].get(h)
            if n is not None and [A("task", th), A("args", ah), A("value", vh)] != n[:3]:
                db.setdefault("Bad", []).append(["call_node columns", n])
            if n is not None and tname2letter.get((name or "").split(".")[-1]) != n[0][0]:
                db.setdefault("Bad", []).append(["call_node task_name", n])
        others = {}
        for t in ("tag", "file", "subvalue", "handle", "handle_edge", "argument_result", "tag_edit"):
            n = q(f"select count(*) from {t}")[0][0]
            if n:
                others[t] = n
        db["Other"] = others
        fk = [list(map(str, r)) for r in con.execute("PRAGMA foreign_key_check").fetchall()]
        db["FKCheck"] = sorted(fk)
        dup = []
        for t, cols in (("argument", "call_hash, value_hash, arg_position"), ("job", "id"),
                        ("call_edge", "parent_id, child_id")):
            n = q(f"select count(*) from (select {cols}, count(*) c from {t} group by {cols} having c > 1)")[0][0]
            if n:
                dup.append(t)
        db["Dup"] = dup
        return db
    finally:
        con.close()


def recover(dbpath: Path) -> None:
    """Let sqlite roll back a hot journal left by a process death (needs a writable open)."""
    con = sqlite3.connect(str(dbpath))
    try:
        con.execute("select count(*) from value").fetchall()
    finally:
        con.close()


def tables_only(db: dict) -> dict:
    """The part of a projection that Backend.tla models (what TLC compares)."""
    return {k: db[k] for k in ("Value", "Task", "Exec", "Job", "JobEnd", "Eval", "NodeSeq", "Edge",
                               "Arg", "Sub")}


EMPTY_DB = {"Value": [], "Task": [], "Exec": [], "Job": [], "JobEnd": [], "Eval": [], "NodeSeq": [],
            "Edge": [], "Arg": [], "Sub": []}


# ------------------------------------------------------------------------------------------------
# interposition
# ------------------------------------------------------------------------------------------------
PUBLIC_OPS = ("record_value", "record_job_start", "record_job_end", "set_eval_cache",
              "record_call_node", "record_call_node_context", "record_tags", "record_execution",
              "record_updated_time", "check_cache", "get_subtree_tasks", "get_eval_cache",
              "get_call_cache", "get_value", "advance_handle", "put_records")
OPNAME = {"record_value": "rv", "record_job_start": "rjs", "record_job_end": "rje",
          "set_eval_cache": "sec", "record_call_node": "rcn"}
TABNAME = {"value": "Value", "task": "Task", "execution": "Exec", "job": "Job", "evaluation": "Eval",
           "call_node": "Node", "call_edge": "Edge", "argument": "Arg", "call_subtree_task": "Sub"}
_DML = re.compile(r"\s*(INSERT\s+INTO|UPDATE|DELETE\s+FROM)\s+\"?(\w+)", re.I)


class Injected(Exception):
    pass


class Recorder:
    """Numbers flush and commit points of one run and injects one crash / fault."""

    def __init__(self, backend, inject: Optional[dict] = None, on_crash=None):
        from sqlalchemy import event

        self.b = backend
        self.inject = inject or {"kind": "none"}
        self.on_crash = on_crash
        self.points: list[dict] = []
        self.ops: list[str] = []
        self.rollbacks = 0
        self.in_commit = False
        self.written: list[str] = []
        self.injected = False
        self.nflush_events = 0
        self.ncommit_events = 0
        sess, eng = backend.session, backend.engine
        if sess is None or eng is None:
            raise RuntimeError("backend not loaded")
        event.listen(sess, "before_flush", self._before_flush)
        event.listen(sess, "before_commit", self._before_commit)
        event.listen(sess, "after_commit", self._after_commit)
        event.listen(sess, "after_soft_rollback", self._after_rollback)
        event.listen(eng, "after_cursor_execute", self._after_exec)
        for name in PUBLIC_OPS:
            orig = getattr(backend, name, None)
            if orig is None:
                continue
            setattr(backend, name, self._wrap(name, orig))

    def _wrap(self, name, orig):
        rec = self

        def wrapped(*a, **kw):
            rec.ops.append(name)
            try:
                return orig(*a, **kw)
            finally:
                rec.ops.pop()

        wrapped.__name__ = name
        return wrapped

    # -- helpers
    def _op(self) -> str:
        return OPNAME.get(self.ops[-1], self.ops[-1]) if self.ops else "-"

    @staticmethod
    def _pending_tables(sess) -> list[str]:
        tabs = set()
        for o in list(sess.new) + [o for o in sess.dirty if sess.is_modified(o)] + list(sess.deleted):
            t = getattr(o, "__tablename__", type(o).__name__)
            tabs.add(TABNAME.get(t, t))
        return sorted(tabs)

    def _fault(self, where: str):
        from sqlalchemy.exc import OperationalError

        self.injected = True
        self.points[-1]["faulted"] = where
        raise OperationalError("injected transient error", None, Injected(where))

    def _crash(self):
        if self.on_crash:
            self.on_crash(self)
        os._exit(CRASH_EXIT)

    def _hit(self, kind: str, site: str) -> bool:
        inj = self.inject
        return (not self.injected and inj.get("kind") == kind and inj.get("at") == len(self.points)
                and inj.get("site") == site)

    # -- events
    def _after_exec(self, conn, cursor, statement, parameters, context, executemany):
        m = _DML.match(statement)
        if m and (cursor.rowcount is None or cursor.rowcount != 0):
            t = m.group(2).lower()
            self.written.append(TABNAME.get(t, t))

    def _before_flush(self, sess, flush_context, instances):
        self.nflush_events += 1
        if self.in_commit:
            if self._hit("fault", "cflush"):
                self._fault("cflush")
            return
        tabs = self._pending_tables(sess)
        if not tabs:
            return
        self.points.append({"k": "flush", "op": self._op(), "tabs": tabs, "depth": len(self.ops)})
        if self._hit("fault", "flush"):
            self._fault("flush")

    def _before_commit(self, sess):
        self.ncommit_events += 1
        self.in_commit = True
        self.points.append({"k": "commit", "op": self._op(), "tabs": None, "depth": len(self.ops),
                            "pend": self._pending_tables(sess)})
        if self._hit("crash", "before"):
            self.points[-1]["crashed"] = "before"
            self._crash()
        if self._hit("fault", "commit"):
            self._fault("commit")

    def _after_commit(self, sess):
        self.in_commit = False
        self.points[-1]["tabs"] = sorted(set(self.written))
        self.written = []
        if self._hit("crash", "after"):
            self.points[-1]["crashed"] = "after"
            self._crash()

    def _after_rollback(self, sess, previous_transaction):
        self.rollbacks += 1
        self.in_commit = False
        self.written = []


def open_backend(path: Path):
    """RedunBackendDb on a file, retry back-off 0 (public configuration key)."""
    from redun.backends.db import RedunBackendDb
    from redun.config import create_config_section

    b = RedunBackendDb(db_uri=f"sqlite:///{path}",
                       config=create_config_section({"db_retries_backoff": "0",
                                                     "db_retries_backoff_max": "0"}))
    b.load(migrate=False)
    return b


# ------------------------------------------------------------------------------------------------
# one run, in this process
# ------------------------------------------------------------------------------------------------
def run_here(dbpath: Path, moddir: Path, vers: dict, runno: int, inject: Optional[dict],
             crash_file: Optional[Path] = None, var: int = 0) -> dict:
    wl = Workload(Path(moddir) / f"p{os.getpid()}", var)  # children run in parallel: private module file
    mod = wl.load(vers)
    b = open_backend(dbpath)
    rec_out: dict = {"run": runno, "vers": dict(vers), "inject": inject or {"kind": "none"}, "var": var}

    def on_crash(r: Recorder):
        if crash_file is not None:
            rec_out.update({"outcome": ["crashed", ""], "points": r.points, "rollbacks": r.rollbacks})
            crash_file.write_text(json.dumps(rec_out))

    try:
        r = Recorder(b, inject, on_crash)
        s, d = simloop.make_scheduler(b)
        out = simloop.run_controlled(s, d, mod.parent(1), execution_id=f"r{runno}")
    finally:
        simloop.close_backend(b)
    if out["outcome"] == "value":
        v = out["value"]
        outcome = ["ok", FINALS.get(v, f"?{v!r}") if isinstance(v, int) else f"?{v!r}"]
    elif out["outcome"] == "error":
        outcome = ["error", out["etype"]]
        rec_out["msg"] = out["msg"][:300]
    else:
        outcome = [out["outcome"], out.get("msg", "")]
    executed = sorted({k[0].split(".")[-1] for k in d.calls})
    rec_out.update({"outcome": outcome, "points": r.points, "rollbacks": r.rollbacks,
                    "injected": r.injected,
                    "executed": sorted(t for t in TASKS if TNAME[t] in executed)})
    return rec_out


def import_here(src: Path, dst: Path) -> int:
    """Transfer every execution of `src` into `dst` the way `redun push/pull` does."""
    a, b = open_backend(src), open_backend(dst)
    roots = [r[0] for r in sqlite3.connect(str(src)).execute("select id from execution").fetchall()]
    ids = a.iter_record_ids(roots)
    n = b.put_records(a.get_records(ids))
    simloop.close_backend(a)
    simloop.close_backend(b)
    return n


def spawn_child(fn, *args, result_file: Path) -> int:
    """Fork a child that runs fn(*args) and leaves the pickled result in result_file."""
    sys.stdout.flush()
    sys.stderr.flush()
    pid = os.fork()
    if pid == 0:
        code = 0
        try:
            gc.disable()
            try:
                res = ("ok", fn(*args))
            except BaseException as e:  # noqa
                res = ("exc", f"{type(e).__name__}: {e}\n{traceback.format_exc()[-1500:]}")
            with open(result_file, "wb") as f:
                pickle.dump(res, f)
        except BaseException:  # noqa
            code = 3
        finally:
            os._exit(code)
    return pid


def wait_child(pid: int, result_file: Path, crash_file: Optional[Path] = None):
    """Result of a child started by spawn_child, or the crash record if it died by the injected
    os._exit."""
    _, status = os.waitpid(pid, 0)
    code = os.waitstatus_to_exitcode(status)
    try:
        if code == CRASH_EXIT and crash_file is not None and crash_file.exists():
            return json.loads(crash_file.read_text())
        if code != 0 or not result_file.exists():
            raise RuntimeError(f"child failed with exit code {code}")
        kind, res = pickle.loads(result_file.read_bytes())
        if kind == "exc":
            raise RuntimeError(f"child raised {res}")
        return res
    finally:
        for p in (result_file, crash_file):
            if p is not None and p.exists():
                p.unlink()


def in_child(fn, *args, crash_file: Optional[Path] = None, result_file: Optional[Path] = None):
    rf = result_file or Path(f"/tmp/verif_child_{os.getpid()}_{id(fn)}.pkl")
    return wait_child(spawn_child(fn, *args, result_file=rf), rf, crash_file)


# ------------------------------------------------------------------------------------------------
# histories: a tree of runs sharing database prefixes
# ------------------------------------------------------------------------------------------------
class Lab:
    """Scratch area of one worker: template database, module directory, vocabulary."""

    def __init__(self, scratch: Path):
        self.scratch = Path(scratch)
        self.moddir = self.scratch / "mods"
        self.wl = {v: Workload(self.moddir, v) for v in VARIANTS}
        self.voc = {v: self.wl[v].vocab() for v in VARIANTS}
        simloop.quiet_logs()
        self.n = 0

    def new_db(self, tag: str) -> Path:
        self.n += 1
        return simloop.clone_db(self.scratch, f"{tag}_{os.getpid()}_{self.n}.db")

    def copy_db(self, src: Path, tag: str) -> Path:
        self.n += 1
        dst = src.parent / f"{tag}_{os.getpid()}_{self.n}.db"
        shutil.copyfile(src, dst)
        return dst

    def start_crash_run(self, dbpath: Path, vers: dict, runno: int, inject: dict, var: int = 0) -> dict:
        """A real process death: forked child, os._exit inside the commit.  Returns a handle for
        finish_crash_run (several children run in parallel)."""
        pre = project(dbpath, self.voc[var])
        cf, rf = dbpath.with_suffix(".crash.json"), dbpath.with_suffix(".result.pkl")
        pid = spawn_child(run_here, dbpath, self.moddir, vers, runno, inject, cf, var, result_file=rf)
        return {"pid": pid, "cf": cf, "rf": rf, "pre": pre, "db": dbpath, "vers": vers, "var": var}

    def finish_crash_run(self, h: dict) -> dict:
        rec = wait_child(h["pid"], h["rf"], h["cf"])
        recover(h["db"])
        rec["pre"], rec["post"] = h["pre"], project(h["db"], self.voc[h["var"]])
        rec["var"] = h["var"]
        rec["fresh"] = fresh_value(h["vers"])
        return rec

    def run(self, dbpath: Path, vers: dict, runno: int, inject: Optional[dict] = None, var: int = 0) -> dict:
        """One run; returns the run record with abstract pre/post states."""
        if (inject or {}).get("kind") == "crash":
            return self.finish_crash_run(self.start_crash_run(dbpath, vers, runno, inject, var))
        pre = project(dbpath, self.voc[var])
        if True:
            # everything else runs in this (worker) process: a fork per run costs far more than the
            # run itself on this machine; each run gets a fresh module, backend and scheduler
            rec = run_here(dbpath, self.moddir, vers, runno, inject, None, var)
        recover(dbpath)
        post = project(dbpath, self.voc[var])
        rec["pre"], rec["post"] = pre, post
        rec["fresh"] = fresh_value(vers)
        return rec

    def import_into_new(self, src: Path, tag: str) -> Path:
        dst = self.new_db(tag)
        import_here(src, dst)
        return dst

    def drop(self, p: Path) -> None:
        for q in (p, Path(str(p) + "-journal")):
            try:
                q.unlink()
            except OSError:
                pass


# ------------------------------------------------------------------------------------------------
# trace records for spec/cache/Backend_Trace.tla
# ------------------------------------------------------------------------------------------------
def trace_record(rec: dict, role: str) -> dict:
    """role: recording (no injection) | fault | crash | recovery."""
    inj = rec.get("inject") or {"kind": "none"}
    pts = []
    for p in rec["points"]:
        skip = 1 if (p.get("tabs") is None or p.get("faulted") or p.get("crashed") == "before") else 0
        pts.append({"k": p["k"], "op": p["op"], "tabs": p.get("tabs") or [], "skip": skip})
    out = list(rec["outcome"]) + [rec.get("executed", [])]
    site = inj.get("site", "")
    return {"pre": tables_only(rec["pre"]), "post": tables_only(rec["post"]),
            "reg": [rec["vers"][t] for t in TASKS], "no": rec["run"],
            "inj": {"kind": inj.get("kind", "none"), "at": inj.get("at", 0),
                    "site": site if inj.get("kind") == "crash" else ""},
            "pts": pts, "out": out, "role": role, "fresh": rec["fresh"], "var": rec.get("var", 0)}


# ------------------------------------------------------------------------------------------------
# campaigns: injection scenario x recovery tree, executed by worker processes
# ------------------------------------------------------------------------------------------------
V1 = {"P": 1, "C": 1, "G": 1}
LEVEL = {1: "P", 2: "C", 3: "G"}
_LAB: Optional[Lab] = None


def toggle(vers: dict, e: int) -> dict:
    v = dict(vers)
    if e:
        v[LEVEL[e]] = 3 - v[LEVEL[e]]
    return v


def role_of(inj: Optional[dict], runno: int) -> str:
    if runno > 1:
        return "recovery"
    k = (inj or {}).get("kind", "none")
    return {"none": "recording", "fault": "fault", "crash": "crash"}[k]


def run_scenario(job: dict) -> list[dict]:
    """One injection scenario and its recovery tree.  job = {inj, edits2, edits3, with_import,
    id}.  Returns entries {hist, role, rec | imp}; hist as in Backend.tla (<<"run", e>>, <<"import", 0>>)."""
    lab = _LAB
    assert lab is not None
    inj = job.get("inj")
    var = job.get("var", 0)
    out: list[dict] = []
    if job.get("_pre") is not None:
        db1, r1 = job["_pre"]
    else:
        db1 = lab.new_db("h")
        r1 = lab.run(db1, V1, 1, inj, var)
    out.append({"hist": [["run", 0]], "role": role_of(inj, 1), "rec": r1})
    seen = job.get("_seen")
    if seen is not None:
        # quick tier: the recovery tree is executed once per distinct abstract state the recording run
        # leaves behind (most retried faults leave exactly the fault-free rows; a crash after commit k
        # and one before commit k + 1 leave the same rows)
        k = (var, bool(job.get("with_import")) and r1["outcome"][0] == "ok",
             json.dumps(tables_only(r1["post"]), sort_keys=True))
        if k in seen:
            lab.drop(db1)
            for e in out:
                e["scn"], e["var"], e["inj"] = job["id"], var, inj or {"kind": "none"}
                e["tree"] = seen[k]
            return out
        seen[k] = job["id"]

    def recover(db: Path, hist: list, vers: dict, runno: int, edited: int):
        edits = job["edits2"] if runno == 2 else job["edits3"]
        for e in edits:
            if e and edited and e != edited:
                continue  # a second edit only as the revert of the first (as in Backend.tla NextRun)
            if not e and runno >= 3:
                continue
            d = lab.copy_db(db, "r")
            v = toggle(vers, e)
            r = lab.run(d, v, runno, None, var)
            h = hist + [["run", e]]
            out.append({"hist": h, "role": "recovery", "rec": r})
            if runno < 3:
                recover(d, h, v, runno + 1, 0 if (edited and e == edited) else (edited or e))
            lab.drop(d)

    recover(db1, [["run", 0]], V1, 2, 0)
    if job.get("with_import") and r1["outcome"][0] == "ok":
        pre = project(db1, lab.voc[var])
        dbi = lab.import_into_new(db1, "i")
        post = project(dbi, lab.voc[var])
        h = [["run", 0], ["import", 0]]
        out.append({"hist": h, "role": "import", "imp": {"pre": pre, "post": post, "var": var}})
        recover(dbi, h, V1, 2, 0)
        lab.drop(dbi)
    lab.drop(db1)
    for e in out:
        e["scn"] = job["id"]
        e["var"] = var
        e["inj"] = inj or {"kind": "none"}
    return out


def import_trace(imp: dict) -> dict:
    return {"pre": tables_only(imp["pre"]), "post": tables_only(imp["post"]), "reg": [1, 1, 1],
            "no": 1, "inj": {"kind": "none", "at": 0, "site": ""}, "pts": [], "out": ["ok", "", []],
            "role": "import", "fresh": "r11", "var": imp.get("var", 0)}


def run_campaign(scratch: Path, jobs: list[dict], workers: int = 8, dedup_trees: bool = False) -> list[dict]:
    """Executes the scenarios; results in job order (deterministic).  Crash recordings are real
    process deaths: they are run ahead, `workers` forked children at a time; everything else runs
    in this process (a forked child pays for every page it touches, a run in a warm process does
    not)."""
    global _LAB
    if _LAB is None or _LAB.scratch != Path(scratch):
        _LAB = Lab(Path(scratch))
        _LAB.new_db("warm").unlink()
    lab = _LAB
    gc.freeze()
    crash_jobs = [j for j in jobs if (j.get("inj") or {}).get("kind") == "crash"]
    pre: dict = {}
    for n in range(0, len(crash_jobs), max(1, workers)):
        hs = []
        for j in crash_jobs[n:n + max(1, workers)]:
            db1 = lab.new_db("h")
            hs.append((j, db1, lab.start_crash_run(db1, V1, 1, j["inj"], j.get("var", 0))))
        for j, db1, h in hs:
            pre[j["id"]] = (db1, lab.finish_crash_run(h))
    res: list[dict] = []
    seen: Optional[dict] = {} if dedup_trees else None
    for j in jobs:
        jj = dict(j)
        jj["_pre"] = pre.get(j["id"])
        jj["_seen"] = seen
        res.extend(run_scenario(jj))
    return res


def model_inj(inj: dict) -> dict:
    """The injection as Backend.tla names it (the three fault sites of a point are one model fault)."""
    k = inj.get("kind", "none")
    if k == "none":
        return {"kind": "none", "at": 0, "site": ""}
    return {"kind": k, "at": inj["at"], "site": inj["site"] if k == "crash" else ""}
