"""
Cooperative thread controller (DESIGN 2.3(b)): deterministic scheduling of real Python threads.

The module under test gets a shim in place of `threading` and `time`
(`redun.job_array.threading = ctl.threading; redun.job_array.time = ctl.time`).  Real threads are
kept, but only the thread that holds the *baton* runs; every other controlled thread is parked on
its own semaphore.  The controller (the thread that called `Controller.run`) decides at every
*yield point* which thread runs next:

  * pre-emption points: `line` trace events inside the target file(s); for the source lines listed
    in `split_lines` additionally the point just before every STORE_*/DELETE_* opcode of that line
    (read-then-write statements such as `self.n -= len(x)` become two steps, as they are for the
    CPython evaluation loop: the eval breaker is polled at the CALL between the load and the store);
  * blocking points: shim `Lock.acquire`, `Event.wait()`, `Thread.join()`, `Controller.wait_until`
    yield only when they would block and are enabled again when their condition holds;
  * timed waits and sleeps (`sleep`, `Event.wait(timeout)`, `join(timeout)`, `acquire(timeout=)`)
    are *always enabled*: time is nondeterministic relative to thread progress.  Time is virtual:
    scheduling a sleeper advances the clock to its deadline.  Leaving a thread at such a point is
    a free (non pre-emptive) switch.

A schedule is the list of thread names chosen (`T0` is the driver, `T1..` in order of
`Thread.start()`).  `Controller.run(main, chooser)` executes one schedule; `ReplayChooser` follows
a given schedule (then the default policy), `RandomChooser` draws seeded random schedules,
`explore()` enumerates schedules with a pre-emption bound (stateless search, one fresh execution
per schedule).  Deadlock (no enabled thread, not all finished) is detected and reported, never
waited for; `max_steps` bounds every execution (livelock); a wall-clock watchdog exists only to
turn a controlled thread stuck in an uncontrolled blocking call into an error instead of a hang.

`DirectedChooser` replays a model behaviour: a list of (thread role, location matcher) directives,
"run that thread until it has executed a step at the anchor"; an infeasible directive (thread
blocked, finished, anchor not reached) ends the directed part and the default policy takes over.
Granularity can be narrowed per scenario: `skip_funcs` (run atomically), `only_funcs` (only these
functions of the target files have pre-emption points), `yield_lines` (functions in which only the
listed lines are pre-emption points).  `on_step(ctl, step)` runs after every step while all threads
are parked (safe place to sample the object under test).  Executions are deterministic for a given
chooser (seed); a Controller object runs exactly one execution.

CPython 3.12 note: per-opcode trace events are delivered only to threads whose sys.settrace call
came after some frame requested them (interpreter-wide flag); `run()` requests them up front, and
never from a thread that is not tracing (that segfaults 3.12.1).

Limits: pre-emption granularity is the source line (plus the listed store splits), not the
bytecode; code outside the target files runs atomically with the line that called it; only the
primitives used by the modules under test are shimmed (Lock, RLock, Event, Thread, get_ident,
current_thread, sleep, time, monotonic); memory is sequentially consistent (true for CPython with
the GIL).
"""

from __future__ import annotations

import _thread
import dis
import os
import sys
import threading as _rt
import time as _rtime
from collections import deque
from dataclasses import dataclass, field
from typing import Any, Callable, Iterator, Optional


class ControllerError(Exception):
    """The controller itself failed (a thread got stuck outside its control, misuse)."""


class Abort(BaseException):
    """Raised inside controlled threads to unwind them when an execution is abandoned."""


def _real_settrace() -> Callable:
    st = sys.settrace
    if getattr(st, "__name__", "") == "settrace_patch":  # redun.scheduler monkey-patches sys.settrace
        try:
            import redun.scheduler as _rs

            return getattr(_rs, "_original_settrace", st)
        except Exception:
            return st
    return st


def _request_opcode_events() -> None:
    sys._getframe().f_trace_opcodes = True   # on a frame that is gone when tracing starts


@dataclass
class Step:
    idx: int
    thread: str
    role: str
    loc: tuple                 # what the chosen thread executes in this step (where it was parked)
    enabled: list[str]
    cost: int                  # 1 if this choice pre-empted the previously running thread
    free_dev: int              # 1 if this is a non-default choice that costs no pre-emption
    last: Optional[str]        # thread that ran the previous step
    last_preemptible: bool     # previous thread still enabled and not at a voluntary yield
    default: str               # what the default policy would have chosen


@dataclass
class Result:
    outcome: str                                   # "done" | "deadlock" | "step-bound"
    steps: list[Step] = field(default_factory=list)
    blocked: list[tuple] = field(default_factory=list)   # (thread, role, loc) of threads not finished
    errors: dict[str, BaseException] = field(default_factory=dict)  # uncaught exceptions per thread
    now: float = 0.0
    diverged: Optional[int] = None                 # ReplayChooser: first step where the schedule was infeasible

    @property
    def schedule(self) -> list[str]:
        return [s.thread for s in self.steps]


class _Sem:
    """Binary semaphore on a raw lock (strict hand-over: never released twice in a row, except
    while an execution is being abandoned)."""

    __slots__ = ("_l",)

    def __init__(self):
        self._l = _thread.allocate_lock()
        self._l.acquire()

    def release(self) -> None:
        try:
            self._l.release()
        except RuntimeError:
            pass

    def acquire(self, timeout: float = -1) -> bool:
        return self._l.acquire(True, timeout)


class _TS:
    """Controller-side state of one controlled thread."""

    def __init__(self, ctl: "Controller", index: int, fn: Callable, role: str, shim: Any = None):
        self.ctl = ctl
        self.index = index
        self.name = f"T{index}"
        self.role = role
        self.fn = fn
        self.shim = shim
        self.baton = _Sem()
        self.status = "new"          # new | ready | finished
        self.pred: Optional[Callable[[], bool]] = None
        self.loc: tuple = ("start", role)
        self.voluntary = False
        self.wake: Optional[float] = None
        self.real: Optional[_rt.Thread] = None
        self.exc: Optional[BaseException] = None

    def enabled(self) -> bool:
        return self.status == "ready" and (self.pred is None or bool(self.pred()))


# ----------------------------------------------------------------------------------------- choosers
class DefaultChooser:
    """Non pre-emptive and fair: keep running the current thread; at a voluntary yield (sleep /
    timed wait), at a block or at thread end hand over round-robin."""

    def default(self, enabled: list[_TS], last: Optional[_TS]) -> _TS:
        if last is not None and last in enabled and not last.voluntary:
            return last
        if last is None:
            return enabled[0]
        after = [t for t in enabled if t.index > last.index]
        others = after or [t for t in enabled if t is not last]
        return others[0] if others else enabled[0]

    def choose(self, ctl: "Controller", enabled: list[_TS], last: Optional[_TS]) -> _TS:
        return self.default(enabled, last)


class ReplayChooser(DefaultChooser):
    """Follow `schedule` (thread names); when it is exhausted -- or names a thread that is not
    enabled (recorded in `diverged`) -- continue with the default policy."""

    def __init__(self, schedule: list[str], strict: bool = False):
        self.schedule = list(schedule)
        self.pos = 0
        self.diverged: Optional[int] = None
        self.strict = strict

    def choose(self, ctl, enabled, last):
        if self.pos < len(self.schedule) and self.diverged is None:
            want = self.schedule[self.pos]
            self.pos += 1
            for t in enabled:
                if t.name == want:
                    return t
            self.diverged = self.pos - 1
            if self.strict:
                raise ControllerError(f"schedule infeasible at step {self.pos - 1}: {want} not enabled")
        return self.default(enabled, last)


class RandomChooser(DefaultChooser):
    """Seeded random schedules: with probability `stay` follow the default policy, otherwise pick
    uniformly among the enabled threads."""

    def __init__(self, rng, stay: float = 0.7):
        self.rng = rng
        self.stay = stay

    def choose(self, ctl, enabled, last):
        d = self.default(enabled, last)
        if len(enabled) == 1 or self.rng.random() < self.stay:
            return d
        return enabled[self.rng.randrange(len(enabled))]


class DirectedChooser(DefaultChooser):
    """Replay of a model behaviour by anchors.  `directives` is a list of (role, match) where
    match(loc) -> bool: run the thread with that role until it has *executed* a step whose
    location matches, then go to the next directive.  A directive whose thread is blocked,
    finished or does not reach the anchor within `patience` steps makes the replay infeasible
    (`failed_at`); the execution then continues with the default policy."""

    def __init__(self, directives: list[tuple[str, Callable[[tuple], bool]]], patience: int = 400):
        self.directives = directives
        self.k = 0
        self.waited = 0
        self.failed_at: Optional[int] = None
        self.patience = patience

    def choose(self, ctl, enabled, last):
        while self.k < len(self.directives) and self.failed_at is None:
            role, match = self.directives[self.k]
            cands = [t for t in ctl.threads if t.role == role and t.status != "finished"]
            t = next((c for c in cands if c in enabled), None)
            if not cands and self.waited <= self.patience and \
                    not any(x.role == role for x in ctl.threads):
                self.waited += 1          # thread not spawned yet: let the others run
                return self.default(enabled, last)
            if t is None or self.waited > self.patience:
                self.failed_at = self.k
                break
            self.waited += 1
            if match(t.loc):
                self.k += 1
                self.waited = 0
            return t
        return self.default(enabled, last)

    @property
    def completed(self) -> bool:
        return self.failed_at is None and self.k >= len(self.directives)


# ----------------------------------------------------------------------------------------- controller
class Controller:
    def __init__(self, targets: list[str], split_lines: Optional[set[tuple[str, int]]] = None,
                 max_steps: int = 4000, clock0: float = 1000.0, watchdog_s: float = 60.0,
                 on_step: Optional[Callable[["Controller", Step], None]] = None,
                 skip_funcs: Optional[set[str]] = None, only_funcs: Optional[set[str]] = None,
                 yield_lines: Optional[dict[str, set[int]]] = None):
        self.targets = {os.path.realpath(t) for t in targets}
        self._target_cache: dict[str, bool] = {}
        self.split_lines = {(os.path.realpath(f), ln) for f, ln in (split_lines or set())}
        self._split_files = {f for f, _ in self.split_lines}
        self._split_cache: dict[Any, dict[int, str]] = {}
        self.skip_funcs = set(skip_funcs or ())   # functions of the target files that run atomically
        self.only_funcs = set(only_funcs) if only_funcs else None   # if given: all others run atomically
        # functions (by name) in which only the listed lines are pre-emption points
        self.yield_lines = {k: set(v) for k, v in (yield_lines or {}).items()}
        self.max_steps = max_steps
        self.now = clock0
        self.watchdog_s = watchdog_s
        self.on_step = on_step
        self.threads: list[_TS] = []
        self._by_ident: dict[int, _TS] = {}
        self._done = _Sem()
        self._chooser: DefaultChooser = DefaultChooser()
        self._dflt = DefaultChooser()
        self._last: Optional[_TS] = None
        self._cur_step: Optional[Step] = None
        self._outcome: Optional[str] = None
        self._error: Optional[BaseException] = None
        self._aborting = False
        self._running = False
        self._settrace = _real_settrace()
        self.threading = _ShimThreading(self)
        self.time = _ShimTime(self)
        self.steps: list[Step] = []

    # ------------------------------------------------------------------ thread bookkeeping
    def current(self) -> Optional[_TS]:
        return self._by_ident.get(_rt.get_ident())

    def _is_target(self, filename: str) -> bool:
        r = self._target_cache.get(filename)
        if r is None:
            r = os.path.realpath(filename) in self.targets
            self._target_cache[filename] = r
        return r

    def _splits(self, code) -> dict[int, str]:
        m = self._split_cache.get(code)
        if m is None:
            m = {}
            fn = os.path.realpath(code.co_filename)
            if fn in self._split_files:
                for ins in dis.get_instructions(code):
                    ln = ins.positions.lineno if ins.positions else None
                    if ln is not None and (fn, ln) in self.split_lines and \
                            (ins.opname.startswith("STORE_") or ins.opname.startswith("DELETE_")) and \
                            ins.opname not in ("STORE_FAST", "DELETE_FAST"):
                        m[ins.offset] = f"{ins.opname} {ins.argrepr}"
            self._split_cache[code] = m
        return m

    def _global_trace(self, frame, event, arg):
        if event != "call":
            return None
        code = frame.f_code
        if not self._is_target(code.co_filename) or code.co_name in self.skip_funcs or \
                (self.only_funcs is not None and code.co_name not in self.only_funcs
                 and code.co_name not in self.yield_lines):
            return None
        if self._splits(code):
            frame.f_trace_opcodes = True
        return self._local_trace

    def _local_trace(self, frame, event, arg):
        if event == "line":
            ts = self.current()
            if ts is not None:
                code = frame.f_code
                yl = self.yield_lines.get(code.co_name)
                if yl is not None and frame.f_lineno not in yl:
                    return self._local_trace
                self._yield(ts, ("line", os.path.basename(code.co_filename), frame.f_lineno, code.co_name))
        elif event == "opcode":
            sp = self._split_cache.get(frame.f_code)
            if sp:
                d = sp.get(frame.f_lasti)
                if d is not None:
                    ts = self.current()
                    if ts is not None:
                        code = frame.f_code
                        self._yield(ts, ("store", os.path.basename(code.co_filename), frame.f_lineno,
                                         code.co_name, d))
        return self._local_trace

    def _yield(self, ts: _TS, loc: tuple, pred: Optional[Callable[[], bool]] = None,
               voluntary: bool = False, wake: Optional[float] = None) -> None:
        """Called by the running controlled thread (it holds the baton): make the scheduling
        decision in place; continue without any context switch if this thread is chosen again,
        otherwise hand the baton over and park."""
        if self._aborting:
            raise Abort()
        ts.loc, ts.pred, ts.voluntary, ts.wake = loc, pred, voluntary, wake
        nxt = self._pick()
        if nxt is not ts:
            if nxt is not None:
                nxt.baton.release()
            ts.baton.acquire()           # parked (for ever, i.e. until the abort, if nxt is None)
        ts.pred, ts.voluntary = None, False
        if self._aborting:
            raise Abort()
        if ts.wake is not None:
            if ts.wake > self.now:
                self.now = ts.wake
            ts.wake = None

    def _pick(self) -> Optional[_TS]:
        """The scheduling decision; runs in whichever thread holds the baton.  Returns the thread
        to run next, or None when the execution is over (outcome set, run() woken up)."""
        try:
            if self._cur_step is not None and self.on_step is not None:
                st, self._cur_step = self._cur_step, None
                self.on_step(self, st)
            last = self._last
            live = [t for t in self.threads if t.status != "finished"]
            enabled = [t for t in live if t.enabled()]
            if not live:
                self._outcome = "done"
            elif not enabled:
                self._outcome = "deadlock"
            elif len(self.steps) >= self.max_steps:
                self._outcome = "step-bound"
            else:
                t = self._chooser.choose(self, enabled, last)
                d = self._dflt.default(enabled, last)
                pre = last is not None and last in enabled and not last.voluntary
                cost = 1 if (pre and t is not last) else 0
                st = Step(len(self.steps), t.name, t.role, t.loc, [e.name for e in enabled], cost,
                          1 if (t is not d and cost == 0) else 0, last.name if last else None, pre, d.name)
                self.steps.append(st)
                self._cur_step = st
                self._last = t
                return t
        except BaseException as e:  # noqa: chooser / on_step failure ends the execution
            self._error = e
            self._outcome = "error"
        self._done.release()
        return None

    def _bootstrap(self, ts: _TS) -> None:
        self._by_ident[_rt.get_ident()] = ts
        ts.baton.acquire()           # first scheduling
        try:
            if self._aborting:
                return
            self._settrace(self._global_trace)
            try:
                ts.fn()
            finally:
                self._settrace(None)
        except Abort:
            pass
        except BaseException as e:  # noqa: uncaught exception ends the thread (threading.excepthook)
            ts.exc = e
        finally:
            ts.status = "finished"
            ts.loc = ("finished", ts.role)
            if not self._aborting:
                nxt = self._pick()
                if nxt is not None:
                    nxt.baton.release()

    def _spawn(self, fn: Callable, role: str, shim: Any = None) -> _TS:
        ts = _TS(self, len(self.threads), fn, role, shim)
        self.threads.append(ts)
        ts.status = "ready"
        ts.real = _rt.Thread(target=self._bootstrap, args=(ts,), daemon=True, name=f"ctl-{ts.name}-{role}")
        ts.real.start()
        return ts

    # ------------------------------------------------------------------ harness-side primitives
    def wait_until(self, pred: Callable[[], bool], label: str = "wait_until") -> None:
        """Block the calling controlled thread until pred() holds (evaluated by the controller)."""
        ts = self.current()
        if ts is None:
            raise ControllerError("wait_until outside a controlled thread")
        if not pred():
            self._yield(ts, ("await", label), pred=pred)

    def pause(self, label: str = "pause") -> None:
        """Unconditional scheduling point for harness code (which is not traced)."""
        ts = self.current()
        if ts is not None:
            self._yield(ts, ("pause", label))

    # ------------------------------------------------------------------ main loop
    def run(self, main: Callable[[], None], chooser: Optional[DefaultChooser] = None,
            role: str = "main") -> Result:
        if self._running or self.threads:
            raise ControllerError("a Controller runs exactly one execution")
        self._running = True
        if self.split_lines:
            # CPython 3.12 enables per-opcode events only for settrace calls made after some frame
            # has requested them (interpreter-wide flag): request them before any thread starts
            # tracing, so that the first execution of a process behaves like all later ones
            _request_opcode_events()
        self._chooser = chooser or DefaultChooser()
        self._spawn(main, role)
        try:
            first = self._pick()
            if first is not None:
                first.baton.release()
            if not self._done.acquire(timeout=self.watchdog_s):
                t = self._last
                raise ControllerError(f"execution did not finish within {self.watchdog_s}s; last thread "
                                      f"{t.name if t else None} ({t.role if t else None}) at "
                                      f"{t.loc if t else None}: blocked outside the controller?")
        finally:
            res = Result(outcome=self._outcome or "error", steps=self.steps, now=self.now,
                         blocked=[(t.name, t.role, t.loc) for t in self.threads if t.status != "finished"],
                         diverged=getattr(self._chooser, "diverged", None))
            self._abort_all()
            for t in self.threads:
                if t.exc is not None:
                    res.errors[t.name] = t.exc
        if self._error is not None:
            raise self._error
        return res

    def _abort_all(self) -> None:
        self._aborting = True
        for t in self.threads:
            if t.status != "finished":
                t.baton.release()
        for t in self.threads:
            if t.real is not None:
                t.real.join(timeout=10.0)
                if t.real.is_alive():
                    raise ControllerError(f"thread {t.name} ({t.role}) could not be unwound")


# ----------------------------------------------------------------------------------------- shims
class _ShimTime:
    def __init__(self, ctl: Controller):
        self._ctl = ctl

    def time(self) -> float:
        return self._ctl.now

    def monotonic(self) -> float:
        return self._ctl.now

    def perf_counter(self) -> float:
        return self._ctl.now

    def sleep(self, secs: float) -> None:
        ctl = self._ctl
        ts = ctl.current()
        if ts is None:
            return
        ctl._yield(ts, ("sleep", sys._getframe(1).f_code.co_name), voluntary=True,
                   wake=ctl.now + max(0.0, float(secs)))

    def __getattr__(self, name):  # strftime, gmtime, ... : real module
        return getattr(_rtime, name)


class _ShimThreading:
    """Stands in for the `threading` module inside the module under test."""

    def __init__(self, ctl: Controller):
        c = self._ctl = ctl

        class Lock:
            def __init__(self):
                self._owner: Optional[_TS] = None
                self._anon = False

            def acquire(self, blocking: bool = True, timeout: float = -1) -> bool:
                ts = c.current()
                if self._owner is None and not self._anon:
                    self._take(ts)
                    return True
                if not blocking:
                    return False
                if ts is None:
                    raise ControllerError("uncontrolled thread would block on a controlled lock")
                if timeout is not None and timeout >= 0:
                    c._yield(ts, ("acquire-timed",), voluntary=True, wake=c.now + timeout)
                    if self._owner is None and not self._anon:
                        self._take(ts)
                        return True
                    return False
                c._yield(ts, ("acquire",), pred=lambda: self._owner is None and not self._anon)
                self._take(ts)
                return True

            def _take(self, ts):
                if ts is None:
                    self._anon = True
                else:
                    self._owner = ts

            def release(self) -> None:
                if self._owner is None and not self._anon:
                    raise RuntimeError("release unlocked lock")
                self._owner, self._anon = None, False

            def locked(self) -> bool:
                return self._owner is not None or self._anon

            def __enter__(self):
                self.acquire()
                return self

            def __exit__(self, *a):
                self.release()

        class RLock(Lock):
            def __init__(self):
                super().__init__()
                self._count = 0

            def acquire(self, blocking: bool = True, timeout: float = -1) -> bool:
                ts = c.current()
                if self._owner is not None and self._owner is ts:
                    self._count += 1
                    return True
                ok = super().acquire(blocking, timeout)
                if ok:
                    self._count = 1
                return ok

            def release(self) -> None:
                self._count -= 1
                if self._count <= 0:
                    super().release()

        class Event:
            def __init__(self):
                self._flag = False

            def is_set(self) -> bool:
                return self._flag

            isSet = is_set

            def set(self) -> None:
                self._flag = True

            def clear(self) -> None:
                self._flag = False

            def wait(self, timeout: Optional[float] = None) -> bool:
                ts = c.current()
                if ts is None or self._flag:
                    return self._flag
                if timeout is None:
                    c._yield(ts, ("event-wait",), pred=lambda: self._flag)
                    return True
                t_call = c.now
                c._yield(ts, ("event-wait-timed", sys._getframe(1).f_code.co_name), voluntary=True)
                if self._flag:
                    return True
                c.now = max(c.now, t_call + max(0.0, float(timeout)))
                return False

        class Thread:
            def __init__(self, group=None, target=None, name=None, args=(), kwargs=None, *, daemon=None):
                self._target, self._args, self._kwargs = target, args, kwargs or {}
                self.name = name or "Thread"
                self.daemon = bool(daemon)
                self._ts: Optional[_TS] = None

            def run(self):
                if self._target is not None:
                    self._target(*self._args, **self._kwargs)

            def start(self) -> None:
                if self._ts is not None:
                    raise RuntimeError("threads can only be started once")
                role = getattr(self._target, "__name__", None) or type(self).__name__
                self._ts = c._spawn(self.run, role, shim=self)

            def is_alive(self) -> bool:
                return self._ts is not None and self._ts.status != "finished"

            @property
            def ident(self) -> Optional[int]:
                return self._ts.real.ident if self._ts is not None and self._ts.real is not None else None

            native_id = ident

            def join(self, timeout: Optional[float] = None) -> None:
                if self._ts is None:
                    raise RuntimeError("cannot join thread before it is started")
                ts = c.current()
                if ts is self._ts:
                    raise RuntimeError("cannot join current thread")
                if self._ts.status == "finished":
                    return
                if ts is None:
                    raise ControllerError("uncontrolled thread would block joining a controlled thread")
                tgt = self._ts
                caller = sys._getframe(1).f_code.co_name
                if timeout is None:
                    c._yield(ts, ("join", tgt.name, caller), pred=lambda: tgt.status == "finished")
                else:
                    c._yield(ts, ("join-timed", tgt.name, caller), voluntary=True,
                             wake=c.now + max(0.0, timeout))

        self.Lock, self.RLock, self.Event, self.Thread = Lock, RLock, Event, Thread

    def get_ident(self) -> int:
        return _rt.get_ident()

    def current_thread(self):
        ts = self._ctl.current()
        if ts is not None and ts.shim is not None:
            return ts.shim
        return _rt.current_thread()

    def main_thread(self):
        return _rt.main_thread()

    def __getattr__(self, name):
        # anything not shimmed must not be used silently by the module under test
        raise ControllerError(f"threading.{name} is not shimmed by the thread controller")


# ----------------------------------------------------------------------------------------- search
def explore(execute: Callable[[list[str]], Result], bound: int, max_runs: int,
            free_bound: int = 2, max_branch_step: Optional[int] = None) -> Iterator[tuple[list[str], Result]]:
    """
    Enumerate schedules with at most `bound` pre-emptions (switching away from a thread that could
    have continued) and at most `free_bound` non-default free switches.  `execute(prefix)` must run
    a *fresh* instance of the scenario with ReplayChooser(prefix) and return its Result.
    Breadth-first over the number of deviations, so a cap on `max_runs` keeps all schedules with
    fewer deviations.  Each schedule class (prefix + default continuation) is executed once.
    """
    queue: deque[list[str]] = deque([[]])
    runs = 0
    while queue and runs < max_runs:
        prefix = queue.popleft()
        res = execute(prefix)
        runs += 1
        yield prefix, res
        if res.diverged is not None:
            continue
        used = free = 0
        for i, st in enumerate(res.steps):
            if i >= len(prefix) and (max_branch_step is None or i < max_branch_step):
                for alt in st.enabled:
                    if alt == st.thread:
                        continue
                    c = 1 if (st.last_preemptible and alt != st.last) else 0
                    f = 1 if (c == 0 and alt != st.default) else 0
                    if used + c <= bound and free + f <= free_bound:
                        queue.append([s.thread for s in res.steps[:i]] + [alt])
            used += st.cost
            free += st.free_dev
