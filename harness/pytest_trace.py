"""
pytest plugin (loaded with `-p harness.pytest_trace`, nothing is added to /repo): records every
Scheduler.run / extend_run of the repository's own test-suite as a contract trace (DESIGN 2.3g).

The seams are the same stable ones the controlled loop uses, but the executors are the real ones
(thread / process pools, mocks), so events arrive from several threads: every event takes a global lock
and a sequence number at the call (submit on the scheduler thread, finish when the executor thread calls
done_job / reject_job, i.e. *before* the scheduler releases the units -- the recomputed `held` is
therefore never larger than what the scheduler accounts, which keeps the limits clauses sound).
Traces are appended as JSON lines to $VERIF_TRACE_OUT; anything unusual makes the trace carry a "skip"
reason instead of being judged.
"""

from __future__ import annotations

import json
import os
import threading

_lock = threading.Lock()
_out = os.environ.get("VERIF_TRACE_OUT")
_state = {"n": 0}


def _emit(rec: dict) -> None:
    if not _out:
        return
    with _lock:
        with open(_out, "a") as f:
            f.write(json.dumps(rec, default=str) + "\n")


class _Rec:
    def __init__(self, scheduler, mode: str):
        self.s = scheduler
        self.mode = mode
        self.events: list = []
        self.submitted: set = set()
        self.skip = None
        self.lock = threading.Lock()

    def log(self, ev: dict) -> None:
        with self.lock:
            self.events.append(ev)


def _instrument(scheduler, rec: "_Rec") -> list:
    """Shadow bound methods on the instances; returns undo closures."""
    undo = []

    def shadow(obj, name, make):
        had = name in obj.__dict__
        old = obj.__dict__.get(name)
        orig = getattr(obj, name)
        obj.__dict__[name] = make(orig)

        def restore():
            if had:
                obj.__dict__[name] = old
            else:
                obj.__dict__.pop(name, None)

        undo.append(restore)

    for ex in list(scheduler.executors.values()):
        for meth in ("submit", "submit_script"):
            if not hasattr(ex, meth):
                continue

            def make(orig, ex=ex):
                def wrapped(job, *a, **kw):
                    try:
                        units = {k: int(v) for k, v in dict(job.get_limits()).items() if v}
                        rec.log({"ev": "submit", "job": job.id, "task_hash": job.task.hash,
                                 "args_hash": job.args_hash, "ctx": job.context_hash or "", "units": units,
                                 "scope": str(job.get_option("cache_scope", "BACKEND")),
                                 "prov": bool(job.recording_provenance())})
                        rec.submitted.add(job.id)
                    except Exception as e:  # noqa
                        rec.skip = f"submit seam: {type(e).__name__}: {e}"
                    return orig(job, *a, **kw)

                return wrapped

            try:
                shadow(ex, meth, make)
            except Exception as e:  # noqa  (mock executors may refuse attribute assignment)
                rec.skip = f"executor not instrumentable: {type(e).__name__}"

    def make_finish(ok):
        def make(orig):
            def wrapped(job, *a, **kw):
                try:
                    if job is not None and getattr(job, "id", None) in rec.submitted:
                        rec.submitted.discard(job.id)
                        rec.log({"ev": "finish", "job": job.id, "ok": ok})
                except Exception as e:  # noqa
                    rec.skip = f"finish seam: {type(e).__name__}: {e}"
                return orig(job, *a, **kw)

            return wrapped

        return make

    shadow(scheduler, "done_job", make_finish(True))
    shadow(scheduler, "reject_job", make_finish(False))
    return undo


def _wrap_run(cls, name):
    orig = getattr(cls, name)

    def run(self, *a, **kw):
        if getattr(self, "_verif_recording", False):
            return orig(self, *a, **kw)
        self._verif_recording = True
        rec = _Rec(self, "dry" if kw.get("dryrun") else "real")
        undo = []
        try:
            undo = _instrument(self, rec)
        except Exception as e:  # noqa
            rec.skip = f"instrumentation failed: {type(e).__name__}: {e}"
        outcome = "value"
        try:
            used0 = {k: int(v) for k, v in dict(self.limits_used).items()}
        except Exception:
            used0 = {}
        try:
            return orig(self, *a, **kw)
        except BaseException as e:  # noqa
            outcome = "error:" + type(e).__name__
            raise
        finally:
            for u in reversed(undo):
                try:
                    u()
                except Exception:
                    pass
            self._verif_recording = False
            try:
                used = {k: int(v) for k, v in dict(self.limits_used).items()}
                limits = {k: int(v) for k, v in dict(self.limits).items()}
            except Exception:
                used, limits = {}, {}
                rec.skip = rec.skip or "limits not readable"
            _state["n"] += 1
            _emit({"n": _state["n"], "test": os.environ.get("PYTEST_CURRENT_TEST", ""), "entry": name,
                   "mode": rec.mode, "limits": limits, "used_at_start": used0, "used_at_end": used, "outcome": outcome,
                   "events": rec.events, "skip": rec.skip})

    setattr(cls, name, run)


def pytest_configure(config):
    if not _out:
        return
    import redun.scheduler as rs

    if not getattr(rs.Scheduler, "_verif_wrapped", False):
        _wrap_run(rs.Scheduler, "run")
        _wrap_run(rs.Scheduler, "extend_run")
        rs.Scheduler._verif_wrapped = True
