"""
Shared driver of C22 and C03: Backend.tla model checking, scenario selection, batched trace
validation by TLC (Backend_Trace.tla) and the verdict rules.

Verdict rules (CONTRIBUTING, DESIGN 2.5): a VIOLATION is raised only when one of the property's
predicates, evaluated by TLC on the *logged* data of a real run (record CON of Backend_Trace), is
false.  The key of a failure is the call site of the named deviation of Backend.tla that explains
it -- available only if the as-built model accepted (ACC) this run and every earlier run of its
history and took that deviation there; anything else is an unkeyed violation.  A run the as-built
model does not accept while the predicates hold is *drift* (evidence only).
"""

from __future__ import annotations

import json
from pathlib import Path
from typing import Any, Optional

from . import dbfault as F
from .core import Ctx, MachineryError
from .tlc import expect_clean, expect_violation, run_tlc

FIXES = ("FixSubtree", "FixCompanion", "FixPop", "FixNodeExit", "FixNested")
PINNED = "00000"    # redun as pinned: all five deviations
CURRENT = "11100"   # redun as it is now: a1120b6 (FixSubtree), e1d77f2 (FixCompanion), e2306bb (FixPop) are
                    # in /repo; NodeExistsEarlyExit and NestedRetryDropsOuterRows are open findings
FALLBACKS = ("00000", "10000", "01000", "00100", "00010", "00001", "11111")  # older / further repaired trees
WEAK = ("TypeOK", "GhostMerkle", "WeakFK", "WeakFresh", "WeakSurvives", "WeakComplete", "WeakC03",
        "StaleOnlyShallow", "FKDevOnlyAfterDev")

# deviation of Backend.tla -> (stable key = call site, text)
DEV_KEY = {
    "PopBeforeCommit": "job-start-pop-before-commit",
    "TaskRowLost": "task-row-lost",
    "NodeExistsEarlyExit": "callnode-early-exit-loses-rows",
    "NestedRetryDropsOuterRows": "nested-retry-drops-outer-rows",
    "ShallowAcceptsMissingSubtree": "stale-shallow-hit-missing-subtree-rows",
}
# which deviations can explain which failed predicate (the Weak* invariants of Backend.tla)
EXPLAINS = {
    "survives": ["PopBeforeCommit", "TaskRowLost", "NestedRetryDropsOuterRows"],
    "complete": ["NodeExistsEarlyExit", "TaskRowLost", "NestedRetryDropsOuterRows"],
    "fk": ["TaskRowLost", "NestedRetryDropsOuterRows"],
    "fresh": ["ShallowAcceptsMissingSubtree", "TaskRowLost", "NestedRetryDropsOuterRows"],
    "c03": ["ShallowAcceptsMissingSubtree"],
}


def cfg_text(fixes: str, npoints: dict, with_import: bool, spec: str = "Spec", maxruns: int = 3,
             invariants=(), view: bool = True) -> str:
    """npoints: workload variant (0 chain, 1 prov=False below the parent) -> points of its fault-free
    recording run; the variants present are the ones model-checked."""
    t = f"SPECIFICATION {spec}\nCONSTANTS\n"
    for n, c in zip(FIXES, fixes):
        t += f" {n} = {'TRUE' if c == '1' else 'FALSE'}\n"
    variants = ", ".join("TRUE" if v else "FALSE" for v in sorted(npoints))
    t += (f" MaxRuns = {maxruns}\n NPoints = {npoints.get(0, 1)}\n NPointsNP = {npoints.get(1, 1)}\n"
          f" Variants = {{{variants}}}\n WithImport = {'TRUE' if with_import else 'FALSE'}\n"
          "CHECK_DEADLOCK FALSE\n")
    if view:
        t += "VIEW View\n"
    for i in invariants:
        t += f"INVARIANT {i}\n"
    return t


# ------------------------------------------------------------------------------------------------
# model checking
# ------------------------------------------------------------------------------------------------
def _norm_db(db: dict, nseq: list) -> str:
    d = {k: sorted(json.dumps(r) for r in v) for k, v in db.items() if k != "Node"}
    d["NodeSeq"] = [json.dumps(n) for n in nseq]
    return json.dumps(d, sort_keys=True)


def _inj_key(inj: dict) -> tuple:
    return (inj["kind"], inj["at"], inj["site"])


def model_check(ctx: Ctx, npoints: dict, with_import: bool, strict_parts: list[str]) -> dict:
    """Model of redun as it is now (CURRENT): weak invariants hold and the IDLE table is emitted; the
    strict contract fails on the model of redun as pinned (control); thorough: the repaired model
    satisfies the strict contract and every single repair is necessary.  Both workload variants are
    checked in the same TLC runs.  Returns the IDLE table {(variant, inj, hist): [allowed idle states]}."""
    res = run_tlc("cache/Backend_Gen.tla",
                  cfg_text(CURRENT, npoints, with_import, invariants=list(WEAK) + ["Emit"]),
                  ctx.scratch, workers=ctx.pick(8, "auto"), timeout=1500, heap="2g")
    expect_clean(res, "Backend.tla as built: every failure goes through a named deviation")
    ctx.add_tlc(res)
    ctx.note("model_states_as_built", res.distinct)
    ctx.note("model_config", "workloads P->C->G (shallow P): chain, and child+grandchild prov=False (record_call_node "
                             "records the subtree tasks itself, any iteration order of the task set); 2 versions per "
                             f"task, MaxRuns=3, points of the fault-free recording run per variant={npoints}, "
                             f"WithImport={with_import}, injections: none | fault at any point | crash "
                             f"before/after any commit; repair switches {CURRENT} (Subtree, Companion, Pop, NodeExit, "
                             "Nested: redun as it is now), controls on 00000 (redun as pinned)")
    table: dict = {}
    for r in res.recs("IDLE"):
        k = (1 if r["noprov"] else 0, _inj_key(r["inj"]), json.dumps(r["hist"]))
        table.setdefault(k, []).append(r)
    ctx.require(len(table) > 100, f"too few idle states emitted by Backend_Gen: {len(table)}")
    # control: the strict contract is violated by the as-built model, part by part
    for part in (["Strict"] if ctx.quick else strict_parts):
        r2 = run_tlc("cache/Backend.tla", cfg_text(PINNED, npoints, with_import, invariants=[part]),
                     ctx.scratch, workers=4, timeout=900, heap="1g")
        expect_violation(r2, part, f"as-built model must violate {part}")
        ctx.add_tlc(r2)
    if ctx.quick:
        return table
    # all repairs: strict contract holds
    r3 = run_tlc("cache/Backend.tla",
                 cfg_text("11111", npoints, with_import, invariants=["TypeOK", "GhostMerkle", "Strict"]),
                 ctx.scratch, workers=ctx.pick(8, "auto"), timeout=1500, heap="2g")
    expect_clean(r3, "Backend.tla with all five repairs: strict contract")
    ctx.add_tlc(r3)
    ctx.note("model_states_repaired", r3.distinct)
    if True:
        needed = {}
        for i, name in enumerate(FIXES):
            fx = "".join("0" if j == i else "1" for j in range(5))
            r4 = run_tlc("cache/Backend.tla", cfg_text(fx, npoints, with_import, invariants=["Strict"]),
                         ctx.scratch, workers=4, timeout=900, heap="1g")
            expect_violation(r4, "Strict", f"repaired model without {name} must violate Strict")
            ctx.add_tlc(r4)
            needed[name] = True
        ctx.note("each_repair_necessary", needed)
    return table


# ------------------------------------------------------------------------------------------------
# scenarios
# ------------------------------------------------------------------------------------------------
def base_run(ctx: Ctx, var: int = 0) -> list[dict]:
    """The fault-free recording run of a workload variant; its flush / commit points define the scenarios."""
    ents = F.run_campaign(ctx.scratch, [{"id": 0, "var": var, "inj": None, "edits2": [], "edits3": []}], workers=1)
    rec = ents[0]["rec"]
    ctx.require(rec["outcome"] == ["ok", "r11"], f"fault-free workload did not return 12: {rec['outcome']} {rec.get('msg')}")
    ctx.require(len(rec["points"]) >= 10, "commit interposition saw fewer than 10 points")
    return rec["points"]


def make_jobs(ctx: Ctx, points: list[dict], with_import: bool, var: int = 0) -> list[dict]:
    """Scenarios of one workload variant; job ids are var * 1000 + n (n = 0: no injection)."""
    rng = ctx.rng
    commits = [i for i, p in enumerate(points, 1) if p["k"] == "commit"]
    flushes = [i for i, p in enumerate(points, 1) if p["k"] == "flush"]
    injs: list[Optional[dict]] = [None]
    if ctx.quick:
        # faults are cheap (in-process): every point.  Crashes are real process deaths: the first and
        # the last commit of every class (operation, tables written) before the commit, a seeded sample after it.
        for i in commits:
            injs.append({"kind": "fault", "at": i, "site": rng.choice(["commit", "cflush"])})
        cls: dict = {}
        for i in commits:
            cls.setdefault((points[i - 1]["op"], tuple(points[i - 1]["tabs"] or [])), []).append(i)
        before = sorted({c[0] for c in cls.values()} | {c[-1] for c in cls.values()})
        for i in before:
            injs.append({"kind": "crash", "at": i, "site": "before"})
        for i in sorted(rng.sample(commits, min(2, len(commits)))):
            injs.append({"kind": "crash", "at": i, "site": "after"})
        for i in flushes:
            injs.append({"kind": "fault", "at": i, "site": "flush"})
        e2, e3 = [0, 2, 3], [2]
    else:
        for i in commits:
            for site in ("commit", "cflush"):
                injs.append({"kind": "fault", "at": i, "site": site})
            for site in ("before", "after"):
                injs.append({"kind": "crash", "at": i, "site": site})
        for i in flushes:
            injs.append({"kind": "fault", "at": i, "site": "flush"})
        e2, e3 = [0, 1, 2, 3], [1, 2, 3]
    jobs = []
    imp_faults = set()
    if with_import:
        fl = [n for n, x in enumerate(injs) if x and x["kind"] == "fault"]
        imp_faults = set(fl if not ctx.quick else rng.sample(fl, min(8, len(fl))))
    for n, inj in enumerate(injs):
        jobs.append({"id": var * 1000 + n, "var": var, "inj": inj, "edits2": e2, "edits3": e3,
                     "with_import": with_import and (inj is None or n in imp_faults)})
    return jobs


# ------------------------------------------------------------------------------------------------
# validation by TLC
# ------------------------------------------------------------------------------------------------
def entry_trace(e: dict) -> dict:
    if e["role"] == "import":
        return F.import_trace(e["imp"])
    return F.trace_record(e["rec"], e["role"])


def validate(ctx: Ctx, traces: list[dict], npoints: dict, fixes: str = CURRENT, what: str = "asbuilt"):
    """Batch of trace records -> per index {acc, devs, con | imp, rej}.  Identical records are
    validated once."""
    uniq: dict[str, int] = {}
    order: list[int] = []
    batch: list[dict] = []
    for t in traces:
        k = json.dumps(t, sort_keys=True)
        if k not in uniq:
            uniq[k] = len(batch)
            batch.append(t)
        order.append(uniq[k])
    f = ctx.tmp(f"traces_{what}.json")
    f.write_text(json.dumps(batch))
    res = run_tlc("cache/Backend_Trace.tla",
                  cfg_text(fixes, npoints, False, spec="TSpec", maxruns=9, view=False),
                  ctx.scratch, workers=ctx.pick(8, "auto"), env={"TRACE_FILE": str(f)}, timeout=1500,
                  heap="2g")
    if res.error or res.violated:
        raise MachineryError(f"TLC failed on trace validation ({what}): {res.error} {res.violated}\n{res.out[-2500:]}")
    ctx.add_tlc(res)
    acc = {a["tid"]: a["devs"] for a in res.recs("ACC")}
    con = {c["tid"]: c["con"] for c in res.recs("CON")}
    imp = {c["tid"]: c for c in res.recs("IMP")}
    rej: dict[int, list] = {}
    for x in res.recs("REJ"):
        rej.setdefault(x["tid"], []).append(x)
    out = []
    for b in order:
        tid = b + 1
        if tid in imp:
            out.append({"acc": bool(imp[tid]["ok"]), "devs": [], "con": {"fk": imp[tid]["fk"]}, "imp": True,
                        "rej": []})
            continue
        if tid not in con:
            raise MachineryError(f"no CON record for trace {tid} ({what})")
        out.append({"acc": tid in acc, "devs": sorted(acc.get(tid, [])), "con": con[tid],
                    "rej": sorted(rej.get(tid, []), key=lambda x: -x["np"])[:2]})
    return out, len(batch)


# ------------------------------------------------------------------------------------------------
# spec -> code: look every real idle state up in the model's IDLE table
# ------------------------------------------------------------------------------------------------
def idle_lookup(table: dict, entries: list[dict]) -> dict:
    """Every real history prefix must be one of the idle states the model allows there."""
    by = {}
    for e in entries:
        by[(e["scn"], json.dumps(e["hist"]))] = e
    stats = {"matched": 0, "unmatched": 0, "no_model_state": 0, "examples": []}
    for e in entries:
        inj = F.model_inj(e["inj"])
        k = (e.get("var", 0), _inj_key(inj), json.dumps(e["hist"]))
        cands = table.get(k)
        if cands is None:
            stats["no_model_state"] += 1
            continue
        if e["role"] == "import":
            post, outs = e["imp"]["post"], None
        else:
            post = e["rec"]["post"]
            outs = []
            for n in range(1, len(e["hist"]) + 1):
                pe = by.get((e["scn"], json.dumps(e["hist"][:n])))
                if pe is None or pe["role"] == "import":
                    continue
                outs.append(pe["rec"]["outcome"] + [pe["rec"].get("executed", [])])
        mine = _norm_db(F.tables_only(post), post["NodeSeq"])
        ok = False
        for c in cands:
            if _norm_db(c["db"], c["nseq"]) != mine:
                continue
            if outs is not None:
                mo = [[o[0], o[1], sorted(o[2])] for o in c["outs"]]
                ro = [[o[0], o[1], sorted(o[2])] for o in outs]
                if len(mo) != len(ro) or any(a[:2] != b[:2] or (a[0] != "crashed" and a[2] != b[2])
                                             for a, b in zip(mo, ro)):
                    continue
            ok = True
            break
        if ok:
            stats["matched"] += 1
        else:
            stats["unmatched"] += 1
            if len(stats["examples"]) < 3:
                stats["examples"].append({"var": e.get("var", 0), "inj": inj, "hist": e["hist"]})
    return stats


# ------------------------------------------------------------------------------------------------
# verdicts
# ------------------------------------------------------------------------------------------------
def describe(e: dict) -> str:
    inj = e["inj"]
    s = "no injection" if inj.get("kind", "none") == "none" else \
        f"{inj['kind']} at point {inj['at']} ({inj['site']})"
    steps = []
    for k, x in e["hist"][1:]:
        steps.append("import" if k == "import" else ("run" if not x else f"edit {F.LEVEL[x]}; run"))
    s = s + ("; then " + ", ".join(steps) if steps else "")
    return (f"[workload: {F.VAR_TEXT[e['var']]}] " if e.get("var") else "") + s


def judge(ctx: Ctx, entries: list[dict], verdicts: list[dict], flags: list[str], keymap: dict,
          points: dict) -> dict:
    """flags: the predicates this property owns.  keymap: deviation -> key for this property
    (may depend on the history through a callable)."""
    devs_of = {}
    acc_of = {}
    for e, v in zip(entries, verdicts):
        devs_of[(e["scn"], json.dumps(e["hist"]))] = set(v["devs"])
        acc_of[(e["scn"], json.dumps(e["hist"]))] = v["acc"]
    stats = {"runs": 0, "failed_runs": 0, "drift": 0, "by_key": {}}
    for e, v in zip(entries, verdicts):
        stats["runs"] += 1
        if not v["acc"]:
            stats["drift"] += 1
        if v.get("imp"):
            continue
        failed = [f for f in flags if v["con"].get(f) is False]
        if not v["con"].get("sem", True):
            raise MachineryError(f"Fresh() of Backend.tla disagrees with the real fresh run: {describe(e)}")
        if not failed:
            continue
        stats["failed_runs"] += 1
        D, all_acc = set(), True
        for n in range(1, len(e["hist"]) + 1):
            k = (e["scn"], json.dumps(e["hist"][:n]))
            D |= devs_of.get(k, set())
            all_acc = all_acc and acc_of.get(k, False)
        for f in failed:
            key = None
            if all_acc:
                for d in EXPLAINS[f]:
                    if d in D and d in keymap:
                        km = keymap[d]
                        key = km(e) if callable(km) else km
                        break
            rec = e["rec"]
            pt = None
            pts = points.get(e.get("var", 0), [])
            if e["inj"].get("kind", "none") != "none" and 0 < e["inj"]["at"] <= len(pts):
                pt = pts[e["inj"]["at"] - 1]
            what = (f"predicate '{f}' false after: {describe(e)}"
                    + (f" [point = {pt['k']} in {pt['op']} writing {pt.get('tabs') or pt.get('pend')}]" if pt else "")
                    + f" -- outcome {rec['outcome']} {rec.get('msg', '')[:120]!r}, fresh {rec['fresh']}, "
                      f"deviations {sorted(D)}, accepted by as-built model: {all_acc}")
            stats["by_key"][key or "(none)"] = stats["by_key"].get(key or "(none)", 0) + 1
            ctx.violation(what, {"inj": e["inj"], "hist": e["hist"], "var": e.get("var", 0), "flag": f,
                                 "outcome": rec["outcome"],
                                 "post": F.tables_only(rec["post"]), "fkcheck": rec["post"]["FKCheck"],
                                 "rej": v["rej"]}, key=key)
    return stats
