"""
Provenance lab (C20, C21): read the recorded call graph of one execution back from the database in
the vocabulary of spec/eval/Prov.tla, compute the integrity facts that need redun's concrete hash
functions, and ask TLC (Prov_Oracle) whether the record is the one the semantics prescribes.
"""

from __future__ import annotations

import inspect
import json
import os
import uuid
from typing import Any, Optional

from . import evallab as EL, simloop
from .core import Ctx, MachineryError
from .tlc import run_tlc


def _val(backend, value_hash) -> dict:
    v, ok = backend.get_value(value_hash)
    if not ok:
        return {"t": "missing", "v": value_hash[:8]}
    from redun.scheduler import ErrorValue

    if isinstance(v, ErrorValue):
        return EL.raised(v.error)
    return EL.to_value(v)


def read_graph(backend, execution_id: str) -> tuple[list, dict]:
    """Returns (nodes in Prov_Oracle's input format, integrity flags)."""
    from redun.backends.db import Argument, ArgumentResult, CallEdge, CallNode, Execution, Job, Value
    from redun.hashing import hash_call_node
    from redun.value import get_type_registry

    from . import evallib as L

    s = backend.session
    jobs = s.query(Job).filter(Job.execution_id == execution_id).all()
    call_hashes = {j.call_hash for j in jobs if j.call_hash}
    # close under child edges (cached subtrees are part of the record too)
    frontier = set(call_hashes)
    while frontier:
        kids = {e.child_id for e in s.query(CallEdge).filter(CallEdge.parent_id.in_(frontier))}
        frontier = kids - call_hashes
        call_hashes |= kids
    nodes_by_hash = {n.call_hash: n for n in s.query(CallNode).filter(CallNode.call_hash.in_(call_hashes))}

    def params_of(task_name: str) -> list[str]:
        t = getattr(L, task_name.split(".")[-1])
        return [p for p in inspect.signature(t.func).parameters if p != "info"]

    def argvals_of(node) -> Optional[list]:
        args = s.query(Argument).filter(Argument.call_hash == node.call_hash).all()
        by_key: dict = {}
        for a in args:
            by_key[str(a.arg_position) if a.arg_position is not None else a.arg_key] = a
        out = []
        for i, p in enumerate(params_of(node.task_name)):
            a = by_key.get(str(i)) or by_key.get(p)
            if a is None:
                return None
            out.append(_val(backend, a.value_hash))
        return out

    def term(h: str) -> dict:
        n = nodes_by_hash.get(h) or s.query(CallNode).filter(CallNode.call_hash == h).one_or_none()
        if n is None:
            return {"t": "?" + h[:8], "argvals": [], "r": {"t": "none", "v": 0}}
        av = argvals_of(n)
        return {"t": n.task_name.split(".")[-1], "argvals": av if av is not None else [],
                "r": _val(backend, n.value_hash)}

    flags = {"merkle": 1, "values": 1, "jobs": 1, "root": 1, "edges": 1}
    out = []
    registry = get_type_registry()
    for h, n in nodes_by_hash.items():
        edges = s.query(CallEdge).filter(CallEdge.parent_id == h).order_by(CallEdge.call_order).all()
        child_hashes = [e.child_id for e in edges]
        if hash_call_node(n.task_hash, n.args_hash, n.value_hash, child_hashes) != h:
            # the hash sorts children itself; also accept the recorded order
            flags["merkle"] = 0
        if n.task_name == "redun.root_task":
            continue
        if not n.task_name.startswith("vlib."):
            continue
        args = []
        for a in s.query(Argument).filter(Argument.call_hash == h).all():
            ups = [term(r.result_call_hash) for r in
                   s.query(ArgumentResult).filter(ArgumentResult.arg_hash == a.arg_hash)]
            key = str(a.arg_position) if a.arg_position is not None else a.arg_key
            if key == "info":
                continue
            args.append({"key": key, "val": _val(backend, a.value_hash), "ups": ups})
        t = term(h)
        t.update({"kids": [term(c) for c in child_hashes if (nodes_by_hash.get(c) is None
                                                              or nodes_by_hash[c].task_name.startswith("vlib."))],
                  "args": args})
        out.append(t)
    # every value row reachable from the record deserialises to a value whose hash is its key
    vhashes = {n.value_hash for n in nodes_by_hash.values()}
    for a in s.query(Argument).filter(Argument.call_hash.in_(call_hashes)):
        vhashes.add(a.value_hash)
    for row in s.query(Value).filter(Value.value_hash.in_(vhashes)):
        v, ok = backend.get_value(row.value_hash)
        if not ok or registry.get_hash(v) != row.value_hash:
            flags["values"] = 0
    # job rows: parent links inside the execution, call hash recorded, root job of the execution
    ids = {j.id for j in jobs}
    ex = s.query(Execution).filter(Execution.id == execution_id).one_or_none()
    roots = [j for j in jobs if j.parent_id is None]
    if ex is None or len(roots) != 1 or ex.job_id != roots[0].id:
        flags["root"] = 0
    # the edges of the node a job recorded are exactly the call hashes of its child jobs, with multiplicity (a
    # duplicate call collapsed onto its twin is still a child of its parent)
    from collections import Counter

    flags["edges"] = 1
    kids_of: dict = {}
    for j in jobs:
        if j.parent_id is not None and j.call_hash:
            kids_of.setdefault(j.parent_id, []).append(j.call_hash)
    for j in jobs:
        if j.cached or not j.call_hash or j.end_time is None:
            continue
        rec = [e.child_id for e in s.query(CallEdge).filter(CallEdge.parent_id == j.call_hash)]
        if Counter(rec) != Counter(kids_of.get(j.id, [])):
            flags["edges"] = 0
    for j in jobs:
        if j.parent_id is not None and j.parent_id not in ids:
            flags["jobs"] = 0
        if j.end_time is not None and j.call_hash is not None and j.call_hash not in nodes_by_hash:
            flags["jobs"] = 0
    return out, flags


def run_and_read(ctx: Ctx, e: dict, tag: str, rng, thaw: bool = False) -> tuple[dict, list, dict, dict]:
    """Run program e under the controlled loop on a fresh database; returns (outcome, nodes, flags, tree).
    thaw: the expression is serialised and read back first (as a result expression served from the cache is);
    the recorded dataflow must not depend on that."""
    db = simloop.clone_db(ctx.scratch, f"prov_{tag}.db")
    bk = simloop.open_backend(db)
    try:
        s, d = simloop.make_scheduler(bk, limits={}, chooser=simloop.RandomChooser(rng, 0.5),
                                      executors=("default", "process"))
        eid = str(uuid.uuid4())
        expr = EL.build(e)
        if thaw:
            from redun.utils import pickle_dumps, pickle_loads

            expr = pickle_loads(pickle_dumps(expr))
        out = simloop.run_controlled(s, d, expr, execution_id=eid)
        nodes, flags = read_graph(bk, eid)
        # job tree as observed at the seams (creation paths) vs Job rows
        tree = {"njobs_created": d.njobs}
        from redun.backends.db import Job

        tree["njob_rows"] = bk.session.query(Job).filter(Job.execution_id == eid).count()
    finally:
        simloop.close_backend(bk)
        try:
            os.unlink(db)
        except OSError:
            pass
    return EL.outcome_of(out), nodes, flags, tree


def judge(ctx: Ctx, cases: list[dict], what: str, dev_map: bool, dev_default: bool) -> dict:
    f = ctx.tmp(f"prov_{what}.json")
    f.write_text(json.dumps(cases))
    cfg = ("SPECIFICATION Spec\nCONSTANT DevMapUpstream = %s\nCONSTANT DevDefaultUpstream = %s\n"
           "CHECK_DEADLOCK FALSE\n" % ("TRUE" if dev_map else "FALSE", "TRUE" if dev_default else "FALSE"))
    res = run_tlc("eval/Prov_Oracle.tla", cfg, ctx.scratch, workers=1, env={"CASES_FILE": str(f)},
                  timeout=1800, heap="6g")
    if res.error:
        raise MachineryError(f"Prov_Oracle failed ({what}): {res.error}\n{res.out[-2500:]}")
    ctx.add_tlc(res)
    diffs = {r[0]: (r[1], r[2]) for r in res.recs("DIFF")}
    out = {}
    for cid, g, a, fl, n in res.recs("VERDICT"):
        out[cid] = {"graph": bool(g), "args": bool(a), "flags": bool(fl), "n": n, "diff": diffs.get(cid)}
    if len(out) != len(cases):
        raise MachineryError(f"Prov_Oracle returned {len(out)} verdicts for {len(cases)} cases\n{res.out[-1500:]}")
    return out


# programs for provenance: deterministic, value-returning (errors only inside catch), no dicts
def prov_expr(rng, depth: int) -> dict:
    V, call = EL.V, EL.call
    if depth <= 0 or rng.random() < 0.15:
        return V(rng.randint(0, 4))
    sub = lambda: prov_expr(rng, depth - 1)  # noqa: E731
    r = rng.random()
    if r < 0.30:
        t = rng.choice(["inc", "twice", "ident", "neg", "withdef", "chooser", "deep", "safe", "mid_sum"])
        if t == "deep":
            return call("deep", V(rng.randint(0, 2)))
        if t == "mid_sum":
            return call("sumall", call("mid", sub()))
        return call(t, sub())
    if r < 0.42:
        return {"k": "op", "op": rng.choice(["add", "sub", "mul"]), "args": [sub(), sub()]}
    if r < 0.52:
        return call("add", sub(), sub())
    if r < 0.60:
        return {"k": "cond", "clauses": [[{"k": "op", "op": "lt", "args": [sub(), V(3)]}, sub()]], "else": sub()}
    if r < 0.68:
        return {"k": "catch", "body": call(rng.choice(["boom", "kboom", "inc"]), sub()),
                "handlers": [[["ValueError", "KeyError"], "recover"]]}
    if r < 0.78:
        return call("sumall", {"k": "map", "t": rng.choice(["inc", "twice"]),
                               "xs": {"k": "list", "items": [sub() for _ in range(rng.randint(1, 3))]}})
    if r < 0.85:
        return call("sumall", {"k": "seq", "items": [sub() for _ in range(rng.randint(1, 3))]})
    if r < 0.91:
        return call("kw", sub(), kw=[[rng.choice(["b", "c"]), sub()]])
    if r < 0.95:
        return {"k": "callp", "p": {"k": "partial", "t": "add", "args": [sub()]}, "args": [sub()]}
    return call("sumall", {"k": "list", "items": [sub(), sub()]})


def dup_call_program(rng) -> dict:
    """The same call reached through different expressions (different jobs, one call node): constant
    argument vs computed argument, possibly under different parents; the duplicated task has children."""
    V, call = EL.V, EL.call
    k = rng.randint(1, 3)
    t = rng.choice(["twice", "mid", "chooser", "deep"])
    a = call(t, V(k))
    b = call(t, call("inc", V(k - 1)))
    c = call(t, {"k": "op", "op": "add", "args": [V(k - 1), V(1)]})
    wrap = lambda e: call("sumall", e) if t == "mid" else e  # noqa: E731
    items = [wrap(x) for x in rng.sample([a, b, c], rng.randint(2, 3))]
    if rng.random() < 0.5:
        items[-1] = call("ident", items[-1])      # one occurrence under another parent
    return call("sumall", {"k": "list", "items": items})
