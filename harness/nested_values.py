"""
Shared helper of the C19 / C16 checks: the bridge between the tagged value trees of
spec/common/Values.tla and real Python objects.

  tree (JSON as written by TLC's ToJson / read by FromJ)      Python object
  ----------------------------------------------------      -------------------------------
  {"k":"leaf","t":i,"x":[],"y":[]}                           a scalar chosen by a leaf *family*
  {"k":"oleaf","t":i,"y":[cls]}                              instance of a container SUBCLASS
  {"k":"fset","x":[...]}                                     frozenset
  {"k":"list"|"tuple"|"set","x":[...]}                       exactly that builtin type
  {"k":"nt","t":n,"x":[...]}                                 generated namedtuple type NT<n>
  {"k":"dict","x":keys,"y":values}                           dict (insertion order = list order)
  {"k":"dc","t":flavour,"x":init,"y":noninit}                generated dataclass type
                                                             (1 plain, 2 frozen, 3 slots)
  {"k":"error"}                                              the call raised

`build` goes left to right, `abstract` right to left (by exact-type inspection that does not
use redun).  Types live at module level so that pickle (redun's value hashing / serialisation)
can name them.  Also contains the child-interpreter entry point used by C16
(`python -m harness.nested_values hashchild in.json out.json`).
"""

from __future__ import annotations

import collections
import dataclasses
import json
import sys
from typing import Any, Callable, NamedTuple

# --------------------------------------------------------------------------------------------
# generated container types
# --------------------------------------------------------------------------------------------
MAX_ARITY = 5
MAX_NONINIT = 2

NT: dict[int, type] = {}
for _n in range(1, MAX_ARITY + 1):
    _t = collections.namedtuple(f"NT{_n}", [f"f{i}" for i in range(_n)])
    _t.__module__ = __name__
    globals()[f"NT{_n}"] = _t
    NT[_n] = _t


class NTTyped(NamedTuple):  # typing.NamedTuple flavour with a default; arity 2, used by C19 extras
    a: Any
    b: Any = None


DC_PLAIN, DC_FROZEN, DC_SLOTS = 1, 2, 3
_FLAVOUR = {DC_PLAIN: ("P", {}), DC_FROZEN: ("F", {"frozen": True}), DC_SLOTS: ("S", {"slots": True})}
DC: dict[tuple[int, int, int], type] = {}
for _fl, (_pre, _kw) in _FLAVOUR.items():
    for _ni in range(0, MAX_ARITY + 1):
        for _nn in range(0, MAX_NONINIT + 1):
            _name = f"DC{_pre}{_ni}_{_nn}"
            _fields = [(f"i{j}", Any) for j in range(_ni)] + [
                (f"n{j}", Any, dataclasses.field(init=False, default=None)) for j in range(_nn)
            ]
            _c = dataclasses.make_dataclass(_name, _fields, module=__name__, **_kw)
            globals()[_name] = _c
            DC[(_fl, _ni, _nn)] = _c


class MyList(list):
    pass


class MyDict(dict):
    pass


class MySet(set):
    pass


class MyTuple(tuple):  # no _fields: not a namedtuple
    pass


OCLS = {1: "sublist", 2: "subdict", 3: "subset", 4: "subtuple", 5: "defaultdict", 6: "deque"}


def make_oleaf(cls: int, payload: Any) -> Any:
    if cls == 1:
        return MyList([payload])
    if cls == 2:
        return MyDict({"p": payload})
    if cls == 3:
        return MySet([payload])
    if cls == 4:
        return MyTuple((payload,))
    if cls == 5:
        d = collections.defaultdict(int)
        d["p"] = payload
        return d
    if cls == 6:
        return collections.deque([payload])
    raise AssertionError(cls)


def oleaf_parts(obj: Any):
    """(cls, payload) of an opaque leaf object, or None."""
    t = type(obj)
    if t is MyList:
        return 1, obj[0]
    if t is MyDict:
        return 2, obj["p"]
    if t is MySet:
        return 3, next(iter(obj))
    if t is MyTuple:
        return 4, obj[0]
    if t is collections.defaultdict:
        return 5, obj["p"]
    if t is collections.deque:
        return 6, obj[0]
    return None


# --------------------------------------------------------------------------------------------
# leaf families: leaf id <-> Python scalar
# --------------------------------------------------------------------------------------------
class Opaque:
    """A user object (pickled by reference to its class): an 'arbitrary leaf'."""

    def __init__(self, i):
        self.i = i

    def __eq__(self, other):
        return type(other) is Opaque and other.i == self.i

    def __hash__(self):
        return hash(("Opaque", self.i))

    def __repr__(self):
        return f"Opaque({self.i})"


def _misc(i: int) -> Any:
    if i == 1:
        return None
    r = i % 5
    if r == 0:
        return float(i) + 0.5
    if r == 1:
        return b"b%d" % i
    if r == 2:
        return f"m{i}"
    if r == 3:
        return complex(i, 1)
    return Opaque(i)


FAMILIES: dict[str, Callable[[int], Any]] = {
    "int": lambda i: 1000 + i,
    "str": lambda i: f"v{i}",
    "misc": _misc,
    # C16: ids < 100 are the ints themselves, 100.. strings, 200.. other scalars
    "hash": lambda i: _hash_leaf(i),
}

_HASH_OTHER = [None, True, 2.5, b"by", 1e100, False, -7, 10 ** 30]


def _hash_leaf(i: int) -> Any:
    if i < 100:
        return i
    if i < 200:
        j = i - 100
        return chr(97 + j) if j < 26 else f"s{j}"
    return _HASH_OTHER[(i - 200) % len(_HASH_OTHER)]


def unleaf(obj: Any, family: str) -> int:
    """Inverse of FAMILIES[family]; raises KeyError for an object that is no leaf of the family."""
    if family == "int":
        if type(obj) is int and obj >= 1000:
            return obj - 1000
    elif family == "str":
        if type(obj) is str and obj[:1] == "v":
            return int(obj[1:])
    elif family == "misc":
        if obj is None:
            return 1
        if type(obj) is float:
            return int(obj - 0.5)
        if type(obj) is bytes:
            return int(obj[1:])
        if type(obj) is str and obj[:1] == "m":
            return int(obj[1:])
        if type(obj) is complex:
            return int(obj.real)
        if type(obj) is Opaque:
            return obj.i
    elif family == "hash":
        if type(obj) is int:
            if 0 <= obj < 100:
                return obj
        if type(obj) is str:
            if len(obj) == 1 and 97 <= ord(obj) < 123:
                return 100 + ord(obj) - 97
            if obj[:1] == "s":
                return 100 + int(obj[1:])
        for j, o in enumerate(_HASH_OTHER):
            if type(o) is type(obj) and o == obj:
                return 200 + j
    raise KeyError(f"not a {family} leaf: {obj!r}")


# --------------------------------------------------------------------------------------------
# trees
# --------------------------------------------------------------------------------------------
def N(k: str, t: int = 0, x: list | None = None, y: list | None = None) -> dict:
    return {"k": k, "t": t, "x": x if x is not None else [], "y": y if y is not None else []}


ERR = N("error")
FOREIGN = -1
LEAFLIKE = ("leaf", "oleaf", "fset")


def relabel(f: Callable[[int], int], tree: dict) -> dict:
    """Values.tla Relabel (sets stay lists here; duplicates are merged by canon / build)."""
    k = tree["k"]
    if k in ("leaf", "oleaf"):
        return N(k, f(tree["t"]), [], list(tree["y"]))
    if k == "error":
        return tree
    if k in ("set", "fset"):
        return N(k, tree["t"], [relabel(f, c) for c in tree["x"]], [])
    return N(k, tree["t"], [relabel(f, c) for c in tree["x"]], [relabel(f, c) for c in tree["y"]])


def build(tree: dict, family: str, leaf_hook: Callable[[dict, Any], Any] | None = None) -> Any:
    """
    Real Python object of a tree.  `leaf_hook(node, obj)` may replace the object built for a
    leaf-like node (used to plant lazy expressions at the leaves).  Set elements are inserted in
    list order (matters for C16).
    """
    k = tree["k"]
    if k in LEAFLIKE:
        obj = _build_leaflike(tree, family)
        return leaf_hook(tree, obj) if leaf_hook else obj
    b = lambda c: build(c, family, leaf_hook)  # noqa: E731
    if k == "list":
        return [b(c) for c in tree["x"]]
    if k == "tuple":
        return tuple([b(c) for c in tree["x"]])
    if k == "nt":
        return NT[len(tree["x"])](*[b(c) for c in tree["x"]])
    if k == "set":
        s = set()
        for c in tree["x"]:
            s.add(b(c))
        return s
    if k == "dict":
        d = {}
        for kk, vv in zip(tree["x"], tree["y"]):
            key = b(kk)
            d[key] = b(vv)
        return d
    if k == "dc":
        cls = DC[(tree["t"], len(tree["x"]), len(tree["y"]))]
        obj = cls(*[b(c) for c in tree["x"]])
        for j, c in enumerate(tree["y"]):
            object.__setattr__(obj, f"n{j}", b(c))
        return obj
    raise AssertionError(k)


def _build_leaflike(tree: dict, family: str) -> Any:
    k = tree["k"]
    if k == "leaf":
        return FAMILIES[family](tree["t"])
    if k == "oleaf":
        return make_oleaf(tree["y"][0], FAMILIES[family](tree["t"]))
    if k == "fset":
        return frozenset([build(c, family) for c in tree["x"]])
    raise AssertionError(k)


def abstract(obj: Any, family: str, with_cls: bool = False) -> dict:
    """
    Tree of a Python object, by exact-type inspection (the harness's reading of the contract:
    exactly list / tuple / set / dict, namedtuples and dataclass instances are containers,
    everything else is a leaf).  set / frozenset children are listed in ITERATION order.
    """
    a = lambda o: abstract(o, family, with_cls)  # noqa: E731
    t = type(obj)
    if t is list:
        return N("list", 0, [a(o) for o in obj])
    if t is tuple:
        return N("tuple", 0, [a(o) for o in obj])
    if isinstance(obj, tuple) and hasattr(obj, "_fields"):
        n = N("nt", len(obj), [a(o) for o in obj])
        if with_cls:
            n["cls"] = t.__name__
        return n
    if t is set:
        return N("set", 0, [a(o) for o in obj])
    if t is frozenset:
        return N("fset", 0, [a(o) for o in obj])
    if t is dict:
        return N("dict", 0, [a(o) for o in obj.keys()], [a(o) for o in obj.values()])
    if dataclasses.is_dataclass(obj) and not isinstance(obj, type):
        params = t.__dataclass_params__
        flavour = DC_FROZEN if params.frozen else (DC_SLOTS if "__slots__" in t.__dict__ else DC_PLAIN)
        fs = dataclasses.fields(obj)
        n = N("dc", flavour, [a(getattr(obj, f.name)) for f in fs if f.init],
              [a(getattr(obj, f.name)) for f in fs if not f.init])
        if with_cls:
            n["cls"] = t.__name__
        return n
    try:
        op = oleaf_parts(obj)
        if op is not None:
            return N("oleaf", unleaf(op[1], family), [], [op[0]])
        return N("leaf", unleaf(obj, family))
    except (KeyError, ValueError, IndexError, TypeError):
        # an object that is no leaf of this family (e.g. an unevaluated Expression left in a result):
        # a leaf no model tree contains, so every comparison with an expectation fails
        n = N("leaf", FOREIGN)
        n["foreign"] = repr(obj)[:120]
        return n


def canon(tree: dict, ordered_dicts: bool = False, keynorm: bool = False) -> Any:
    """Hashable canonical form: set children as a sorted duplicate-free tuple, dict entries
    sorted unless ordered_dicts.  Set elements and dict keys are taken up to Python equality
    (Values.tla KeyNorm: a namedtuple / tuple subclass equals the plain tuple of its items)."""
    k = tree["k"]
    cls = "" if keynorm else tree.get("cls", "")
    if k in ("leaf", "error"):
        return (k, tree["t"])
    if k == "oleaf":
        if keynorm and tree["y"][0] == 4:
            return ("tuple", 0, "", (("leaf", tree["t"]),), ())
        return (k, tree["t"], tree["y"][0])
    if k in ("set", "fset"):
        cs = sorted({canon(c, ordered_dicts, True) for c in tree["x"]}, key=repr)
        return (k, tuple(cs))
    if k == "dict":
        pairs = [(canon(a, ordered_dicts, True), canon(b, ordered_dicts, keynorm))
                 for a, b in zip(tree["x"], tree["y"])]
        if not ordered_dicts:
            pairs = sorted(pairs, key=repr)
        return (k, tuple(pairs))
    if keynorm and k in ("tuple", "nt"):
        return ("tuple", 0, "", tuple(canon(c, ordered_dicts, True) for c in tree["x"]), ())
    return (k, tree["t"], cls, tuple(canon(c, ordered_dicts, keynorm) for c in tree["x"]),
            tuple(canon(c, ordered_dicts, keynorm) for c in tree["y"]))


def strip(tree: dict) -> dict:
    """Tree without harness-only keys (for TLC)."""
    k = tree["k"]
    if k in ("leaf", "oleaf", "error"):
        return N(k, tree["t"], [], list(tree["y"]))
    if k in ("set", "fset"):
        return N(k, tree["t"], [strip(c) for c in tree["x"]], [])
    return N(k, tree["t"], [strip(c) for c in tree["x"]], [strip(c) for c in tree["y"]])


# --------------------------------------------------------------------------------------------
# redun tasks used by C19's scheduler pass (a module file: redun hashes the task source)
# --------------------------------------------------------------------------------------------
def _define_tasks():
    from redun import task

    @task(namespace="verif_c19", name="leaf_value", cache=False)
    def leaf_value(family: str, node_json: str):
        """Returns the leaf-like object of an abstract node (the lazy expression at a leaf)."""
        return build(json.loads(node_json), family)

    @task(namespace="verif_c19", name="passthru", cache=False)
    def passthru(value):
        return value

    return leaf_value, passthru


_TASKS = None


def tasks():
    global _TASKS
    if _TASKS is None:
        _TASKS = _define_tasks()
    return _TASKS


# --------------------------------------------------------------------------------------------
# C16 child: hash values under this interpreter's hash seed
# --------------------------------------------------------------------------------------------
def _define_c16_tasks():
    from redun import task

    @task(namespace="verif_c16", name="wf_produce", cache=False)
    def wf_produce(tree_json: str):
        """A task whose RESULT is the value of an abstract tree ("hash" leaf family)."""
        return build(json.loads(tree_json), "hash")

    @task(namespace="verif_c16", name="wf_consume", cache=False)
    def wf_consume(value):
        """A task that RECEIVES the value as its argument (and hands it back)."""
        return value

    @task(namespace="verif_c16", name="wf_main", cache=False)
    def wf_main(tree_json: str):
        return wf_consume(wf_produce(tree_json))

    return wf_main


def _same_value(a: Any, b: Any) -> bool:
    try:
        return canon(abstract(a, "hash"), ordered_dicts=True) == canon(abstract(b, "hash"), ordered_dicts=True)
    except Exception:
        return False


def hashchild(inp: str, outp: str) -> None:
    """
    in:  {"jobs": [{id, ords: [tree in insertion order, ...]}], "wf": [{id, tree}]}
    out: {"jobs": [{id, obs: [[h, r, g, o, [ord, ...]], ...]}], "wf": [{id, h, o, result, arg, call}]}

    Per observation: h = TypeRegistry.get_hash(obj); r = the hash RedunBackendDb.record_value(obj)
    stored the object under; g = 1 iff backend.get_value(r) gives back an equal value; o = the tree
    as the object iterates in this interpreter.  Identical observations of one value are merged
    (an object that iterates and hashes like one already seen is not recorded a second time).
    "wf": a real Scheduler run  wf_consume(wf_produce(tree))  on the same backend; the hashes the
    value was recorded under as a task RESULT (CallNode.value_hash) and as a task ARGUMENT
    (Argument.value_hash), and the call hash of the producing job, are read back from the database.
    """
    import logging

    from redun.backends.db import Argument, CallNode, RedunBackendDb
    from redun.value import get_type_registry

    logging.getLogger("redun").setLevel(logging.ERROR)
    reg = get_type_registry()
    backend = RedunBackendDb(db_uri="sqlite:///:memory:")
    backend.load()
    spec = json.loads(open(inp).read())
    out = []
    for job in spec["jobs"]:
        uniq: dict = {}
        for oi, tree in enumerate(job["ords"]):
            obj = build(tree, "hash")
            try:
                h = reg.get_hash(obj)
            except Exception as e:  # a value redun cannot hash at all: recorded, never equal to a hash
                h = f"ERR:{type(e).__name__}"
            o = abstract(obj, "hash")
            key = (h, json.dumps(o, sort_keys=True))
            if key in uniq:
                uniq[key][4].append(oi)
                continue
            try:
                r = backend.record_value(obj)
            except Exception as e:
                r = f"ERR:{type(e).__name__}"
            g = 0
            if not r.startswith("ERR:"):
                try:
                    got, found = backend.get_value(r)
                    g = int(bool(found) and _same_value(got, obj))
                except Exception:
                    g = 0
            uniq[key] = [h, r, g, o, [oi]]
        out.append({"id": job["id"], "obs": list(uniq.values())})

    wf_out = []
    if spec.get("wf"):
        from redun import Scheduler

        wf_main = _define_c16_tasks()
        scheduler = Scheduler(backend=backend)
        scheduler.load()
        try:
            scheduler.logger.setLevel(logging.ERROR)
        except Exception:
            pass
        session = backend.session
        for item in spec["wf"]:
            before = {c for (c,) in session.query(CallNode.call_hash).all()}
            value = scheduler.run(wf_main(json.dumps(item["tree"], sort_keys=True)))
            nodes = [n for n in session.query(CallNode).all() if n.call_hash not in before]
            prod = [n for n in nodes if n.task_name == "verif_c16.wf_produce"]
            cons = [n for n in nodes if n.task_name == "verif_c16.wf_consume"]
            if len(prod) != 1 or len(cons) != 1:
                raise RuntimeError(f"workflow probe: {len(prod)} produce / {len(cons)} consume call nodes")
            args = session.query(Argument).filter(Argument.call_hash == cons[0].call_hash).all()
            if len(args) != 1:
                raise RuntimeError(f"workflow probe: {len(args)} argument rows of wf_consume")
            wf_out.append({"id": item["id"], "h": reg.get_hash(value), "o": abstract(value, "hash"),
                           "result": prod[0].value_hash, "arg": args[0].value_hash, "call": prod[0].call_hash})
    open(outp, "w").write(json.dumps({"jobs": out, "wf": wf_out}))


if __name__ == "__main__":
    if len(sys.argv) == 4 and sys.argv[1] == "hashchild":
        hashchild(sys.argv[2], sys.argv[3])
    else:
        sys.exit("usage: python -m harness.nested_values hashchild in.json out.json")
