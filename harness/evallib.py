"""
Task library of the evaluation oracle.  Every task here is transcribed in spec/eval/Eval.tla
(Params / DefOpts / Body); keep the two in step.  The module is importable by name
(`harness.evallib`) so that process-mode workers can load it.
"""

from redun import task
from redun.scheduler import JobInfo, catch, cond
from redun.context import get_context
from redun.scheduler import fork_thread, join_thread

redun_namespace = "vlib"

PROBE_KEYS = ("memory", "vcpus", "zone")


@task()
def inc(x):
    return x + 1


@task(executor="process")
def pinc(x):
    return x + 1


@task(cache=False)
async def ainc(x):
    return x + 1


@task(cache=True, check_valid="shallow")
async def aslow(x):
    import asyncio

    await asyncio.sleep(0.001)
    return x + 1


@task()
def neg(x):
    return -x


@task()
def add(a, b):
    return a + b


@task(executor="process")
def padd(a, b):
    return a + b


@task()
def boom(x):
    raise ValueError("boom")


@task()
def lboom(x):
    """Raises an error that keeps a reference to the (unpicklable) resource it failed on."""
    import threading

    e = ValueError("lboom")
    e.lock = threading.Lock()
    raise e


@task()
def kboom(x):
    raise KeyError("kboom")


@task()
def recover(x):
    return -1


@task()
def recover2(x):
    return -2


@task()
def recover_all(x):
    return sum(1 for v in x if isinstance(v, Exception))


@task()
def ident(x):
    return x


@task()
def twice(x):
    return inc(inc(x))


@task()
def mid(x):
    return [inc(x), twice(x)]


@task()
def deep(x):
    if x <= 0:
        return 0
    return deep(x - 1) + 1


@task()
def fan(x):
    return [inc(i) for i in range(x)]


@task()
def sumall(x):
    return sum(x)


@task()
def withdef(x, y=inc(10)):
    return x + y


@task()
def kw(a, b=2, c=3):
    return a * 100 + b * 10 + c


@task()
def safe(x):
    return catch(boom(x), ValueError, recover)


@task()
def chooser(x):
    return cond(inc(x) < 3, inc(x), twice(x))


@task()
def ctxget():
    return get_context("a.b", 0)


@task()
def ctxdef(x, y=get_context("a.b", 7)):
    return [x, y]


@task()
def ctxtree():
    return [get_context("a.b", 0), ctxget(), ctxget.update_context({"a": {"b": 9}})()]


@task()
def mkthread(x):
    return fork_thread(inc(x))


@task()
def jointh(x):
    return join_thread(x)


def _probe(info):
    return {k: info.options[k] for k in PROBE_KEYS if k in info.options}


@task(memory=1, vcpus=1)
def probe(info=JobInfo()):
    return _probe(info)


@task(memory=5)
def probetree(info=JobInfo()):
    return [_probe(info), probe(), probe.options(vcpus=8)()]


@task()
def clvl(n, ovs, path, default):
    obs = [get_context(".".join(path), default), ctxget(), ctxdef(0)]
    if n <= 0:
        return obs
    t = clvl if ovs[0] is None else clvl.update_context(ovs[0])
    return obs + [t(n - 1, ovs[1:], path, default)]


@task()
def noop(x):
    """A call whose result is None (side-effect style task)."""
    return None


@task(cache=False)
def noop_nc(x):
    return None


@task()
def after_none(r, x, nc=False):
    # runs once r (the result of noop(x): None) is known, and makes the same call again from another parent
    return noop_nc(x) if nc else noop(x)


@task()
def none_twice(x, nc=False):
    first = noop_nc(x) if nc else noop(x)
    return [first, after_none(first, x, nc)]


@task()
def cfan(ovs):
    """Siblings under one parent, each with its own override (or none), read the same path with the same default
    through a default argument; the parent reads it in its body too."""
    out = [get_context("a.b", 7)]
    for i, ov in enumerate(ovs):
        t = ctxdef if ov is None else ctxdef.update_context(ov)
        out.append(t(i))
    return out


@task(memory=1, vcpus=1)
def olvl(n, plan, info=JobInfo()):
    here = _probe(info)
    if n <= 0:
        return [here]
    step = plan[0]
    opts = dict(step["opts"])
    for name, k in step["lazy"].items():
        opts[name] = inc(k)
    t = olvl
    if opts:
        t = t.options(**opts)
    if step["exp"]:
        t = t.export_options(**step["exp"])
    return [here, t(n - 1, plan[1:])]


def _tree_body(kids, info):
    out = [_probe(info)]
    for step in kids:
        t = dtree if step.get("d") else otree
        if step["opts"]:
            t = t.options(**step["opts"])
        if step["exp"]:
            t = t.export_options(**step["exp"])
        out.append(t(step["kids"], step["tag"]))
    return out


@task(memory=1, vcpus=1)
def otree(kids, tag=0, info=JobInfo()):
    """A tree of jobs: every node probes its options and calls one child per step (call-time and exported options).
    tag only keeps the calls apart (options are not part of a call's identity, the probe result depends on them)."""
    return _tree_body(kids, info)


@task(memory=1, vcpus=1, export_options={"zone": 5})
def dtree(kids, tag=0, info=JobInfo()):
    """Like otree, but the task itself exports an option in its definition."""
    return _tree_body(kids, info)


@task(check_valid="shallow")
def ctxget_sh():
    return get_context("a.b", 0)


@task()
def ctxmid():
    return [ctxget()]


@task(check_valid="shallow")
def ctxmid_sh():
    return [ctxget()]
