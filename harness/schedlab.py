"""
Shared machinery of the scheduler-group checks (C06, C07, C08, C09, C12, C28, ...):

  programs (curated + seeded random)  ->  TLC on spec/sched/Scheduler.tla (all schedules, all plans)
       |                                        |  behaviours (-simulate) + hung witnesses
       v                                        v
  real Scheduler under harness/simloop.py, following each behaviour choice by choice
       |   as-built observation compared after every choice (drift, evidence only)
       v
  recorded contract traces (+ seeded random schedules, + other limit configurations)
       |
       v
  TLC on spec/sched/Sched_Trace.tla with the clause groups of the property under check
       -> one verdict per recorded execution; a rejected trace is a VIOLATION of that property
"""

from __future__ import annotations

import copy
import json
import os
import uuid
from pathlib import Path
from typing import Any, Optional

from . import progen, simloop
from .core import Ctx, MachineryError
from .tlc import TLCResult, expect_clean, run_tlc

INVARIANTS = ["HeldOK", "Once", "SettledAtReturn", "Deterministic", "DrySubmitsNothing",
              "NoErrorCached", "DryPredicts"]

# deviation switches of Scheduler.tla that describe the code as it is now
DEVS = ("CONSTANT DevRefork = FALSE\nCONSTANT DevDoubleRelease = FALSE\nCONSTANT DevForkAtExec = TRUE\n"
        "CONSTANT DevCseErrorArg = TRUE\nCONSTANT DevCseSubtree = FALSE\n")

RUN = {"k": "run", "mode": "real", "cache": True}
DRY = {"k": "run", "mode": "dry", "cache": True}


def _t(kind, add=0, children=None):
    return {"kind": kind, "add": add, "children": children or []}


def _c(t, k="c", v=0, i=0, g=0):
    return {"t": t, "k": k, "v": v, "i": i, "g": g}


def curated_programs() -> list[dict]:
    """Small programs that exercise the interesting mechanisms on purpose."""
    ps = []
    # 1. the lost-wake-up shape (C09): duplicates of leaf(5) behind a limit of 1, a dependant last
    ps.append({"ns": "cur1", "res": ["r"], "limits": {"r": 1}, "root": {"t": "main", "arg": 0},
               "tasks": {"main": {"units": {}, "vers": [_t("calls", 0, [_c("mid", "c", 1), _c("mid", "c", 2),
                                                                     _c("leaf", "c", 7), _c("leaf", "s", 0, 3)])]},
                         "mid": {"units": {}, "vers": [_t("calls", 0, [_c("leaf", "c", 5)])]},
                         "leaf": {"units": {"r": 1}, "vers": [_t("leaf", 1)]}},
               "plan": [RUN]})
    # 2. duplicates created before / during / after the first finishes, limit 2, then a second run
    ps.append({"ns": "cur2", "res": ["r"], "limits": {"r": 2}, "root": {"t": "main", "arg": 1},
               "tasks": {"main": {"units": {}, "vers": [_t("calls", 0, [_c("leaf", "c", 5), _c("mid", "c", 1),
                                                                     _c("leaf", "p", 4), _c("mid", "c", 2)])]},
                         "mid": {"units": {}, "vers": [_t("calls", 0, [_c("leaf", "c", 5), _c("leaf", "p", 0)])]},
                         "leaf": {"units": {"r": 1}, "vers": [_t("leaf", 1), _t("leaf", 11)]}},
               "plan": [RUN, RUN]})
    # 3. error path: a failing leaf beside working siblings under a limit; fixed by an edit
    ps.append({"ns": "cur3", "res": ["r"], "limits": {"r": 1}, "root": {"t": "main", "arg": 0},
               "tasks": {"main": {"units": {}, "vers": [_t("calls", 0, [_c("mid", "c", 1), _c("bad", "c", 2),
                                                                     _c("mid", "c", 3)])]},
                         "mid": {"units": {}, "vers": [_t("calls", 0, [_c("leaf", "p", 0)])]},
                         "leaf": {"units": {"r": 1}, "vers": [_t("leaf", 1)]},
                         "bad": {"units": {"r": 1}, "vers": [_t("fail"), _t("leaf", 3)]}},
               "plan": [RUN, RUN, {"k": "edit", "t": "bad"}, RUN]})
    # 4. failing twin: two parents call the same failing leaf (collapse + CSE of an error)
    ps.append({"ns": "cur4", "res": ["r"], "limits": {"r": 2}, "root": {"t": "main", "arg": 0},
               "tasks": {"main": {"units": {}, "vers": [_t("calls", 0, [_c("mid", "c", 1), _c("mid", "c", 2)])]},
                         "mid": {"units": {}, "vers": [_t("calls", 0, [_c("bad", "c", 9), _c("leaf", "p", 0)])]},
                         "leaf": {"units": {"r": 1}, "vers": [_t("leaf", 1)]},
                         "bad": {"units": {"r": 1}, "vers": [_t("fail"), _t("leaf", 3)]}},
               "plan": [RUN, DRY, RUN]})
    # 5. dry runs against empty / full / edited backends; two resources, one unconfigured
    ps.append({"ns": "cur5", "res": ["r", "q"], "limits": {"r": 2}, "root": {"t": "main", "arg": 0},
               "tasks": {"main": {"units": {}, "vers": [_t("calls", 0, [_c("mid", "c", 1), _c("leaf", "c", 2),
                                                                     _c("leaf2", "s", 0, 2)])]},
                         "mid": {"units": {"q": 1}, "vers": [_t("calls", 0, [_c("leaf", "c", 2), _c("leaf2", "c", 2)]),
                                                             _t("calls", 0, [_c("leaf", "c", 3)])]},
                         "leaf": {"units": {"r": 1, "q": 1}, "vers": [_t("leaf", 1), _t("leaf", 11)]},
                         "leaf2": {"units": {"r": 2}, "vers": [_t("leaf", 2)]}},
               "plan": [DRY, RUN, DRY, {"k": "edit", "t": "leaf"}, DRY, RUN]})
    # 6. same expression twice under one parent (expression-level dedup) and cache=False
    ps.append({"ns": "cur6", "res": ["r"], "limits": {"r": 1}, "root": {"t": "main", "arg": 2},
               "tasks": {"main": {"units": {}, "vers": [_t("calls", 0, [_c("leaf", "c", 2), _c("leaf", "p", 0),
                                                                     _c("leaf", "s", 0, 1), _c("leaf", "s", 0, 2)])]},
                         "leaf": {"units": {"r": 1}, "vers": [_t("leaf", 1)]}},
               "plan": [RUN, {"k": "run", "mode": "real", "cache": False}]})
    # 7. handle passed to three calls behind a limit of 1 (re-entry after waiting must not re-fork)
    ps.append({"ns": "cur7", "res": ["r"], "limits": {"r": 1}, "root": {"t": "main", "arg": 0},
               "tasks": {"main": {"units": {}, "vers": [_t("calls", 0, [_c("use", "c", 1), _c("use", "c", 2),
                                                                     _c("use", "c", 3)])]},
                         "use": {"units": {"r": 1}, "h": 1, "vers": [_t("leaf", 4)]}},
               "plan": [RUN, RUN]})
    # 8. handle calls whose other argument comes from siblings that may finish in either order
    #    (as built, the fork key is assigned in execution order: finding handle-fork-order)
    ps.append({"ns": "cur8", "res": ["r"], "limits": {"r": 2}, "root": {"t": "main", "arg": 0},
               "tasks": {"main": {"units": {}, "vers": [_t("calls", 0, [_c("leaf", "c", 1), _c("leaf", "c", 2),
                                                                     _c("use", "s", 0, 1), _c("use", "s", 0, 2)])]},
                         "leaf": {"units": {}, "vers": [_t("leaf", 1)]},
                         "use": {"units": {}, "h": 1, "vers": [_t("leaf", 4)]}},
               "plan": [RUN]})
    # 9. a job with limits whose child fails after the job's own function returned (its units must be
    #    released once, not again when the failure propagates), next to siblings that want the unit
    ps.append({"ns": "cur9", "res": ["r"], "limits": {"r": 1}, "root": {"t": "main", "arg": 0},
               "tasks": {"main": {"units": {}, "vers": [_t("calls", 0, [_c("mid", "c", 1), _c("leaf", "c", 2),
                                                                     _c("leaf", "c", 3), _c("leaf", "c", 4)])]},
                         "mid": {"units": {"r": 1}, "vers": [_t("calls", 0, [_c("bad", "c", 9)])]},
                         "leaf": {"units": {"r": 1}, "vers": [_t("leaf", 1)]},
                         "bad": {"units": {"r": 1}, "vers": [_t("fail"), _t("leaf", 3)]}},
               "plan": [RUN]})
    # 10. a job that names an unknown executor: its units are consumed and must come back when it is
    #     rejected before reaching any executor; dry run first
    ps.append({"ns": "cur10", "res": ["r"], "limits": {"r": 1}, "root": {"t": "main", "arg": 0},
               "tasks": {"main": {"units": {}, "vers": [_t("calls", 0, [_c("leaf", "c", 1), _c("ghost", "c", 2),
                                                                     _c("leaf", "c", 3)])]},
                         "leaf": {"units": {"r": 1}, "vers": [_t("leaf", 1)]},
                         "ghost": {"units": {"r": 1}, "vers": [_t("noexec", 5), _t("leaf", 5)]}},
               "plan": [DRY, RUN, {"k": "edit", "t": "ghost"}, RUN]})
    # 11. opted-out and execution-scoped caching: duplicates of a cache_scope=NONE task all run, a
    #     cache_scope=CSE task is deduplicated inside an execution but re-executed by the next one
    ps.append({"ns": "cur11", "res": ["r"], "limits": {"r": 2}, "root": {"t": "main", "arg": 1},
               "tasks": {"main": {"units": {}, "vers": [_t("calls", 0, [_c("none", "c", 1), _c("mid", "c", 1),
                                                                     _c("cse", "c", 1), _c("none", "p", 0)])]},
                         "mid": {"units": {}, "vers": [_t("calls", 0, [_c("none", "c", 1), _c("cse", "c", 1)])]},
                         "none": {"units": {"r": 1}, "scope": "NONE", "vers": [_t("leaf", 1)]},
                         "cse": {"units": {"r": 1}, "scope": "CSE", "vers": [_t("leaf", 2)]}},
               "plan": [RUN, RUN, DRY]})
    # 12. a blocker holding the whole capacity while two identical calls from different parents are both
    #     parked in the limits queue: when it finishes both are nominated in one step; the second must
    #     collapse onto the first (not be submitted again)
    ps.append({"ns": "cur12", "res": ["r"], "limits": {"r": 2}, "root": {"t": "main", "arg": 0},
               "tasks": {"main": {"units": {}, "vers": [_t("calls", 0, [_c("block", "c", 1), _c("mid", "c", 1),
                                                                     _c("mid", "c", 2)])]},
                         "mid": {"units": {}, "vers": [_t("calls", 0, [_c("leaf", "c", 5)])]},
                         "block": {"units": {"r": 2}, "vers": [_t("leaf", 3)]},
                         "leaf": {"units": {"r": 1}, "vers": [_t("leaf", 1)]}},
               "plan": [RUN]})
    # 13. caught failures: duplicates of a failing call queued behind a limit, each wrapped in catch;
    #     the second is nominated only after the first was finalized (CSE hit on an error), a consumer
    #     waits behind them; second run replays the stored recoveries
    ps.append({"ns": "cur13", "res": ["r"], "limits": {"r": 1}, "root": {"t": "main", "arg": 0},
               "tasks": {"main": {"units": {}, "vers": [_t("calls", 0, [_c("leaf", "c", 1), _c("mid", "c", 1),
                                                                     _c("mid", "c", 2), _c("leaf", "c", 4)])]},
                         "mid": {"units": {}, "vers": [_t("calls", 0, [_c("bad", "c", 9, g=1), _c("plain", "p", 0)])]},
                         "leaf": {"units": {"r": 1}, "vers": [_t("leaf", 1)]},
                         "plain": {"units": {}, "vers": [_t("leaf", 2)]},
                         "bad": {"units": {"r": 1}, "vers": [_t("fail"), _t("leaf", 3)]}},
               "plan": [RUN, RUN]})
    # 14. everything cached, then one task is edited into one that names an unknown executor: the dry run
    #     must not stop "early" (it fails like the real run, which executes nothing)
    ps.append({"ns": "cur14", "res": ["r"], "limits": {"r": 1}, "root": {"t": "main", "arg": 0},
               "tasks": {"main": {"units": {}, "vers": [_t("calls", 0, [_c("leaf", "c", 1), _c("ghost", "c", 2)])]},
                         "leaf": {"units": {"r": 1}, "vers": [_t("leaf", 1)]},
                         "ghost": {"units": {}, "vers": [_t("leaf", 5), _t("noexec", 5)]}},
               "plan": [RUN, {"k": "edit", "t": "ghost"}, DRY, RUN]})
    # 15. a shallow task P whose child C(1) is also evaluated beneath its sibling Q: when P starts after
    #     Q's C(1) has finished, P's C(1) is answered by CSE and evaluates no child jobs, yet the subtree task
    #     set P records must contain D -- otherwise the edit of D is not seen by P's ultimate reduction
    ps.append({"ns": "cur15", "res": ["r"], "limits": {"r": 2}, "root": {"t": "main", "arg": 0},
               "tasks": {"main": {"units": {}, "vers": [_t("calls", 0, [_c("qq", "c", 1), _c("xx", "c", 5),
                                                                         _c("pp", "s", 0, 2)])]},
                         "qq": {"units": {}, "vers": [_t("calls", 0, [_c("cc", "p", 0)])]},
                         "pp": {"units": {}, "sh": 1, "vers": [_t("calls", 0, [_c("cc", "c", 1)])]},
                         "cc": {"units": {}, "vers": [_t("calls", 0, [_c("dd", "p", 0)])]},
                         "xx": {"units": {"r": 1}, "vers": [_t("leaf", 1)]},
                         "dd": {"units": {"r": 1}, "vers": [_t("leaf", 1), _t("leaf", 10)]}},
               "plan": [RUN, {"k": "edit", "t": "dd"}, RUN]})
    # 16. a limited task fails while it holds the only unit, the failure is caught (catch), two jobs wait in the
    #     limits queue: the release in the reject path must renominate them
    ps.append({"ns": "cur16", "res": ["r"], "limits": {"r": 1}, "root": {"t": "main", "arg": 0},
               "tasks": {"main": {"units": {}, "vers": [_t("calls", 0, [_c("bad", "c", 1, g=1), _c("leaf", "c", 2),
                                                                         _c("leaf", "c", 3)])]},
                         "leaf": {"units": {"r": 1}, "vers": [_t("leaf", 1)]},
                         "bad": {"units": {"r": 1}, "vers": [_t("fail", 0)]}},
               "plan": [RUN]})
    # 17. a shallow task that succeeds although a child beneath it failed (caught); a task that ran beneath the
    #     FAILED job is edited: the failed job's subtree belongs to the recorded subtree task set
    ps.append({"ns": "cur17", "res": ["r"], "limits": {"r": 2}, "root": {"t": "main", "arg": 0},
               "tasks": {"main": {"units": {}, "vers": [_t("calls", 0, [_c("pp", "c", 1)])]},
                         "pp": {"units": {}, "sh": 1, "vers": [_t("calls", 0, [_c("fmid", "c", 1, g=1), _c("leaf", "c", 7)])]},
                         "fmid": {"units": {}, "vers": [_t("calls", 0, [_c("deep", "p", 0), _c("bad", "s", 0, 1)])]},
                         "deep": {"units": {"r": 1}, "vers": [_t("leaf", 1), _t("leaf", 10)]},
                         "leaf": {"units": {"r": 1}, "vers": [_t("leaf", 1)]},
                         "bad": {"units": {}, "vers": [_t("fail", 0)]}},
               "plan": [RUN, {"k": "edit", "t": "deep"}, RUN]})
    # 18. one parent makes the same call (same task, same evaluated argument) through two DIFFERENT expressions:
    #     depending on timing the second job collapses onto the pending first or is answered by CSE; the parent's
    #     recorded children and call hash must be the same either way
    ps.append({"ns": "cur18", "res": ["r"], "limits": {"r": 1}, "root": {"t": "main", "arg": 0},
               "tasks": {"main": {"units": {}, "vers": [_t("calls", 0, [_c("ia", "c", 3), _c("ib", "c", 2),
                                                                         _c("ex", "s", 0, 1), _c("ex", "s", 0, 2)])]},
                         "ia": {"units": {}, "vers": [_t("leaf", 1)]},
                         "ib": {"units": {}, "vers": [_t("leaf", 2)]},
                         "ex": {"units": {"r": 1}, "vers": [_t("leaf", 10)]}},
               "plan": [RUN]})
    # 19. a caught failure while a job beneath the failed job is still running: as built the workflow can return
    #     with that job abandoned (open finding caught-failure-leaves-job-running, C09)
    ps.append({"ns": "cur19", "res": ["r"], "limits": {"r": 2}, "root": {"t": "main", "arg": 0},
               "tasks": {"main": {"units": {}, "vers": [_t("calls", 0, [_c("fmid", "c", 1, g=1), _c("leaf", "c", 7)])]},
                         "fmid": {"units": {}, "vers": [_t("calls", 0, [_c("leaf", "p", 0), _c("bad", "p", 0)])]},
                         "leaf": {"units": {"r": 1}, "vers": [_t("leaf", 1)]},
                         "bad": {"units": {}, "vers": [_t("fail", 0)]}},
               "plan": [RUN]})
    # 20. an async task (no single reduction) that returns an expression: a duplicate created after the executor
    #     finished the first call but before it resolved (its child is still running) must collapse onto it
    ps.append({"ns": "cur20", "res": ["r"], "limits": {"r": 2}, "root": {"t": "main", "arg": 0},
               "tasks": {"main": {"units": {}, "vers": [_t("calls", 0, [_c("am", "c", 1), _c("xx", "c", 5),
                                                                         _c("wrap", "s", 0, 2)])]},
                         "am": {"units": {}, "as": 1, "vers": [_t("calls", 0, [_c("slow", "p", 0)])]},
                         "wrap": {"units": {}, "vers": [_t("calls", 0, [_c("am", "c", 1)])]},
                         "xx": {"units": {"r": 1}, "vers": [_t("leaf", 1)]},
                         "slow": {"units": {"r": 1}, "vers": [_t("leaf", 3)]}},
               "plan": [RUN, RUN]})
    # 21. call-time limits: two calls of a task whose definition asks for one unit, each made with
    #     .options(limits={"r": 2}) under a limit of 2: they can never run together
    ps.append({"ns": "cur21", "res": ["r"], "limits": {"r": 2}, "root": {"t": "main", "arg": 0},
               "tasks": {"main": {"units": {}, "vers": [_t("calls", 0, [dict(_c("leaf", "c", 1), u={"r": 2}),
                                                                         dict(_c("leaf", "c", 2), u={"r": 2}),
                                                                         _c("leaf", "c", 3)])]},
                         "leaf": {"units": {"r": 1}, "vers": [_t("leaf", 1)]}},
               "plan": [RUN]})
    return [progen.normalize(p) for p in ps]


def shallow_programs(ctx: Ctx, n_random: int, tag: str) -> list[dict]:
    """Programs for the ultimate-reduction side (C03): check_valid="shallow" tasks over subtrees that are
    edited and reverted between runs; cur15 puts a CSE-answered call beneath the shallow task."""
    edit = {"k": "edit", "t": "leaf"}
    ps = [p for p in curated_programs() if p["ns"] in ("cur15", "cur17")]
    for p in ps:   # an unchanged second run first: the shallow task is answered by ultimate reduction
        p["plan"] = [RUN] + p["plan"]
    for i in range(n_random):
        plan = [RUN, edit, RUN, edit, RUN] if i % 2 else [RUN, edit, RUN]
        p = progen.random_program(ctx.rng, f"sh{tag}{ctx.seed}_{i}", max_kids=3, p_fail=0.15, plan=list(plan))
        p["tasks"]["mid"]["sh"] = 1
        if i % 3 == 0:
            p["tasks"]["main"]["sh"] = 1
        ps.append(p)
    for p in ps:
        p["ns"] = f"{p['ns']}_{tag}{os.getpid()}"
    return ps


def make_programs(ctx: Ctx, n_random: int, tag: str) -> list[dict]:
    ps = curated_programs()
    for i in range(n_random):
        ps.append(progen.random_program(ctx.rng, f"rnd{tag}{ctx.seed}_{i}"))
    for i, p in enumerate(ps):
        p["ns"] = f"{p['ns']}_{tag}{os.getpid()}"
    return ps


# ------------------------------------------------------------------------------------------------
# TLC on the as-built model
# ------------------------------------------------------------------------------------------------
def model_check(ctx: Ctx, progs: list[dict], dev: bool = True, invariants=None, hang_report=True,
                workers="auto", timeout=1500, devs: Optional[str] = None) -> TLCResult:
    f = ctx.tmp(f"progs_{len(progs)}_{id(progs) % 9973}.json")
    f.write_text(json.dumps(progs))
    inv = list(INVARIANTS if invariants is None else invariants)
    cfg = "SPECIFICATION Spec\nCONSTANT DevChoices = %s\n%sVIEW View\n" % (
        "{TRUE, FALSE}" if dev == "both" else "{TRUE}" if dev else "{FALSE}", devs or DEVS)
    cfg += "".join(f"INVARIANT {i}\n" for i in inv)
    if hang_report:
        cfg += "INVARIANT HangReport\nINVARIANT ForkReport\nINVARIANT CseErrReport\nINVARIANT OrphanReport\nINVARIANT RefReport\n"
    cfg += "CHECK_DEADLOCK FALSE\n"
    return run_tlc("sched/Scheduler.tla", cfg, ctx.scratch, workers=workers,
                   env={"PROGRAM_FILE": str(f)}, timeout=timeout, heap="8g")


def simulate_behaviours(ctx: Ctx, progs: list[dict], num: int, seed: int, dev: bool = True) -> list[dict]:
    f = ctx.tmp(f"progs_sim_{len(progs)}.json")
    f.write_text(json.dumps(progs))
    cfg = ("SPECIFICATION Spec\nCONSTANT DevChoices = %s\n%sINVARIANT Emit\nCHECK_DEADLOCK FALSE\n"
           % ("{TRUE}" if dev else "{FALSE}", DEVS))
    res = run_tlc("sched/Scheduler.tla", cfg, ctx.scratch, workers=1, env={"PROGRAM_FILE": str(f)},
                  simulate=f"num={num}", depth=400, seed=seed, timeout=900)
    if res.error or res.violated:
        raise MachineryError(f"Scheduler.tla -simulate failed: {res.error} {res.violated}\n{res.out[-2000:]}")
    ctx.add_tlc(res)
    return res.recs("BEH")


# ------------------------------------------------------------------------------------------------
# running histories on the real scheduler
# ------------------------------------------------------------------------------------------------
def _norm_model_obs(o: dict) -> dict:
    return {"used": {k: v for k, v in o["used"].items() if v}, "running": sorted(o["running"]),
            "waiting": o["waiting"], "qlen": o["qlen"], "njobs": o["njobs"], "nsub": o["nsub"]}


def _norm_impl_obs(e: dict) -> dict:
    return {k: e.get(k) for k in ("used", "running", "waiting", "qlen", "njobs", "nsub")}


def callgraph_digest(backend, execution_id: str) -> dict:
    """(set of call-node identities, set of argument value hashes) recorded for one execution.
    A node's identity is re-derived here as H(task hash, args hash, result, identities of the recorded children)
    with every ErrorValue result replaced by one token: the recorded hash of a failed call contains the pickled
    traceback (file names of the generated module, line numbers), which differs from run to run for reasons that
    have nothing to do with scheduling."""
    import hashlib

    from redun.backends.db import Argument, CallEdge, CallNode, Job, Value

    s = backend.session
    roots = sorted({h for (h,) in s.query(Job.call_hash).filter(Job.execution_id == execution_id) if h})
    memo: dict = {}

    def ident(h: str) -> str:
        if h in memo:
            return memo[h]
        memo[h] = "cycle"
        n = s.query(CallNode).filter_by(call_hash=h).first()
        if n is None:
            memo[h] = "missing:" + h
            return memo[h]
        v = s.query(Value.type).filter_by(value_hash=n.value_hash).first()
        res = "ERROR" if v is not None and v[0] == "redun.ErrorValue" else n.value_hash
        kids = sorted(ident(c) for (c,) in s.query(CallEdge.child_id).filter_by(parent_id=h))
        memo[h] = hashlib.sha1(json.dumps([n.task_hash, n.args_hash, res, kids]).encode()).hexdigest()
        return memo[h]

    calls = sorted({ident(h) for h in roots})
    errvals = {vh for (vh,) in s.query(Value.value_hash).filter(Value.type == "redun.ErrorValue")}
    args = sorted({(ident(a.call_hash), a.arg_position if a.arg_position is not None else -1, a.arg_key or "",
                    "ERROR" if a.value_hash in errvals else a.value_hash)
                   for a in s.query(Argument).filter(Argument.call_hash.in_(roots))}) if roots else []
    return {"calls": calls, "args": [list(a) for a in args]}


def safe_digest(backend, execution_id: str) -> dict:
    """callgraph_digest that survives a session left in a failed state by the run it looks at (a run that died
    inside the backend must be judged by the contract, not stop the harness)."""
    try:
        return callgraph_digest(backend, execution_id)
    except Exception:  # noqa
        try:
            backend.session.rollback()
            return callgraph_digest(backend, execution_id)
        except Exception:  # noqa
            return {"calls": [], "args": [], "unreadable": True}


class History:
    """One program on one backend file: executes the plan, run by run."""

    def __init__(self, ctx: Ctx, prog: dict, tag: str):
        self.ctx, self.prog = ctx, prog
        self.pm = progen.ProgramModule(prog, ctx.scratch)
        self.db = simloop.clone_db(ctx.scratch, f"hist_{tag}_{uuid.uuid4().hex[:8]}.db")
        self.ver = {t: 1 for t in prog["tasks"]}
        self.runs: list[dict] = []

    def edit(self, t: str) -> None:
        n = len(self.prog["tasks"][t]["vers"])
        self.ver[t] = 1 if self.ver[t] == n else self.ver[t] + 1

    def run(self, mode: str, cache: bool, chooser: simloop.Chooser, limits: Optional[dict] = None,
            model_acts: Optional[list] = None) -> dict:
        self.pm.load(self.ver)
        bk = simloop.open_backend(self.db)
        try:
            lim = self.prog["limits"] if limits is None else limits
            s, d = simloop.make_scheduler(bk, limits=lim, chooser=chooser)
            eid = str(uuid.uuid4())
            out = simloop.run_controlled(s, d, self.pm.root_expr(), dryrun=(mode == "dry"), cache=cache,
                                         execution_id=eid)
            digest = safe_digest(bk, eid)
        finally:
            simloop.close_backend(bk)
        drift = None
        if model_acts is not None:
            states = [e for e in d.events if e["ev"] == "state" and e["after"] is not None]
            for i, a in enumerate(model_acts):
                if i >= len(states) or _norm_model_obs(a["o"]) != _norm_impl_obs(states[i]) \
                        or a["c"] != states[i]["after"]:
                    drift = {"at": i, "act": a["c"], "handler": a["h"], "job": a["j"],
                             "model": _norm_model_obs(a["o"]),
                             "impl": _norm_impl_obs(states[i]) if i < len(states) else None}
                    break
        rec = {"mode": mode, "cache": cache, "ver": dict(self.ver), "limits": lim, "out": out,
               "events": d.events, "digest": digest, "drift": drift, "calls": dict(d.calls),
               "nsub": len(d.submitted), "run_index": len(self.runs) + 1}
        self.runs.append(rec)
        return rec

    def run_reused(self, mode: str, cache: bool, chooser: simloop.Chooser) -> dict:
        """Like run(), but every run of the history uses ONE Scheduler object (as a notebook, a test or a
        long-lived service does).  Jobs of the previous run that are still with the executor (the run failed
        while they were running) stay there: their units are still accounted for and their completions are
        choices of the new run.  They are renamed <<0, old path>> and carried over as submissions."""
        self.pm.load(self.ver)
        if getattr(self, "_s", None) is None:
            self._bk = simloop.open_backend(self.db)
            self._s, self._d = simloop.make_scheduler(self._bk, limits=self.prog["limits"], chooser=chooser)
        s, d = self._s, self._d
        carried = []
        for j in d.running:
            if not (j._vpath and j._vpath[0] == 0):
                j._vpath = (0,) + tuple(j._vpath)
            carried.append({"ev": "submit", "job": list(j._vpath), "task": j.task.fullname, "task_hash": j.task.hash,
                            "args_hash": j.args_hash, "eval_hash": j.eval_hash, "ctx": j.context_hash or "",
                            "units": {k: v for k, v in dict(j.get_limits()).items() if v}, "executor": "default",
                            "scope": "NONE", "prov": False, "carried": True})
        d.events, d.submitted, d.nsteps, d.njobs, d.chooser, d.last_choice = list(carried), [], 0, 0, chooser, None
        eid = str(uuid.uuid4())
        out = simloop.run_controlled(s, d, self.pm.root_expr(), dryrun=(mode == "dry"), cache=cache, execution_id=eid)
        digest = safe_digest(self._bk, eid)
        rec = {"mode": mode, "cache": cache, "ver": dict(self.ver), "limits": self.prog["limits"], "out": out,
               "events": d.events, "digest": digest, "drift": None, "calls": dict(d.calls),
               "nsub": len(d.submitted), "run_index": len(self.runs) + 1, "carried": len(carried),
               "left_running": len(d.running)}
        self.runs.append(rec)
        return rec

    def close(self) -> None:
        if getattr(self, "_s", None) is not None:
            simloop.close_backend(self._bk)
            self._s = None
        try:
            os.unlink(self.db)
        except OSError:
            pass
        self.pm.unload()


def replay_behaviour(ctx: Ctx, prog: dict, beh: dict, tag: str) -> History:
    """Follow one TLC behaviour (all runs of the plan) on the real scheduler."""
    h = History(ctx, prog, tag)
    ri = 0
    for st in prog["plan"]:
        if st["k"] == "edit":
            h.edit(st["t"])
            continue
        if ri >= len(beh["runs"]):
            break
        mrun = beh["runs"][ri]
        ri += 1
        ch = simloop.PathChooser([a["c"] for a in mrun["acts"]])
        rec = h.run(st["mode"], st["cache"], ch, model_acts=mrun["acts"])
        rec["model"] = {"res": mrun["res"], "v": mrun["v"], "nsub": mrun["nsub"],
                        "hung": bool(beh.get("hung")) and ri == len(beh["runs"])}
        if rec["out"]["outcome"] == "hang":
            break
    return h


def random_history(ctx: Ctx, prog: dict, tag: str, p_finish: float, limits: Optional[dict] = None,
                   policy: Optional[tuple] = None) -> History:
    h = History(ctx, prog, tag)
    for st in prog["plan"]:
        if st["k"] == "edit":
            h.edit(st["t"])
            continue
        chooser = simloop.PolicyChooser(*policy) if policy else simloop.RandomChooser(ctx.rng, p_finish)
        rec = h.run(st["mode"], st["cache"], chooser, limits=limits)
        if rec["out"]["outcome"] == "hang":
            break
    return h


def reuse_history(ctx: Ctx, prog: dict, tag: str, policy: Optional[tuple], p_finish: float = 0.5) -> History:
    """All runs of the plan on one Scheduler object."""
    h = History(ctx, prog, tag)
    for st in prog["plan"]:
        if st["k"] == "edit":
            h.edit(st["t"])
            continue
        chooser = simloop.PolicyChooser(*policy) if policy else simloop.RandomChooser(ctx.rng, p_finish)
        rec = h.run_reused(st["mode"], st["cache"], chooser)
        if rec["out"]["outcome"] == "hang":
            break
    return h


# ------------------------------------------------------------------------------------------------
# contract traces
# ------------------------------------------------------------------------------------------------
def _jid(path) -> str:
    return "j" + ".".join(str(x) for x in path)


def contract_trace(prog: dict, rec: dict, expect: Optional[dict], prevdry: Optional[dict],
                   group: str) -> dict:
    """Project a recorded run onto the events of Sched_Contract."""
    names = set(prog["res"]) | set(rec["limits"]) | {"_"}
    for e in rec["events"]:
        if e["ev"] == "submit":
            names |= set(e["units"])
        elif e["ev"] == "state":
            names |= set(e["used"])
    names = sorted(names)
    lim = {r: int(rec["limits"].get(r, 1)) for r in names}
    keyids: dict = {}
    evs = []
    for e in rec["events"]:
        k = e["ev"]
        if k == "submit":
            key = (e["task_hash"], e["args_hash"], e["ctx"])
            kid = keyids.setdefault(key, len(keyids) + 1)
            optout = 1 if ("NONE" in e["scope"] or not e["prov"]) else 0
            evs.append({"ev": "submit", "job": _jid(e["job"]), "key": kid, "optout": optout,
                        "units": {r: int(e["units"].get(r, 0)) for r in names}})
        elif k == "finish":
            evs.append({"ev": "finish", "job": _jid(e["job"]), "ok": 1 if e["ok"] else 0,
                        "etype": e.get("etype", ""), "msg": e.get("msg", "")})
        elif k == "state":
            evs.append({"ev": "state", "used": {r: int(e["used"].get(r, 0)) for r in names}})
        elif k == "ult_hit":
            evs.append({"ev": "ult_hit", "stale": int(e["stale"]), "nodes": int(e["nodes"])})
        elif k == "job_start":
            evs.append({"ev": "job_start", "job": _jid(e["job"])})
        elif k == "job_end":
            evs.append({"ev": "job_end", "job": _jid(e["job"]), "status": e["status"]})
        elif k == "end":
            v = e.get("value")
            evs.append({"ev": "end", "outcome": e["outcome"], "val": v if isinstance(v, int) else -999999,
                        "etype": e.get("etype", ""), "msg": e.get("msg", "")})
    import hashlib

    dg = hashlib.sha1(json.dumps([rec["out"].get("outcome"), rec["out"].get("value"),
                                  rec["out"].get("etype"), rec["digest"]], sort_keys=True,
                                 default=str).encode()).hexdigest()
    hdr = {"limits": lim, "mode": rec["mode"],
           "expect": expect or {"res": "none", "v": 0},
           "prevdry": prevdry or {"res": "none", "val": 0},
           "group": group, "digest": dg}
    return {"hdr": hdr, "evs": evs}


def history_traces(prog: dict, h: History, expects: Optional[list], gprefix: str) -> list[dict]:
    """Contract traces of all runs of a history; `expects[i]` = model outcome of run i (or None)."""
    out = []
    prev = None
    for i, rec in enumerate(h.runs):
        exp = expects[i] if expects and i < len(expects) else None
        prevdry = None
        if prev is not None and prev["mode"] == "dry" and rec["mode"] == "real" and prev["ver"] == rec["ver"]:
            o = prev["out"]
            prevdry = {"res": o["outcome"], "val": o.get("value") if isinstance(o.get("value"), int) else 0}
        # runs that hang or whose failing sibling set differs may legitimately record different
        # call graphs: only value-returning real runs take part in the digest comparison
        group = ""
        if rec["mode"] == "real" and rec["out"]["outcome"] == "value":
            group = f"{gprefix}|run{rec['run_index']}|{json.dumps(rec['ver'], sort_keys=True)}|{rec['cache']}"
        out.append(contract_trace(prog, rec, exp, prevdry, group))
        prev = rec
    return out


def validate(ctx: Ctx, traces: list[dict], on: list[str], what: str):
    """Returns list of (accepted, position, why) aligned with `traces`."""
    f = ctx.tmp(f"ctraces_{what}.json")
    f.write_text(json.dumps({"on": on, "traces": traces}))
    cfg = "SPECIFICATION TSpec\nINVARIANT TWithinLimits\nINVARIANT THeldIsSum\nCHECK_DEADLOCK FALSE\n"
    res = run_tlc("sched/Sched_Trace.tla", cfg, ctx.scratch, workers=1, env={"TRACE_FILE": str(f)},
                  timeout=1200, heap="6g")
    if res.error:
        raise MachineryError(f"Sched_Trace failed ({what}): {res.error}\n{res.out[-2500:]}")
    ctx.add_tlc(res)
    verdicts: dict[int, tuple] = {}
    for tid, acc, pos, why in res.recs("VERDICT"):
        verdicts[tid] = (bool(acc), pos, why)
    if len(verdicts) != len(traces):
        raise MachineryError(f"Sched_Trace returned {len(verdicts)} verdicts for {len(traces)} traces\n"
                             + res.out[-1500:])
    out = [verdicts[i + 1] for i in range(len(traces))]
    if res.violated:
        raise MachineryError(f"contract invariant {res.violated} violated while consuming accepted "
                             f"prefixes: the contract spec itself is inconsistent\n{res.out[-1500:]}")
    return out


def expects_from_model(beh: dict) -> list[dict]:
    return [{"res": r["res"], "v": r["v"]} for r in beh["runs"]]


# ------------------------------------------------------------------------------------------------
# the suite shared by the scheduler-group properties
# ------------------------------------------------------------------------------------------------
def _hang_key(rec: dict) -> Optional[str]:
    """Signature of the lost wake-up: quiescent, jobs in the limits queue, and the head would fit."""
    states = [e for e in rec["events"] if e["ev"] == "state"]
    if not states:
        return None
    last = states[-1]
    if last.get("waiting") and not last.get("running") and not last.get("used"):
        return "lost-wakeup"
    return None


def suite(ctx: Ctx, on: list[str], n_random_progs: int, n_sim: int, n_random_hist: int,
          alt_limits: bool = False, corrupt=None, tag: str = "s", progs: Optional[list] = None,
          need_handlers=("exec", "done", "resolve", "reject", "finish"), n_reuse: int = 0) -> dict:
    """
    Runs the whole pipeline for the clause groups `on`.  `corrupt(trace) -> bool` builds the negative
    control for the property (mutates a copy of a recorded trace so that its clause must fail).
    """
    if progs is None:
        progs = make_programs(ctx, n_random_progs, tag)
    # ---- 1+2. TLC: the model, all programs, all schedules, all plans; every property an invariant.
    #   The initial state also picks DevLostWakeup: FALSE is redun after the fix: commit (NoHang is an
    #   invariant there), TRUE is redun as pinned: the other invariants still hold and TLC reports every
    #   hung state with a witness path.  The witnesses are replayed below, so that the defect is
    #   detected again if it ever returns.
    mc = model_check(ctx, progs, dev="both", invariants=INVARIANTS + ["NoHang"])
    if mc.error or mc.violated:
        raise MachineryError(f"Scheduler.tla fails its invariants: {mc.violated} {mc.error}\n"
                             + mc.out[-3000:])
    ctx.add_tlc(mc)
    hung = mc.recs("HUNG")
    forkdev = {r["pi"] for r in mc.recs("FORKDEV")}
    cseerrdev = {r["pi"] for r in mc.recs("CSEERRDEV")}
    orphandev = {r["pi"] for r in mc.recs("ORPHANDEV")}
    ctx.note("programs_that_can_return_with_a_job_still_running_in_model", sorted(orphandev))
    ctx.note("programs_with_cse_replayed_error_recover_calls_in_model", sorted(cseerrdev))
    ctx.note("programs_with_timing_dependent_fork_keys_in_model", sorted(forkdev))
    ctx.note("model", {"programs": len(progs), "states": mc.distinct, "transitions": mc.generated,
                       "depth": mc.depth, "hung_states_with_deviation": len(hung)})
    # ---- 3. behaviours to replay --------------------------------------------------------------------
    behs = simulate_behaviours(ctx, progs, n_sim, ctx.seed + 7, dev=False)
    seenh = set()
    for h in hung:  # one witness per program and hung run
        k = (h["pi"], len(h["runs"]))
        if k not in seenh and len(seenh) < 12:
            seenh.add(k)
            behs.append(h)
    # vacuity guard: which handlers / outcomes the replayed behaviours exercise
    hk: dict = {}
    oc: dict = {}
    for b in behs:
        for r in b["runs"]:
            oc[f"{r['mode']}:{r['res']}"] = oc.get(f"{r['mode']}:{r['res']}", 0) + 1
            for a in r["acts"]:
                hk[a["h"]] = hk.get(a["h"], 0) + 1
    ctx.note("behaviour_handler_counts", hk)
    ctx.note("behaviour_run_outcomes", oc)
    for need in need_handlers:
        if not hk.get(need):
            raise MachineryError(f"no replayed behaviour exercises the {need} handler: the check would be vacuous")
    # reference outcome of every run of every program, from the model's big-step semantics (REF records)
    expects: dict[int, list] = {}
    for r in mc.recs("REF"):
        expects.setdefault(r["pi"], r["refs"])
    if len(expects) != len(progs):
        raise MachineryError(f"reference outcomes for {len(expects)} of {len(progs)} programs")
    for b in behs:
        if not b.get("hung") and len(b["runs"]) == sum(1 for st in progs[b["pi"] - 1]["plan"] if st["k"] == "run"):
            expects.setdefault(b["pi"], expects_from_model(b))
    # ---- 4. spec -> code ------------------------------------------------------------------------------
    traces, meta = [], []
    drift = 0
    stats = {"replayed": 0, "random": 0, "hung_impl": 0, "model_hung_replayed": 0}
    for bi, b in enumerate(behs):
        prog = progs[b["pi"] - 1]
        h = replay_behaviour(ctx, prog, b, f"{tag}b{bi}")
        stats["replayed"] += 1
        if b.get("hung"):
            stats["model_hung_replayed"] += 1
        for rec in h.runs:
            if rec["drift"] is not None:
                drift += 1
                if drift <= 3:
                    ctx.cov.setdefault("asbuilt_drift_samples", []).append(
                        {"prog": prog["ns"], "run": rec["run_index"], **rec["drift"]})
        ts = history_traces(prog, h, expects.get(b["pi"]), f"p{b['pi']}")
        for t, rec in zip(ts, h.runs):
            traces.append(t)
            meta.append({"src": "tlc-behaviour", "pi": b["pi"], "prog": prog, "run": rec["run_index"],
                         "acts": [e["c"] for e in rec["events"] if e["ev"] == "choice"],
                         "hang_key": _hang_key(rec) if rec["out"]["outcome"] == "hang" else None,
                         "plan": prog["plan"]})
        ctx.count_eval()
        if any(e["ev"] == "submit" for rec in h.runs for e in rec["events"]):
            ctx.distinct({"p": prog["tasks"], "plan": prog["plan"],
                          "acts": [[e["c"] for e in rec["events"] if e["ev"] == "choice"] for rec in h.runs]})
        if bi == 0:
            ctx.sample({"source": "tlc-behaviour", "program_root": prog["tasks"][prog["root"]["t"]]["vers"][0],
                        "limits": prog["limits"], "plan": prog["plan"],
                        "choices_run1": meta[-len(h.runs)]["acts"][:30]})
        h.close()
    # ---- 5. corner policies (finish as late / as early as possible, oldest / newest first) for every
    #         program, then seeded random schedules, optionally under other limit configurations -------
    npol = 4 * len(progs)
    for i in range(npol + n_random_hist):
        policy = None
        if i < npol:
            pi = i // 4
            policy = (bool(i % 4 < 2), bool(i % 2))
        else:
            pi = ctx.rng.randrange(len(progs))
        prog = progs[pi]
        lim = None
        if alt_limits and i % 3:
            lim = {r: (1 if i % 3 == 1 else 50) for r in prog["res"]}
            # a job may ask for up to 2 units: keep the premise "no job demands more than the limit"
            need = {r: max([t["units"].get(r, 0) for t in prog["tasks"].values()]
                           + [c.get("u", {}).get(r, 0) for t in prog["tasks"].values() for v in t["vers"]
                              for c in v["children"]] + [1]) for r in prog["res"]}
            lim = {r: max(lim[r], need[r]) for r in lim}
        h = random_history(ctx, prog, f"{tag}r{i}", ctx.rng.choice([0.2, 0.5, 0.8]), limits=lim, policy=policy)
        stats["random"] += 1
        ts = history_traces(prog, h, expects.get(pi + 1), f"p{pi + 1}")
        for t, rec in zip(ts, h.runs):
            traces.append(t)
            meta.append({"src": "policy-schedule" if policy else "random-schedule", "pi": pi + 1, "prog": prog, "run": rec["run_index"],
                         "limits": rec["limits"],
                         "acts": [e["c"] for e in rec["events"] if e["ev"] == "choice"],
                         "hang_key": _hang_key(rec) if rec["out"]["outcome"] == "hang" else None,
                         "plan": prog["plan"]})
        ctx.count_eval()
        ctx.distinct({"p": prog["tasks"], "lim": lim,
                      "acts": [[e["c"] for e in rec["events"] if e["ev"] == "choice"] for rec in h.runs]})
        h.close()
    # ---- 5b. the same plans with ONE Scheduler object for all runs of a history (the model starts every run on
    #          a fresh scheduler: what a previous run left behind -- queued events, jobs still running when it
    #          failed -- must not change what the next run returns) ------------------------------------------
    multi = [i for i, p in enumerate(progs) if sum(1 for st in p["plan"] if st["k"] == "run") >= 2]
    for i in range(n_reuse if multi else 0):
        pi = multi[i % len(multi)] if i < 2 * len(multi) else ctx.rng.choice(multi)
        prog = progs[pi]
        policy = (True, True) if i < len(multi) else None
        h = reuse_history(ctx, prog, f"{tag}u{i}", policy, ctx.rng.choice([0.5, 0.7, 0.9]))
        stats["reused"] = stats.get("reused", 0) + 1
        stats["reused_with_leftovers"] = stats.get("reused_with_leftovers", 0) + (
            1 if any(r["carried"] or (k > 0 and h.runs[k - 1]["out"]["outcome"] == "error")
                     for k, r in enumerate(h.runs)) else 0)
        ts = history_traces(prog, h, expects.get(pi + 1), f"p{pi + 1}")
        for k, (t, rec) in enumerate(zip(ts, h.runs)):
            traces.append(t)
            # leftovers exist when an earlier run of this history raised; the known failure modes are errors
            # raised by the scheduler's own bookkeeping, never a wrong value
            after_failure = any(r["out"]["outcome"] == "error" for r in h.runs[:k])
            stale = after_failure and rec["out"]["outcome"] == "error" and \
                (rec["out"].get("etype") in ("KeyError", "AssertionError", "IntegrityError")
                 # a leftover job of the failed run that carries a Handle created by the previous load of the
                 # program module completes in this run: recording it pickles an instance of the replaced class
                 or (rec["out"].get("etype") == "PicklingError"
                     and "not the same object" in str(rec["out"].get("msg", ""))))
            meta.append({"src": "reused-scheduler", "pi": pi + 1, "prog": prog, "run": rec["run_index"],
                         "limits": rec["limits"], "reuse": True, "stale_key": "scheduler-reuse-stale-events" if stale else None,
                         "acts": [e["c"] for e in rec["events"] if e["ev"] == "choice"],
                         "hang_key": None, "plan": prog["plan"]})
        ctx.count_eval()
        ctx.distinct({"p": prog["tasks"], "reuse": True,
                      "acts": [[e["c"] for e in rec["events"] if e["ev"] == "choice"] for rec in h.runs]})
        h.close()
    ctx.note("asbuilt_drift", drift)
    # ---- 6. negative control + validation ---------------------------------------------------------------
    ctl_index = None
    if corrupt is not None:
        for i, t in enumerate(traces):
            t2 = copy.deepcopy(t)
            if corrupt(t2):
                t2["hdr"]["group"] = ""
                traces.append(t2)
                ctl_index = len(traces) - 1
                break
        if ctl_index is None:
            raise MachineryError("no recorded trace was suitable for the negative control")
    verdicts = validate(ctx, traces, on, tag)
    if ctl_index is not None:
        acc, pos, why = verdicts[ctl_index]
        ctx.negative_control(not acc, f"corrupted recorded trace must be rejected (got: {why or 'accepted'})")
        ctx.note("negative_control_clause", why)
    # ---- 7. verdicts -------------------------------------------------------------------------------------
    nrej = 0
    for i, (acc, pos, why) in enumerate(verdicts):
        if i == ctl_index:
            continue
        ctx.count_impl_trace()
        if acc:
            continue
        nrej += 1
        m = meta[i]
        key = None
        if why.startswith("nohang:quiescent") and m["hang_key"]:
            key = m["hang_key"]
            stats["hung_impl"] += 1
        if m.get("stale_key") and (why.startswith("determ:") or why.startswith("errors:raised-error-not-produced")):
            key = m["stale_key"]
        if (why.startswith("nohang:returned-with-") or why.startswith("callgraph:")
                or why == "limits:units-not-returned") and m["pi"] in orphandev:
            # explained by the as-built model: a caught failure abandons the jobs still running beneath the failed job
            key = "caught-failure-leaves-job-running"
        if why.startswith("callgraph:") and m["pi"] in forkdev:
            # explained by the as-built deviation DevForkAtExec (TLC reports the program)
            key = "handle-fork-order"
        elif why.startswith("callgraph:") and m["pi"] in cseerrdev:
            # explained by the as-built deviation DevCseErrorArg
            key = "cse-replayed-error-arg-hash"
        ev = traces[i]["evs"][pos - 1] if pos - 1 < len(traces[i]["evs"]) else None
        ctx.violation(
            f"recorded execution rejected by Sched_Contract clause '{why}' at event {pos} "
            f"({m['src']}, program {m['prog']['ns']}, run {m['run']}): {ev}",
            {"program": m["prog"], "run": m["run"], "limits": m.get("limits"), "choices": m["acts"],
             "clause": why, "event": ev, "source": m["src"]}, key=key)
    stats["traces"] = len(traces) - (1 if ctl_index is not None else 0)
    stats["rejected"] = nrej
    ctx.note("conformance", stats)
    return {"progs": progs, "traces": traces, "verdicts": verdicts, "meta": meta, "stats": stats}


def replay_record(ctx: Ctx, rec: dict, on: list[str]) -> None:
    """./check Cxx --replay file: re-execute the recorded choices on the current tree and re-judge."""
    r = rec["replay"]
    prog = copy.deepcopy(r["program"])
    prog["ns"] = prog["ns"] + "_rp"
    # the recorded choices belong to run number r["run"]; earlier runs use the default policy
    h = History(ctx, prog, "replay")
    ri = 0
    for st in prog["plan"]:
        if st["k"] == "edit":
            h.edit(st["t"])
            continue
        ri += 1
        ch = simloop.PathChooser(r["choices"]) if ri == r["run"] else simloop.Chooser()
        out = h.run(st["mode"], st["cache"], ch, limits=r.get("limits"))
        if ri == r["run"] or out["out"]["outcome"] == "hang":
            break
    ts = history_traces(prog, h, None, "replay")
    v = validate(ctx, ts, on, "replay")
    for (acc, pos, why), t in zip(v, ts):
        if not acc:
            ctx.violation(f"replayed execution rejected by clause '{why}' at event {pos}", r)
    h.close()


# ------------------------------------------------------------------------------------------------
# the repository's own tests as a trace source (DESIGN 2.3g)
# ------------------------------------------------------------------------------------------------
def suite_test_traces(ctx: Ctx, modules: list[str], timeout: int = 1500) -> tuple[list[dict], dict]:
    """Run the given test modules of /repo with the recording plugin; returns (contract traces, stats)."""
    import subprocess
    import sys

    from .core import REPO, VERIF

    out = ctx.tmp("suite_traces.jsonl")
    if out.exists():
        out.unlink()
    env = dict(os.environ)
    env["VERIF_TRACE_OUT"] = str(out)
    env["PYTHONPATH"] = os.pathsep.join([str(REPO), str(VERIF)])
    cmd = [sys.executable, "-m", "pytest", "-q", "-p", "no:cacheprovider", "-p", "harness.pytest_trace",
           "--timeout=600", "-q", "--deselect", "redun/tests/test_scheduler.py::test_cse_scopes"] \
        + [f"redun/tests/{m}" for m in modules]   # (no -x: a test that is flaky under load must not end the recording)
    p = subprocess.run(cmd, cwd=str(REPO), env=env, capture_output=True, text=True, timeout=timeout)
    stats = {"pytest_rc": p.returncode, "modules": modules, "runs": 0, "skipped": 0, "judged": 0}
    traces = []
    if not out.exists():
        raise MachineryError(f"recording plugin produced no traces (rc={p.returncode}):\n{p.stdout[-1500:]}{p.stderr[-800:]}")
    for line in out.read_text().splitlines():
        r = json.loads(line)
        stats["runs"] += 1
        if r.get("skip") or r["entry"] != "run":
            stats["skipped"] += 1
            continue
        names = sorted(set(r["limits"]) | {"_"} | {k for e in r["events"] if e["ev"] == "submit" for k in e["units"]}
                       | set(r["used_at_end"]) | set(r["used_at_start"]))
        lim = {n: int(r["limits"].get(n, 1)) for n in names}
        keyids: dict = {}
        evs = []
        for e in r["events"]:
            if e["ev"] == "submit":
                kid = keyids.setdefault((e["task_hash"], e["args_hash"], e["ctx"]), len(keyids) + 1)
                evs.append({"ev": "submit", "job": e["job"], "key": kid,
                            "optout": 1 if ("NONE" in e["scope"] or not e["prov"]) else 0,
                            "units": {n: int(e["units"].get(n, 0)) for n in names}})
            elif e["ev"] == "finish":
                evs.append({"ev": "finish", "job": e["job"], "ok": 1 if e["ok"] else 0, "etype": "", "msg": ""})
        # units a previous run on the same Scheduler left behind are not this run's business
        delta = {n: max(0, int(r["used_at_end"].get(n, 0)) - int(r["used_at_start"].get(n, 0))) for n in names}
        evs.append({"ev": "state", "used": delta})
        outcome = "value" if r["outcome"] == "value" else "error"
        evs.append({"ev": "end", "outcome": outcome, "val": 0, "etype": r["outcome"], "msg": ""})
        traces.append({"hdr": {"limits": lim, "mode": r["mode"], "expect": {"res": "none", "v": 0},
                               "prevdry": {"res": "none", "val": 0}, "group": "", "digest": "",
                               "test": r["test"]}, "evs": evs})
        stats["judged"] += 1
    return traces, stats
