"""
Shared helpers of the concurrency checks (C10, C11): TLC counterexample -> label sequence,
label -> source-line anchors computed from the current tree, batched trace validation.
"""

from __future__ import annotations

import ast
import json
import re
from pathlib import Path
from typing import Any, Callable, Optional

from .core import Ctx, MachineryError
from .tlc import TLCResult, run_tlc

_STATE = re.compile(r"^State (\d+): <(\w+)(?:\((.*?)\))? line \d+", re.M)


def cex_labels(res: TLCResult) -> list[str]:
    """Action (= PlusCal label) names along the error trace TLC printed, in order.  For a liveness
    counterexample the stem and the loop are returned as one sequence (the loop once)."""
    return [m.group(2) for m in _STATE.finditer(res.out)]


def cex_final_state(res: TLCResult) -> str:
    i = res.out.rfind("\nState ")
    return res.out[i:i + 1500] if i >= 0 else ""


class Anchors:
    """Text anchors: (function name, regex on the source line) -> line numbers of the current tree."""

    def __init__(self, path: str, cls: Optional[str] = None):
        self.path = path
        self.src = Path(path).read_text().splitlines()
        tree = ast.parse("\n".join(self.src))
        self.funcs: dict[str, list[tuple[int, int]]] = {}
        scope: Any = tree
        if cls is not None:
            found = [n for n in ast.walk(tree) if isinstance(n, ast.ClassDef) and n.name == cls]
            if not found:
                raise MachineryError(f"class {cls} not found in {path}")
            scope = found[0]
        for n in ast.walk(scope):
            if isinstance(n, (ast.FunctionDef, ast.AsyncFunctionDef)):
                self.funcs.setdefault(n.name, []).append((n.lineno, n.end_lineno or n.lineno))
        self.missing: list[str] = []

    def lines(self, func: str, pattern: str) -> set[int]:
        out: set[int] = set()
        rx = re.compile(pattern)
        for a, b in self.funcs.get(func, []):
            for ln in range(a, b + 1):
                if rx.search(self.src[ln - 1]):
                    out.add(ln)
        if not out:
            self.missing.append(f"{func}:/{pattern}/")
        return out

    def has_func(self, func: str) -> bool:
        return func in self.funcs

    def under_with(self, func: str, line: int, ctx_pattern: str) -> Optional[bool]:
        """Is source line `line` of `func` nested in a `with <expr matching ctx_pattern>` block?
        None if the function does not exist."""
        rx = re.compile(ctx_pattern)
        tree = ast.parse("\n".join(self.src))
        found = None
        for fn in ast.walk(tree):
            if isinstance(fn, (ast.FunctionDef, ast.AsyncFunctionDef)) and fn.name == func and \
                    fn.lineno <= line <= (fn.end_lineno or fn.lineno):
                found = False
                for w in ast.walk(fn):
                    if isinstance(w, (ast.With, ast.AsyncWith)) and w.body and \
                            w.body[0].lineno <= line <= (w.body[-1].end_lineno or w.body[-1].lineno) and \
                            any(rx.search(ast.unparse(it.context_expr)) for it in w.items):
                        found = True
        return found


def line_matcher(fname: str, lines: set[int], kind: str = "line") -> Callable[[tuple], bool]:
    def m(loc: tuple) -> bool:
        return len(loc) >= 3 and loc[0] == kind and loc[1] == fname and loc[2] in lines
    return m


def kind_matcher(*kinds: str) -> Callable[[tuple], bool]:
    def m(loc: tuple) -> bool:
        return bool(loc) and loc[0] in kinds
    return m


def any_matcher(*ms: Callable[[tuple], bool]) -> Callable[[tuple], bool]:
    def m(loc: tuple) -> bool:
        return any(x(loc) for x in ms)
    return m


def validate_traces(ctx: Ctx, module: str, cfg: str, traces: list, what: str,
                    timeout: int = 900) -> tuple[dict[int, tuple[bool, int]], TLCResult]:
    """One TLC run over a batch of recorded executions; returns {tid: (accepted, position of the
    first unmatched event)} (tid and position are 1-based) and the TLC result."""
    f = ctx.tmp(f"traces_{what}.json")
    f.write_text(json.dumps(traces))
    res = run_tlc(module, cfg, ctx.scratch, workers=1, env={"TRACE_FILE": str(f)}, deadlock=False,
                  timeout=timeout)
    if res.error:
        raise MachineryError(f"TLC failed on trace validation ({what}): {res.error}\n{res.out[-2500:]}")
    if res.violated:
        raise MachineryError(f"trace spec invariant {res.violated} violated ({what}): the contract spec "
                             f"itself is inconsistent\n{res.out[-2500:]}")
    ctx.add_tlc(res)
    verdicts = {}
    for tid, acc, pos in res.recs("VERDICT"):
        verdicts[tid] = (bool(acc), pos)
    if len(verdicts) != len(traces):
        raise MachineryError(f"trace validation ({what}): {len(verdicts)} verdicts for {len(traces)} traces")
    return verdicts, res


class TLCPool:
    """Runs several TLC processes side by side (each in its own scratch sub-directory) while the
    driver executes schedules on the real code; results are collected by name."""

    def __init__(self, ctx: Ctx, parallel: int = 3):
        from concurrent.futures import ThreadPoolExecutor

        self.ctx = ctx
        self.pool = ThreadPoolExecutor(max_workers=parallel)
        self.futs: dict[str, Any] = {}
        self.n = 0

    def submit(self, name: str, module: str, cfg: str, **kw) -> None:
        self.n += 1
        sub = self.ctx.scratch / f"tlc_{self.n}"
        self.futs[name] = self.pool.submit(run_tlc, module, cfg, sub, **kw)

    def result(self, name: str) -> TLCResult:
        return self.futs[name].result()

    def close(self) -> None:
        self.pool.shutdown(wait=True, cancel_futures=True)


def expect_temporal_violation(res: TLCResult, prop: str, what: str) -> TLCResult:
    """Model-level control for a liveness property.  (This TLC version words the message
    'Temporal property <P> was violated', which harness/tlc.py files under `error`.)"""
    msg = res.error or ""
    if "TemporalProperty" in res.violated or prop in res.violated:
        return res
    if "Temporal propert" in msg and "violated" in msg and (prop in msg or "properties" in msg):
        return res
    raise MachineryError(f"expected temporal property {prop} to be violated in {what}; got "
                         f"violated={res.violated} error={res.error}\n{res.out[-1500:]}")
