"""
Controlled event loop for the real redun Scheduler (DESIGN 2.3a).

`Scheduler.events_queue` is replaced by a SimQueue and every executor by a SimExecutor that only
records submissions.  `SimQueue.get()` is the single choice point of an execution: hand the next
queued event to `_process_events` ("step"), or let one running job complete ("finish", the task
function runs inline and done_job / reject_job appends an event).  Executor threads can only
append to the tail of the queue, so these choices generate exactly the reachable interleavings,
and the scheduler runs single-threaded and deterministically: a schedule is a list of choices.

Observation happens at stable seams only: executor submit, the harness's own done_job/reject_job
calls, public backend methods (wrapped on the instance), `Scheduler.limits_used`, and the outcome
of `Scheduler.run`.  Jobs are named by their creation path in the job tree (root = (), i-th job
created under a parent = parent + (i,)), assigned by a wrapper around `Job.__init__`.
Private attributes (`_jobs_pending_limits`, ...) are read only for the optional as-built
comparison and their absence is tolerated.
"""

from __future__ import annotations

import collections
import logging
import shutil
import sqlite3
import threading
from pathlib import Path
from typing import Any, Callable, Optional


class Hang(Exception):
    """No queued event, nothing running, workflow promise still pending."""


class Diverged(Exception):
    pass


_tls = threading.local()
_patched = False


def _patch_job_init():
    """Name jobs by creation path.  Add-only wrapper around the public class redun.scheduler.Job."""
    global _patched
    if _patched:
        return
    import redun.scheduler as rs

    orig = rs.Job.__init__

    def __init__(self, *a, **kw):
        orig(self, *a, **kw)
        try:
            parent = self.parent_job
            while parent is not None and isinstance(parent, rs.JobEnv):
                parent = parent.job
            if parent is None:
                self._vpath = ()
            else:
                ppath = getattr(parent, "_vpath", None)
                if ppath is None:
                    ppath = parent._vpath = ("?",)
                n = getattr(parent, "_vnkids", 0)
                parent._vnkids = n + 1
                self._vpath = tuple(ppath) + (n + 1,)
            drv = getattr(_tls, "driver", None)
            if drv is not None:
                drv.on_job_created(self)
        except Exception:  # naming must never break the scheduler
            self._vpath = ("?",)

    rs.Job.__init__ = __init__
    _patched = True


def jname(job) -> list:
    return list(getattr(job, "_vpath", ("?",)))


def _call_in_thread(func, args, kwargs):
    box: dict = {}

    def go():
        try:
            box["r"] = func(*args, **kwargs)
        except BaseException as e:  # noqa
            box["e"] = e

    t = threading.Thread(target=go)
    t.start()
    t.join()
    if "e" in box:
        raise box["e"]
    return box["r"]


class SimQueue:
    def __init__(self, driver: "Driver"):
        self.d = driver
        self.q: collections.deque = collections.deque()

    def put(self, fn: Callable, *a, **kw) -> None:
        self.q.append(fn)

    def empty(self) -> bool:
        return not self.q

    def qsize(self) -> int:
        return len(self.q)

    def get(self, *a, **kw) -> Callable:
        return self.d.next_event()


def make_executor_class():
    from redun.executors.base import Executor

    class SimExecutor(Executor):
        def __init__(self, name: str, driver: "Driver", supports_async: bool = True):
            super().__init__(name)
            self.d = driver
            self._async = supports_async

        def supports_async(self) -> bool:
            return self._async

        def submit(self, job) -> None:
            self.d.on_submit(self, job, script=False)

        def submit_script(self, job) -> None:
            self.d.on_submit(self, job, script=True)

    return SimExecutor


class Chooser:
    """Default policy: process queued events first, then finish the oldest running job."""

    def choose(self, choices: list, d: "Driver"):
        return choices[0]


class RandomChooser(Chooser):
    def __init__(self, rng, p_finish: float = 0.5):
        self.rng, self.p = rng, p_finish

    def choose(self, choices, d):
        fins = [c for c in choices if c[0] == "finish"]
        steps = [c for c in choices if c[0] == "step"]
        if fins and (not steps or self.rng.random() < self.p):
            return self.rng.choice(fins)
        return steps[0]


class PolicyChooser(Chooser):
    """Deterministic corner policies: finish as late as possible (only when no event is queued) or as
    early as possible, taking the oldest or the newest running job."""

    def __init__(self, late: bool, newest: bool):
        self.late, self.newest = late, newest

    def choose(self, choices, d):
        fins = [c for c in choices if c[0] == "finish"]
        steps = [c for c in choices if c[0] == "step"]
        if fins and (not steps or not self.late):
            return fins[-1] if self.newest else fins[0]
        return steps[0]


class PathChooser(Chooser):
    """Follow a list of acts [["step"] | ["finish", path]]; afterwards (or on divergence) default."""

    def __init__(self, acts: list):
        self.acts = [tuple([a[0]] + ([tuple(a[1])] if len(a) > 1 else [])) for a in acts]
        self.i = 0
        self.diverged_at: Optional[int] = None

    def choose(self, choices, d):
        if self.diverged_at is None and self.i < len(self.acts):
            want = self.acts[self.i]
            for c in choices:
                if c[0] == want[0] and (c[0] == "step" or tuple(c[1]) == want[1]):
                    self.i += 1
                    return c
            self.diverged_at = self.i
        return choices[0]


class Driver:
    def __init__(self, scheduler, chooser: Chooser, call_counter: Optional[dict] = None):
        _patch_job_init()
        self.s = scheduler
        self.chooser = chooser
        self.running: list = []
        self.events: list[dict] = []  # recorded trace
        self.submitted: list = []
        self.nsteps = 0
        self.njobs = 0
        self.calls = call_counter if call_counter is not None else {}
        self.queue = SimQueue(self)
        scheduler.events_queue = self.queue
        self.max_steps = 20000
        self.obs_hook: Optional[Callable] = None
        self.last_choice = None
        self.abs: Callable[[Any], Any] = lambda job: None  # job -> abstract key fields

    # ---- seams --------------------------------------------------------------------------------
    def on_job_created(self, job) -> None:
        self.njobs += 1

    def on_submit(self, executor, job, script: bool) -> None:
        self.running.append(job)
        # the units the job DECLARES (task definition overridden by call-time / exported options), read through the
        # option interface and parsed here: not through Job.get_limits(), which is the code under test
        try:
            lim = job.get_option("limits", {}) if job.task else {}
            if isinstance(lim, (list, tuple, set)):
                lim = {n: 1 for n in lim}
            units = {k: int(v) for k, v in dict(lim).items() if v}
        except Exception:  # noqa
            units = {k: v for k, v in dict(job.get_limits()).items() if v}
        ev = {"ev": "submit", "job": jname(job), "task": job.task.fullname,
              "task_hash": job.task.hash, "args_hash": job.args_hash, "eval_hash": job.eval_hash,
              "ctx": job.context_hash or "", "units": units, "executor": executor.name,
              "scope": str(job.get_option("cache_scope", "BACKEND")),
              "prov": bool(job.recording_provenance())}
        self.submitted.append(jname(job))
        self.events.append(ev)

    def finish(self, job) -> None:
        self.running.remove(job)
        args, kwargs = job.args
        key = (job.task.fullname, repr(args), repr(sorted(kwargs.items())))
        self.calls[key] = self.calls.get(key, 0) + 1
        try:
            if job.task.fullname == "redun.subrun_root_task":
                # a sub-scheduler registers itself as the thread's current scheduler and unregisters
                # at the end: run it in its own thread, as every real executor does
                result = _call_in_thread(job.task.func, args, kwargs)
            else:
                result = job.task.func(*args, **kwargs)
            if job.task.is_async():
                # async task functions return a coroutine: run it to completion here (the library
                # tasks used under the controlled loop do not await redun expressions)
                import asyncio

                loop = asyncio.new_event_loop()
                try:
                    result = loop.run_until_complete(result)
                finally:
                    loop.close()
            ok = True
        except Exception as e:  # noqa
            result, ok = e, False
        ev = {"ev": "finish", "job": jname(job), "ok": ok}
        if not ok:
            ev["etype"], ev["msg"] = type(result).__name__, str(result)
        self.events.append(ev)
        if ok:
            self.s.done_job(job, result)
        else:
            self.s.reject_job(job, result)

    def attach_backend(self, backend) -> None:
        """Log public backend calls (job start / end) by shadowing the bound methods on the instance."""
        d = self
        orig_start, orig_end = backend.record_job_start, backend.record_job_end

        def record_job_start(job, *a, **kw):
            d.events.append({"ev": "job_start", "job": jname(job)})
            return orig_start(job, *a, **kw)

        def record_job_end(job, *a, **kw):
            status = kw.get("status") or (a[1] if len(a) > 1 else None)
            d.events.append({"ev": "job_end", "job": jname(job),
                             "status": status or ("CACHED" if job.was_cached else "DONE"),
                             "cached": bool(job.was_cached)})
            return orig_end(job, *a, **kw)

        backend.record_job_start = record_job_start
        backend.record_job_end = record_job_end

        # ultimate-reduction answers: the TRUE subtree of the replayed call node (every task hash reachable over the
        # recorded call edges, the Merkle record itself) against the registry hashes the lookup was given
        orig_check = backend.check_cache

        def check_cache(task_hash, args_hash, eval_hash, execution_id, scheduler_task_hashes, *a, **kw):
            r = orig_check(task_hash, args_hash, eval_hash, execution_id, scheduler_task_hashes, *a, **kw)
            try:
                if r[1] is not None and "ULTIMATE" in str(r[2]):
                    from redun.backends.db import CallEdge, CallNode

                    seen, todo, hashes = set(), [r[1]], set()
                    while todo:
                        h = todo.pop()
                        if h in seen:
                            continue
                        seen.add(h)
                        node = backend.session.query(CallNode).filter_by(call_hash=h).first()
                        if node is not None:
                            hashes.add(node.task_hash)
                        todo += [c for (c,) in backend.session.query(CallEdge.child_id).filter_by(parent_id=h)]
                    stale = sorted(hashes - set(scheduler_task_hashes))
                    d.events.append({"ev": "ult_hit", "call": r[1], "nodes": len(seen), "stale": len(stale)})
            except Exception as e:  # noqa  (observation must never break the scheduler)
                d.events.append({"ev": "ult_hit", "call": "?", "nodes": 0, "stale": 0, "obs_error": type(e).__name__})
            return r

        backend.check_cache = check_cache

    # ---- the choice point ---------------------------------------------------------------------
    def observe(self) -> dict:
        s = self.s
        used = {k: v for k, v in dict(s.limits_used).items() if v}
        o = {"used": used, "running": sorted(jname(j) for j in self.running),
             "qlen": len(self.queue.q), "njobs": self.njobs, "nsub": len(self.submitted)}
        w = getattr(s, "_jobs_pending_limits", None)
        if w is not None:
            try:
                o["waiting"] = [jname(j) for j, _ in w]
            except Exception:
                pass
        return o

    def next_event(self) -> Callable:
        while True:
            # state after the previous step / finish
            self.events.append({"ev": "state", "after": self.last_choice, **self.observe()})
            self.nsteps += 1
            if self.nsteps > self.max_steps:
                raise Hang("step bound exceeded")
            choices: list = []
            if self.queue.q:
                choices.append(("step",))
            for j in self.running:
                choices.append(("finish", tuple(jname(j))))
            if not choices:
                self.events.append({"ev": "hang"})
                raise Hang("no event queued, nothing running, workflow pending")
            c = self.chooser.choose(choices, self)
            self.last_choice = [c[0]] + ([list(c[1])] if len(c) > 1 else [])
            self.events.append({"ev": "choice", "c": self.last_choice})
            if c[0] == "step":
                return self.queue.q.popleft()
            job = next(j for j in self.running if tuple(jname(j)) == tuple(c[1]))
            self.finish(job)


# ------------------------------------------------------------------------------------------------
# backends and schedulers
# ------------------------------------------------------------------------------------------------
_template: dict[str, Path] = {}


def template_db(scratch: Path) -> Path:
    """A migrated, empty sqlite database file; cloned per history (migration costs ~150 ms)."""
    key = str(scratch)
    if key not in _template:
        from redun.backends.db import RedunBackendDb

        p = scratch / "template.db"
        b = RedunBackendDb(db_uri=f"sqlite:///{p}")
        b.load()
        b.session.close()
        b.engine.dispose()
        _template[key] = p
    return _template[key]


_shm: dict[str, Path] = {}


def fast_dir(scratch: Path) -> Path:
    """Database files live on tmpfs when available: redun commits hundreds of times per run and
    every commit of a disk-backed sqlite file is an fsync."""
    key = str(scratch)
    if key not in _shm:
        import atexit
        import tempfile

        d = None
        if Path("/dev/shm").is_dir():
            try:
                d = Path(tempfile.mkdtemp(prefix="verif_db_", dir="/dev/shm"))
                atexit.register(shutil.rmtree, d, True)
            except OSError:
                d = None
        _shm[key] = d or scratch
    return _shm[key]


def clone_db(scratch: Path, name: str) -> Path:
    t = template_db(scratch)
    p = fast_dir(scratch) / name
    shutil.copyfile(t, p)
    return p


def open_backend(path: Path):
    from redun.backends.db import RedunBackendDb

    b = RedunBackendDb(db_uri=f"sqlite:///{path}")
    b.load(migrate=False)
    return b


def close_backend(b) -> None:
    try:
        if b.session:
            b.session.close()
        if b.engine:
            b.engine.dispose()
    except Exception:
        pass


def quiet_logs() -> None:
    from redun.logging import logger

    logger.setLevel(logging.ERROR)


def make_scheduler(backend, limits: Optional[dict] = None, chooser: Optional[Chooser] = None,
                   executors=("default",), context: Optional[dict] = None,
                   config_extra: Optional[dict] = None):
    """Real Scheduler under the controlled loop.  Returns (scheduler, driver)."""
    from redun import Scheduler
    from redun.config import Config

    quiet_logs()
    cfg: dict = {}
    if limits:
        cfg["limits"] = {k: str(v) for k, v in limits.items()}
    if context is not None:
        import json

        cfg["scheduler"] = {"context": json.dumps(context)}
    if config_extra:
        for k, v in config_extra.items():
            cfg.setdefault(k, {}).update(v)
    SimExecutor = make_executor_class()
    placeholder = SimExecutor("__placeholder__", None)  # avoid default LocalExecutors
    s = Scheduler(config=Config(config_dict=cfg), backend=backend, executor=placeholder)
    s.executors.clear()
    d = Driver(s, chooser or Chooser())
    d.attach_backend(backend)
    for name in executors:
        s.add_executor(SimExecutor(name, d))
    return s, d


def run_controlled(scheduler, driver: Driver, expr, **run_kwargs) -> dict:
    """Run `expr`; returns {"outcome": value|error|dry|hang, ...}.  Never raises for task errors."""
    from redun.scheduler import DryRunResult

    _tls.driver = driver
    try:
        try:
            v = scheduler.run(expr, **run_kwargs)
            out = {"outcome": "value", "value": v}
        except DryRunResult:
            out = {"outcome": "dry"}
        except Hang as h:
            out = {"outcome": "hang", "msg": str(h)}
        except Exception as e:  # noqa
            out = {"outcome": "error", "etype": type(e).__name__, "msg": str(e), "exc": e}
    finally:
        _tls.driver = None
    driver.events.append({"ev": "state", "after": driver.last_choice, **driver.observe()})
    driver.events.append({"ev": "end", **{k: v for k, v in out.items() if k != "exc"}})
    return out
