"""
C04  Cached results with external values are replayed only while still valid.

Spec: spec/seq/FileValues.tla (shared with C30) -- on top of the file system and the file value
classes with their recorded hashes, a workflow whose task writes its outputs through redun and
returns them bare, in a list or in a dict; Run is one Scheduler.run over [cached result, execution
count]: the stored result is replayed iff one exists and every external value in it is valid
(recorded hash = current hash, immutable classes always), otherwise the task re-executes, run()
does not raise, and the new result carries the hashes of the current state.  Environment actions
between runs: delete / truncate / rewrite (same size, same mtime, other bytes included) / recreate /
touch a path, add or remove a directory member.  The code as built leaves the contract in one
place, the named deviation DevContentMissing (the validity check of a ContentFile whose file was
deleted opens the file): TLC shows RunNeverRaises fails exactly through it.

Binding, both directions:
  spec -> code: every [run, environment change, run] history of every class (exhaustive tree) and
                simulated longer histories of one- and two-value results run through a real
                Scheduler (in-memory sqlite backend, a fresh Scheduler per run, a generated task
                module with its own namespace counting executions, outputs written through
                File.open with explicitly set mtimes); observed (re-executed? raised? result hashes,
                final files) are compared with the model, and the property's own predicate
                (replayed iff the previous result was valid) is evaluated on the real objects.
  code -> spec: seeded random longer histories are executed on the real scheduler, recorded and
                validated by TLC (FileValues_Trace) with the invariants evaluated at every step.
"""

from __future__ import annotations

import copy

from .. import filevalues as fv
from ..core import Ctx, MachineryError
from ..tlc import expect_clean, run_tlc

META = {
    "level": "model_checking",
    "level_text": "TLC checks on every history of <= 4 (two-value results) / 6 (one-value results) runs and "
                  "environment changes (thorough; quick: 3 / 4) -- delete, truncate, rewrite, recreate, "
                  "touch, directory member added or removed -- over 2 paths + 1 directory, for a result "
                  "holding one value of any of the nine file value classes or any ordered pair of them, "
                  "that the stored result is replayed iff every external value in it is still valid, that "
                  "otherwise the task re-executes exactly once and run() does not raise, and that the "
                  "result then carries the current hashes -- strictly for the repaired model, and for the "
                  "as-built model except through the named ContentFile deviation.  Every run/change/run "
                  "history of every class, simulated longer histories (bare, list and dict results) and "
                  "seeded random ones are executed through a real Scheduler and compared with the model, "
                  "in both directions.",
    "level_note": "Handles (the other external value of the statement) are covered by C25, not here; local "
                  "file system; default thread executor, one task, check_valid='full'; the list and the "
                  "dict shape are the same model behaviour (the shape is exercised by the replay); the "
                  "order in which the scheduler validates the values of a nested result is left open by "
                  "the model (when one value raises and another is invalid either outcome is admitted "
                  "for the as-built code).",
    "technique": "explicit TLA+ spec (history contract over cached result and execution count + as-built "
                 "transcription of the validity check + named deviation) + TLC exhaustive check; "
                 "spec->code history replay through a real Scheduler; code->spec batched trace "
                 "validation by TLC",
    "rule": "a case is one history of runs and environment changes for one result (shape, classes, "
            "paths); distinct = distinct (result, history); non-trivial = the history contains a run "
            "that replayed a stored result and a run that re-executed (or raised) because a stored "
            "result was no longer valid",
}

U = dict(dirs=["d"], names=["a", "b"])
AS_BUILT = ["RunRaisesOnlyThroughDev", "ReplayIffValid", "RaiseOnlyWhenInvalid", "ResultReflects", "Witness"]
REPAIRED = ["RunNeverRaises", "ReplayIffValid", "ResultReflects"]
W_RUN = "RunNeverRaises content-missing"


def model_check(ctx: Ctx) -> None:
    common = dict(**U, mtimes=[1, 2], classes=fv.ALL_CLS, max_objs=0)
    if ctx.quick:
        plan = [("as-built", ("bare", "list"), [2, 3], 3), ("as-built", ("bare",), [1, 2, 3], 4),
                ("repaired", ("bare",), [1, 2, 3], 4)]
    else:
        plan = [("as-built", ("bare", "list"), [1, 2, 3], 4), ("as-built", ("bare",), [1, 2, 3], 6),
                ("repaired", ("bare", "list"), [1, 2, 3], 4)]
    runs = []
    timing: list = []
    witnesses: set = set()
    for kind, shapes, bts, depth in plan:
        ab = kind == "as-built"
        cfg = fv.cfg_text("SpecRuns", **common, bytes_=bts, max_ops=depth, shapes=shapes, dev_cm=ab, dev_dc=ab,
                          invariants=AS_BUILT if ab else REPAIRED, properties=["ExecCounts"])
        what = f"{kind} shapes={list(shapes)} bytes={bts} steps<={depth}"
        res = expect_clean(run_tlc("seq/FileValues.tla", cfg, ctx.scratch, workers=ctx.pick(4, 12),
                                   timeout=2400, heap=ctx.pick("3g", "8g")),
                           f"FileValues.tla runs {what}")
        ctx.add_tlc(res)
        if ab:
            witnesses |= set(res.recs("WITNESS"))
        else:
            ctx.require(not res.recs("WITNESS"), "the repaired model printed a control witness")
        runs.append(f"{what}: {res.distinct} states, {res.generated} transitions")
        timing.append(round(res.wall_s, 1))
    ctx.note("model_runs", runs)
    ctx.note("model_run_seconds", timing)
    ctx.negative_control(W_RUN in witnesses,
                         "model control: RunNeverRaises fails in the as-built model (through DevContentMissing; "
                         "RunRaisesOnlyThroughDev holds in the same runs, RunNeverRaises in the repaired ones)")


def nontrivial(info: dict) -> bool:
    return info["replay"] >= 1 and (info["reexec"] >= 1 or info["raise"] >= 1)


def replay_all(ctx: Ctx, rep: fv.Reporter, lab: fv.SchedLab, behs: list, source: str, stats: dict,
               shapes=None) -> None:
    for n, b in enumerate(behs):
        root = ctx.scratch / "r" / f"{source}_{n}"
        shape = None
        if shapes and b["wf"]["shape"] != "bare":
            shape = shapes[n % len(shapes)]
        info = fv.replay_runs_behaviour(rep, lab, b, root, U["dirs"], U["names"], source, shape)
        fv.cleanup_root(root)
        ctx.count_eval()
        ctx.count_impl_trace()
        stats["histories"] += 1
        stats["scheduler_runs"] += info["runs"]
        for k in ("exec", "replay", "raise", "reexec"):
            stats[k] += info[k]
        stats["diverged_order_dependent"] += 1 if info["diverged"] else 0
        stats["violating"] += 1 if info["viol"] else 0
        if nontrivial(info):
            ctx.distinct([b["wf"], shape, [s["op"] for s in b["steps"]]])


def run(ctx: Ctx) -> None:
    ctx.assume("local file system; one task writing its outputs through File.open; default thread executor",
               "mtimes are set explicitly, never by waiting",
               "a fresh Scheduler per run on one in-memory sqlite backend (as successive `redun run` "
               "invocations would)",
               "hash collisions of the real hash function are excluded (hashes compared up to a bijection)")
    fv.install_controlled_fs()
    fv.quiet_redun()

    phases: dict = {}

    def mark(name: str, _t=[ctx.elapsed()]) -> None:
        phases[name] = round(ctx.elapsed() - _t[0], 1)
        _t[0] = ctx.elapsed()
        ctx.note("phase_seconds", phases)

    # ---- 1. model checking ------------------------------------------------------------------
    model_check(ctx)
    mark("model_check")

    # ---- 2. which deviations does this tree have? ---------------------------------------------
    dev = fv.probe_deviations(ctx.scratch)
    ctx.note("deviations_present", dev)
    flags = dict(dev_cm=dev["cm"], dev_dc=dev["dc"])
    rep = fv.Reporter(ctx)
    lab = fv.SchedLab(ctx)
    stats = {"histories": 0, "scheduler_runs": 0, "exec": 0, "replay": 0, "raise": 0, "reexec": 0,
             "diverged_order_dependent": 0, "violating": 0}
    common = dict(**U, bytes_=[1, 2, 3], mtimes=[1, 2], classes=fv.ALL_CLS, max_objs=0)

    # ---- 3. spec -> code: every [run, change, run] history of every class ----------------------
    gcfg = fv.cfg_text("GSpecRunsTree", **common, max_ops=3, shapes=("bare",), **flags,
                       invariants=["Emit"], view=False)
    g = run_tlc("seq/FileValues_Gen.tla", gcfg, ctx.scratch, workers=4, timeout=1500, heap="8g")
    ctx.require(g.ok, f"FileValues_Gen (runs tree) failed: {g.error} {g.violated}")
    ctx.add_tlc(g)
    behs = sorted(g.recs("BEH"), key=lambda b: fv.json.dumps(b, sort_keys=True))
    ctx.require(len(behs) >= 500, f"too few histories from TLC: {len(behs)}")
    mark("tree_tlc")
    if ctx.quick:   # every class and every change, one of the two run times for the first run
        behs = [b for b in behs if b["steps"][0]["op"]["m"] == 1]
    replay_all(ctx, rep, lab, behs, "tree3", stats)
    mark("tree_replay")
    ctx.sample({"source": "tlc-exhaustive", "wf": behs[len(behs) // 3]["wf"],
                "ops": [s["op"] for s in behs[len(behs) // 3]["steps"]]})

    # ---- 4. spec -> code: simulated longer histories, all shapes --------------------------------
    nsim = ctx.pick(80, 1500)
    depth = ctx.pick(5, 7)
    scfg = fv.cfg_text("GSpecRuns", **common, max_ops=depth, shapes=("bare", "list"), **flags,
                       invariants=["EmitSim"], view=False)
    sres = run_tlc("seq/FileValues_Gen.tla", scfg, ctx.scratch, workers=1, simulate=f"num={nsim}",
                   depth=depth + 1, seed=ctx.seed + 1, timeout=1500, heap="8g")
    ctx.require(sres.error is None and not sres.violated, f"simulate failed: {sres.error} {sres.violated}")
    ctx.add_tlc(sres)
    sbehs = sres.recs("BEH")
    ctx.require(len(sbehs) >= nsim // 2, f"too few simulated histories: {len(sbehs)}")
    mark("sim_tlc")
    replay_all(ctx, rep, lab, sbehs, f"sim{depth}", stats, shapes=("list", "dict", "partial"))
    mark("sim_replay")
    ctx.sample({"source": "tlc-simulate", "wf": sbehs[0]["wf"], "ops": [s["op"] for s in sbehs[0]["steps"]]})
    ctx.note("replay_stats", stats)

    # ---- 5. code -> spec: random histories on the real scheduler, validated by TLC ---------------
    ntr = ctx.pick(80, 1000)
    tu = dict(dirs=["d", "e"], names=["a", "b"], bytes_=[1, 2, 3, 4], mtimes=[1, 2, 3])
    traces = []
    for n in range(ntr):
        root = ctx.scratch / "t" / str(n)
        tr = fv.record_runs_trace(ctx.rng, lab, root, ctx.rng.randint(5, 10), tu["dirs"], tu["names"],
                                  tu["bytes_"], tu["mtimes"], fv.ALL_CLS, ("bare", "list", "dict"))
        fv.cleanup_root(root)
        traces.append(tr)
    mark("record_traces")

    # negative controls: a re-execution recorded as a replay; an execution count off by one
    def second_exec(t):
        seen = 0
        for i, s in enumerate(t["steps"]):
            if s["obs"]["kind"] == "exec":
                seen += 1
                if seen == 2:
                    return i
        return None

    allt = list(traces)
    ctl1, ctl2 = [], []
    for tid, t in enumerate(traces, 1):
        k1 = second_exec(t)
        if k1 is not None and len(ctl1) < 3:
            bad = copy.deepcopy(t)
            bad["steps"][k1]["op"]["c"] = "replay"
            bad["steps"][k1]["obs"]["kind"] = "replay"
            allt.append(bad)
            ctl1.append((tid, len(allt), (2, k1 + 1)))
        k2 = next((i for i, s in enumerate(t["steps"]) if s["obs"]["kind"] in ("replay", "exec")), None)
        if k2 is not None and len(ctl2) < 3:
            bad = copy.deepcopy(t)
            bad["steps"][k2]["obs"]["count"] += 1
            allt.append(bad)
            ctl2.append((tid, len(allt), (0, k2 + 1)))
    verdicts, tres = fv.validate_traces(ctx, allt, "runs", **tu, max_objs=0, **flags,
                                        invariants=["RunRaisesOnlyThroughDev", "ReplayIffValid",
                                                    "RaiseOnlyWhenInvalid", "ResultReflects"],
                                        properties=["TExecCounts"])
    mark("trace_tlc")
    ctx.require(len(verdicts) == len(allt), f"verdicts {len(verdicts)} != traces {len(allt)}")
    nontriv = 0
    for tid in range(1, len(traces) + 1):
        code, pos = verdicts[tid]
        tr = traces[tid - 1]
        ctx.count_eval()
        ctx.count_impl_trace()
        kinds = [s["obs"]["kind"] for s in tr["steps"]]
        odd = [k for k in kinds if k not in ("exec", "replay", "raise", "env")]
        if odd:
            rep.report(f"a run of a recorded history ended with {odd[0]} (result {tr['wf']})",
                       {"kind": "runs-trace", "trace": tr, "at": kinds.index(odd[0]), "universe": tu}, None)
            continue
        if "replay" in kinds and (kinds.count("exec") >= 2 or "raise" in kinds):
            ctx.distinct([tr["wf"], [s["op"] for s in tr["steps"]]])
            nontriv += 1
        for i, s in enumerate(tr["steps"]):
            if s["obs"]["kind"] == "raise":
                missing_cf = any(it["cls"] == "ContentFile" for it in tr["wf"]["items"])
                rep.report(f"Scheduler.run raised at step {i + 1} of a recorded history of a {tr['wf']['shape']} "
                           f"result {[it['cls'] for it in tr['wf']['items']]}",
                           {"kind": "runs-trace", "trace": tr, "at": i, "universe": tu},
                           fv.KEY_RUN if missing_cf else None)
                break
        if code == 1:
            continue
        st = tr["steps"][pos - 1]
        if code == 2 and st["op"]["n"] != "run":
            raise MachineryError(f"recorded environment change not enabled in FileValues.tla at step {pos}: {st['op']}")
        rep.report(f"recorded history rejected by FileValues_Trace at step {pos}: "
                   f"{'outcome not admitted by the model' if code == 2 else 'observation differs'}: "
                   f"result {tr['wf']['shape']} {[it['cls'] for it in tr['wf']['items']]}, op={st['op']}, "
                   f"observed kind={st['obs']['kind']} count={st['obs']['count']} res={st['obs']['res']}",
                   {"kind": "runs-trace", "trace": tr, "at": pos - 1, "universe": tu}, None)
    if tres.violated:
        rep.report(f"invariant {tres.violated} violated on a recorded history", {"out": tres.out[-3000:]}, None)
    ctx.note("recorded_traces", {"n": len(traces), "nontrivial": nontriv})
    ctx.sample({"source": "recorded-trace", "wf": traces[0]["wf"], "ops": [s["op"] for s in traces[0]["steps"]]})
    fv.judge_controls(ctx, verdicts, ctl1, "a re-execution recorded as a replay must be rejected at that run")
    fv.judge_controls(ctx, verdicts, ctl2, "an execution count off by one must be rejected at that step")
    ctx.note("keyed_occurrences", dict(rep.keyed))


def replay(ctx: Ctx, rec: dict) -> None:
    fv.install_controlled_fs()
    fv.quiet_redun()
    r = rec["replay"]
    rep = fv.Reporter(ctx)
    lab = fv.SchedLab(ctx)
    if r.get("kind") == "runs":
        # the recorded model expectations belong to the tree the violation was found on; what is
        # re-evaluated is the property's own predicate on the current tree
        fv.replay_runs_behaviour(rep, lab, r["behaviour"], ctx.scratch / "replay", r["dirs"], r["names"],
                                 "replay", r.get("shape"))
    elif r.get("kind") == "runs-trace":
        tu = r["universe"]
        tr0 = r["trace"]
        w = fv.RunWorld(lab, ctx.scratch / "replay", tr0["wf"])
        tok = fv.Interner()
        steps = []
        for s in tr0["steps"]:
            op = dict(s["op"])
            if op["n"] == "run":
                kind, _ = w.run(op["m"])
                op["c"] = kind
            else:
                w.apply(op)
                kind = "env"
            steps.append({"op": op, "obs": {
                "objs": [], "raised": 1 if kind == "raise" else 0, "kind": kind, "count": w.count,
                "res": [{"h": tok(o["h"]), "f": tok(o["f"])} for o in (w.res_obs() if w.result else [])]}})
            if kind == "raise":
                ctx.violation(f"Scheduler.run raised at step {len(steps)}", {"trace": steps},
                              key=fv.KEY_RUN if any(it["cls"] == "ContentFile" for it in tr0["wf"]["items"]) else None)
        dev = fv.probe_deviations(ctx.scratch)
        verdicts, _ = fv.validate_traces(ctx, [{"wf": tr0["wf"], "steps": steps}], "replay", **tu, max_objs=0,
                                         dev_cm=dev["cm"], dev_dc=dev["dc"],
                                         invariants=["ReplayIffValid", "ResultReflects"], properties=[])
        if verdicts[1][0] != 1:
            ctx.violation(f"replayed history rejected at step {verdicts[1][1]}", {"trace": steps})
    else:
        run(ctx)
