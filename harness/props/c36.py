"""
C36  Schema migrations preserve recorded data.

Spec: spec/seq/Migrations.tla -- the alembic chain as a state machine over an abstract database, one
action per revision with its contract (tables / columns added with NULL, Value back-fill for lonely
Tasks, stub Executions + execution_id back-fill through the parent chain + NOT NULL, local -> UTC
job times).  TLC: from every starting version and every small population, after every suffix of the
chain, original rows are kept with equal shared columns (times: same instant, same precision), new
rows are only contract-created ones, and the latest version is loadable; with the deviation
SubsecondLost (datetime(x, 'utc') formats whole seconds) exactly the precision clause fails.

Binding (code -> spec, Migrations_Trace.tla): for every supported earlier version the REAL alembic
chain builds that schema in a fresh SQLite file (RedunBackendDb.migrate(version)), the file is
populated by INSERTs generated from the reflected schema (seeded; job forests with and without
executions, tasks with and without companion values, NULL end times, microsecond timestamps incl.
fractions that round up), then upgraded by the library one revision at a time AND in a single
migrate() call on a copy.  (schema, rows) before / after every upgrade are dumped through raw sqlite
and validated by TLC against the per-revision contracts; finally RedunBackendDb.load() opens the
result, the ORM reads every migrated job / execution / tag, and a trivial workflow runs twice (the
second time from the cache).  The process time zone is set explicitly (revision 10 converts from
*local* time) and several zones are used.
"""

from __future__ import annotations

import copy
import datetime as dt
import hashlib
import json
import os
import shutil
import sqlite3
import time
from concurrent.futures import ThreadPoolExecutor
from pathlib import Path
from typing import Any, Optional

from ..core import Ctx
from ..tlc import expect_clean, expect_violation, run_tlc

META = {
    "level": "model_checking",
    "level_text": "TLC checks row / shared-column preservation, contract-only new rows and loadability "
                  "for every starting version, every small population and every suffix of the revision "
                  "chain of the abstract model (the precision clause fails exactly through the named "
                  "deviation); real SQLite databases of every historical version, built by the real "
                  "alembic chain, populated and upgraded by the library stepwise and directly, are "
                  "validated by TLC against the same per-revision contracts, then loaded and used.",
    "level_note": "SQLite branch of the migrations only (the PostgreSQL branches of revisions "
                  "d4af139b6f53, eb7b95e4e8bf, 3b0a6e67cc58 are not executed); populations are "
                  "synthetic rows that satisfy the foreign keys, not histories written by old redun "
                  "releases; indexes are not compared; downgrades are out of scope.",
    "technique": "explicit TLA+ spec + TLC (exhaustive abstract chain; batched validation of "
                 "before/after dumps of real upgrades against the revision contracts)",
    "rule": "a case is one populated database (start version, time zone, population seed) upgraded "
            "stepwise and in one call; distinct = distinct (version, zone, seed); non-trivial = the "
            "population has rows in at least 10 tables including jobs with sub-second start times",
}

KEY_SUBSEC = "utc-migration-drops-subsecond"
BASE = dt.datetime(2020, 1, 1, tzinfo=dt.timezone.utc)
BOOKKEEPING = {"alembic_version", "redun_version"}
TIME_CELLS = {("job", "start_time"), ("job", "end_time")}


# ------------------------------------------------------------------------------------------------
# the chain
# ------------------------------------------------------------------------------------------------
def versions():
    from redun.backends.db import REDUN_DB_VERSIONS

    return list(REDUN_DB_VERSIONS)


EXPECTED_CHAIN = ["806f5dcb11bf", "647c510a77b1", "30ffbaee18cd", "71ec303c90e4", "d4af139b6f53",
                  "cd2d53191748", "cc4f663817b6", "eb7b95e4e8bf", "f68b3aaee9cc", "3b0a6e67cc58",
                  "0bee3d6dba76"]


def set_tz(name: str) -> None:
    os.environ["TZ"] = name
    time.tzset()


def probe_tz(ctx: Ctx, name: str, hours: float) -> None:
    c = sqlite3.connect(":memory:")
    got = c.execute("select datetime('2021-01-15 12:00:00', 'utc')").fetchone()[0]
    c.close()
    want = (dt.datetime(2021, 1, 15, 12) + dt.timedelta(hours=hours)).strftime("%Y-%m-%d %H:%M:%S")
    ctx.require(got == want, f"SQLite does not follow TZ={name}: datetime(.., 'utc') gave {got}, expected {want}")


def open_at(path: Path, version) -> Any:
    from redun.backends.db import RedunBackendDb

    b = RedunBackendDb(db_uri=f"sqlite:///{path}")
    b.create_engine()
    if version is not None:
        b.migrate(version)
    return b


def close(b) -> None:
    try:
        b.session.close()
        b.engine.dispose()
    except Exception:
        pass


# ------------------------------------------------------------------------------------------------
# population: INSERTs generated from the reflected schema
# ------------------------------------------------------------------------------------------------
def reflect(c: sqlite3.Connection) -> dict:
    out = {}
    for (name,) in c.execute("select name from sqlite_master where type = 'table' and name not like 'sqlite_%' order by name"):
        info = list(c.execute(f"pragma table_info('{name}')"))
        out[name] = {"cols": [r[1] for r in info], "types": {r[1]: (r[2] or "").upper() for r in info},
                     "notnull": [r[1] for r in info if r[3]], "pk": [r[1] for r in sorted(info, key=lambda r: r[5]) if r[5]]}
    return out


def populate(path: Path, rng, vidx: int) -> dict:
    """vidx: 1-based index of the schema version in the chain.  Returns a summary."""
    c = sqlite3.connect(str(path))
    schema = reflect(c)
    h = lambda: "%040x" % rng.getrandbits(160)  # noqa
    uid = lambda: "%08x-%04x-%04x-%04x-%012x" % (rng.getrandbits(32), rng.getrandbits(16), rng.getrandbits(16),  # noqa
                                                 rng.getrandbits(16), rng.getrandbits(48))

    def ts(allow_null=False):
        if allow_null and rng.random() < 0.3:
            return None
        base = dt.datetime(2021, rng.choice([1, 2, 7, 8]), rng.randint(3, 25), rng.randint(9, 16), rng.randint(0, 59),
                           rng.randint(0, 59))
        us = rng.choice([0, 1, 123456, 499999, 500000, 999499, 999500, 999999, rng.randrange(10 ** 6)])
        return base.replace(microsecond=us).strftime("%Y-%m-%d %H:%M:%S.%f")

    def insert(table: str, row: dict) -> None:
        """Fill every column the reflected schema has; unknown ones by declared type."""
        t = schema[table]
        full = {}
        for col in t["cols"]:
            if col in row:
                full[col] = row[col]
            elif col not in t["notnull"]:
                full[col] = None
            else:
                ty = t["types"][col]
                full[col] = (0 if "INT" in ty or "BOOL" in ty else ts() if "DATE" in ty
                             else b"x" if "BLOB" in ty else f"{col}-{rng.randrange(1000)}")
        cols = ", ".join(f'"{k}"' for k in full)
        c.execute(f'insert into "{table}" ({cols}) values ({", ".join("?" for _ in full)})', list(full.values()))

    values = [h() for _ in range(6)]
    for v in values:
        insert("value", {"value_hash": v, "type": rng.choice(["builtins.int", "builtins.str", "redun.File"]),
                         "format": "application/python-pickle", "value": bytes(rng.getrandbits(8) for _ in range(12))})
    insert("file", {"value_hash": values[0], "path": "/data/in.txt"})
    insert("subvalue", {"value_hash": values[0], "parent_value_hash": values[1]})
    tasks = [h() for _ in range(3)]
    lonely = []
    for i, t in enumerate(tasks):
        insert("task", {"hash": t, "name": f"task{i}", "namespace": "ns", "source": f"def task{i}(): pass"})
        if vidx >= 3 or i == 0:   # from 2.1 on redun always writes the companion Value
            insert("value", {"value_hash": t, "type": "redun.Task", "format": "application/python-pickle",
                             "value": b"task-pickle-%d" % i})
        else:
            lonely.append(t)
    calls = [h() for _ in range(4)]
    for i, ch in enumerate(calls):
        insert("call_node", {"call_hash": ch, "task_name": f"ns.task{i % 3}", "task_hash": tasks[i % 3], "args_hash": h(),
                             "value_hash": values[i % 6], "timestamp": ts()})
        insert("call_subtree_task", {"call_hash": ch, "task_hash": tasks[i % 3]})
    insert("call_edge", {"parent_id": calls[0], "child_id": calls[1], "call_order": 0})
    insert("call_edge", {"parent_id": calls[0], "child_id": calls[2], "call_order": 1})
    args = [h() for _ in range(3)]
    for i, a in enumerate(args):
        insert("argument", {"arg_hash": a, "call_hash": calls[i], "value_hash": values[i], "arg_position": i if i < 2 else None,
                            "arg_key": None if i < 2 else "x"})
    insert("argument_result", {"arg_hash": args[1], "result_call_hash": calls[2]})
    if "handle" in schema:
        hh = [h(), h()]
        for x in hh:
            insert("handle", {"hash": x, "fullname": "ns.H", "value_hash": values[2], "key": "conn", "is_valid": 1})
        insert("handle_edge", {"parent_id": hh[0], "child_id": hh[1]})
    if "evaluation" in schema:
        for i in range(2):
            insert("evaluation", {"eval_hash": h(), "task_hash": tasks[i], "args_hash": h(), "value_hash": values[i]})

    # job forest: 3 roots, children, a grandchild; executions for all roots from 3.0, for some before
    roots = [uid() for _ in range(3)]
    execs = {}
    need_stub = []
    for i, r in enumerate(roots):
        if vidx >= 6 or i != 1:
            execs[r] = uid()
        else:
            need_stub.append(r)
    jobs = []  # (id, parent, root)
    for r in roots:
        jobs.append((r, None, r))
    kids = []
    for r in roots[:2]:
        for _ in range(2):
            k = uid()
            kids.append(k)
            jobs.append((k, r, r))
    g = uid()
    jobs.append((g, kids[0], roots[0]))
    with_exec_col = "execution_id" in schema["job"]["cols"]
    for jid, parent, root in jobs:
        row = {"id": jid, "start_time": ts(), "end_time": ts(allow_null=True), "task_hash": rng.choice(tasks),
               "cached": rng.randint(0, 1), "call_hash": rng.choice(calls + [None]), "parent_id": parent}
        if with_exec_col:
            # 2.3 added the column as NULL and redun 2.3+ fills it; mix both where NULL is allowed
            fill = "execution_id" in schema["job"]["notnull"] or (root in execs and rng.random() < 0.5)
            row["execution_id"] = execs[root] if fill else None
        insert("job", row)
    for r, e in execs.items():
        insert("execution", {"id": e, "args": json.dumps(["redun", "run", "wf.py", "main"]), "job_id": r})
    if "tag" in schema:
        tg = [h() for _ in range(3)]
        insert("tag", {"tag_hash": tg[0], "entity_type": "Job", "entity_id": roots[0], "key": "env", "value": '"prod"', "is_current": 0})
        insert("tag", {"tag_hash": tg[1], "entity_type": "Job", "entity_id": roots[0], "key": "env", "value": '"dev"', "is_current": 1})
        insert("tag", {"tag_hash": tg[2], "entity_type": "Execution", "entity_id": list(execs.values())[0], "key": "n", "value": "3",
                       "is_current": 1})
        insert("tag_edit", {"parent_id": tg[0], "child_id": tg[1]})
    c.commit()
    bad = list(c.execute("pragma foreign_key_check"))
    c.close()
    return {"lonely_tasks": len(lonely), "roots_without_execution": len(need_stub), "jobs": len(jobs),
            "fk_violations": len(bad)}


# ------------------------------------------------------------------------------------------------
# dumps
# ------------------------------------------------------------------------------------------------
def norm_time(text: Optional[str], vidx: int, zone) -> dict:
    if text is None:
        return {"s": -1, "us": -1}
    t = dt.datetime.strptime(text, "%Y-%m-%d %H:%M:%S.%f" if "." in text else "%Y-%m-%d %H:%M:%S")
    aware = t.replace(tzinfo=zone if vidx < 10 else dt.timezone.utc)
    delta = aware.astimezone(dt.timezone.utc) - BASE
    return {"s": delta.days * 86400 + delta.seconds, "us": t.microsecond}


def dump(path: Path, vidx: int, zone) -> dict:
    c = sqlite3.connect(str(path))
    schema = reflect(c)
    out = {}
    for name, t in schema.items():
        rows = []
        for r in c.execute(f'select {", ".join(chr(34) + x + chr(34) for x in t["cols"])} from "{name}"'):
            row = {}
            for col, v in zip(t["cols"], r):
                if (name, col) in TIME_CELLS:
                    row[col] = norm_time(v, vidx, zone)
                elif v is None:
                    row[col] = "~"
                elif isinstance(v, bytes):
                    row[col] = "blob:" + hashlib.sha1(v).hexdigest()[:10]
                else:
                    row[col] = str(v)
            rows.append(row)
        out[name] = {"cols": t["cols"], "pk": t["pk"] or t["cols"], "notnull": t["notnull"], "rows": rows}
    c.close()
    return out


# ------------------------------------------------------------------------------------------------
# one case: version x zone x seed
# ------------------------------------------------------------------------------------------------
def run_case(ctx: Ctx, vidx: int, zone_name: str, seed: int, items: list, metas: list) -> dict:
    import random
    from zoneinfo import ZoneInfo

    vs = versions()
    zone = ZoneInfo(zone_name)
    rng = random.Random(seed * 1000 + vidx)
    path = ctx.tmp(f"mig_{vidx}_{zone_name.replace('/', '_')}_{seed}.db")
    for p in (path, Path(str(path) + ".direct")):
        if p.exists():
            p.unlink()
    b = open_at(path, vs[vidx - 1])
    ctx.require(b.get_db_version() == vs[vidx - 1], f"could not build schema version {vs[vidx - 1]}")
    close(b)
    summary = populate(path, rng, vidx)
    ctx.require(summary["fk_violations"] == 0, f"generated population violates foreign keys at version {vs[vidx - 1]}")
    direct = Path(str(path) + ".direct")
    shutil.copyfile(path, direct)
    first = dump(path, vidx, zone)
    case = {"vidx": vidx, "version": str(vs[vidx - 1]), "zone": zone_name, "seed": seed, **summary}

    # stepwise, with the library
    prev = first
    b = open_at(path, None)
    try:
        for k in range(vidx + 1, len(vs) + 1):
            try:
                b.migrate(vs[k - 1])
            except Exception as e:
                ctx.violation(f"upgrade {vs[k - 2]} -> {vs[k - 1]} of a populated database raised {type(e).__name__}: "
                              f"{str(e)[:300]}", {"case": case, "step": k})
                return case
            cur = dump(path, k, zone)
            items.append({"revs": [k], "before": prev, "after": cur})
            metas.append({**case, "kind": "step", "revs": [k]})
            prev = cur
    finally:
        close(b)
    # the whole remaining chain in one migrate() call, on the copy
    b = open_at(direct, None)
    try:
        b.migrate()
    except Exception as e:
        ctx.violation(f"upgrade {vs[vidx - 1]} -> latest in one call raised {type(e).__name__}: {str(e)[:300]}",
                      {"case": case})
        return case
    finally:
        close(b)
    items.append({"revs": list(range(vidx + 1, len(vs) + 1)), "before": first, "after": dump(direct, len(vs), zone)})
    metas.append({**case, "kind": "direct", "revs": list(range(vidx + 1, len(vs) + 1))})

    # loadable and usable
    use_database(ctx, path, case)
    ntables = sum(1 for t, d in first.items() if d["rows"] and t not in BOOKKEEPING)
    subsec = any(r["start_time"]["us"] > 0 for r in first["job"]["rows"])
    if ntables >= 10 and subsec:
        ctx.distinct([vidx, zone_name, seed])
    return case


_wf = {}


def use_database(ctx: Ctx, path: Path, case: dict) -> None:
    from redun import Scheduler, task
    from redun.backends.db import Execution, Job, RedunBackendDb, Tag

    from .. import simloop

    simloop.quiet_logs()
    if "f" not in _wf:
        @task(namespace="vmig", name="twice")
        def twice(x):
            return 2 * x

        _wf["f"] = twice
    try:
        b = RedunBackendDb(db_uri=f"sqlite:///{path}")
        b.load()
        s = Scheduler(backend=b)
        jobs = b.session.query(Job).all()
        seen = [(j.id, j.start_time, j.end_time, j.status, j.execution.id if j.execution else None) for j in jobs]
        ctx.require(len(seen) >= case["jobs"], "ORM does not return the migrated jobs")
        n_exec = b.session.query(Execution).count()
        _ = [(t.key, t.value, t.is_current) for t in b.session.query(Tag).all()]
        r1 = s.run(_wf["f"](21))
        r2 = s.run(_wf["f"](21))
        last = (b.session.query(Job).join(Execution, Execution.job_id == Job.id)
                .order_by(Job.start_time.desc()).first())
        ok = r1 == 42 and r2 == 42 and bool(last.cached) and b.session.query(Execution).count() == n_exec + 2
        ctx.count_eval(3)
        if not ok:
            ctx.violation(f"migrated database (from {case['version']}, TZ {case['zone']}) is not usable for caching: "
                          f"results {r1}, {r2}, second run cached={last.cached}", {"case": case})
        close(b)
    except Exception as e:
        from ..core import MachineryError

        if isinstance(e, MachineryError):
            raise
        ctx.violation(f"migrated database (from {case['version']}, TZ {case['zone']}) is not accepted by the library: "
                      f"{type(e).__name__}: {str(e)[:300]}", {"case": case})


# ------------------------------------------------------------------------------------------------
def mc_cfg(dev: bool, offset: int, invs: list[str]) -> str:
    return ("SPECIFICATION Spec\nCONSTANTS\n Deviations = " + ('{"SubsecondLost"}' if dev else "{}")
            + f"\n Offset = {offset}\n" + "".join(f"INVARIANT {i}\n" for i in invs) + "CHECK_DEADLOCK FALSE\n")


ALL_INVS = ["SchemaOK", "RowsPreserved", "RowsPreservedUpToSecond", "OnlyContractRows", "Loadable", "ExecutionOfRoot"]


def model_check(ctx: Ctx) -> None:
    jobs = [("contract", mc_cfg(False, 8, ALL_INVS), None),
            ("asbuilt", mc_cfg(True, 8, [i for i in ALL_INVS if i != "RowsPreserved"]), None),
            ("control", mc_cfg(True, 0, ["RowsPreserved"]), "RowsPreserved")]

    def one(job):
        return run_tlc("seq/Migrations.tla", job[1], ctx.scratch / f"mc_{job[0]}", workers=2, deadlock=False, timeout=900)

    with ThreadPoolExecutor(max_workers=3) as ex:
        results = list(ex.map(one, jobs))
    for (name, _, inv), res in zip(jobs, results):
        if inv is None:
            expect_clean(res, f"Migrations.tla {name}")
        else:
            expect_violation(res, inv, "Migrations.tla: SubsecondLost must break RowsPreserved (even with offset 0)")
        ctx.add_tlc(res)


def validate(ctx: Ctx, items: list, what: str) -> dict[int, dict]:
    f = ctx.tmp(f"migrations_{what}.json")
    f.write_text(json.dumps(items))
    cfg = "SPECIFICATION TSpec\nCONSTANTS\n Deviations = {}\n Offset = 0\nCHECK_DEADLOCK FALSE\n"
    res = run_tlc("seq/Migrations_Trace.tla", cfg, ctx.scratch, workers=1, env={"TRACE_FILE": str(f)},
                  deadlock=False, timeout=1500, heap="6g")
    ctx.require(res.error is None and not res.violated,
                f"TLC failed on migration validation ({what}): {res.error} {res.violated}\n{res.out[-2500:]}")
    ctx.add_tlc(res)
    v = {i: d for i, d in res.recs("VERDICT")}
    ctx.require(len(v) == len(items), f"verdicts {len(v)} != items {len(items)}")
    return v


CONTRACT_BITS = {
    "schema": "tables / columns after the upgrade are not the ones the revision contracts give",
    "kept": "a row that existed before the upgrade has no (or more than one) row with its primary key afterwards",
    "cells": "a column both schemas share changed its value",
    "execid": "job.execution_id is not the execution of the job's root ancestor after revision cd2d53191748",
    "newcols": "a column added by the upgrade is not NULL on existing rows",
    "newrows": "rows appeared that no revision contract creates (or contract-created rows are missing)",
    "notnull": "a NOT NULL column holds NULL after the upgrade",
}


def judge(ctx: Ctx, v: dict, meta: dict, stats: dict) -> None:
    ctx.count_impl_trace()
    ctx.count_eval(9)
    head = f"from {meta['version']} (TZ {meta['zone']}, seed {meta['seed']}), {meta['kind']} upgrade revs {meta['revs']}: "
    for bit, text in CONTRACT_BITS.items():
        if not v[bit]:
            ctx.violation(head + text, {"case": meta, "verdict": v})
    if not v["times"]:
        if 10 in meta["revs"] and v["times_asbuilt"]:
            stats["subsecond_lost"] += 1
            if not stats.get("_reported"):
                stats["_reported"] = True
                ctx.violation(head + "job.start_time / end_time denote the same instant only up to a second after "
                              "revision 3b0a6e67cc58: SQLite datetime(x, 'utc') drops the microseconds "
                              "(fractions >= .9995 move to the next second)", {"case": meta, "verdict": v}, key=KEY_SUBSEC)
        else:
            ctx.violation(head + "a job time does not denote the same instant after the upgrade",
                          {"case": meta, "verdict": v})


def run(ctx: Ctx) -> None:
    ctx.assume("SQLite branch of every revision", "populations satisfy the foreign keys of their schema version",
               "before revision 3b0a6e67cc58 stored job times are local wall-clock times of the process time zone")
    vs = versions()
    ctx.require([v.migration_id for v in vs] == EXPECTED_CHAIN,
                f"the revision chain changed: {[v.migration_id for v in vs]} (Migrations.tla models {EXPECTED_CHAIN})")
    stats = {"subsecond_lost": 0}
    old_tz = os.environ.get("TZ")
    items: list = []
    metas: list = []
    cases = []
    try:
        with ThreadPoolExecutor(max_workers=1) as bg:
            fut = bg.submit(model_check, ctx)
            zones = [("America/Los_Angeles", 8.0), ("UTC", 0.0)] + ([] if ctx.quick else [("Asia/Kolkata", -5.5)])
            for zi, (zname, hours) in enumerate(zones):
                set_tz(zname)
                probe_tz(ctx, zname, hours)
                starts = list(range(1, len(vs)))
                if ctx.quick and zi > 0:
                    starts = [1, 9]
                for vidx in starts:
                    for seed in range(ctx.pick(1, 3)):
                        cases.append(run_case(ctx, vidx, zname, ctx.seed * 10 + seed, items, metas))
            fut.result()
    finally:
        if old_tz is None:
            os.environ.pop("TZ", None)
        else:
            os.environ["TZ"] = old_tz
        time.tzset()
    ctx.note("cases", {"n": len(cases), "upgrades_validated": len(items), "zones": sorted({c["zone"] for c in cases}),
                       "start_versions": sorted({c["version"] for c in cases})})

    # negative control: one changed cell in an after-dump
    base = next(i for i, it in enumerate(items) if it["after"]["value"]["rows"])
    bad = copy.deepcopy(items[base])
    bad["after"]["value"]["rows"][0]["type"] = "corrupted"
    items.append(bad)
    verdicts = validate(ctx, items, "all")
    ctx.negative_control(verdicts[len(items)]["cells"] == 0 and verdicts[base + 1]["cells"] == 1,
                         "an after-dump with one changed value.type cell must fail the shared-column clause")
    for i, m in enumerate(metas, 1):
        judge(ctx, verdicts[i], m, stats)
    k = next((i for i, m in enumerate(metas, 1) if m["revs"] == [10]), None)
    if k:
        jb = items[k - 1]["before"]["job"]["rows"][0]
        ja = next(r for r in items[k - 1]["after"]["job"]["rows"] if r["id"] == jb["id"])
        ctx.sample({"case": metas[k - 1], "job_start_before": jb["start_time"], "job_start_after": ja["start_time"],
                    "verdict": verdicts[k]})
    ctx.sample({"case": metas[0], "verdict": verdicts[1]})
    stats.pop("_reported", None)
    ctx.note("stats", stats)


def replay(ctx: Ctx, rec: dict) -> None:
    c = rec["replay"]["case"]
    hours = {"America/Los_Angeles": 8.0, "UTC": 0.0, "Asia/Kolkata": -5.5}[c["zone"]]
    old = os.environ.get("TZ")
    try:
        set_tz(c["zone"])
        probe_tz(ctx, c["zone"], hours)
        items, metas = [], []
        run_case(ctx, c["vidx"], c["zone"], c["seed"], items, metas)
    finally:
        if old is None:
            os.environ.pop("TZ", None)
        else:
            os.environ["TZ"] = old
        time.tzset()
    v = validate(ctx, items, "replay")
    st = {"subsecond_lost": 0}
    for i, m in enumerate(metas, 1):
        judge(ctx, v[i], m, st)
